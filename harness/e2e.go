package main

// C02 / C03 — end to end: a real varlink.Connection talks to a real varlink.Service over a filesystem
// unix socket, an abstract unix socket, TCP loopback (each through a recording proxy that captures the
// raw bytes of both directions) or a bridge subprocess. Call parameters are generated JSON objects;
// the handler records what GetParameters hands it and answers as scripted inside the parameters
// (single replies, more-sequences of 0-50 replies, error replies).

import (
	"context"
	"encoding/json"
	"fmt"
	"io"
	"net"
	"os"
	"path/filepath"
	"strings"
	"sync"
	"time"

	"github.com/varlink/go/varlink"
)

type e2eIface struct {
	mu   sync.Mutex
	seen []string // raw parameters read by the handler, per invocation ("\x00absent" if GetParameters failed)
	log  *dispatchLog
}

func (s *e2eIface) VarlinkGetName() string { return "org.example.e2e" }
func (s *e2eIface) VarlinkGetDescription() string {
	return "interface org.example.e2e\nmethod M() -> ()\n"
}
func (s *e2eIface) VarlinkDispatch(ctx context.Context, c varlink.Call, method string) error {
	if method == "Slow" {
		time.Sleep(350 * time.Millisecond) // the reply arrives after an earlier call's deadline would have expired
	}
	var raw json.RawMessage
	rec := "\x00absent"
	if err := c.GetParameters(&raw); err == nil {
		rec = string(raw)
	}
	s.mu.Lock()
	s.seen = append(s.seen, rec)
	s.mu.Unlock()
	inner := &scriptedIface{name: "org.example.e2e", log: s.log, defaultID: "e2e"}
	return inner.VarlinkDispatch(ctx, c, method)
}

// proxy copies both directions and records them.
type capture struct {
	mu       sync.Mutex
	c2s, s2c []byte
}

func startProxy(network, listenAddr, target string, cap *capture) (net.Listener, error) {
	l, err := net.Listen(network, listenAddr)
	if err != nil {
		return nil, err
	}
	go func() {
		for {
			c, err := l.Accept()
			if err != nil {
				return
			}
			s, err := net.Dial(network, target)
			if err != nil {
				c.Close()
				continue
			}
			pipe := func(dst, src net.Conn, buf *[]byte) {
				b := make([]byte, 32*1024)
				for {
					n, err := src.Read(b)
					if n > 0 {
						cap.mu.Lock()
						*buf = append(*buf, b[:n]...)
						cap.mu.Unlock()
						dst.Write(b[:n])
					}
					if err != nil {
						dst.Close()
						return
					}
				}
			}
			go pipe(s, c, &cap.c2s)
			go pipe(c, s, &cap.s2c)
		}
	}()
	return l, nil
}

func bridgeChild(target string) {
	parts := strings.SplitN(target, ":", 2)
	c, err := net.Dial(parts[0], parts[1])
	if err != nil {
		os.Exit(3)
	}
	go func() { io.Copy(c, os.Stdin); c.(*net.UnixConn).CloseWrite() }()
	io.Copy(os.Stdout, c)
}

type e2eCall struct {
	method string
	flags  uint64
	params string // "" = nil parameters
}

func (g *Rng) e2eParams(id string, more bool) string {
	var acts []string
	p := func() string {
		if g.Chance(1, 12) {
			return g.jsonValue(2)
		}
		return g.jsonObject(2)
	}
	switch g.Intn(8) {
	case 0: // error reply, with or without parameters
		if g.Chance(1, 3) {
			acts = append(acts, `["e",`+g.jsonString(g.Pick(ifaceNamePool)+".Err")+`]`)
		} else {
			acts = append(acts, `["e",`+g.jsonString(g.Pick(ifaceNamePool)+".Err")+`,`+g.jsonObject(2)+`]`)
		}
	case 1:
		acts = append(acts, `["s",`+g.jsonString(g.Pick([]string{"i", "m", "n", "p"}))+`,`+g.jsonString(g.randStringValid())+`]`)
	case 2:
		acts = append(acts, `["r"]`)
	default:
		if more {
			k := g.Intn(6)
			if g.Chance(1, 8) {
				k = 6 + g.Intn(45)
			}
			if k > 0 {
				acts = append(acts, `["c",true]`)
			}
			for i := 0; i < k; i++ {
				acts = append(acts, `["r",`+p()+`]`)
			}
			acts = append(acts, `["c",false]`)
		}
		acts = append(acts, `["r",`+p()+`]`)
	}
	payload := g.jsonObject(3)
	if g.Chance(1, 25) {
		payload = `{"big":` + g.bigString(5000+g.Intn(200000)) + `}`
	}
	members := []string{`"id":` + g.jsonString(id), `"acts":[` + strings.Join(acts, ",") + `]`, `"payload":` + payload}
	if g.Chance(1, 4) {
		members = append(members, `"n":`+g.Pick([]string{"12345678901234567890123", "-0", "1e400", "0.10", "1E+2", "9007199254740993", "null"}))
	}
	if g.Chance(1, 5) {
		for i := len(members) - 1; i > 0; i-- {
			j := g.Intn(i + 1)
			members[i], members[j] = members[j], members[i]
		}
	}
	return "{" + strings.Join(members, ","+g.ws()) + "}"
}

// bracePad: n bytes of string content in which structural-looking characters ({ } [ ] : ,) occur all along, so that a
// transport or reader that treats some byte specially anywhere in a long message shows
func bracePad(n int) string {
	if n <= 0 {
		return ""
	}
	return strings.Repeat("a{b}c[d]e:f,", n/12+1)[:n]
}

func init() {
	commands["bridgechild"] = func(e *env) error { return nil } // handled in main()
	commands["e2e"] = func(e *env) error {
		work := os.Getenv("VERIF_WORK")
		if work == "" {
			work = os.TempDir()
		}
		base := filepath.Join(work, fmt.Sprintf("e2e-%d", os.Getpid()))
		os.MkdirAll(base, 0o755)
		defer os.RemoveAll(base)
		exe, _ := os.Executable()
		slow := 0
		return e.each(func(i int, g *Rng) error {
			if slow >= 3 {
				return nil // three cases already ran into timeouts: enough to report, the rest would take minutes
			}
			t0 := time.Now()
			defer func() {
				if time.Since(t0) > 5*time.Second {
					slow++
				}
			}()
			ctx := context.Background()
			transport := []string{"unixfs", "abstract", "tcp", "bridge"}[i%4]
			log := newDispatchLog()
			log.single = "e2e"
			iface := &e2eIface{log: log}
			svc, err := varlink.NewService("e2e", "p", "1", "u")
			if err != nil {
				return err
			}
			if err := svc.RegisterInterface(iface); err != nil {
				return err
			}
			var svcAddr, cliAddr, network, target, plisten string
			uniq := fmt.Sprintf("%d-%d-%d", os.Getpid(), e.seed, i)
			switch transport {
			case "unixfs":
				network = "unix"
				target = filepath.Join(base, uniq+".s")
				plisten = filepath.Join(base, uniq+".p")
				svcAddr, cliAddr = "unix:"+target, "unix:"+plisten+";tail"
			case "abstract", "bridge":
				network = "unix"
				target = "@verif-e2e-s-" + uniq
				plisten = "@verif-e2e-p-" + uniq
				svcAddr, cliAddr = "unix:"+target, "unix:"+plisten
			case "tcp":
				network = "tcp"
				target = fmt.Sprintf("127.0.0.1:%d", freePort())
				plisten = fmt.Sprintf("127.0.0.1:%d", freePort())
				svcAddr, cliAddr = "tcp:"+target, "tcp:"+plisten
			}
			done := make(chan error, 1)
			go func() { done <- svc.Listen(ctx, svcAddr, 0) }()
			for t := 0; t < 3000; t++ {
				if running, _, _, _ := svc.VerifState(); running {
					break
				}
				time.Sleep(time.Millisecond)
			}
			cap := &capture{}
			var conn *varlink.Connection
			var pl net.Listener
			if transport == "bridge" {
				conn, err = varlink.NewBridgeWithStderr(exe+" bridgechild "+svcAddr, io.Discard)
			} else {
				pl, err = startProxy(network, plisten, target, cap)
				if err != nil {
					return err
				}
				conn, err = varlink.NewConnection(ctx, cliAddr)
			}
			if err != nil {
				return err
			}
			ncalls := 1 + g.Intn(3)
			deadlineThenSlow := g.Chance(1, 25)
			if deadlineThenSlow && ncalls < 2 {
				ncalls = 2
			}
			l := &Line{}
			l.S("e2e").S(transport).N(ncalls)
			type callObs struct {
				sendOK bool
				res    []recvObs
			}
			var calls []e2eCall
			var obs []callObs
			cctx, cancel := context.WithTimeout(ctx, 8*time.Second)
			// pattern "deadline, then none": the first call runs under a context with a short deadline and is
			// answered at once; the second runs under a context WITHOUT deadline and is answered only after that
			// deadline has passed — nothing of the first call's deadline may survive on the connection
			for k := 0; k < ncalls; k++ {
				c := e2eCall{method: "org.example.e2e.M"}
				if deadlineThenSlow && k == 1 {
					c.method = "org.example.e2e.Slow"
				}
				if !deadlineThenSlow {
					switch g.Intn(10) {
					case 0:
						c.method = "org.varlink.service.GetInfo"
					case 1:
						c.method = "org.example.none.M"
					}
				}
				more := g.Chance(1, 2)
				if more {
					c.flags |= varlink.More
				}
				oneway := !more && g.Chance(1, 8)
				if oneway {
					c.flags |= varlink.Oneway
				}
				var params interface{}
				if g.Chance(1, 8) {
					// a call frame, or a reply frame, whose wire length (with the NUL) is at or next to a
					// multiple of the reader's 4096-byte buffer
					want := g.Pick3(4096, 8192, 12288) + g.Pick3(-1, 0, 1)
					flagTxt := ""
					if more {
						flagTxt = `,"more":true`
					}
					if oneway {
						flagTxt = `,"oneway":true`
					}
					if g.Bool() {
						head := `{"id":"e2e","acts":[["r",{}]],"pad":"`
						frame := len(`{"method":"`) + len(c.method) + len(`","parameters":`) + len(head) + len(`"}`) + len(flagTxt) + len(`}`) + 1
						c.params = head + bracePad(want-frame) + `"}`
					} else {
						replyFrame := len(`{"parameters":{"pad":"`) + len(`"}}`) + 1
						c.params = `{"id":"e2e","acts":[["r",{"pad":"` + bracePad(want-replyFrame) + `"}]]}`
					}
					params = json.RawMessage(c.params)
				} else if !g.Chance(1, 15) {
					c.params = g.e2eParams("e2e", more)
					params = json.RawMessage(c.params)
				} else {
					// no parameters, hence no script: only the built-in method answers by itself
					c.method = "org.varlink.service.GetInfo"
				}
				calls = append(calls, c)
				o := callObs{}
				callCtx := cctx
				var cancelCall context.CancelFunc = func() {}
				if deadlineThenSlow && k == 0 {
					callCtx, cancelCall = context.WithTimeout(ctx, 200*time.Millisecond)
				}
				if deadlineThenSlow && k == 1 {
					callCtx = ctx // no deadline at all
				}
				if c.flags == 0 && !deadlineThenSlow && g.Chance(1, 3) {
					// (Call hands Send a pointer to its parameters argument, so a nil argument goes out as
					// "parameters":null instead of being omitted — the model's `callWrapper`; bit 16 of the flags
					// field tells the driver which wire form to expect)
					calls[len(calls)-1].flags |= 16
					// the convenience wrapper Connection.Call, with and without a place for the reply: an error reply
					// must come back as that error either way
					var out json.RawMessage
					var err error
					nilOut := g.Bool()
					if nilOut {
						err = conn.Call(callCtx, c.method, params, nil)
					} else {
						err = conn.Call(callCtx, c.method, params, &out)
					}
					o.sendOK = true
					r := classifyRecv(0, err, out)
					if nilOut && r.kind == "reply" {
						r.kind = "reply-nilout"
					}
					o.res = append(o.res, r)
					cancelCall()
					obs = append(obs, o)
					continue
				}
				receive, err := conn.Send(callCtx, c.method, params, c.flags)
				o.sendOK = err == nil
				if err == nil && !oneway {
					for {
						var out json.RawMessage
						fl, err := receive(callCtx, &out)
						r := classifyRecv(fl, err, out)
						o.res = append(o.res, r)
						if r.kind != "reply" || fl&varlink.Continues == 0 || len(o.res) > 200 {
							break
						}
					}
				}
				cancelCall()
				obs = append(obs, o)
			}
			cancel()
			// a oneway call has no reply: make sure the service has processed everything before closing
			{
				var v string
				sctx, c2 := context.WithTimeout(ctx, 10*time.Second)
				conn.GetInfo(sctx, &v, nil, nil, nil, nil)
				c2()
			}
			conn.Close()
			svc.Shutdown()
			select {
			case <-done:
			case <-time.After(10 * time.Second):
			}
			if pl != nil {
				pl.Close()
				if network == "unix" && !strings.HasPrefix(plisten, "@") {
					os.Remove(plisten)
				}
			}
			for _, c := range calls {
				l.Str(c.method).N(int(c.flags)).Bool(c.params != "").Str(c.params)
			}
			l.S("|")
			iface.mu.Lock()
			seen := append([]string{}, iface.seen...)
			iface.mu.Unlock()
			l.N(len(seen))
			for _, s := range seen {
				l.Str(s)
			}
			for _, o := range obs {
				l.Bool(o.sendOK).N(len(o.res))
				for _, r := range o.res {
					l.S(r.kind).N(int(r.flags)).Str(r.params).Str(r.name)
				}
			}
			cap.mu.Lock()
			l.Bool(transport != "bridge").B(cap.c2s).B(cap.s2c)
			cap.mu.Unlock()
			fmt.Fprintln(e.out, l.String())
			return nil
		})
	}
}
