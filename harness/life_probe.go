package main

// Overlapping API calls at start-up (stream of C14, real scheduler).
//   vh lifeprobe -n <trials>
// Each trial starts DoListen on a controlled listener and, concurrently, a Bind on another address; it reports how
// often the Bind slipped between DoListen's read of the listener and its `running = true` (the Bind is not refused,
// DoListen serves the old listener, Shutdown closes only the new one and DoListen does not return). Since fix
// a1069ea both are single critical sections and this must never happen: the Bind is refused or comes first.

import (
	"context"
	"fmt"
	"os"
	"os/exec"
	"strconv"
	"time"

	"github.com/varlink/go/varlink"
)

func init() {
	commands["lifeprobe"] = func(e *env) error {
		// isolated in a child process: whatever a trial leaves behind cannot disturb the rest of the run
		if os.Getenv("VERIF_LIFE_CHILD") == "" {
			cmd := exec.Command(os.Args[0], "lifeprobe", "-n", strconv.Itoa(e.n), "-seed", strconv.FormatUint(e.seed, 10))
			cmd.Env = append(os.Environ(), "VERIF_LIFE_CHILD=probe")
			cmd.Stderr = os.Stderr
			out, err := cmd.Output()
			if err != nil {
				return err
			}
			_, err = e.out.Write(out)
			return err
		}
		hits, refused, early := 0, 0, 0
		stuck := 0
		for t := 0; t < e.n; t++ {
			svc, err := varlink.NewService("v", "p", "1", "u")
			if err != nil {
				return err
			}
			h := &lifeCase{svc: svc, id: fmt.Sprintf("p%d", t), quietWait: 2 * time.Second}
			ctl0 := newCtlListener(h)
			svc.VerifSetListener(ctl0)
			start := make(chan struct{})
			done := make(chan error, 1)
			bound := make(chan error, 1)
			go func() { <-start; done <- svc.DoListen(context.Background(), 0) }()
			go func() { <-start; bound <- svc.Bind(context.Background(), h.freshAddr()) }()
			close(start)
			berr := <-bound
			h.waitQuiet()
			field, _ := svc.GetListener()
			ctl0.mu.Lock()
			blocked0 := ctl0.blocked
			ctl0.mu.Unlock()
			switch {
			case berr != nil:
				refused++
			case field != nil && field != ctl0 && blocked0 > 0:
				hits++
				svc.Shutdown()
				h.waitQuiet()
				select {
				case <-done:
				default:
					stuck++ // Shutdown did not end the serving call
				}
			default:
				early++
			}
			// clean up whatever is left
			svc.Shutdown()
			ctl0.Close()
			if field != nil {
				field.Close()
			}
			h.quietWait = 200 * time.Millisecond
			h.waitQuiet()
		}
		// line for the Lean driver: lifeover <trials> <bind refused> <bind before DoListen read the listener> <window hits> <serving did not end>
		fmt.Fprintf(e.out, "lifeover %d %d %d %d %d\n", e.n, refused, early, hits, stuck)
		return nil
	}
}
