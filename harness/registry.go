package main

// C13 — introspection: operation histories on a real Service (register / duplicate / listen /
// register while listening / connections / shutdown / register again) and what the client helpers
// (Connection.GetInfo, Connection.GetInterfaceDescription, Resolver.GetInfo) read back over a socket.

import (
	"context"
	"encoding/json"
	"fmt"
	"strings"
	"time"

	"github.com/varlink/go/varlink"
)

// plainIface: a dispatcher with fixed name/description that answers nothing by itself.
type plainIface struct {
	name, desc string
	// resolver role: reply to GetInfo / Resolve with these JSON texts
	infoJSON string
	// run once, concurrently, while RegisterInterface fetches the description
	during func()
}

func (p *plainIface) VarlinkGetName() string { return p.name }
func (p *plainIface) VarlinkGetDescription() string {
	if p.during != nil {
		// RegisterInterface is asking for the description: let a competing operation run right now, and give it a
		// moment — with the registration being one critical section it can only get in afterwards
		f := p.during
		p.during = nil
		done := make(chan struct{})
		go func() { f(); close(done) }()
		select {
		case <-done:
		case <-time.After(30 * time.Millisecond):
		}
	}
	return p.desc
}
func (p *plainIface) VarlinkDispatch(ctx context.Context, c varlink.Call, method string) error {
	switch method {
	case "GetInfo":
		if p.infoJSON != "" {
			return c.Reply(ctx, json.RawMessage(p.infoJSON))
		}
	case "Resolve":
		return c.Reply(ctx, json.RawMessage(`{"address":"unix:@resolved"}`))
	}
	return c.ReplyMethodNotImplemented(ctx, method)
}

var regNamePool = []string{"org.example.a", "org.example.b", "org.example", "a.b", "com.example.更新", "org.varlink.service", "x.y-z.w", "", "org.example.A"}

func classifyRegErr(err error) string {
	if err == nil {
		return "ok"
	}
	m := err.Error()
	switch {
	case strings.HasSuffix(m, "already registered"):
		return "dup"
	case m == "service is already running":
		return "running"
	}
	return "other"
}

type regRun struct {
	svc     *varlink.Service
	addr    string
	serving bool // a DoListen call is in progress (possibly draining)
	running bool // between listenStarts and shutdown
	done    chan error
	conns   []*varlink.Connection
	// the white-box counter did not reach an expected value once: no longer used for synchronisation
	counterOff bool
}

// waitCounter waits until the service's white-box connection counter has the expected value. If it never gets
// there the accounting of the implementation is off: the history goes on nevertheless (with short pauses instead of
// this synchronisation), so that what the wrong count leads to — e.g. a registration accepted while a connection is
// still open — shows up in the observations and the case can be replayed.
func (r *regRun) waitCounter(want int64) bool {
	if r.counterOff {
		time.Sleep(30 * time.Millisecond)
		return true
	}
	for t := 0; t < 3000; t++ {
		if r.svc.VerifConnCounter() == want {
			return true
		}
		time.Sleep(time.Millisecond)
	}
	r.counterOff = true
	return true
}

func (r *regRun) startListening(ctx context.Context) error {
	if err := r.svc.Bind(ctx, r.addr); err != nil {
		return err
	}
	r.done = make(chan error, 1)
	go func(d chan error) { d <- r.svc.DoListen(ctx, 0) }(r.done)
	for t := 0; t < 3000; t++ {
		if running, _, _, _ := r.svc.VerifState(); running {
			r.serving, r.running = true, true
			return nil
		}
		time.Sleep(time.Millisecond)
	}
	return fmt.Errorf("service did not start")
}

func (r *regRun) reapIfDrained() {
	if r.serving && !r.running && len(r.conns) == 0 {
		select {
		case <-r.done:
		case <-time.After(5 * time.Second):
		}
		r.serving = false
	}
}

func (g *Rng) infoJSONFor(vendor, product, version, url string, names []string) string {
	key := func(k string) string {
		switch g.Intn(4) {
		case 0:
			return strings.ToUpper(k)
		case 1:
			return strings.ToUpper(k[:1]) + k[1:]
		}
		return k
	}
	nb, _ := json.Marshal(names)
	parts := []string{}
	add := func(k, v string) {
		if v == "" && g.Bool() {
			return
		}
		parts = append(parts, g.jsonString(key(k))+":"+g.jsonString(v))
	}
	add("vendor", vendor)
	add("product", product)
	add("version", version)
	add("url", url)
	parts = append(parts, g.jsonString(key("interfaces"))+":"+string(nb))
	if g.Chance(1, 4) {
		parts = append(parts, `"extra":[1,2]`)
	}
	if g.Chance(1, 6) { // duplicate member: the last one wins
		parts = append([]string{`"vendor":"overridden"`}, parts...)
	}
	return "{" + strings.Join(parts, ",") + "}"
}

func init() {
	commands["reg"] = func(e *env) error {
		return e.each(func(i int, g *Rng) error {
			ctx := context.Background()
			vendor, product, version, url := g.randStringValid(), g.randStringValid(), g.randStringValid(), g.randStringValid()
			// empty identity strings are omitted from the GetInfo reply: the client must still report them as empty
			for _, f := range []*string{&vendor, &product, &version, &url} {
				if g.Chance(1, 4) {
					*f = ""
				}
			}
			// the caller's result variables are reused across all GetInfo calls of the case and start out holding
			// other values; every result is kept (strings by value, the interface list as the slice returned) and
			// written to the line only at the end, so a later call that writes into an earlier result shows
			pv, pp, pver, pu := "stale-vendor", "stale-product", "stale-version", "stale-url"
			pifs := append(make([]string, 0, 32), "stale.a", "stale.b", "stale.c")
			type infoSnap struct {
				ok           bool
				v, p, ver, u string
				ifs          []string
			}
			var snaps []*infoSnap
			svc, err := varlink.NewService(vendor, product, version, url)
			if err != nil {
				return err
			}
			r := &regRun{svc: svc, addr: fmt.Sprintf("unix:@verif-reg-%d-%d-%d", e.seed, i, time.Now().UnixNano()%1000000)}
			l := &Line{}
			l.S("reg").Str(vendor).Str(product).Str(version).Str(url)
			type opRec struct {
				kind, name, desc, res string
			}
			var ops []opRec
			var accepted []string
			nops := 1 + g.Intn(10)
			for k := 0; k < nops; k++ {
				switch c := g.Intn(10); {
				case c < 5: // register
					name := g.Pick(regNamePool)
					if g.Chance(1, 5) {
						name = "gen." + g.randStringValid()
					}
					desc := "interface " + name + "\n# " + g.randStringValid() + "\nmethod M() -> ()\n"
					if g.Chance(1, 6) {
						desc = g.randStringValid()
					}
					pi := &plainIface{name: name, desc: desc}
					var inner chan string
					desc2 := desc + "# competing registration\n"
					if g.Chance(1, 4) {
						// a second registration of the same name starts while the first one is in progress: exactly one
						// of them may be accepted (in the model: two registrations one after the other)
						inner = make(chan string, 1)
						pi.during = func() {
							inner <- classifyRegErr(svc.RegisterInterface(&plainIface{name: name, desc: desc2}))
						}
					}
					res := classifyRegErr(svc.RegisterInterface(pi))
					if res == "ok" {
						accepted = append(accepted, name)
					}
					ops = append(ops, opRec{"register", name, desc, res})
					if inner != nil && pi.during != nil {
						// refused before the description was asked for: the competing registration never started
						inner = nil
					}
					if inner != nil {
						select {
						case r2 := <-inner:
							if r2 == "ok" {
								accepted = append(accepted, name)
							}
							ops = append(ops, opRec{"register", name, desc2, r2})
						case <-time.After(5 * time.Second):
							ops = append(ops, opRec{"register", name, desc2, "hang"})
						}
					}
				case c == 5 && r.running: // query in the middle of the history (over a fresh connection)
					conn, err := varlink.NewConnection(ctx, r.addr)
					if err != nil {
						// the service is supposed to be serving: not reachable is an observation of this history
						snaps = append(snaps, &infoSnap{ok: false})
						ops = append(ops, opRec{kind: "info", res: fmt.Sprintf("@snap%d", len(snaps)-1)})
						continue
					}
					qctx, cancel := context.WithTimeout(ctx, 10*time.Second)
					if g.Bool() {
						e := conn.GetInfo(qctx, &pv, &pp, &pver, &pu, &pifs)
						snaps = append(snaps, &infoSnap{e == nil, pv, pp, pver, pu, pifs})
						ops = append(ops, opRec{kind: "info", res: fmt.Sprintf("@snap%d", len(snaps)-1)})
					} else {
						name := g.Pick(regNamePool)
						d, e := conn.GetInterfaceDescription(qctx, name)
						q := &Line{}
						switch er := e.(type) {
						case nil:
							q.S("desc").Str(d)
						case *varlink.InvalidParameter:
							q.S("invalid").Str(er.Parameter)
						default:
							q.S("err").Str(fmt.Sprintf("%T", e))
						}
						ops = append(ops, opRec{kind: "desc", name: name, res: q.String()})
					}
					cancel()
					conn.Close()
					if !r.waitCounter(int64(len(r.conns))) {
						return fmt.Errorf("query connection not released")
					}
				case c == 5 || c == 6: // listen
					if !r.serving {
						if err := r.startListening(ctx); err != nil {
							return err
						}
						ops = append(ops, opRec{kind: "listen"})
					}
				case c == 9 && r.running && g.Bool(): // a second Bind while serving: refused, and nothing changes
					if err := svc.Bind(ctx, r.addr); err == nil {
						ops = append(ops, opRec{kind: "rebindaccepted"})
					} else {
						ops = append(ops, opRec{kind: "rebind"})
					}
				case c == 7: // connection opens
					if r.running {
						conn, err := varlink.NewConnection(ctx, r.addr)
						if err != nil {
							ops = append(ops, opRec{kind: "openfailed"})
							continue
						}
						if !r.waitCounter(int64(len(r.conns) + 1)) {
							return fmt.Errorf("connection not counted")
						}
						r.conns = append(r.conns, conn)
						ops = append(ops, opRec{kind: "open"})
					}
				case c == 8: // connection closes
					if len(r.conns) > 0 {
						r.conns[len(r.conns)-1].Close()
						r.conns = r.conns[:len(r.conns)-1]
						if !r.waitCounter(int64(len(r.conns))) {
							return fmt.Errorf("connection close not counted")
						}
						ops = append(ops, opRec{kind: "close"})
						r.reapIfDrained()
					}
				default: // shutdown
					if r.running {
						svc.Shutdown()
						r.running = false
						ops = append(ops, opRec{kind: "shutdown"})
						r.reapIfDrained()
					}
				}
			}
			// settle: close connections, stop (all recorded as operations of the history)
			for len(r.conns) > 0 {
				r.conns[len(r.conns)-1].Close()
				r.conns = r.conns[:len(r.conns)-1]
				if !r.waitCounter(int64(len(r.conns))) {
					return fmt.Errorf("connection close not counted")
				}
				ops = append(ops, opRec{kind: "close"})
			}
			if r.running {
				svc.Shutdown()
				r.running = false
				ops = append(ops, opRec{kind: "shutdown"})
			}
			r.reapIfDrained()
			// resolver role, registered last: answers GetInfo with a JSON text of the service's own
			// identity in varying key capitalisation
			infoJSON := g.infoJSONFor(vendor, product, version, url, append([]string{"org.varlink.service"}, accepted...))
			rdesc := "interface org.varlink.resolver\nmethod GetInfo() -> ()\n"
			rres := classifyRegErr(svc.RegisterInterface(&plainIface{name: "org.varlink.resolver", desc: rdesc, infoJSON: infoJSON}))
			resolverOK := rres == "ok"
			ops = append(ops, opRec{"register", "org.varlink.resolver", rdesc, rres})
			l.N(len(ops))
			for _, o := range ops {
				l.S(o.kind)
				if o.kind == "register" {
					l.Str(o.name).Str(o.desc)
				}
				if o.kind == "desc" {
					l.Str(o.name)
				}
			}
			if err := r.startListening(ctx); err != nil {
				return err
			}
			conn, err := varlink.NewConnection(ctx, r.addr)
			if err != nil {
				return err
			}
			qctx, cancel := context.WithTimeout(ctx, 10*time.Second)
			defer cancel()
			infoErr := conn.GetInfo(qctx, &pv, &pp, &pver, &pu, &pifs)
			gv, gp, gver, gu, gi := pv, pp, pver, pu, pifs
			// the results of the queries in the middle of the history, as they read NOW
			for k := range ops {
				if ops[k].kind == "info" {
					var idx int
					fmt.Sscanf(ops[k].res, "@snap%d", &idx)
					sn := snaps[idx]
					q := &Line{}
					q.Bool(sn.ok).Str(sn.v).Str(sn.p).Str(sn.ver).Str(sn.u).N(len(sn.ifs))
					for _, n := range sn.ifs {
						q.Str(n)
					}
					ops[k].res = q.String()
				}
			}
			// names to ask for: everything in the pool, everything that was tried, a few others
			asked := append([]string{}, regNamePool...)
			for _, o := range ops {
				if o.kind == "register" {
					asked = append(asked, o.name)
				}
			}
			asked = append(asked, "org.varlink.servic", "nope.nope")
			l.S("|")
			counterSlot := len(l.toks) // filled in at the end: was the white-box counter ever off
			l.Bool(false)
			for _, o := range ops {
				if o.kind == "register" || o.kind == "info" || o.kind == "desc" {
					l.S(o.res) // for queries: several tokens
				}
			}
			l.Bool(infoErr == nil).Str(gv).Str(gp).Str(gver).Str(gu).N(len(gi))
			for _, n := range gi {
				l.Str(n)
			}
			l.N(len(asked))
			for _, n := range asked {
				d, err := conn.GetInterfaceDescription(qctx, n)
				l.Str(n)
				switch er := err.(type) {
				case nil:
					l.S("desc").Str(d)
				case *varlink.InvalidParameter:
					l.S("invalid").Str(er.Parameter)
				default:
					l.S("err").Str(fmt.Sprintf("%T", err))
				}
			}
			// routing (C04): a call of a method of every name that was asked for reaches the interface registered
			// under exactly that name, or is answered InterfaceNotFound — in particular for a name whose
			// registration was refused
			l.N(len(asked))
			for _, n := range asked {
				var out json.RawMessage
				err := conn.Call(qctx, n+".Zz", nil, &out)
				l.Str(n)
				switch er := err.(type) {
				case nil:
					l.S("ok").Str("")
				case *varlink.InterfaceNotFound:
					l.S("notfound").Str(er.Interface)
				case *varlink.MethodNotFound:
					l.S("methodnotfound").Str(er.Method)
				case *varlink.MethodNotImplemented:
					l.S("notimpl").Str(er.Method)
				case *varlink.InvalidParameter:
					l.S("invalid").Str(er.Parameter)
				default:
					l.S("other").Str(fmt.Sprintf("%T", err))
				}
			}
			conn.Close()
			// Resolver helper
			if resolverOK {
				rs, err := varlink.NewResolver(ctx, r.addr)
				if err != nil {
					return err
				}
				rv, rp, rver, ru := "stale-vendor", "stale-product", "stale-version", "stale-url"
				ri := append(make([]string, 0, 32), "stale.a", "stale.b")
				rerr := rs.GetInfo(qctx, &rv, &rp, &rver, &ru, &ri)
				addr, aerr := rs.Resolve(qctx, "some.iface")
				rs.Close()
				l.N(1).Str(infoJSON).Bool(rerr == nil).Str(rv).Str(rp).Str(rver).Str(ru).N(len(ri))
				for _, n := range ri {
					l.Str(n)
				}
				l.Bool(aerr == nil && addr == "unix:@resolved")
			} else {
				l.N(0)
			}
			svc.Shutdown()
			r.running = false
			r.reapIfDrained()
			if r.counterOff {
				l.toks[counterSlot] = "1"
			}
			fmt.Fprintln(e.out, l.String())
			return nil
		})
	}
}
