package main

// Service lifecycle (C14, C15): histories on the REAL Service through a controlled listener.
//
// The controlled listener makes the schedule deterministic at every listener interaction: Accept blocks
// until the harness lets it return a connection (in-process net.Pipe), a timeout error or (after Close)
// a closed error; Close and SetDeadline are recorded; a Shutdown can be issued from inside Accept just
// before it returns, or from inside SetDeadline. After every event the harness waits until every
// goroutine of the process is blocked (runtime.Stack: nobody running or runnable), then takes a
// snapshot of the service through the white-box accessors. One line per history:
//
//   life <tag> <n> <event tokens…> | <per event: result ret running haslistener hasaddr counter closes deadlines> <nconns> <per conn: replies>
//
// The Lean driver (lean/Driver/CmdsLife.lean) replays the history on the transition system and compares.

import (
	"bufio"
	"bytes"
	"context"
	"errors"
	"fmt"
	"net"
	"os"
	"os/exec"
	"runtime"
	"strconv"
	"strings"
	"sync"
	"time"

	"github.com/varlink/go/varlink"
)

// ---- errors of the controlled listener (net.Error, as the accept loop type-asserts it) -------------

type ctlErr struct {
	msg     string
	timeout bool
}

func (e *ctlErr) Error() string   { return e.msg }
func (e *ctlErr) Timeout() bool   { return e.timeout }
func (e *ctlErr) Temporary() bool { return e.timeout }

var (
	errCtlClosed  = &ctlErr{msg: "verif: use of closed listener"}
	errCtlTimeout = &ctlErr{msg: "verif: accept deadline expired", timeout: true}
)

// ---- controlled listener ---------------------------------------------------------------------------

type ctlListener struct {
	h             *lifeCase
	mu            sync.Mutex
	cond          *sync.Cond
	closed        bool
	backlog       []*lifeConn
	armed         bool
	expireNow     bool
	blocked       int // Accept calls currently blocked
	closeCalls    int
	deadlineCalls int
}

func newCtlListener(h *lifeCase) *ctlListener {
	l := &ctlListener{h: h}
	l.cond = sync.NewCond(&l.mu)
	return l
}

// runHook issues the Shutdown a history placed at this listener interaction (called without l.mu).
func (h *lifeCase) runHook(flag *bool) {
	h.hookMu.Lock()
	fire := *flag
	*flag = false
	h.hookMu.Unlock()
	if fire {
		h.svc.Shutdown()
	}
}

// endHookE: the placement applies to the connect event it precedes only
func (h *lifeCase) endHookE() {
	h.hookMu.Lock()
	h.hookE = false
	if h.restoreP > 0 {
		runtime.GOMAXPROCS(h.restoreP)
		h.restoreP = 0
	}
	h.hookMu.Unlock()
}

func (l *ctlListener) Accept() (net.Conn, error) {
	l.mu.Lock()
	for {
		if l.closed {
			l.mu.Unlock()
			return nil, errCtlClosed
		}
		if l.expireNow && l.armed {
			l.expireNow = false
			l.mu.Unlock()
			l.h.runHook(&l.h.hookA) // Shutdown after the deadline fired, before Accept returns
			return nil, errCtlTimeout
		}
		if len(l.backlog) > 0 {
			c := l.backlog[0]
			l.backlog = l.backlog[1:]
			c.accepted = true
			l.h.hookMu.Lock()
			if l.h.hookE && l.armed {
				l.h.hookE = false
				l.expireNow = true
			}
			l.h.hookMu.Unlock()
			l.mu.Unlock()
			l.h.runHook(&l.h.hookA) // Shutdown between accept and handler start
			return c.srv, nil
		}
		l.blocked++
		l.cond.Wait()
		l.blocked--
	}
}

func (l *ctlListener) Close() error {
	l.mu.Lock()
	defer l.mu.Unlock()
	l.closeCalls++
	if l.closed {
		return errCtlClosed
	}
	l.closed = true
	for _, c := range l.backlog { // the kernel resets what is still in the backlog
		c.srv.Close()
		c.dropped = true
	}
	l.backlog = nil
	l.cond.Broadcast()
	return nil
}

func (l *ctlListener) SetDeadline(t time.Time) error {
	l.mu.Lock()
	l.deadlineCalls++
	l.mu.Unlock()
	l.h.runHook(&l.h.hookD) // Shutdown before accept (between the loop check and Accept)
	l.mu.Lock()
	defer l.mu.Unlock()
	if l.closed {
		return errCtlClosed
	}
	if !t.IsZero() {
		l.armed = true
	}
	return nil
}

func (l *ctlListener) Addr() net.Addr { return fakeAddr{} }

func (l *ctlListener) dial() *lifeConn {
	l.mu.Lock()
	defer l.mu.Unlock()
	c := &lifeConn{}
	if l.closed {
		c.refused = true
		return c
	}
	c.cli, c.srv = net.Pipe()
	c.rd = bufio.NewReader(c.cli)
	l.backlog = append(l.backlog, c)
	l.cond.Broadcast()
	return c
}

// expire lets a blocked Accept return a timeout error; false when nothing is blocked on an armed deadline.
func (l *ctlListener) expire() bool {
	l.mu.Lock()
	defer l.mu.Unlock()
	if l.closed || !l.armed || l.blocked == 0 {
		return false
	}
	l.expireNow = true
	l.cond.Broadcast()
	return true
}

// ---- one history ---------------------------------------------------------------------------------

type lifeConn struct {
	cli, srv  net.Conn
	rd        *bufio.Reader
	refused   bool
	accepted  bool // handed out by Accept (written under the listener's mutex, read when quiet)
	dropped   bool
	cliClosed bool
	stuck     bool
	replies   int
}

type serveRun struct {
	done   chan struct{}
	ret    error
	panic  bool
	cancel context.CancelFunc
}

type lifeCase struct {
	svc      *varlink.Service
	id       string
	lsns     []*ctlListener
	conns    []*lifeConn
	serve    *serveRun
	hookMu   sync.Mutex
	lastAddr string
	hookA    bool
	hookD    bool
	// hookE: the accept deadline expires right behind the next connection the listener hands out — the
	// following Accept returns the timeout at once, before anything else gets to run (the case runs on one P)
	hookE     bool
	restoreP  int
	binds     int
	regs      int
	hangs     int
	quietWait time.Duration
	// sock mode: the serving call is Listen on a real socket (unix path, abstract unix, tcp); no controlled listener
	sock     bool
	sockNet  string // "unix" or "tcp" for net.Dial
	sockDial string
	sockAddr string // varlink address for Listen
	serveTmo bool
	// inject: expiries are injected on the REAL listener (SetDeadline in the past from the harness) instead of waiting
	// for the real clock; the service is started with a one-hour timeout, so no other expiry ever happens
	inject bool
}

const sockTimeout = 400 * time.Millisecond

var lifeTCPCounter int

type lifeIface struct{ name string }

func (i *lifeIface) VarlinkDispatch(ctx context.Context, c varlink.Call, methodname string) error {
	if methodname == "Fail" {
		return errors.New("verif: handler fails")
	}
	return c.ReplyMethodNotFound(ctx, methodname)
}
func (i *lifeIface) VarlinkGetName() string { return i.name }
func (i *lifeIface) VarlinkGetDescription() string {
	return "interface " + i.name + "\nmethod Fail() -> ()\n"
}

var lifeStackBuf = make([]byte, 1<<20)

// quiet reports whether every goroutine except the caller is blocked.
func quiet(buf []byte) bool {
	n := runtime.Stack(buf, true)
	if n == len(buf) {
		return false // truncated: cannot tell
	}
	s := buf[:n]
	first := true
	for len(s) > 0 {
		var line []byte
		if i := bytes.IndexByte(s, '\n'); i >= 0 {
			line, s = s[:i], s[i+1:]
		} else {
			line, s = s, nil
		}
		if !bytes.HasPrefix(line, []byte("goroutine ")) {
			continue
		}
		if first { // the calling goroutine
			first = false
			continue
		}
		lb := bytes.IndexByte(line, '[')
		if lb < 0 {
			continue
		}
		st := line[lb+1:]
		if bytes.HasPrefix(st, []byte("running")) || bytes.HasPrefix(st, []byte("runnable")) ||
			bytes.HasPrefix(st, []byte("syscall")) || bytes.HasPrefix(st, []byte("sleep")) ||
			bytes.HasPrefix(st, []byte("copystack")) || bytes.HasPrefix(st, []byte("preempted")) {
			return false
		}
	}
	return true
}

func (h *lifeCase) waitQuiet() bool {
	deadline := time.Now().Add(h.quietWait)
	// real sockets: readiness travels through the kernel and the netpoller, so a single look can find everybody in
	// "IO wait" although data is under way; require several quiet looks with the harness goroutine asleep in between
	need := 1
	if h.sock {
		need = 6
	}
	got := 0
	for spin := 0; ; spin++ {
		if h.sock {
			time.Sleep(150 * time.Microsecond)
		} else {
			runtime.Gosched()
		}
		if quiet(lifeStackBuf) {
			got++
			if got >= need {
				return true
			}
			continue
		}
		got = 0
		if time.Now().After(deadline) {
			h.hangs++
			return false
		}
		if spin > 20 && !h.sock {
			time.Sleep(20 * time.Microsecond)
		}
	}
}

func retClass(r *serveRun) int {
	if r == nil {
		return 0
	}
	select {
	case <-r.done:
	default:
		return 1
	}
	if r.panic {
		return 5
	}
	if r.ret == nil {
		return 2
	}
	if _, ok := r.ret.(varlink.ServiceTimeoutError); ok {
		return 3
	}
	return 4
}

func b2i(b bool) int {
	if b {
		return 1
	}
	return 0
}

func (h *lifeCase) snapshot(l *Line) {
	running, has, proto, addr := h.svc.VerifState()
	cl, dl := 0, 0
	for _, x := range h.lsns {
		x.mu.Lock()
		cl += x.closeCalls
		dl += x.deadlineCalls
		x.mu.Unlock()
	}
	l.N(retClass(h.serve)).Bool(running).Bool(has).Bool(proto != "" || addr != "").N(int(h.svc.VerifConnCounter())).N(cl).N(dl)
}

func (h *lifeCase) freshAddr() string {
	h.binds++
	h.lastAddr = fmt.Sprintf("unix:@verif-life-%d-%s-%d", os.Getpid(), h.id, h.binds)
	return h.lastAddr
}

// bindAddr: the address for a Bind / second Listen. While the service is running the call is refused whatever the
// address says — so it is given the very string the service is bound to (the case in which "binding again" could
// be mistaken for a no-op); otherwise a fresh one.
func (h *lifeCase) bindAddr() string {
	if running, _, _, _ := h.svc.VerifState(); running {
		if h.sock && h.sockAddr != "" {
			return h.sockAddr
		}
		if h.lastAddr != "" {
			return h.lastAddr
		}
	}
	return h.freshAddr()
}

var (
	reqGetInfo = []byte("{\"method\":\"org.varlink.service.GetInfo\"}\x00")
	reqFail    = []byte("{\"method\":\"org.example.life.Fail\"}\x00")
	reqHalf    = []byte("{\"method\":\"org.varlink.serv")
)

// roundTrip writes req on the client end and waits for one reply frame, without ever blocking the harness.
func (h *lifeCase) roundTrip(c *lifeConn, req []byte) string {
	res := make(chan string, 1)
	go func() {
		if _, err := c.cli.Write(req); err != nil {
			res <- "fail"
			return
		}
		if _, err := c.rd.ReadBytes(0); err != nil {
			res <- "eof"
			return
		}
		res <- "ok"
	}()
	h.waitQuiet()
	select {
	case r := <-res:
		if r == "ok" {
			c.replies++
		}
		return r
	default:
		c.stuck = true
		return "hang"
	}
}

func (h *lifeCase) connFor(tok string) (*lifeConn, string) {
	i, err := strconv.Atoi(tok[1:])
	if err != nil || i >= len(h.conns) {
		return nil, "none"
	}
	c := h.conns[i]
	switch {
	case c.refused:
		return nil, "refused"
	case c.stuck:
		return nil, "stuck"
	case c.cliClosed:
		return nil, "closed"
	}
	return c, ""
}

// event performs one history event on the real service and returns its result token.
func (h *lifeCase) event(tok string) string {
	switch tok[0] {
	case 'B': // real Bind on a fresh abstract address; on success the listener is swapped for a controlled one
		if h.sock {
			return "unknown"
		}
		err := h.svc.Bind(context.Background(), h.bindAddr())
		if err != nil {
			if strings.Contains(err.Error(), "already running") {
				return "running"
			}
			return "err"
		}
		if rl, _ := h.svc.GetListener(); rl != nil {
			rl.Close()
		}
		l := newCtlListener(h)
		h.lsns = append(h.lsns, l)
		h.svc.VerifSetListener(l)
		return "nil"
	case 'S': // DoListen in its own goroutine; S1 = with an idle timeout
		if h.serve != nil && retClass(h.serve) == 1 {
			return "skip"
		}
		ctx, cancel := context.WithCancel(context.Background())
		run := &serveRun{done: make(chan struct{}), cancel: cancel}
		var tmo time.Duration
		if tok == "S1" {
			tmo = time.Hour
			if h.sock && !h.inject {
				tmo = sockTimeout
			}
		}
		h.serve = run
		h.serveTmo = tok == "S1"
		go func() {
			defer close(run.done)
			defer func() {
				if r := recover(); r != nil {
					run.panic = true
				}
			}()
			if h.sock {
				run.ret = h.svc.Listen(ctx, h.sockAddr, tmo)
			} else {
				run.ret = h.svc.DoListen(ctx, tmo)
			}
		}()
		h.waitQuiet()
		return "go"
	case 'L': // a second Listen while the service is running
		if running, _, _, _ := h.svc.VerifState(); !running {
			return "skip"
		}
		res := make(chan error, 1)
		addrL := h.bindAddr()
		go func() { res <- h.svc.Listen(context.Background(), addrL, 0) }()
		h.waitQuiet()
		select {
		case err := <-res:
			if err == nil {
				return "nil"
			}
			if strings.Contains(err.Error(), "already running") {
				return "running"
			}
			return "err"
		default:
			return "hang"
		}
	case 'C':
		if h.sock {
			c := &lifeConn{accepted: true}
			cli, err := net.DialTimeout(h.sockNet, h.sockDial, 2*time.Second)
			if err != nil {
				c.refused = true
			} else {
				c.cli = cli
				c.rd = bufio.NewReader(cli)
			}
			h.conns = append(h.conns, c)
			h.waitQuiet()
			h.endHookE()
			if c.refused {
				return "refused"
			}
			return "ok"
		}
		if len(h.lsns) == 0 { // nothing was ever bound: there is no endpoint to connect to
			h.conns = append(h.conns, &lifeConn{refused: true})
			h.endHookE()
			return "nolsn"
		}
		c := h.lsns[len(h.lsns)-1].dial()
		h.conns = append(h.conns, c)
		h.waitQuiet()
		h.endHookE()
		if c.refused {
			return "refused"
		}
		return "ok"
	case 'h':
		h.hookMu.Lock()
		if tok == "hA" {
			h.hookA = true
		} else if tok == "hE" {
			h.hookE = true
			h.restoreP = runtime.GOMAXPROCS(1)
		} else {
			h.hookD = true
		}
		h.hookMu.Unlock()
		return "-"
	case 'Q', 'F':
		c, why := h.connFor(tok)
		if c == nil {
			return why
		}
		if !c.accepted && !c.dropped {
			return "pend"
		}
		req := reqGetInfo
		if tok[0] == 'F' {
			req = reqFail
		}
		r := h.roundTrip(c, req)
		if h.sock && r == "eof" { // a kernel socket accepts the write even when the peer is gone
			r = "fail"
		}
		return r
	case 'X', 'A':
		c, why := h.connFor(tok)
		if c == nil {
			return why
		}
		c.cliClosed = true
		if tok[0] == 'A' && c.accepted {
			go func() { c.cli.Write(reqHalf); c.cli.Close() }()
		} else {
			c.cli.Close()
		}
		h.waitQuiet()
		return "-"
	case 'K':
		if h.serve == nil {
			return "skip"
		}
		h.serve.cancel()
		h.waitQuiet()
		return "-"
	case 'T':
		if h.sock { // real clock: sleep past the deadline (one-sided: at least one expiry has happened afterwards)
			running, _, _, _ := h.svc.VerifState()
			if !(running && h.serveTmo && retClass(h.serve) == 1) {
				return "skip"
			}
			if h.inject {
				l, _ := h.svc.GetListener()
				d, ok := l.(interface{ SetDeadline(time.Time) error })
				if !ok || d.SetDeadline(time.Unix(1, 0)) != nil {
					return "noinject"
				}
			} else {
				time.Sleep(sockTimeout + 80*time.Millisecond)
			}
			h.waitQuiet()
			return "fired"
		}
		fired := false
		for _, l := range h.lsns {
			if l.expire() {
				fired = true
				break
			}
		}
		h.waitQuiet()
		if fired {
			return "fired"
		}
		return "skip"
	case 'H':
		err := h.svc.Shutdown()
		h.waitQuiet()
		if err != nil {
			return "err"
		}
		return "nil"
	case 'G':
		l, _ := h.svc.GetListener()
		if l == nil {
			return "nil"
		}
		return "set"
	case 'R':
		h.regs++
		if err := h.svc.RegisterInterface(&lifeIface{name: fmt.Sprintf("org.example.reg%d", h.regs)}); err != nil {
			return "refused"
		}
		return "ok"
	}
	return "unknown"
}

func runLifeHistory(id string, tag string, evs []string) (string, error) {
	return runLifeHistoryOn(id, tag, "", false, evs)
}

// sockKind: "" = controlled listener; "fs", "abstract", "tcp" = Listen on a real socket of that kind
func runLifeHistoryOn(id string, tag string, sockKind string, inject bool, evs []string) (string, error) {
	svc, err := varlink.NewService("v", "p", "1", "u")
	if err != nil {
		return "", err
	}
	if err := svc.RegisterInterface(&lifeIface{name: "org.example.life"}); err != nil {
		return "", err
	}
	h := &lifeCase{svc: svc, id: id, quietWait: 3 * time.Second, inject: inject}
	switch sockKind {
	case "fs":
		p := fmt.Sprintf("%s/verif-life-%d-%s.sock", os.TempDir(), os.Getpid(), id)
		h.sock, h.sockNet, h.sockDial, h.sockAddr = true, "unix", p, "unix:"+p
		defer os.Remove(p)
	case "abstract":
		p := fmt.Sprintf("@verif-lifesock-%d-%s", os.Getpid(), id)
		h.sock, h.sockNet, h.sockDial, h.sockAddr = true, "unix", p, "unix:"+p
	case "tcp":
		// a port below the ephemeral range (outgoing connections of parallel cases must not take it between two
		// Listen calls of this history), different per process, probed once
		var a string
		for try := 0; ; try++ {
			lifeTCPCounter++
			port := 10000 + (os.Getpid()*37+lifeTCPCounter*3+len(id)*7919+int(id[len(id)-1])*101)%20000
			pl, err := net.Listen("tcp", fmt.Sprintf("127.0.0.1:%d", port))
			if err == nil {
				a = pl.Addr().String()
				pl.Close()
				break
			}
			if try > 400 {
				return "", err
			}
		}
		h.sock, h.sockNet, h.sockDial, h.sockAddr = true, "tcp", a, "tcp:"+a
	}
	l := &Line{}
	l.S("life").S(tag).N(len(evs))
	for _, e := range evs {
		l.S(e)
	}
	l.S("|")
	for _, e := range evs {
		l.S(h.event(e))
		h.snapshot(l)
	}
	l.N(len(h.conns))
	for _, c := range h.conns {
		l.N(c.replies)
	}
	l.N(h.hangs)
	// leave nothing behind: stop whatever is still there (not observed)
	svc.Shutdown()
	if h.serve != nil {
		h.serve.cancel()
	}
	for _, c := range h.conns {
		if c.cli != nil {
			c.cli.Close()
		}
		if c.srv != nil {
			c.srv.Close()
		}
	}
	for _, x := range h.lsns {
		x.Close()
	}
	h.quietWait = 200 * time.Millisecond
	h.waitQuiet()
	return l.String(), nil
}

// ---- histories -----------------------------------------------------------------------------------

// expand turns enumeration symbols into event tokens: "Ca" = Shutdown placed between accept and handler start,
// "Cd" = Shutdown placed in the SetDeadline that follows the accept, "Ta"/"Td" likewise for an expiry.
func expandSym(s string) []string {
	switch s {
	case "Ca":
		return []string{"hA", "C"}
	case "Cd":
		return []string{"hD", "C"}
	case "Ta":
		return []string{"hA", "T"}
	case "Td":
		return []string{"hD", "T"}
	case "Sd":
		return []string{"hD", "S1"}
	case "Ce":
		return []string{"hE", "C"}
	}
	return []string{s}
}

func isConnect(s string) bool { return s == "C" || s == "Ca" || s == "Cd" || s == "Ce" }

func connRef(s string) int {
	if len(s) == 2 && strings.IndexByte("QXAF", s[0]) >= 0 && s[1] >= '0' && s[1] <= '9' {
		return int(s[1] - '0')
	}
	return -1
}

// enumerate all sequences over alphabet of length 0..depth (after prefix) whose connection references exist.
func enumLife(prefix, alphabet []string, depth int, out *[][]string) {
	var rec func(cur []string, nconn int)
	rec = func(cur []string, nconn int) {
		*out = append(*out, append([]string(nil), cur...))
		if len(cur)-len(prefix) >= depth {
			return
		}
		for _, a := range alphabet {
			if r := connRef(a); r >= nconn {
				continue
			}
			n := nconn
			if isConnect(a) {
				n++
			}
			rec(append(cur, a), n)
		}
	}
	n0 := 0
	for _, p := range prefix {
		if isConnect(p) {
			n0++
		}
	}
	rec(append([]string(nil), prefix...), n0)
}

// epilogue: Shutdown, every client goes away, then the whole cycle once more on the same service object.
func lifeEpilogue(body []string) []string {
	n := 0
	for _, s := range body {
		if isConnect(s) {
			n++
		}
	}
	ep := []string{"H"}
	for i := 0; i < n; i++ {
		ep = append(ep, "X"+strconv.Itoa(i))
	}
	ep = append(ep, "R", "B", "S0", "C", "Q"+strconv.Itoa(n), "H", "X"+strconv.Itoa(n), "G")
	return ep
}

// sock mode: no stand-alone Bind (Listen binds the same real address again)
func lifeEpilogueSock(body []string) []string {
	var out []string
	for _, s := range lifeEpilogue(body) {
		if s != "B" {
			out = append(out, s)
		}
	}
	return out
}

type sockHistory struct {
	kind   string
	inject bool
	body   []string
}

func lifeSockHistories(prop string, tier string) []sockHistory {
	var out []sockHistory
	thorough := tier == "thorough"
	for _, kind := range []string{"abstract", "fs", "tcp"} {
		var hs [][]string
		if prop == "C14" {
			depth := 3
			if thorough {
				depth = 4
			}
			enumLife([]string{"S0"}, []string{"C", "Q0", "X0", "A0", "F0", "K", "H", "L", "S0"}, depth, &hs)
			enumLife(nil, []string{"C", "H", "L", "S0"}, 2, &hs)
		} else {
			hs = [][]string{
				{"S1", "T"},
				{"S1", "T", "C"},
				{"S1", "C", "T", "Q0", "X0", "T"},
				{"S1", "C", "X0", "T"},
				{"S1", "C", "A0", "T"},
				{"S1", "C", "C", "X0", "T", "X1", "T"},
				{"S0", "C", "T", "X0", "T"},
				{"S1", "C", "T", "H"},
				{"S1", "Ce", "Q0", "X0", "T"},
				{"S1", "Ce", "T", "X0", "T"},
				{"S1", "C", "Ce", "X0", "X1", "T"},
			}
			if thorough {
				enumLife([]string{"S1"}, []string{"C", "X0", "T", "Q0"}, 3, &hs)
			}
		}
		for _, b := range hs {
			out = append(out, sockHistory{kind, false, b})
		}
		if prop == "C15" {
			// Listen's own timeout branch, deterministically: all histories with expiries injected on the real listener
			var inj [][]string
			depth := 4
			if thorough {
				depth = 5
			}
			enumLife([]string{"S1"}, []string{"C", "Q0", "X0", "X1", "A0", "T", "H"}, depth, &inj)
			enumLife([]string{"S0"}, []string{"C", "X0", "T"}, 2, &inj)
			for _, b := range inj {
				out = append(out, sockHistory{kind, true, b})
			}
		}
	}
	return out
}

// lifeSockCommand: Listen on real sockets. Histories with real-clock expiries sleep, so the cases are spread over
// child processes (the quiescence test is per process).
func lifeSockCommand(prop string) func(e *env) error {
	return func(e *env) error {
		hs := lifeSockHistories(prop, e.tier)
		runOne := func(i int) (string, error) {
			var evs []string
			for _, s := range append(append([]string(nil), hs[i].body...), lifeEpilogueSock(hs[i].body)...) {
				evs = append(evs, expandSym(s)...)
			}
			tag := prop + "sock" + hs[i].kind
			if hs[i].inject {
				tag = prop + "sockinj" + hs[i].kind
			}
			return runLifeHistoryOn(fmt.Sprintf("s%d", i), tag, hs[i].kind, hs[i].inject, evs)
		}
		if e.only >= 0 || os.Getenv("VERIF_LIFE_CHILD") != "" {
			defer runtime.GOMAXPROCS(runtime.GOMAXPROCS(1))
			lo, hi := 0, len(hs)
			if e.only >= 0 {
				lo, hi = e.only, e.only+1
			} else {
				fmt.Sscanf(os.Getenv("VERIF_LIFE_CHILD"), "%d:%d", &lo, &hi)
			}
			for i := lo; i < hi && i < len(hs); i++ {
				line, err := runOne(i)
				if err != nil {
					return err
				}
				fmt.Fprintln(e.out, line)
			}
			return nil
		}
		workers := 8
		if prop == "C15" {
			workers = 24
		}
		if workers > len(hs) {
			workers = len(hs)
		}
		outs := make([][]byte, workers)
		errs := make([]error, workers)
		var wg sync.WaitGroup
		for w := 0; w < workers; w++ {
			lo, hi := len(hs)*w/workers, len(hs)*(w+1)/workers
			wg.Add(1)
			go func(w int) {
				defer wg.Done()
				cmd := exec.Command(os.Args[0], os.Args[1], "-tier", e.tier, "-seed", strconv.FormatUint(e.seed, 10))
				cmd.Env = append(os.Environ(), fmt.Sprintf("VERIF_LIFE_CHILD=%d:%d", lo, hi))
				cmd.Stderr = os.Stderr
				outs[w], errs[w] = cmd.Output()
			}(w)
		}
		wg.Wait()
		for w := 0; w < workers; w++ {
			if errs[w] != nil {
				return errs[w]
			}
			e.out.Write(outs[w])
		}
		return nil
	}
}

var (
	alpha14     = []string{"C", "Ca", "Q0", "Q1", "X0", "X1", "A0", "F0", "F1", "K", "H", "B", "L", "S0"}
	alpha14free = []string{"B", "S0", "S1", "C", "Ca", "Q0", "X0", "K", "H", "L", "T", "G", "R"}
	alpha15     = []string{"C", "Cd", "Ce", "Q0", "X0", "X1", "A0", "T", "Ta", "Td", "H"}
	alphaRandom = []string{"C", "C", "Ca", "Cd", "Q0", "Q1", "Q2", "X0", "X1", "X2", "A0", "A1", "F0", "F1", "K", "H", "B", "L",
		"S0", "S1", "Sd", "T", "T", "Ta", "Td", "G", "R"}
)

func lifeHistories(prop string, tier string) [][]string {
	var hs [][]string
	thorough := tier == "thorough"
	d := func(q, t int) int {
		if thorough {
			return t
		}
		return q
	}
	if prop == "C14" {
		enumLife([]string{"B", "S0"}, alpha14, d(4, 5), &hs)
		enumLife(nil, alpha14free, d(3, 5), &hs)
		enumLife([]string{"B", "S1"}, []string{"C", "Cd", "Ca", "Q0", "X0", "H", "K", "F0"}, d(4, 6), &hs)
	} else {
		enumLife([]string{"B", "S1"}, alpha15, d(5, 6), &hs)
		enumLife([]string{"B", "S0"}, []string{"C", "Q0", "X0", "A0", "T", "H"}, d(4, 6), &hs)
		enumLife([]string{"B", "C", "S1"}, []string{"C", "X0", "X1", "T", "Ta", "H"}, d(4, 6), &hs)
	}
	return hs
}

func (g *Rng) randomLife(prop string) []string {
	n := 4 + g.Intn(9)
	var out []string
	if g.Chance(3, 4) {
		out = append(out, "B")
		if prop == "C15" || g.Chance(1, 3) {
			out = append(out, "S1")
		} else {
			out = append(out, "S0")
		}
	}
	nconn := 0
	for len(out) < n {
		a := g.Pick(alphaRandom)
		if prop == "C15" && g.Chance(1, 3) {
			a = g.Pick([]string{"T", "C", "X0", "X1", "Ta"})
		}
		if r := connRef(a); r >= nconn {
			continue
		}
		if isConnect(a) {
			nconn++
		}
		out = append(out, a)
	}
	return out
}

func lifeCommand(prop string) func(e *env) error {
	return func(e *env) error {
		// one P: after Gosched every other goroutine has run until it blocked, so the quiescence test is cheap
		// and the run is reproducible; the schedule that matters is fixed by the controlled listener anyway
		defer runtime.GOMAXPROCS(runtime.GOMAXPROCS(1))
		hs := lifeHistories(prop, e.tier)
		total := len(hs) + e.n
		root := NewRng(e.seed)
		for i := 0; i < total; i++ {
			if e.only >= 0 && i != e.only {
				continue
			}
			var body []string
			tag := "enum"
			if i < len(hs) {
				body = hs[i]
			} else {
				body = root.Fork(uint64(i)).randomLife(prop)
				tag = "rand"
			}
			var evs []string
			for _, s := range append(append([]string(nil), body...), lifeEpilogue(body)...) {
				evs = append(evs, expandSym(s)...)
			}
			t0 := time.Now()
			line, err := runLifeHistory(strconv.Itoa(i), prop+tag, evs)
			if os.Getenv("VERIF_LIFE_SLOW") != "" && time.Since(t0) > 20*time.Millisecond {
				fmt.Fprintln(os.Stderr, "slow", i, time.Since(t0), strings.Join(evs, " "))
			}
			if err != nil {
				return err
			}
			fmt.Fprintln(e.out, line)
		}
		return nil
	}
}

func init() {
	commands["life14"] = lifeCommand("C14")
	commands["life15"] = lifeCommand("C15")
	commands["lifesock14"] = lifeSockCommand("C14")
	commands["lifesock15"] = lifeSockCommand("C15")
}
