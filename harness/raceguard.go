package main

import (
	"context"
	"fmt"
	"os"
	"sync/atomic"
	"time"

	"github.com/varlink/go/varlink"
)

// regguard (C16): the guard of RegisterInterface, observed.  Deterministic histories over
// {start serving, client connects, client disconnects, Shutdown, RegisterInterface attempt}; at each
// attempt the service is quiescent, (running, conncounter) are read through the white-box accessor and
// the outcome of the attempt is recorded.  The driver compares with the enabling condition of the
// `regEnter` transition of the counter system (lean/Varlink/Race.lean, Tables).

type regObs struct {
	running  bool
	cc       int
	accepted bool
}

func runRegGuard(acts []string, idx int) (done []string, obs []regObs, status string) {
	status = "ok"
	var calls int64
	svc, err := varlink.NewService("verif", "regguard", "1", "http://verif")
	if err != nil {
		return nil, nil, "setup"
	}
	svc.RegisterInterface(&raceIface{name: "org.verif.race", calls: &calls})
	addr := fmt.Sprintf("unix:@verif-regguard-%d-%d-%d", os.Getpid(), idx, atomic.AddInt64(&raceSeq, 1))
	var served chan error
	var clients []*varlink.Connection
	regN := 0
	waitFor := func(cond func() bool) bool {
		deadline := time.Now().Add(3 * time.Second)
		for !cond() {
			if time.Now().After(deadline) {
				return false
			}
			time.Sleep(100 * time.Microsecond)
		}
		return true
	}
	running := func() bool { r, _, _, _ := svc.VerifState(); return r }
	for _, a := range acts {
		switch a {
		case "start":
			if served != nil {
				continue
			}
			served = make(chan error, 1)
			ch := served
			go func() { ch <- svc.Listen(context.Background(), addr, 0) }()
			if !waitFor(running) {
				return done, obs, "start-timeout"
			}
		case "connect":
			if served == nil || !running() {
				continue
			}
			ctx, cancel := context.WithTimeout(context.Background(), 2*time.Second)
			c, err := varlink.NewConnection(ctx, addr)
			if err != nil {
				cancel()
				return done, obs, "connect-failed"
			}
			var vendor string
			c.GetInfo(ctx, &vendor, nil, nil, nil, nil)
			cancel()
			clients = append(clients, c)
			want := len(clients)
			if !waitFor(func() bool { return int(svc.VerifConnCounter()) == want }) {
				return done, obs, "connect-count-timeout"
			}
		case "disconnect":
			if len(clients) == 0 {
				continue
			}
			clients[0].Close()
			clients = clients[1:]
			want := len(clients)
			if !waitFor(func() bool { return int(svc.VerifConnCounter()) == want }) {
				return done, obs, "disconnect-count-timeout"
			}
		case "shutdown":
			if served == nil {
				continue
			}
			svc.Shutdown()
		case "register":
			// let a serving call that has nothing left to wait for finish first: quiescent state
			if served != nil && !running() && len(clients) == 0 {
				select {
				case <-served:
					served = nil
				case <-time.After(3 * time.Second):
					return done, obs, "serve-return-timeout"
				}
			}
			o := regObs{running: running(), cc: int(svc.VerifConnCounter())}
			regN++
			err := svc.RegisterInterface(&raceIface{name: fmt.Sprintf("org.verif.g%d", regN), calls: &calls})
			o.accepted = err == nil
			obs = append(obs, o)
		}
		done = append(done, a)
	}
	for _, c := range clients {
		c.Close()
	}
	if served != nil {
		svc.Shutdown()
		select {
		case <-served:
		case <-time.After(3 * time.Second):
			status = "final-serve-timeout"
		}
	}
	return done, obs, status
}

func init() {
	commands["regguard"] = func(e *env) error {
		return e.each(func(i int, g *Rng) error {
			var acts []string
			switch i {
			case 0: // corpus: the repaired defect - register after Shutdown while a connection is still open
				acts = []string{"start", "connect", "shutdown", "register", "disconnect", "register"}
			case 1:
				acts = []string{"register", "start", "register", "shutdown", "register"}
			default:
				n := 3 + g.Intn(8)
				for k := 0; k < n; k++ {
					acts = append(acts, g.Pick([]string{"start", "connect", "connect", "disconnect", "shutdown", "register", "register"}))
				}
			}
			done, obs, status := runRegGuard(acts, i)
			l := &Line{}
			l.S("regguard").N(len(done))
			for _, a := range done {
				l.S(a)
			}
			l.S("|").S(status).N(len(obs))
			for _, o := range obs {
				l.Bool(o.running).N(o.cc).Bool(o.accepted)
			}
			fmt.Fprintln(e.out, l.String())
			return nil
		})
	}
}
