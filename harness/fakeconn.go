package main

import (
	"io"
	"net"
	"sync"
	"time"
)

// segConn is a deterministic net.Conn: each Read returns (a prefix of) the next scripted segment,
// EOF after the last one; everything written is recorded.
type segConn struct {
	mu      sync.Mutex
	segs    [][]byte
	written []byte
	closed  bool
	// abortAfterWrites >= 0: Write fails once that many bytes have been accepted
	writeLimit int
}

func newSegConn(segs [][]byte) *segConn { return &segConn{segs: segs, writeLimit: -1} }

func (c *segConn) Read(p []byte) (int, error) {
	c.mu.Lock()
	defer c.mu.Unlock()
	for len(c.segs) > 0 && len(c.segs[0]) == 0 {
		c.segs = c.segs[1:]
	}
	if c.closed {
		return 0, net.ErrClosed
	}
	if len(c.segs) == 0 {
		return 0, io.EOF
	}
	n := copy(p, c.segs[0])
	c.segs[0] = c.segs[0][n:]
	if len(c.segs[0]) == 0 {
		c.segs = c.segs[1:]
	}
	return n, nil
}

func (c *segConn) Write(p []byte) (int, error) {
	c.mu.Lock()
	defer c.mu.Unlock()
	if c.closed {
		return 0, net.ErrClosed
	}
	if c.writeLimit >= 0 {
		room := c.writeLimit - len(c.written)
		if room < len(p) {
			if room > 0 {
				c.written = append(c.written, p[:room]...)
			} else {
				room = 0
			}
			return room, io.ErrClosedPipe
		}
	}
	c.written = append(c.written, p...)
	return len(p), nil
}

// setWriteLimit: -1 = no limit; n = Write fails once n bytes in total have been accepted
func (c *segConn) setWriteLimit(n int) {
	c.mu.Lock()
	c.writeLimit = n
	c.mu.Unlock()
}

func (c *segConn) Close() error {
	c.mu.Lock()
	c.closed = true
	c.mu.Unlock()
	return nil
}

func (c *segConn) Written() []byte {
	c.mu.Lock()
	defer c.mu.Unlock()
	return append([]byte(nil), c.written...)
}

type fakeAddr struct{}

func (fakeAddr) Network() string { return "verif" }
func (fakeAddr) String() string  { return "verif" }

func (c *segConn) LocalAddr() net.Addr                { return fakeAddr{} }
func (c *segConn) RemoteAddr() net.Addr               { return fakeAddr{} }
func (c *segConn) SetDeadline(t time.Time) error      { return nil }
func (c *segConn) SetReadDeadline(t time.Time) error  { return nil }
func (c *segConn) SetWriteDeadline(t time.Time) error { return nil }

// cut splits b at random points (possibly none); class selects the style.
func (g *Rng) cut(b []byte) [][]byte {
	if len(b) == 0 {
		return nil
	}
	style := g.Intn(5)
	if style == 1 && len(b) > 2000 && !g.Chance(1, 10) {
		style = 3
	}
	switch style {
	case 0: // one segment
		return [][]byte{b}
	case 1: // byte by byte
		out := make([][]byte, 0, len(b))
		for i := range b {
			out = append(out, b[i:i+1])
		}
		return out
	case 2: // cut right after / before each NUL
		var out [][]byte
		start := 0
		for i, c := range b {
			if c == 0 {
				if g.Bool() {
					out = append(out, b[start:i+1])
					start = i + 1
				} else if i > start {
					out = append(out, b[start:i])
					start = i
				}
			}
		}
		if start < len(b) {
			out = append(out, b[start:])
		}
		return out
	default: // random cuts
		var out [][]byte
		k := 1 + g.Intn(6)
		start := 0
		for i := 0; i < k && start < len(b); i++ {
			n := 1 + g.Intn(len(b)-start)
			out = append(out, b[start:start+n])
			start += n
		}
		if start < len(b) {
			out = append(out, b[start:])
		}
		return out
	}
}
