package main

import (
	"encoding/hex"
	"strconv"
	"strings"
)

// Line protocol: tokens separated by one space; bytes are x<hex>; numbers decimal.
type Line struct{ toks []string }

func (l *Line) S(s string) *Line   { l.toks = append(l.toks, s); return l }
func (l *Line) B(b []byte) *Line   { l.toks = append(l.toks, "x"+hex.EncodeToString(b)); return l }
func (l *Line) Str(s string) *Line { return l.B([]byte(s)) }
func (l *Line) N(n int) *Line      { l.toks = append(l.toks, strconv.Itoa(n)); return l }
func (l *Line) Bool(b bool) *Line {
	if b {
		return l.N(1)
	}
	return l.N(0)
}
func (l *Line) String() string { return strings.Join(l.toks, " ") }
