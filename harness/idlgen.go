package main

import (
	"strings"
)

// Generator side of the IDL streams (C05/C06/C09): syntax trees, their rendering under a layout, the
// documentation each member is expected to get, and the token encoding of trees understood by
// lean/Driver/CmdsIdl.lean.

// ---- trees ------------------------------------------------------------------------------------

// gTy kinds: b i f s o (builtins), n (named), q (maybe), a (array), d (map), S (struct), E (enum)
type gTy struct {
	kind   byte
	name   string
	elem   *gTy
	fields []gField
}

type gField struct {
	name string
	ty   *gTy // nil for enum names
}

// gMember kinds: A (alias), M (method), R (error; t1 may be nil)
type gMember struct {
	kind      byte
	name, doc string
	t1, t2    *gTy
}

type gIdl struct {
	name, doc string
	members   []gMember
}

func (t *gTy) size() int {
	if t == nil {
		return 0
	}
	n := 1
	if t.elem != nil {
		n += t.elem.size()
	}
	for _, f := range t.fields {
		n += f.ty.size()
	}
	return n
}

func (d *gIdl) typeNodes() int {
	n := 0
	for _, m := range d.members {
		n += m.t1.size() + m.t2.size()
	}
	return n
}

// token encoding (see lean/Driver/CmdsIdl.lean)
func (t *gTy) enc(l *Line) {
	switch t.kind {
	case 'b', 'i', 'f', 's', 'o':
		l.S(string(t.kind))
	case 'n':
		l.S("n").Str(t.name)
	case 'q', 'a', 'd':
		l.S(string(t.kind))
		t.elem.enc(l)
	case 'S', 'E':
		l.S(string(t.kind)).N(len(t.fields))
		for _, f := range t.fields {
			l.Str(f.name)
			if f.ty == nil {
				l.N(0)
			} else {
				l.N(1)
				f.ty.enc(l)
			}
		}
	default:
		l.S("X")
	}
}

func (m *gMember) enc(l *Line) {
	l.S(string(m.kind)).Str(m.name).Str(m.doc)
	switch m.kind {
	case 'A':
		m.t1.enc(l)
	case 'M':
		m.t1.enc(l)
		m.t2.enc(l)
	case 'R':
		if m.t1 == nil {
			l.N(0)
		} else {
			l.N(1)
			m.t1.enc(l)
		}
	}
}

func (d *gIdl) enc(l *Line) {
	l.Str(d.name).Str(d.doc).N(len(d.members))
	for i := range d.members {
		d.members[i].enc(l)
	}
}

// ---- name pools ---------------------------------------------------------------------------------

var idlIfaceNames = []string{
	"a.b", "org.example.test", "a.b.c.d", "A.B", "a.b-c", "a.b1-c2-d3.e", "a.0", "org.example-x.y9",
	"xn--lgbbat1ad8j.example.algeria", "xn--a.b", "xn--a.b-c.0d", "Ab.Cd.Ef", "io.systemd.Resolve",
	"z.9-9",
}

var idlTypeNames = []string{"A", "B", "T", "Foo", "Bar9", "X0y", "Type", "Interface", "E", "Aa"}
var idlFieldNames = []string{"a", "b", "x", "foo", "int", "string", "a_b", "a9", "type", "bool_", "zZ_0"}

// ---- random trees ---------------------------------------------------------------------------------

func (g *Rng) idlTy(depth int, afterMaybe bool) *gTy {
	max := 11
	if depth <= 0 {
		max = 6
	}
	for {
		switch g.Intn(max) {
		case 0:
			return &gTy{kind: 'b'}
		case 1:
			return &gTy{kind: 'i'}
		case 2:
			return &gTy{kind: 'f'}
		case 3:
			return &gTy{kind: 's'}
		case 4:
			return &gTy{kind: 'o'}
		case 5:
			return &gTy{kind: 'n', name: g.Pick(idlTypeNames)}
		case 6:
			if afterMaybe {
				continue
			}
			return &gTy{kind: 'q', elem: g.idlTy(depth-1, true)}
		case 7:
			return &gTy{kind: 'a', elem: g.idlTy(depth-1, false)}
		case 8:
			return &gTy{kind: 'd', elem: g.idlTy(depth-1, false)}
		case 9:
			return g.idlStruct(depth - 1)
		default:
			n := 1 + g.Intn(4)
			t := &gTy{kind: 'E'}
			for i := 0; i < n; i++ {
				t.fields = append(t.fields, gField{name: g.Pick(idlFieldNames)})
			}
			return t
		}
	}
}

func (g *Rng) idlStruct(depth int) *gTy {
	t := &gTy{kind: 'S'}
	n := g.Intn(4)
	if depth <= 0 {
		n = g.Intn(2)
	}
	for i := 0; i < n; i++ {
		t.fields = append(t.fields, gField{name: g.Pick(idlFieldNames), ty: g.idlTy(depth, false)})
	}
	return t
}

func (g *Rng) idlTree(maxMembers, depth int) *gIdl {
	d := &gIdl{name: g.Pick(idlIfaceNames)}
	n := 1 + g.Intn(maxMembers)
	used := map[string]bool{}
	hasMethod := false
	for i := 0; i < n; i++ {
		var nm string
		for k := 0; ; k++ {
			nm = g.Pick(idlTypeNames)
			if k > 3 {
				nm += string(rune('A'+g.Intn(26))) + string(rune('0'+g.Intn(10)))
			}
			if !used[nm] {
				break
			}
		}
		used[nm] = true
		kind := "AMMR"[g.Intn(4)]
		if i == n-1 && !hasMethod {
			kind = 'M'
		}
		m := gMember{kind: kind, name: nm}
		switch kind {
		case 'A':
			m.t1 = g.idlTy(depth, false)
		case 'M':
			hasMethod = true
			m.t1 = g.idlStruct(depth)
			m.t2 = g.idlStruct(depth)
		case 'R':
			if g.Chance(2, 3) {
				m.t1 = g.idlStruct(depth)
			}
		}
		d.members = append(d.members, m)
	}
	return d
}

// ---- bounded-exhaustive trees ---------------------------------------------------------------------

// idlSmallTypes lists every type with at most `budget` nodes over a one-name alphabet
// (fields a,b; named type T); structs and enums have at most 2 entries.
func idlSmallTypes(budget int) []*gTy {
	bySize := make([][]*gTy, budget+1)
	for n := 1; n <= budget; n++ {
		var out []*gTy
		if n == 1 {
			for _, k := range "bifso" {
				out = append(out, &gTy{kind: byte(k)})
			}
			out = append(out, &gTy{kind: 'n', name: "T"})
			out = append(out, &gTy{kind: 'S'})
			out = append(out, &gTy{kind: 'E', fields: []gField{{name: "a"}}})
			out = append(out, &gTy{kind: 'E', fields: []gField{{name: "a"}, {name: "b"}}})
		} else {
			for _, e := range bySize[n-1] {
				if e.kind != 'q' {
					out = append(out, &gTy{kind: 'q', elem: e})
				}
				out = append(out, &gTy{kind: 'a', elem: e})
				out = append(out, &gTy{kind: 'd', elem: e})
				out = append(out, &gTy{kind: 'S', fields: []gField{{name: "a", ty: e}}})
			}
			for k := 1; k <= n-2; k++ {
				for _, e1 := range bySize[k] {
					for _, e2 := range bySize[n-1-k] {
						out = append(out, &gTy{kind: 'S', fields: []gField{{name: "a", ty: e1}, {name: "b", ty: e2}}})
					}
				}
			}
		}
		bySize[n] = out
	}
	var all []*gTy
	for n := 1; n <= budget; n++ {
		all = append(all, bySize[n]...)
	}
	return all
}

// idlSmallTrees: every interface with one member of each admissible shape around every small type, plus all
// member-kind sequences of length ≤ 3 over trivial types (order and sub-list coverage).
func idlSmallTrees(budget int) []*gIdl {
	var out []*gIdl
	empty := &gTy{kind: 'S'}
	meth := func(name string, in, o *gTy) gMember { return gMember{kind: 'M', name: name, t1: in, t2: o} }
	for _, t := range idlSmallTypes(budget) {
		out = append(out, &gIdl{name: "a.b", members: []gMember{{kind: 'A', name: "A", t1: t}, meth("F", empty, empty)}})
		if t.kind == 'S' {
			out = append(out, &gIdl{name: "a.b", members: []gMember{meth("F", t, empty)}})
			out = append(out, &gIdl{name: "a.b", members: []gMember{meth("F", empty, t)}})
			out = append(out, &gIdl{name: "a.b", members: []gMember{meth("F", empty, empty), {kind: 'R', name: "E", t1: t}}})
		}
	}
	kinds := "AMRN" // N: error without type
	var rec func(prefix []byte)
	rec = func(prefix []byte) {
		if len(prefix) > 0 && strings.ContainsRune(string(prefix), 'M') {
			d := &gIdl{name: "a.b"}
			for i, k := range prefix {
				nm := string(rune('A' + i))
				switch k {
				case 'A':
					d.members = append(d.members, gMember{kind: 'A', name: nm, t1: &gTy{kind: 'i'}})
				case 'M':
					d.members = append(d.members, meth(nm, empty, empty))
				case 'R':
					d.members = append(d.members, gMember{kind: 'R', name: nm, t1: &gTy{kind: 'S', fields: []gField{{name: "a", ty: &gTy{kind: 'i'}}}}})
				case 'N':
					d.members = append(d.members, gMember{kind: 'R', name: nm})
				}
			}
			out = append(out, d)
		}
		if len(prefix) == 3 {
			return
		}
		for _, k := range kinds {
			rec(append(append([]byte{}, prefix...), byte(k)))
		}
	}
	rec(nil)
	return out
}

// ---- layouts ----------------------------------------------------------------------------------------

// gap classes (DESIGN.md Appendix B)
const (
	gapBeforeInterface  = iota // G0
	gapKeywordName             // G1 (non-empty)
	gapAfterIfaceName          // G2 (non-empty)
	gapBetweenMembers          // G3
	gapNameType                // G4
	gapArrow                   // G5
	gapErrorType               // G6
	gapAfterOpen               // G7
	gapColon                   // G8
	gapComma                   // G9
	gapBeforeClose             // G10
	gapEnd                     // G11
	gapIfaceKeywordName        // G1 of the `interface` keyword (tagged separately)
	numGapClasses
)

var gapClassNames = []string{"g0", "g1", "g2", "g3", "g4", "g5", "g6", "g7", "g8", "g9", "g10", "g11", "ig1"}

// layout atoms
var idlAtoms = []string{" ", "\t", "\r", "\n", "# text\n", "#text\n", "#\n", "# \n", "#  two\r\n", "\r\n", "#a#b\n", "# \xff\x00\n"}
var idlAtomNames = []string{"sp", "tab", "cr", "nl", "comment", "commentnosp", "commentempty", "commentspace", "commentcrlf", "crlf", "commenthash", "commentbin"}

// a layouter hands out the text of each gap
type layouter interface {
	gap(class int, nonEmpty bool) string
}

// minimal canonical layout: exactly what the canonical printer emits
type minimalLayout struct{}

func (minimalLayout) gap(class int, nonEmpty bool) string {
	switch class {
	case gapKeywordName, gapIfaceKeywordName, gapArrow, gapErrorType:
		return " "
	case gapAfterIfaceName, gapBetweenMembers, gapEnd:
		return "\n"
	case gapNameType:
		if nonEmpty {
			return " "
		}
		return ""
	}
	if nonEmpty {
		return " "
	}
	return ""
}

// poolLayout: one class gets a fixed atom string in every gap of that class, all others are minimal
type poolLayout struct {
	class int
	text  string
}

func (p poolLayout) gap(class int, nonEmpty bool) string {
	if class == p.class {
		if nonEmpty && p.text == "" {
			return " "
		}
		return p.text
	}
	return minimalLayout{}.gap(class, nonEmpty)
}

// a layouter that also chooses the comment without newline at the very end of the text
type finalCommenter interface {
	final() string
}

// endLayout: the end of the text — the gap behind the last member and a last comment without newline — is
// fixed, everything else minimal (input ending right behind an error's name, behind blanks, inside a comment)
type endLayout struct {
	gapText, comment string
}

func (l endLayout) gap(class int, nonEmpty bool) string {
	if class == gapEnd {
		return l.gapText
	}
	return minimalLayout{}.gap(class, nonEmpty)
}

func (l endLayout) final() string { return l.comment }

// pairLayout: two classes get fixed texts (e.g. a line break in front of an error's parameter list and the next
// member on the line of the closing parenthesis)
type pairLayout struct {
	c1 int
	t1 string
	c2 int
	t2 string
}

func (p pairLayout) gap(class int, nonEmpty bool) string {
	t, hit := "", false
	if class == p.c1 {
		t, hit = p.t1, true
	} else if class == p.c2 {
		t, hit = p.t2, true
	}
	if hit {
		if nonEmpty && t == "" {
			return " "
		}
		return t
	}
	return minimalLayout{}.gap(class, nonEmpty)
}

// randomLayout draws every gap independently
type randomLayout struct {
	g       *Rng
	density int  // chance (of 8) that a gap gets extra atoms
	crlf    bool // newlines are CRLF
	inline  int  // chance (of 8) that a member does not start on a new line
	used    map[string]bool
}

func (r *randomLayout) gap(class int, nonEmpty bool) string {
	base := minimalLayout{}.gap(class, nonEmpty)
	var b strings.Builder
	n := 0
	if r.g.Chance(r.density, 8) {
		n = 1 + r.g.Intn(3)
	}
	for i := 0; i < n; i++ {
		b.WriteString(idlAtoms[r.g.Intn(len(idlAtoms))])
	}
	if class == gapAfterIfaceName || class == gapBetweenMembers || class == gapEnd {
		// keep the members on lines of their own most of the time
		inline := r.inline
		if inline == 0 {
			inline = 1
		}
		if !r.g.Chance(inline, 8) {
			b.WriteString(base)
		}
	} else if r.g.Chance(1, 2) {
		b.WriteString(base)
	}
	s := b.String()
	if nonEmpty && s == "" {
		s = base
	}
	if r.crlf {
		s = strings.ReplaceAll(strings.ReplaceAll(s, "\r\n", "\n"), "\n", "\r\n")
	}
	return s
}

// ---- rendering ----------------------------------------------------------------------------------------

type idlRender struct {
	b        strings.Builder
	lay      layouter
	kwOffset []int // offset of each member keyword
	ifaceKw  int
	gapFlags map[string]bool // feature tags: which atom kinds occurred in which class
	lastGap  string
}

func (r *idlRender) emitGap(class int, nonEmpty bool) {
	s := r.lay.gap(class, nonEmpty)
	r.noteGap(class, s)
	r.lastGap = s
	r.b.WriteString(s)
}

func (r *idlRender) noteGap(class int, s string) {
	if (class == gapBetweenMembers || class == gapAfterIfaceName) && !strings.Contains(s, "\n") {
		// the member does not start on a new line
		r.gapFlags["g3=inline"] = true
	}
	if class != gapErrorType && class != gapIfaceKeywordName {
		return
	}
	name := gapClassNames[class]
	if hasOwnLineComment(s) {
		r.gapFlags[name+"=ownlinecomment"] = true
	}
	if strings.Contains(s, "#") {
		r.gapFlags[name+"=comment"] = true
	} else if strings.Contains(s, "\n") {
		r.gapFlags[name+"=nl"] = true
	} else if strings.Contains(s, "\r") {
		r.gapFlags[name+"=cr"] = true
	}
}

// hasOwnLineComment: the gap text contains a comment on a line of its own (behind a line break of the gap, only
// blanks in front of the '#')
func hasOwnLineComment(s string) bool {
	for i := 0; i < len(s); i++ {
		if s[i] != '\n' {
			continue
		}
		j := i + 1
		for j < len(s) && isBlankByte(s[j]) {
			j++
		}
		if j < len(s) && s[j] == '#' {
			return true
		}
	}
	return false
}

func startsAlnum(s string) bool {
	if s == "" {
		return false
	}
	c := s[0]
	return c >= 'a' && c <= 'z' || c >= 'A' && c <= 'Z' || c >= '0' && c <= '9'
}

func (r *idlRender) ty(t *gTy) {
	switch t.kind {
	case 'b':
		r.b.WriteString("bool")
	case 'i':
		r.b.WriteString("int")
	case 'f':
		r.b.WriteString("float")
	case 's':
		r.b.WriteString("string")
	case 'o':
		r.b.WriteString("object")
	case 'n':
		r.b.WriteString(t.name)
	case 'q':
		r.b.WriteString("?")
		r.ty(t.elem)
	case 'a':
		r.b.WriteString("[]")
		r.ty(t.elem)
	case 'd':
		r.b.WriteString("[string]")
		r.ty(t.elem)
	case 'S', 'E':
		r.b.WriteString("(")
		r.emitGap(gapAfterOpen, false)
		for i, f := range t.fields {
			if i > 0 {
				r.emitGap(gapComma, false)
				r.b.WriteString(",")
				r.emitGap(gapComma, false)
			}
			r.b.WriteString(f.name)
			if f.ty != nil {
				r.emitGap(gapColon, false)
				r.b.WriteString(":")
				r.emitGap(gapColon, false)
				r.ty(f.ty)
			}
		}
		if len(t.fields) > 0 {
			r.emitGap(gapBeforeClose, false)
		}
		r.b.WriteString(")")
	}
}

func tyStartsAlnum(t *gTy) bool {
	switch t.kind {
	case 'b', 'i', 'f', 's', 'o', 'n':
		return true
	}
	return false
}

// tyEndsAlnum: the last byte of the rendering is a name character
func tyEndsAlnum(t *gTy) bool {
	switch t.kind {
	case 'b', 'i', 'f', 's', 'o', 'n':
		return true
	case 'q', 'a', 'd':
		return tyEndsAlnum(t.elem)
	}
	return false
}

// renderIdl renders d under lay. finalComment (may be empty) is appended verbatim at the very end
// (a comment without a newline).
func renderIdl(d *gIdl, lay layouter, finalComment string) *idlRender {
	r := &idlRender{lay: lay, gapFlags: map[string]bool{}}
	r.emitGap(gapBeforeInterface, false)
	r.ifaceKw = r.b.Len()
	r.b.WriteString("interface")
	r.emitGap(gapIfaceKeywordName, true)
	r.b.WriteString(d.name)
	prevEndsAlnum := true
	for i := range d.members {
		m := &d.members[i]
		if i == 0 {
			r.emitGap(gapAfterIfaceName, true)
		} else {
			r.emitGap(gapBetweenMembers, prevEndsAlnum)
			if p := d.members[i-1]; p.kind == 'R' && p.t1 == nil && strings.Trim(r.lastGap, " \t") == "" {
				// the next keyword follows an error without a type on the same line, separated by blanks only
				r.gapFlags["g3err=inline"] = true
			}
		}
		r.kwOffset = append(r.kwOffset, r.b.Len())
		switch m.kind {
		case 'A':
			r.b.WriteString("type")
			r.emitGap(gapKeywordName, true)
			r.b.WriteString(m.name)
			r.emitGap(gapNameType, tyStartsAlnum(m.t1))
			r.ty(m.t1)
			prevEndsAlnum = tyEndsAlnum(m.t1)
		case 'M':
			r.b.WriteString("method")
			r.emitGap(gapKeywordName, true)
			r.b.WriteString(m.name)
			r.emitGap(gapNameType, tyStartsAlnum(m.t1))
			r.ty(m.t1)
			r.emitGap(gapArrow, false)
			r.b.WriteString("->")
			r.emitGap(gapArrow, false)
			r.ty(m.t2)
			prevEndsAlnum = tyEndsAlnum(m.t2)
		case 'R':
			r.b.WriteString("error")
			r.emitGap(gapKeywordName, true)
			r.b.WriteString(m.name)
			if m.t1 != nil {
				r.emitGap(gapErrorType, tyStartsAlnum(m.t1))
				r.ty(m.t1)
				prevEndsAlnum = tyEndsAlnum(m.t1)
			} else {
				prevEndsAlnum = true
			}
		}
	}
	r.emitGap(gapEnd, false)
	if n := len(d.members); n > 0 && d.members[n-1].kind == 'R' && d.members[n-1].t1 == nil {
		// the text ends behind an error without parameters: directly, behind layout, inside a last comment
		switch {
		case finalComment != "":
			r.gapFlags["errend=comment"] = true
		case r.lastGap == "":
			r.gapFlags["errend=eof"] = true
		default:
			r.gapFlags["errend=layout"] = true
		}
	}
	r.b.WriteString(finalComment)
	return r
}

// ---- expected documentation -----------------------------------------------------------------------------

func isBlankByte(c byte) bool { return c == ' ' || c == '\t' || c == '\r' }

// docAbove is the specification of a member's documentation (property C05: "a block of comment lines directly
// above a member becomes that member's documentation"): the maximal block of whole-line comments (only blanks
// before the '#') directly above the line on which the keyword at offset kw stands. Per comment line the text
// after '#', minus one optional leading space, minus a trailing CR; lines joined by "\n", where empty comment
// lines at the top of the block are dropped (the separator is written only once something was collected).
// For a keyword that is not the first token on its line this still is the block above that line.
func docAbove(text string, kw int) (doc string) {
	ls := kw
	for ls > 0 && text[ls-1] != '\n' {
		ls--
	}
	var lines []string
	for ls > 0 {
		// previous line is text[pls:ls-1]
		end := ls - 1
		pls := end
		for pls > 0 && text[pls-1] != '\n' {
			pls--
		}
		i := pls
		for i < end && isBlankByte(text[i]) {
			i++
		}
		if i >= end || text[i] != '#' {
			break
		}
		c := text[i+1 : end]
		if strings.HasPrefix(c, " ") {
			c = c[1:]
		}
		if strings.HasSuffix(c, "\r") {
			c = c[:len(c)-1]
		}
		lines = append([]string{c}, lines...)
		ls = pls
	}
	for _, c := range lines {
		if doc != "" {
			doc += "\n"
		}
		doc += c
	}
	return doc
}

// expectedOf fills in the documentation the text gives to the interface and to every member and returns
// feature tags describing the layout classes around an error's name (former known findings of C05: the gap in
// front of the parameter list, a member on the line of an error without parameters, the end of the text).
func expectedOf(d *gIdl, r *idlRender) (text string, tags []string) {
	text = r.b.String()
	d.doc = docAbove(text, r.ifaceKw)
	for i := range d.members {
		d.members[i].doc = docAbove(text, r.kwOffset[i])
	}
	for _, k := range []string{"g6=nl", "g6=cr", "g6=comment", "g6=ownlinecomment", "ig1=nl", "ig1=comment", "g3=inline", "g3err=inline",
		"errend=eof", "errend=layout", "errend=comment"} {
		if r.gapFlags[k] {
			tags = append(tags, k)
		}
	}
	return
}
