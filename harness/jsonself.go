package main

// jsonself — the model of encoding/json (lean/Varlink/Json.lean) against the real package, on its own:
// generated documents (all escape forms, lone and paired surrogate escapes, invalid UTF-8, numbers of
// every shape, whitespace, nesting up to and beyond the decoder's limit), byte mutations of them and
// random bytes. Observed per text: json.Valid, and for valid texts the re-marshalling of the decoded
// value (numbers kept as literals, map keys sorted by the encoder, last duplicate key wins).

import (
	"bytes"
	"encoding/json"
	"fmt"
)

func (g *Rng) jsonSelfText() []byte {
	k := g.Intn(12)
	if k < 2 && !g.Chance(1, 150) {
		k = 2 + g.Intn(10) // documents at the nesting limit are slow in the model (quadratic render): keep them rare
	}
	switch k {
	case 0:
		return []byte(deepValue(g.Pick3(9999, 10000, 10001), "[", "]", g.Pick([]string{"", "1", `"x"`})))
	case 1:
		return []byte(deepValue(g.Pick3(9999, 10000, 10001), `{"a":`, "}", "null"))
	case 2:
		n := g.Intn(24)
		b := make([]byte, n)
		for i := range b {
			b[i] = byte(g.Intn(256))
		}
		return b
	case 3:
		// number-like garbage
		return []byte(g.Pick([]string{"01", "1.", ".5", "-", "+1", "1e", "1e+", "0x10", "1_000", "--1", "1.e1", "00", "-00", "1E400", "-0.0e-0", "Infinity", "NaN"}))
	case 4:
		// escapes: lone surrogates, bad hex, unknown escapes, raw controls
		return []byte(`"` + g.Pick([]string{`\ud800`, `\udc00`, `\ud800A`, `😀`, `\ud800\ud800`, `\u12g4`, `\u123`, `\x41`, `\'`, "a\tb", "a\x00b", `\u0000`, `\/`, `\b\f\n\r\t`, "\xff", "\xc0\x80", "\xed\xa0\x80", "\xf4\x90\x80\x80", "\xe2\x80", "\xe2\x80\xa8", " "}) + `"`)
	case 5, 6:
		f := []byte(g.jsonValue(3))
		for k := 0; k < 1+g.Intn(2) && len(f) > 0; k++ {
			p := g.Intn(len(f))
			switch g.Intn(3) {
			case 0:
				f[p] = byte(g.Intn(256))
			case 1:
				f = append(f[:p], f[p+1:]...)
			default:
				f[p] = mutChars[g.Intn(len(mutChars))]
			}
		}
		return f
	default:
		return []byte(g.ws() + g.jsonValue(4) + g.ws())
	}
}

func init() {
	commands["jsonself"] = func(e *env) error {
		return e.each(func(i int, g *Rng) error {
			b := g.jsonSelfText()
			valid := json.Valid(b)
			var out []byte
			ok := false
			if valid {
				dec := json.NewDecoder(bytes.NewReader(b))
				dec.UseNumber()
				var x interface{}
				if err := dec.Decode(&x); err == nil {
					if o, err := json.Marshal(x); err == nil {
						out, ok = o, true
					}
				}
			}
			l := &Line{}
			l.S("jsonself").B(b).S("|").Bool(valid).Bool(ok).B(out)
			fmt.Fprintln(e.out, l.String())
			return nil
		})
	}
}
