package main

import (
	"bufio"
	"bytes"
	"context"
	"fmt"
	"io"
	"net"
	"os"
	"strings"
	"sync/atomic"
	"time"

	"github.com/varlink/go/varlink"
	"github.com/varlink/go/varlink/internal/ctxio"
)

// cancel (C17), part 2: real transports.  A peer that stays silent (it would for 10 s and more), the
// context cancelled or its deadline passing 30 ms into the blocked operation; the operation has to
// return within 2 s (one-sided margin) with a context / timeout error, leave no goroutine behind, and
// the same connection has to work again with a live context.

type cancelX struct{ transport, api, mode string }

func cancelXCases() []cancelX {
	var out []cancelX
	for _, tr := range []string{"pipe", "unix", "tcp"} {
		for _, api := range []string{"readbytes", "read", "write"} {
			for _, m := range []string{"cancel", "deadline"} {
				out = append(out, cancelX{tr, api, m})
			}
		}
	}
	for _, tr := range []string{"unix", "tcp", "bridge"} {
		for _, api := range []string{"call", "send"} {
			for _, m := range []string{"cancel", "deadline"} {
				out = append(out, cancelX{tr, api, m})
			}
		}
	}
	for _, tr := range []string{"unix", "tcp"} {
		for _, m := range []string{"cancel", "deadline"} {
			out = append(out, cancelX{tr, "service", m})
		}
	}
	return out
}

var cxSeq int64

// silentPeer reads NUL-terminated frames; the first `ignore` frames get no answer, later ones a reply.
// With noRead it does not read at all until release is closed.  `say` lets the test make it send bytes.
type silentPeer struct {
	conn    net.Conn
	ignore  int
	noRead  bool
	release chan struct{}
}

func (p *silentPeer) run() {
	if p.noRead {
		<-p.release
	}
	rd := bufio.NewReader(p.conn)
	n := 0
	for {
		f, err := rd.ReadBytes(0)
		if err != nil {
			return
		}
		n++
		// the call that is to be given up (`…silent.First`) is never answered, the follow-up (`…silent.Second`) always:
		// under load the context can end before the given-up call has written anything, and then the follow-up is
		// the first frame this peer sees (counting frames made the oracle depend on that race)
		if bytes.Contains(f, []byte("silent.First\"")) {
			continue
		}
		if n > p.ignore || bytes.Contains(f, []byte("silent.Second\"")) {
			p.conn.Write([]byte("{\"parameters\":{}}\x00"))
		}
	}
}

// pair returns a connected (client side, peer side) pair over the transport.
func connPair(transport string) (net.Conn, net.Conn, string, func(), error) {
	switch transport {
	case "pipe":
		a, b := net.Pipe()
		return a, b, "", func() {}, nil
	case "unix", "tcp":
		network, addr := "unix", fmt.Sprintf("@verif-cx-%d-%d", os.Getpid(), atomic.AddInt64(&cxSeq, 1))
		if transport == "tcp" {
			network, addr = "tcp", "127.0.0.1:0"
		}
		l, err := net.Listen(network, addr)
		if err != nil {
			return nil, nil, "", nil, err
		}
		acc := make(chan net.Conn, 1)
		go func() { c, _ := l.Accept(); acc <- c }()
		a, err := net.Dial(network, l.Addr().String())
		if err != nil {
			l.Close()
			return nil, nil, "", nil, err
		}
		b := <-acc
		return a, b, network + ":" + l.Addr().String(), func() { l.Close() }, nil
	}
	return nil, nil, "", nil, fmt.Errorf("unknown transport")
}

func errClass(err error) string {
	switch {
	case err == nil:
		return "nil"
	case err == context.Canceled, err == context.DeadlineExceeded:
		return "ctx"
	case isTimeout(err), os.IsTimeout(err):
		return "timeout"
	case err == io.EOF, err == io.ErrUnexpectedEOF:
		return "eof"
	}
	s := err.Error()
	if len(s) > 40 {
		s = s[:40]
	}
	return "other:" + strings.Map(func(r rune) rune {
		if r == ' ' || r == '\n' || r == '\t' || r == '|' {
			return '_'
		}
		return r
	}, s)
}

const cxCancelAfter = 30 * time.Millisecond

// timed runs op with a context that is cancelled / expires cxCancelAfter from now; returns the verdict
// token (fast | slow | early), and the error class.
func timed(mode string, op func(ctx context.Context) error) (string, string) {
	var ctx context.Context
	var cancel context.CancelFunc
	start := time.Now()
	if mode == "deadline" {
		ctx, cancel = context.WithTimeout(context.Background(), cxCancelAfter)
	} else {
		ctx, cancel = context.WithCancel(context.Background())
		time.AfterFunc(cxCancelAfter, cancel)
	}
	defer cancel()
	done := make(chan error, 1)
	go func() { done <- op(ctx) }()
	select {
	case err := <-done:
		el := time.Since(start)
		switch {
		case el < cxCancelAfter-5*time.Millisecond:
			return "early", errClass(err)
		case el-cxCancelAfter < 2*time.Second:
			return "fast", errClass(err)
		}
		return "slow", errClass(err)
	case <-time.After(cxCancelAfter + 4*time.Second):
		return "slow", "none"
	}
}

// runCancelX never hangs: a case that does not finish within 20 s is reported as such (the goroutines of
// the stuck operation are abandoned).
func runCancelX(c cancelX) string {
	l := runCancelXOnce(c)
	if strings.Contains(l, "| slow ") {
		// the 2 s margin is one-sided and generous, but a machine loaded far beyond its cores can still stall a
		// process that long (seen once in 1 632 cases with 24 harness processes at once): an operation that ignores
		// its context is slow every time, so the case is run once more, alone, and that outcome is reported
		time.Sleep(500 * time.Millisecond)
		l = runCancelXOnce(c)
	}
	return l
}

func runCancelXOnce(c cancelX) string {
	done := make(chan string, 1)
	go func() { done <- runCancelXInner(c) }()
	select {
	case l := <-done:
		return l
	case <-time.After(20 * time.Second):
		l := &Line{}
		l.S("cancel").S("x").S(c.transport).S(c.api).S(c.mode).S("|").S("watchdog").S("none").N(0).S("na")
		return l.String()
	}
}

func runCancelXInner(c cancelX) string {
	verdict, ec, reuse := "setup", "none", "na"
	base := stableGoroutines()
	gdelta := 0
	var cleanup []func()
	// the follow-up operations run under a context WITHOUT a deadline (a watchdog cancels it after 3 s): whatever
	// deadline the given-up operation left on the transport must have been cleared, not merely replaced
	live := func() (context.Context, context.CancelFunc) {
		ctx, cancel := context.WithCancel(context.Background())
		t := time.AfterFunc(3*time.Second, cancel)
		return ctx, func() { t.Stop(); cancel() }
	}
	switch c.api {
	case "readbytes", "read", "write":
		a, b, _, closeL, err := connPair(c.transport)
		if err != nil {
			ec = errClass(err)
			break
		}
		cleanup = append(cleanup, func() { a.Close(); b.Close(); closeL() })
		cx := ctxio.NewConn(a)
		base = stableGoroutines()
		switch c.api {
		case "readbytes":
			verdict, ec = timed(c.mode, func(ctx context.Context) error { _, err := cx.ReadBytes(ctx, 0); return err })
		case "read":
			verdict, ec = timed(c.mode, func(ctx context.Context) error { _, err := cx.Read(ctx, make([]byte, 16)); return err })
		case "write":
			verdict, ec = timed(c.mode, func(ctx context.Context) error { _, err := cx.Write(ctx, make([]byte, 8<<20)); return err })
		}
		gdelta = settleGoroutines(base)
		if c.api != "write" && verdict == "fast" {
			go b.Write([]byte("pong\x00raw"))
			lctx, lc := live()
			f, e1 := cx.ReadBytes(lctx, 0)
			p := make([]byte, 16)
			n, e2 := cx.Read(lctx, p)
			lc()
			reuse = "fail"
			if e1 == nil && e2 == nil && string(f) == "pong\x00" && string(p[:n]) == "raw" {
				reuse = "ok"
			}
		}
	case "call", "send":
		var conn *varlink.Connection
		var err error
		release := make(chan struct{})
		if c.transport == "bridge" {
			self, _ := os.Executable()
			arg := "1"
			if c.api == "send" {
				arg = "0" // -n 0: never read
			}
			conn, err = varlink.NewBridgeWithStderr(self+" bridgepeer -n "+arg, io.Discard)
			if err == nil {
				cleanup = append(cleanup, func() { go conn.Close() })
			}
		} else {
			network, addr := "unix", fmt.Sprintf("@verif-cx-%d-%d", os.Getpid(), atomic.AddInt64(&cxSeq, 1))
			if c.transport == "tcp" {
				network, addr = "tcp", "127.0.0.1:0"
			}
			var l net.Listener
			l, err = net.Listen(network, addr)
			if err == nil {
				go func() {
					pc, e := l.Accept()
					if e != nil {
						return
					}
					(&silentPeer{conn: pc, ignore: 1, noRead: c.api == "send", release: release}).run()
					pc.Close()
				}()
				lctx, lc := live()
				conn, err = varlink.NewConnection(lctx, network+":"+l.Addr().String())
				lc()
				cleanup = append(cleanup, func() {
					close(release)
					l.Close()
					if conn != nil {
						conn.Close()
					}
				})
			}
		}
		if err != nil {
			ec = errClass(err)
			break
		}
		time.Sleep(5 * time.Millisecond)
		base = stableGoroutines()
		if c.api == "call" {
			verdict, ec = timed(c.mode, func(ctx context.Context) error {
				var out map[string]interface{}
				return conn.Call(ctx, "org.verif.silent.First", nil, &out)
			})
			gdelta = settleGoroutines(base)
			if verdict == "fast" {
				lctx, lc := live()
				var out map[string]interface{}
				e := conn.Call(lctx, "org.verif.silent.Second", nil, &out)
				lc()
				reuse = "fail"
				if e == nil {
					reuse = "ok"
				}
			}
		} else {
			big := strings.Repeat("x", 8<<20)
			verdict, ec = timed(c.mode, func(ctx context.Context) error {
				_, err := conn.Send(ctx, "org.verif.silent.Big", map[string]string{"p": big}, 0)
				return err
			})
			gdelta = settleGoroutines(base)
		}
	case "service":
		svc, err := varlink.NewService("verif", "cancel", "1", "http://verif")
		if err != nil {
			break
		}
		addr := fmt.Sprintf("unix:@verif-cxs-%d-%d", os.Getpid(), atomic.AddInt64(&cxSeq, 1))
		if c.transport == "tcp" {
			addr = "tcp:127.0.0.1:0"
		}
		var ctx context.Context
		var cancel context.CancelFunc
		if c.mode == "deadline" {
			ctx, cancel = context.WithTimeout(context.Background(), 60*time.Millisecond)
		} else {
			ctx, cancel = context.WithCancel(context.Background())
		}
		served := make(chan error, 1)
		go func() { served <- svc.Listen(ctx, addr, 0) }()
		var l net.Listener
		for i := 0; i < 2000 && l == nil; i++ {
			l, _ = svc.GetListener()
			if l == nil {
				time.Sleep(200 * time.Microsecond)
			}
		}
		if l == nil {
			cancel()
			ec = "no-listener"
			break
		}
		nc, err := net.Dial(l.Addr().Network(), l.Addr().String())
		if err != nil {
			cancel()
			ec = errClass(err)
			break
		}
		// the handler answers one call, then sits in its per-connection read
		nc.Write([]byte("{\"method\":\"org.varlink.service.GetInfo\"}\x00"))
		rd := bufio.NewReader(nc)
		rd.ReadBytes(0)
		start := time.Now()
		if c.mode == "cancel" {
			time.Sleep(cxCancelAfter)
			start = time.Now()
			cancel()
		} else {
			start = start.Add(60 * time.Millisecond)
		}
		nc.SetReadDeadline(time.Now().Add(5 * time.Second))
		_, rerr := rd.ReadBytes(0)
		el := time.Since(start)
		verdict = "slow"
		if !isTimeout(rerr) && el < 2*time.Second {
			verdict = "fast"
		}
		// what the client sees is the close of the connection by the cancelled handler
		if rerr == io.EOF {
			ec = "ctx"
		} else {
			ec = errClass(rerr)
		}
		nc.Close()
		cancel()
		done := false
		for i := 0; i < 1000 && !done; i++ {
			svc.Shutdown()
			select {
			case <-served:
				done = true
			case <-time.After(2 * time.Millisecond):
			}
		}
		if !done {
			verdict = "serve-timeout"
		}
		gdelta = settleGoroutines(base)
	}
	go func() {
		for _, f := range cleanup {
			f()
		}
	}()
	l := &Line{}
	l.S("cancel").S("x").S(c.transport).S(c.api).S(c.mode).S("|").S(verdict).S(ec).N(gdelta).S(reuse)
	return l.String()
}

func init() {
	// child of the bridge transport: -n K answers every frame after the first K; -n 0 never reads
	commands["bridgepeer"] = func(e *env) error {
		if e.n <= 0 {
			time.Sleep(4 * time.Second)
			return nil
		}
		(&silentPeer{conn: stdioConn{}, ignore: e.n}).run()
		return nil
	}
}

type stdioConn struct{}

func (stdioConn) Read(p []byte) (int, error)         { return os.Stdin.Read(p) }
func (stdioConn) Write(p []byte) (int, error)        { return os.Stdout.Write(p) }
func (stdioConn) Close() error                       { return nil }
func (stdioConn) LocalAddr() net.Addr                { return fakeAddr{} }
func (stdioConn) RemoteAddr() net.Addr               { return fakeAddr{} }
func (stdioConn) SetDeadline(t time.Time) error      { return nil }
func (stdioConn) SetReadDeadline(t time.Time) error  { return nil }
func (stdioConn) SetWriteDeadline(t time.Time) error { return nil }
