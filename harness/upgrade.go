package main

// C18 end to end — upgraded calls: after the request (service side) respectively the reply (client
// side) frame, both parties continue on the same connection object with raw reads. The payload of the
// upgraded protocol is sent coalesced with the preceding frame (one write) or separately, and is read
// with buffers of various sizes (below, at and above the 4096-byte reader buffer).
//
//   svc : real Service + handler reading through Call.Conn;   peer = raw client (frame and payload in one write)
//   cli : real Connection.Upgrade + reads through the returned ReadWriterContext;   peer = raw server (reply and payload in one write)
//   both: real Connection <-> real Service, payload in both directions

import (
	"context"
	"encoding/json"
	"fmt"
	"io"
	"net"
	"time"

	"github.com/varlink/go/varlink"
)

type upIface struct {
	bufSizes []int
	want     int
	send     []byte
	got      chan []byte
	// how long the handler waits for the payload (0 = 3 s)
	readTimeout time.Duration
}

func (u *upIface) VarlinkGetName() string { return "org.example.up" }
func (u *upIface) VarlinkGetDescription() string {
	return "interface org.example.up\nmethod Up() -> ()\n"
}
func (u *upIface) VarlinkDispatch(ctx context.Context, c varlink.Call, method string) error {
	if !c.WantsUpgrade() {
		return c.ReplyInvalidParameter(ctx, "upgrade")
	}
	if err := c.Reply(ctx, json.RawMessage(`{"ok":true}`)); err != nil {
		return err
	}
	if len(u.send) > 0 {
		if _, err := c.Conn.Write(ctx, u.send); err != nil {
			return err
		}
	}
	rt := u.readTimeout
	if rt == 0 {
		rt = 3 * time.Second
	}
	rctx, cancel := context.WithTimeout(ctx, rt)
	defer cancel()
	u.got <- readN(rctx, c.Conn, u.want, u.bufSizes)
	return fmt.Errorf("upgraded connection finished")
}

// readN reads until want bytes have arrived (or an error), cycling through the given buffer sizes.
func readN(ctx context.Context, rw varlink.ReadWriterContext, want int, sizes []int) []byte {
	var out []byte
	for k := 0; len(out) < want; k++ {
		buf := make([]byte, sizes[k%len(sizes)])
		n, err := rw.Read(ctx, buf)
		out = append(out, buf[:n]...)
		if err != nil {
			break
		}
	}
	return out
}

func (g *Rng) rawPayload(n int) []byte {
	b := make([]byte, n)
	for i := range b {
		b[i] = byte(g.Intn(256))
	}
	return b
}

func init() {
	commands["upgrade"] = func(e *env) error {
		slow := 0
		return e.each(func(i int, g *Rng) error {
			if slow >= 5 {
				return nil // enough failing (timed-out) cases to report
			}
			t0 := time.Now()
			defer func() {
				if time.Since(t0) > 2*time.Second {
					slow++
				}
			}()
			ctx := context.Background()
			scenario := []string{"svc", "cli", "both", "cliwf"}[i%4]
			coalesced := g.Chance(2, 3)
			n := []int{1, 7, 100, 4000, 4096, 5000, 20000}[g.Intn(7)]
			sizes := [][]int{{1}, {16}, {512}, {4096}, {32768}, {3, 4096, 1, 70000}, {4095, 4097}}[g.Intn(7)]
			toSvc := g.rawPayload(n)
			toCli := g.rawPayload([]int{0, 1, 9, 4096, 6000}[g.Intn(5)])
			var gotSvc, gotCli []byte
			l := &Line{}
			switch scenario {
			case "svc", "both":
				u := &upIface{bufSizes: sizes, want: len(toSvc), send: toCli, got: make(chan []byte, 1)}
				if scenario == "svc" {
					u.send = nil
					toCli = nil
				}
				svc, err := varlink.NewService("up", "p", "1", "u")
				if err != nil {
					return err
				}
				if err := svc.RegisterInterface(u); err != nil {
					return err
				}
				addr := fmt.Sprintf("@verif-up-%d-%d-%d", e.seed, i, time.Now().UnixNano()%1000000)
				if err := svc.Bind(ctx, "unix:"+addr); err != nil {
					return err
				}
				done := make(chan error, 1)
				go func() { done <- svc.DoListen(ctx, 0) }()
				for t := 0; t < 3000; t++ {
					if running, _, _, _ := svc.VerifState(); running {
						break
					}
					time.Sleep(time.Millisecond)
				}
				if scenario == "svc" {
					conn, err := net.Dial("unix", addr)
					if err != nil {
						return err
					}
					frame := []byte(`{"method":"org.example.up.Up","upgrade":true}` + "\x00")
					if coalesced {
						conn.Write(append(append([]byte{}, frame...), toSvc...))
					} else {
						conn.Write(frame)
						time.Sleep(2 * time.Millisecond)
						conn.Write(toSvc)
					}
					select {
					case gotSvc = <-u.got:
					case <-time.After(5 * time.Second):
					}
					conn.Close()
				} else {
					c, err := varlink.NewConnection(ctx, "unix:"+addr)
					if err != nil {
						return err
					}
					receive, err := c.Upgrade(ctx, "org.example.up.Up", nil)
					if err != nil {
						return err
					}
					var out json.RawMessage
					_, rw, err := receive(ctx, &out)
					if err == nil {
						rw.Write(ctx, toSvc)
						rctx, cancel := context.WithTimeout(ctx, 3*time.Second)
						gotCli = readN(rctx, rw, len(toCli), sizes)
						cancel()
					}
					select {
					case gotSvc = <-u.got:
					case <-time.After(5 * time.Second):
					}
					c.Close()
				}
				svc.Shutdown()
				select {
				case <-done:
				case <-time.After(5 * time.Second):
				}
			case "cli", "cliwf":
				toSvc = nil
				toCli = g.rawPayload(n)
				ln, err := net.Listen("unix", fmt.Sprintf("@verif-upc-%d-%d-%d", e.seed, i, time.Now().UnixNano()%1000000))
				if err != nil {
					return err
				}
				go func() {
					s, err := ln.Accept()
					if err != nil {
						return
					}
					defer s.Close()
					buf := make([]byte, 4096)
					// read the request frame up to its NUL
					for {
						k, err := s.Read(buf)
						if err != nil || (k > 0 && buf[k-1] == 0) {
							break
						}
					}
					reply := []byte(`{"parameters":{"ok":true}}` + "\x00")
					if coalesced {
						s.Write(append(append([]byte{}, reply...), toCli...))
					} else {
						s.Write(reply)
						time.Sleep(2 * time.Millisecond)
						s.Write(toCli)
					}
					if scenario == "cliwf" {
						// the peer hangs up right after sending: what it sent is still to be delivered, whatever
						// happens to the client's own writes in the meantime
						return
					}
					io.Copy(io.Discard, s)
				}()
				c, err := varlink.NewConnection(ctx, "unix:"+ln.Addr().String())
				if err != nil {
					return err
				}
				receive, err := c.Upgrade(ctx, "org.example.up.Up", nil)
				if err == nil {
					var out json.RawMessage
					_, rw, err := receive(ctx, &out)
					if err == nil {
						if scenario == "cliwf" {
							// write until the transport reports that the peer is gone
							for k := 0; k < 200; k++ {
								wctx, wc := context.WithTimeout(ctx, time.Second)
								_, werr := rw.Write(wctx, []byte("anybody there?"))
								wc()
								if werr != nil {
									break
								}
								time.Sleep(time.Millisecond)
							}
						}
						rctx, cancel := context.WithTimeout(ctx, 3*time.Second)
						gotCli = readN(rctx, rw, len(toCli), sizes)
						cancel()
					}
				}
				c.Close()
				ln.Close()
			}
			l.S("upgrade").S(scenario).Bool(coalesced).N(len(sizes))
			for _, z := range sizes {
				l.N(z)
			}
			l.B(toSvc).B(toCli).S("|").B(gotSvc).B(gotCli)
			fmt.Fprintln(e.out, l.String())
			return nil
		})
	}
}
