package main

// scale — the properties have no size or count bounds; the other streams stay small so that the Lean
// driver can replay every case. These scenarios push one dimension far beyond that, between the real
// client and the real service over a unix socket, and evaluate the (simple) oracle here in Go; the
// driver reads the verdict.
//
//   scale hugeframe <bytes>   one call whose parameters carry a string of that size and whose reply
//                             returns it: both must arrive unchanged (sizes around 4 MiB and 16 MiB)
//   scale manyconns <n>       n connections open at the same time, each answered, none disturbed
//   scale manycalls <n>       n calls one after the other on one connection, every reply the right one
//   scale manymore <n>        one `more` call answered by n replies: all arrive in order, all but the last
//                             flagged continues
//
//   scale closetwice <n>      a client connection is closed twice (the second Close only reports an error), then n
//                             connections are open at the same time, each making its own calls: every connection
//                             gets exactly the replies to its own calls
//   scale overlap <bytes>     two connections whose big replies are under way at the same time (the first client
//                             reads late, so that its reply is still being written while the second one is
//                             encoded): each client gets its own reply unchanged
//
//   line: scale <scenario> <n> | <bad> <first-problem>

import (
	"context"
	"crypto/sha256"
	"encoding/json"
	"fmt"
	"strings"
	"sync"
	"time"

	"github.com/varlink/go/varlink"
)

type scaleIface struct {
	mu      sync.Mutex
	gotLen  int
	gotHash [32]byte
	count   int
}

func (s *scaleIface) VarlinkGetName() string { return "org.example.scale" }
func (s *scaleIface) VarlinkGetDescription() string {
	return "interface org.example.scale\nmethod Echo(s: string) -> (s: string)\nmethod Seq(i: int) -> (i: int)\nmethod Fill(c: string, n: int) -> (s: string)\nmethod Count(n: int) -> (i: int)\n"
}
func (s *scaleIface) VarlinkDispatch(ctx context.Context, c varlink.Call, method string) error {
	switch method {
	case "Echo":
		var in struct {
			S string `json:"s"`
		}
		if err := c.GetParameters(&in); err != nil {
			return c.ReplyInvalidParameter(ctx, "parameters")
		}
		s.mu.Lock()
		s.gotLen = len(in.S)
		s.gotHash = sha256.Sum256([]byte(in.S))
		s.mu.Unlock()
		return c.Reply(ctx, map[string]string{"s": in.S})
	case "Fill":
		var in struct {
			C string `json:"c"`
			N int64  `json:"n"`
		}
		if err := c.GetParameters(&in); err != nil || len(in.C) != 1 {
			return c.ReplyInvalidParameter(ctx, "parameters")
		}
		return c.Reply(ctx, map[string]string{"s": strings.Repeat(in.C, int(in.N))})
	case "Seq":
		var in struct {
			I int64 `json:"i"`
		}
		if err := c.GetParameters(&in); err != nil {
			return c.ReplyInvalidParameter(ctx, "parameters")
		}
		return c.Reply(ctx, map[string]int64{"i": in.I})
	case "Count":
		var in struct {
			N int64 `json:"n"`
		}
		if err := c.GetParameters(&in); err != nil {
			return c.ReplyInvalidParameter(ctx, "parameters")
		}
		if !c.WantsMore() {
			return c.ReplyInvalidParameter(ctx, "more")
		}
		for i := int64(0); i < in.N; i++ {
			c.Continues = i+1 < in.N
			if err := c.Reply(ctx, map[string]int64{"i": i}); err != nil {
				return err
			}
		}
		return nil
	}
	return c.ReplyMethodNotFound(ctx, method)
}

func asciiPayload(seed uint64, n int) string {
	b := make([]byte, n)
	x := seed*0x9E3779B97F4A7C15 + 1
	for i := range b {
		x ^= x << 13
		x ^= x >> 7
		x ^= x << 17
		b[i] = "abcdefghijklmnopqrstuvwxyz0123456789 _-."[(x>>24)%40]
	}
	return string(b)
}

func init() {
	commands["scale"] = func(e *env) error {
		type sc struct {
			name string
			n    int
		}
		plan := []sc{
			{"closetwice", 3}, {"overlap", 1 << 20},
			{"hugeframe", 4<<20 - 64}, {"hugeframe", 4 << 20}, {"hugeframe", 4<<20 + 4097}, {"hugeframe", 16<<20 + 1},
			{"manyconns", 300}, {"manycalls", 20000}, {"manymore", 20000}, {"hugeframe", 1 << 20},
			{"manyconns", 70}, {"manycalls", 5000}, {"manymore", 70000}, {"hugeframe", 9 << 20},
		}
		return e.each(func(i int, g *Rng) error {
			ctx := context.Background()
			p := plan[i%len(plan)]
			iface := &scaleIface{}
			svc, err := varlink.NewService("scale", "p", "1", "u")
			if err != nil {
				return err
			}
			if err := svc.RegisterInterface(iface); err != nil {
				return err
			}
			addr := fmt.Sprintf("unix:@verif-scale-%d-%d-%d", e.seed, i, time.Now().UnixNano()%1000000)
			if err := svc.Bind(ctx, addr); err != nil {
				return err
			}
			done := make(chan error, 1)
			go func() { done <- svc.DoListen(ctx, 0) }()
			for t := 0; t < 3000; t++ {
				if running, _, _, _ := svc.VerifState(); running {
					break
				}
				time.Sleep(time.Millisecond)
			}
			bad := 0
			first := "-"
			fail := func(f string, a ...interface{}) {
				if bad == 0 {
					first = fmt.Sprintf(f, a...)
				}
				bad++
			}
			cctx, cancel := context.WithTimeout(ctx, 120*time.Second)
			switch p.name {
			case "hugeframe":
				c, err := varlink.NewConnection(cctx, addr)
				if err != nil {
					return err
				}
				payload := asciiPayload(e.seed*977+uint64(i), p.n)
				var out struct {
					S string `json:"s"`
				}
				err = c.Call(cctx, "org.example.scale.Echo", map[string]string{"s": payload}, &out)
				iface.mu.Lock()
				switch {
				case err != nil:
					fail("call-failed:%T", err)
				case iface.gotLen != len(payload) || iface.gotHash != sha256.Sum256([]byte(payload)):
					fail("handler-got-%d-of-%d-bytes-or-other-content", iface.gotLen, len(payload))
				case out.S != payload:
					fail("client-got-%d-of-%d-bytes-or-other-content", len(out.S), len(payload))
				}
				iface.mu.Unlock()
				// the connection is still usable
				var v string
				if err := c.GetInfo(cctx, &v, nil, nil, nil, nil); err != nil || v != "scale" {
					fail("connection-unusable-after-huge-frame")
				}
				c.Close()
			case "manyconns":
				conns := make([]*varlink.Connection, p.n)
				var mu sync.Mutex
				var wg sync.WaitGroup
				for k := 0; k < p.n; k++ {
					wg.Add(1)
					go func(k int) {
						defer wg.Done()
						c, err := varlink.NewConnection(cctx, addr)
						if err != nil {
							mu.Lock()
							fail("connect-%d-failed", k)
							mu.Unlock()
							return
						}
						conns[k] = c
					}(k)
				}
				wg.Wait()
				// all open at the same time now; every one is served, twice, in both orders
				for round := 0; round < 2; round++ {
					for k := 0; k < p.n; k++ {
						wg.Add(1)
						go func(k int) {
							defer wg.Done()
							if conns[k] == nil {
								return
							}
							var out struct {
								I int64 `json:"i"`
							}
							err := conns[k].Call(cctx, "org.example.scale.Seq", map[string]int64{"i": int64(k*2 + round)}, &out)
							if err != nil || out.I != int64(k*2+round) {
								mu.Lock()
								fail("connection-%d-of-%d-not-served-correctly", k, p.n)
								mu.Unlock()
							}
						}(k)
					}
					wg.Wait()
				}
				if got := svc.VerifConnCounter(); got != int64(p.n) && bad == 0 {
					fail("active-count-%d-with-%d-open-connections", got, p.n)
				}
				for _, c := range conns {
					if c != nil {
						c.Close()
					}
				}
			case "manycalls":
				c, err := varlink.NewConnection(cctx, addr)
				if err != nil {
					return err
				}
				for k := 0; k < p.n && bad == 0; k++ {
					var out struct {
						I int64 `json:"i"`
					}
					err := c.Call(cctx, "org.example.scale.Seq", map[string]int64{"i": int64(k)}, &out)
					if err != nil || out.I != int64(k) {
						fail("call-%d-of-%d-answered-wrongly", k, p.n)
					}
				}
				c.Close()
			case "closetwice":
				c0, err := varlink.NewConnection(cctx, addr)
				if err != nil {
					return err
				}
				var v0 string
				if err := c0.GetInfo(cctx, &v0, nil, nil, nil, nil); err != nil || v0 != "scale" {
					fail("first-connection-not-served")
				}
				c0.Close()
				c0.Close() // a deferred Close after an explicit one: reports an error, changes nothing
				conns := make([]*varlink.Connection, p.n)
				for k := range conns {
					if conns[k], err = varlink.NewConnection(cctx, addr); err != nil {
						return err
					}
				}
				// all open at the same time; calls strictly one after the other, so that a reply can only
				// turn up at the wrong connection if the connections share something they must not
				for round := 0; round < 3 && bad == 0; round++ {
					for k := p.n - 1; k >= 0 && bad == 0; k-- {
						want := int64(1000*round + k)
						var out struct {
							I int64 `json:"i"`
						}
						octx, ocancel := context.WithTimeout(cctx, 3*time.Second)
						err := conns[k].Call(octx, "org.example.scale.Seq", map[string]int64{"i": want}, &out)
						ocancel()
						if err != nil {
							fail("connection-%d-of-%d-got-no-reply-to-its-call", k, p.n)
						} else if out.I != want {
							fail("connection-%d-of-%d-got-the-reply-to-another-call", k, p.n)
						}
					}
				}
				for _, c := range conns {
					c.Close()
				}
			case "overlap":
				a, err := varlink.NewConnection(cctx, addr)
				if err != nil {
					return err
				}
				// A asks for a reply far bigger than the socket buffers and does not read yet: the service is
				// in the middle of writing it while the replies to the others are produced
				recvA, err := a.Send(cctx, "org.example.scale.Fill", map[string]interface{}{"c": "A", "n": p.n}, 0)
				if err != nil {
					fail("send-failed")
				}
				time.Sleep(100 * time.Millisecond)
				var mu sync.Mutex
				var wg sync.WaitGroup
				for k := 0; k < 8; k++ {
					wg.Add(1)
					go func(k int) {
						defer wg.Done()
						letter := string(rune('B' + k))
						b, err := varlink.NewConnection(cctx, addr)
						if err != nil {
							mu.Lock()
							fail("connect-failed")
							mu.Unlock()
							return
						}
						defer b.Close()
						for r := 0; r < 3; r++ {
							var out struct {
								S string `json:"s"`
							}
							err := b.Call(cctx, "org.example.scale.Fill", map[string]interface{}{"c": letter, "n": p.n}, &out)
							mu.Lock()
							if err != nil {
								fail("other-connection-call-failed:%T", err)
							} else if out.S != strings.Repeat(letter, p.n) {
								fail("other-connection-got-other-bytes-than-its-reply")
							}
							mu.Unlock()
						}
					}(k)
				}
				wg.Wait()
				if recvA != nil {
					var outA struct {
						S string `json:"s"`
					}
					if _, err := recvA(cctx, &outA); err != nil {
						fail("first-connection-receive-failed:%T", err)
					} else if outA.S != strings.Repeat("A", p.n) {
						fail("first-connection-got-other-bytes-than-its-reply")
					}
				}
				a.Close()
			case "manymore":
				c, err := varlink.NewConnection(cctx, addr)
				if err != nil {
					return err
				}
				recv, err := c.Send(cctx, "org.example.scale.Count", map[string]int64{"n": int64(p.n)}, varlink.More)
				if err != nil {
					fail("send-failed")
				}
				for k := 0; k < p.n && bad == 0; k++ {
					var out json.RawMessage
					flags, err := recv(cctx, &out)
					var v struct {
						I int64 `json:"i"`
					}
					json.Unmarshal(out, &v)
					wantCont := k+1 < p.n
					if err != nil || v.I != int64(k) || (flags&varlink.Continues != 0) != wantCont {
						fail("reply-%d-of-%d-wrong", k, p.n)
					}
				}
				var v string
				if err := c.GetInfo(cctx, &v, nil, nil, nil, nil); (err != nil || v != "scale") && bad == 0 {
					fail("connection-unusable-after-the-stream")
				}
				c.Close()
			}
			cancel()
			// everything released, Shutdown ends serving
			released := false
			for t := 0; t < 5000; t++ {
				if svc.VerifConnCounter() == 0 {
					released = true
					break
				}
				time.Sleep(time.Millisecond)
			}
			if !released {
				fail("connections-not-released")
			}
			svc.Shutdown()
			select {
			case err := <-done:
				if err != nil {
					fail("serving-ended-with-error")
				}
			case <-time.After(10 * time.Second):
				fail("serving-did-not-end")
			}
			l := &Line{}
			l.S("scale").S(p.name).N(p.n).S("|").N(bad).S(first)
			fmt.Fprintln(e.out, l.String())
			return nil
		})
	}
}
