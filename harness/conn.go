package main

import (
	"context"
	"encoding/json"
	"fmt"
	"strings"
	"unicode/utf8"

	"github.com/varlink/go/varlink"
)

// ---- registries -----------------------------------------------------------------------------

type ifaceSpec struct{ name, desc string }

type registrySpec struct {
	vendor, product, version, url string
	ifaces                        []ifaceSpec
}

var ifaceNamePool = []string{
	"org.example.a", "org.example", "org.example.a.b", "a.b", "org.varlink", "org.varlink.service.x",
	"org.varlink.servicex", "xorg.varlink.service", "com.example.更新", "a", "org.example.A", "io.x-y.z",
}

func (g *Rng) registry() registrySpec {
	r := registrySpec{vendor: g.randString(), product: g.randString(), version: g.randString(), url: g.randString()}
	n := g.Intn(4)
	seen := map[string]bool{}
	for i := 0; i < n; i++ {
		nm := g.Pick(ifaceNamePool)
		if seen[nm] {
			continue
		}
		seen[nm] = true
		r.ifaces = append(r.ifaces, ifaceSpec{name: nm, desc: "interface " + nm + "\n# " + g.randStringValid() + "\nmethod M() -> ()\n"})
	}
	return r
}

// randStringValid: like randString, but always valid UTF-8 without the replacement character issue.
func (g *Rng) randStringValid() string { return strings.ToValidUTF8(g.randString(), "?") }

func (r registrySpec) line(l *Line) {
	l.Str(r.vendor).Str(r.product).Str(r.version).Str(r.url).N(len(r.ifaces))
	for _, i := range r.ifaces {
		l.Str(i.name).Str(i.desc)
	}
}

// buildHooked is build with a hook installed in every scripted dispatcher.
func (r registrySpec) buildHooked(log *dispatchLog, hook func(string)) (*varlink.Service, error) {
	svc, err := varlink.NewService(r.vendor, r.product, r.version, r.url)
	if err != nil {
		return nil, err
	}
	for _, i := range r.ifaces {
		if err := svc.RegisterInterface(&scriptedIface{name: i.name, desc: i.desc, log: log, hook: hook}); err != nil {
			return nil, err
		}
	}
	return svc, nil
}

func (r registrySpec) build(log *dispatchLog) (*varlink.Service, error) {
	svc, err := varlink.NewService(r.vendor, r.product, r.version, r.url)
	if err != nil {
		return nil, err
	}
	for _, i := range r.ifaces {
		if err := svc.RegisterInterface(&scriptedIface{name: i.name, desc: i.desc, log: log}); err != nil {
			return nil, err
		}
	}
	return svc, nil
}

// ---- requests -------------------------------------------------------------------------------

func (g *Rng) methodString(r registrySpec) string {
	reg := ""
	if len(r.ifaces) > 0 {
		reg = r.ifaces[g.Intn(len(r.ifaces))].name
	}
	switch g.Intn(15) {
	case 14: // long names (no length limit anywhere: the error replies carry them back in full)
		n := []int{255, 256, 300, 1000, 5000}[g.Intn(5)]
		long := strings.Repeat(g.Pick([]string{"a", "Zz", "日本", "x-"}), n)[:n]
		for !utf8.ValidString(long) {
			long = long[:len(long)-1]
		}
		switch g.Intn(3) {
		case 0:
			return "org.long." + long + ".M" // unknown interface
		case 1:
			return "org.varlink.service." + long // unknown method of the built-in interface
		default:
			if reg != "" {
				return reg + "." + long // method of a registered interface
			}
			return long + ".M"
		}
	case 0, 1, 2, 3:
		if reg != "" {
			return reg + "." + g.Pick([]string{"M", "Ping", "x", "", "GetInfo", "日本"})
		}
		return "org.example.none.M"
	case 4:
		return "org.varlink.service.GetInfo"
	case 5:
		return "org.varlink.service.GetInterfaceDescription"
	case 6:
		return "org.varlink.service." + g.Pick([]string{"Nope", "", "getinfo", "GetInfo ", "GetInfo.x"})
	case 7: // unknown interface, near misses of registered ones
		if reg != "" {
			switch g.Intn(4) {
			case 0:
				return reg + "x.M"
			case 1:
				return "x" + reg + ".M"
			case 2:
				return reg[:len(reg)-1] + ".M"
			default:
				return reg + "..M"
			}
		}
		return "no.such.iface.M"
	case 8:
		return g.Pick([]string{"", "M", "nodots", ".", ".M", "..", "a.", ".a.b"})
	case 9:
		return g.Pick(ifaceNamePool) + "." + g.Pick([]string{"M", "", "N"})
	case 10:
		return reg
	case 11:
		return g.randString()
	case 12:
		return "org.varlink.service" + g.Pick([]string{"", ".", "..GetInfo", ".GetInfo.", "GetInfo"})
	default:
		return g.Pick(ifaceNamePool) + g.Pick([]string{".", "..", ".a.b.c", ""}) + g.randString()
	}
}

func (g *Rng) payload() string { return g.jsonValue(2) }

func (g *Rng) errName() string {
	switch g.Intn(8) {
	case 0, 1, 2:
		return g.Pick(ifaceNamePool) + "." + g.Pick([]string{"Err", "E", "日本"})
	case 3:
		return "org.varlink.service." + g.Pick([]string{"InvalidParameter", "X", ""})
	case 4:
		return g.Pick([]string{"", "Err", ".Err", ".", "a.", "org.varlink.service", "org.varlink.servicex.E", "xorg.varlink.service.E", "org.varlink.service.a.b"})
	default:
		return g.randString() + g.Pick([]string{".", "", ".E"}) + g.randString()
	}
}

func (g *Rng) scriptJSON(id string) string {
	n := g.Intn(5)
	if g.Chance(1, 10) {
		n = 5 + g.Intn(20)
	}
	acts := make([]string, 0, n)
	for i := 0; i < n; i++ {
		switch g.Intn(9) {
		case 0:
			acts = append(acts, `["c",true]`)
		case 1:
			acts = append(acts, `["c",false]`)
		case 2:
			acts = append(acts, `["r"]`)
		case 3, 4:
			acts = append(acts, `["r",`+g.payload()+`]`)
		case 5:
			if g.Chance(1, 4) {
				acts = append(acts, `["rb"]`)
			} else {
				acts = append(acts, `["e",`+g.jsonString(g.errName())+`]`)
			}
		case 6:
			if g.Chance(1, 6) {
				acts = append(acts, `["eb",`+g.jsonString(g.errName())+`]`)
			} else {
				acts = append(acts, `["e",`+g.jsonString(g.errName())+`,`+g.payload()+`]`)
			}
		case 7:
			acts = append(acts, `["s",`+g.jsonString(g.Pick([]string{"i", "m", "n", "p"}))+`,`+g.jsonString(g.randString())+`]`)
		default:
			acts = append(acts, `["c",true]`, `["r",`+g.payload()+`]`)
		}
	}
	fail := ""
	if g.Chance(1, 8) {
		fail = `,"fail":true`
	}
	return `{"id":` + g.jsonString(id) + `,"acts":[` + strings.Join(acts, ",") + `]` + fail + `}`
}

// requestFrame renders one call object (without the NUL).
func (g *Rng) requestFrame(r registrySpec, id string) string {
	method := g.methodString(r)
	var members []string
	mkey := "method"
	if g.Chance(1, 20) {
		mkey = g.Pick([]string{"Method", "METHOD", "methoD"})
	}
	members = append(members, g.jsonString(mkey)+":"+g.ws()+g.jsonString(method))
	switch {
	case strings.HasSuffix(method, "GetInterfaceDescription"):
		switch g.Intn(8) {
		case 0:
		case 1:
			members = append(members, `"parameters":null`)
		case 2:
			members = append(members, `"parameters":`+g.jsonValue(1))
		case 3:
			members = append(members, `"parameters":{"interface":`+g.jsonValue(0)+`}`)
		case 4:
			members = append(members, `"parameters":{"interface":"org.varlink.service"}`)
		case 5:
			members = append(members, `"parameters":{"Interface":`+g.jsonString(g.Pick(ifaceNamePool))+`,"x":1}`)
		default:
			nm := g.Pick(ifaceNamePool)
			if len(r.ifaces) > 0 && g.Bool() {
				nm = r.ifaces[g.Intn(len(r.ifaces))].name
			}
			members = append(members, `"parameters":{"interface":`+g.jsonString(nm)+`}`)
		}
	default:
		switch g.Intn(10) {
		case 0:
		case 1:
			members = append(members, `"parameters":`+g.jsonValue(1))
		default:
			pk := "parameters"
			if g.Chance(1, 30) {
				pk = g.Pick([]string{"Parameters", "parameterſ", "PARAMETERS"})
			}
			members = append(members, g.jsonString(pk)+":"+g.scriptJSON(id))
		}
	}
	for _, f := range []string{"more", "oneway", "upgrade"} {
		switch g.Intn(12) {
		case 0, 1, 2:
			members = append(members, `"`+f+`":true`)
		case 3:
			members = append(members, `"`+f+`":false`)
		case 4:
			if g.Chance(1, 4) {
				members = append(members, `"`+strings.ToUpper(f)+`":true`)
			}
		case 5:
			if g.Chance(1, 6) {
				members = append(members, `"`+f+`":true`, `"`+f+`":null`)
			}
		}
	}
	if g.Chance(1, 15) {
		members = append(members, g.jsonString(g.randString())+":"+g.jsonValue(1))
	}
	if g.Chance(1, 6) { // shuffle
		for i := len(members) - 1; i > 0; i-- {
			j := g.Intn(i + 1)
			members[i], members[j] = members[j], members[i]
		}
	}
	return g.ws() + "{" + strings.Join(members, ","+g.ws()) + "}" + g.ws()
}

// malformedFrame: JSON of the wrong shape, syntax errors, mutations.
func (g *Rng) malformedFrame(r registrySpec, id string) string {
	switch g.Intn(12) {
	case 0:
		return "null"
	case 1:
		return g.Pick([]string{"[]", "5", `"x"`, "true", "{}", " null ", "nul", "[null]", "{}{}", "{} x", ""})
	case 2:
		return `{"method":` + g.Pick([]string{"5", "true", "[]", "{}", "null"}) + `}`
	case 3:
		return `{"method":"org.varlink.service.GetInfo","` + g.Pick([]string{"more", "oneway", "upgrade"}) + `":` + g.Pick([]string{"1", `"true"`, "[]", "null", "0"}) + `}`
	case 4:
		return `{"method":"org.varlink.service.GetInfo"` + g.Pick([]string{"", ",", "]", "}}", `,"x"`, `,"x":`})
	case 5:
		return g.jsonValue(2)
	case 6, 7, 8: // byte mutation of a valid frame
		f := []byte(g.requestFrame(r, id))
		if len(f) == 0 {
			return ""
		}
		k := 1 + g.Intn(2)
		for i := 0; i < k; i++ {
			p := g.Intn(len(f))
			switch g.Intn(4) {
			case 0:
				f[p] = byte(g.Intn(256))
			case 1:
				f = append(f[:p], f[p+1:]...)
			case 2:
				f = append(f[:p], append([]byte{mutChars[g.Intn(len(mutChars))]}, f[p:]...)...)
			default:
				f[p] = mutChars[g.Intn(len(mutChars))]
			}
			if len(f) == 0 {
				break
			}
		}
		// a NUL inside would split the frame; keep it a single frame
		for i := range f {
			if f[i] == 0 {
				f[i] = '0'
			}
		}
		return string(f)
	case 9:
		return deepValue(g.Pick3(9999, 10000, 10001), "[", "]", "1")
	case 10:
		return `{"method":"org.varlink.service.GetInfo","parameters":` + deepValue(g.Pick3(9998, 9999, 10000), "[", "]", "") + `}`
	default:
		n := g.Intn(20)
		b := make([]byte, n)
		for i := range b {
			b[i] = byte(1 + g.Intn(255))
		}
		return string(b)
	}
}

const mutChars = "{}[],:\"\\ntf0-"

func (g *Rng) Pick3(a, b, c int) int { return []int{a, b, c}[g.Intn(3)] }

type connCase struct {
	reg    registrySpec
	stream []byte
	segs   [][]byte
	id     string
}

func (g *Rng) connCase(idx int) connCase {
	return g.connCaseReg(g.registry(), fmt.Sprintf("c%d", idx))
}

// connCaseReg: a request stream against a given registry (several connections of one service).
func (g *Rng) connCaseReg(reg registrySpec, id string) connCase {
	c := connCase{reg: reg, id: id}
	n := g.Intn(6)
	if g.Chance(1, 10) {
		n = 6 + g.Intn(20)
	}
	var sb []byte
	for i := 0; i < n; i++ {
		if g.Chance(1, 8) {
			sb = append(sb, g.malformedFrame(c.reg, c.id)...)
		} else {
			sb = append(sb, g.requestFrame(c.reg, c.id)...)
		}
		sb = append(sb, 0)
	}
	if g.Chance(1, 6) { // incomplete trailing frame
		f := g.requestFrame(c.reg, c.id)
		sb = append(sb, f[:g.Intn(len(f)+1)]...)
	}
	if g.Chance(1, 25) { // one frame larger than any internal buffer
		big := `{"method":"org.varlink.service.GetInfo","parameters":{"pad":` + g.bigString(5000+g.Intn(100000)) + `}}`
		if g.Bool() {
			// wire length (with the NUL) at or next to a multiple of the reader's buffer size
			want := g.Pick3(4096, 8192, 16384) + g.Pick3(-1, 0, 1)
			head, tail := `{"method":"org.varlink.service.GetInfo","parameters":{"pad":"`, `"}}`
			if fill := want - 1 - len(head) - len(tail); fill > 0 {
				big = head + strings.Repeat("x", fill) + tail
			}
		}
		sb = append([]byte(big+"\x00"), sb...)
	}
	c.stream = sb
	c.segs = g.cut(sb)
	return c
}

// runConnPipe drives the real per-connection loop over a deterministic scripted connection.
func runConnPipe(c connCase) (replies []byte, log []invocation, err error) {
	dl := newDispatchLog()
	dl.single = c.id
	svc, err := c.reg.build(dl)
	if err != nil {
		return nil, nil, err
	}
	conn := newSegConn(c.segs)
	svc.VerifHandleConnection(context.Background(), conn)
	return conn.Written(), dl.take(c.id), nil
}

func connLine(c connCase, replies []byte, log []invocation) string {
	l := &Line{}
	l.S("conn")
	c.reg.line(l)
	l.B(c.stream).S("|").B(replies).N(len(log))
	for _, inv := range log {
		l.Str(inv.iface).Str(inv.method).N(len(inv.results))
		for _, r := range inv.results {
			l.Bool(r)
		}
	}
	return l.String()
}

var _ = json.Valid
