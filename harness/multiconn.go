package main

// C01 — N concurrent connections of ONE service over a real socket, each running its own request
// stream under its own segmentation; every connection's replies must be what the model says for that
// connection alone (`connections_independent`), whatever the others do at the same time.

import (
	"context"
	"fmt"
	"io"
	"net"
	"strings"
	"sync"
	"time"
)

func init() {
	commands["multiconn"] = func(e *env) error {
		return e.each(func(i int, g *Rng) error {
			ctx := context.Background()
			reg := g.registry()
			n := []int{2, 2, 4, 8}[g.Intn(4)]
			dl := newDispatchLog()
			// variant "held": the first call on connection 0 goes to method Wait, whose handler is held until
			// every other connection has been answered completely — a handler still running on one
			// connection must not keep the others from being served
			held := len(reg.ifaces) > 0 && g.Chance(1, 3)
			// variant "slow": connection 0 asks for a multi-megabyte reply and starts reading late, while
			// connection 1 asks for a large reply of its own
			slowReader := false
			release := make(chan struct{})
			svc, err := reg.buildHooked(dl, func(method string) {
				if held && method == "Wait" {
					<-release
				}
			})
			if err != nil {
				return err
			}
			addr := fmt.Sprintf("@verif-multi-%d-%d-%d", e.seed, i, time.Now().UnixNano()%1000000)
			if err := svc.Bind(ctx, "unix:"+addr); err != nil {
				return err
			}
			done := make(chan error, 1)
			go func() { done <- svc.DoListen(ctx, 0) }()
			for t := 0; t < 3000; t++ {
				if running, _, _, _ := svc.VerifState(); running {
					break
				}
				time.Sleep(time.Millisecond)
			}
			cases := make([]connCase, n)
			replies := make([][]byte, n)
			for k := range cases {
				cases[k] = g.Fork(uint64(1000+k)).connCaseReg(reg, fmt.Sprintf("m%d-%d", i, k))
				if len(cases[k].stream) > 20000 {
					cases[k].stream = cases[k].stream[:20000]
					cases[k].segs = g.cut(cases[k].stream)
				}
			}
			if held {
				first := `{"method":"` + reg.ifaces[0].name + `.Wait","parameters":{"id":"held","acts":[["r",{"held":true}]]}}` + "\x00"
				cases[0].stream = append([]byte(first), cases[0].stream...)
				cases[0].segs = g.cut(cases[0].stream)
			}
			if slowReader {
				mk := func(n int) []byte {
					return []byte(`{"method":"` + reg.ifaces[0].name + `.Big","parameters":{"id":"big","acts":[["r",{"pad":"` + strings.Repeat("z", n) + `"}]]}}` + "\x00")
				}
				cases[0].stream = mk(2<<20 + g.Intn(1<<20))
				cases[0].segs = [][]byte{cases[0].stream}
				cases[1].stream = mk(512<<10 + g.Intn(512<<10))
				cases[1].segs = [][]byte{cases[1].stream}
			}
			var wg, others sync.WaitGroup
			others.Add(n)
			if held {
				others.Done() // connection 0 is not waited for
			}
			start := make(chan struct{})
			for k := range cases {
				wg.Add(1)
				go func(k int) {
					defer wg.Done()
					conn, err := net.Dial("unix", addr)
					if err != nil {
						return
					}
					defer conn.Close()
					<-start
					if slowReader && k == 1 {
						time.Sleep(60 * time.Millisecond) // connection 0's big reply is being written (and is parked) by now
					}
					// the writer must not block on a service that is itself blocked writing replies
					go func() {
						for _, seg := range cases[k].segs {
							if _, err := conn.Write(seg); err != nil {
								break
							}
							if len(cases[k].segs) < 50 {
								time.Sleep(time.Duration(k*37%5) * 100 * time.Microsecond)
							}
						}
						conn.(*net.UnixConn).CloseWrite()
					}()
					if slowReader && k == 0 {
						time.Sleep(150 * time.Millisecond) // the service's write of the big reply parks meanwhile
					}
					conn.SetReadDeadline(time.Now().Add(20 * time.Second))
					if held && k != 0 {
						conn.SetReadDeadline(time.Now().Add(5 * time.Second))
					}
					replies[k], _ = io.ReadAll(conn)
					if !(held && k == 0) {
						others.Done()
					}
				}(k)
			}
			close(start)
			if held {
				// release connection 0's handler only after all other connections are through
				go func() { others.Wait(); close(release) }()
			}
			wg.Wait()
			svc.Shutdown()
			select {
			case <-done:
			case <-time.After(10 * time.Second):
			}
			for k := range cases {
				l := &Line{}
				l.S("connr")
				reg.line(l)
				l.B(cases[k].stream).S("|").B(replies[k]).N(n)
				_ = held
				fmt.Fprintln(e.out, l.String())
			}
			return nil
		})
	}
}
