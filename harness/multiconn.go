package main

// C01 — N concurrent connections of ONE service over a real socket, each running its own request
// stream under its own segmentation; every connection's replies must be what the model says for that
// connection alone (`connections_independent`), whatever the others do at the same time.

import (
	"context"
	"fmt"
	"io"
	"net"
	"sync"
	"time"
)

func init() {
	commands["multiconn"] = func(e *env) error {
		return e.each(func(i int, g *Rng) error {
			ctx := context.Background()
			reg := g.registry()
			n := []int{2, 2, 4, 8}[g.Intn(4)]
			dl := newDispatchLog()
			svc, err := reg.build(dl)
			if err != nil {
				return err
			}
			addr := fmt.Sprintf("@verif-multi-%d-%d-%d", e.seed, i, time.Now().UnixNano()%1000000)
			if err := svc.Bind(ctx, "unix:"+addr); err != nil {
				return err
			}
			done := make(chan error, 1)
			go func() { done <- svc.DoListen(ctx, 0) }()
			for t := 0; t < 3000; t++ {
				if running, _, _, _ := svc.VerifState(); running {
					break
				}
				time.Sleep(time.Millisecond)
			}
			cases := make([]connCase, n)
			replies := make([][]byte, n)
			for k := range cases {
				cases[k] = g.Fork(uint64(1000+k)).connCaseReg(reg, fmt.Sprintf("m%d-%d", i, k))
				if len(cases[k].stream) > 20000 {
					cases[k].stream = cases[k].stream[:20000]
					cases[k].segs = g.cut(cases[k].stream)
				}
			}
			var wg sync.WaitGroup
			start := make(chan struct{})
			for k := range cases {
				wg.Add(1)
				go func(k int) {
					defer wg.Done()
					conn, err := net.Dial("unix", addr)
					if err != nil {
						return
					}
					defer conn.Close()
					<-start
					// the writer must not block on a service that is itself blocked writing replies
					go func() {
						for _, seg := range cases[k].segs {
							if _, err := conn.Write(seg); err != nil {
								break
							}
							if len(cases[k].segs) < 50 {
								time.Sleep(time.Duration(k*37%5) * 100 * time.Microsecond)
							}
						}
						conn.(*net.UnixConn).CloseWrite()
					}()
					conn.SetReadDeadline(time.Now().Add(20 * time.Second))
					replies[k], _ = io.ReadAll(conn)
				}(k)
			}
			close(start)
			wg.Wait()
			svc.Shutdown()
			select {
			case <-done:
			case <-time.After(10 * time.Second):
			}
			for k := range cases {
				l := &Line{}
				l.S("connr")
				reg.line(l)
				l.B(cases[k].stream).S("|").B(replies[k]).N(n)
				fmt.Fprintln(e.out, l.String())
			}
			return nil
		})
	}
}
