package main

import (
	"fmt"
	"strings"
	"time"

	"github.com/varlink/go/varlink/idl"
)

// IDL streams (properties C05, C06, C09). One line per case:
//
//	idl x<text> <hasExpected> [<expected tree>] <ntags> <tag>… | ok <tree> x<description> <sublistsOK>
//	                                                           | err x<message> | panic x<message> | hang
//
// <tree> = x<name> x<doc> <n> <member>…; member = A x<name> x<doc> <ty> | M x<name> x<doc> <ty> <ty> |
// R x<name> x<doc> 0 | R x<name> x<doc> 1 <ty>; ty = b|i|f|s|o | n x<name> | q <ty> | a <ty> | d <ty> |
// S <k> (x<name> 0 | x<name> 1 <ty>)… | E <k> (…)… | X (a Go value outside the documented shapes).

// ---- running the real parser -------------------------------------------------------------------------

const idlWatchdog = 20 * time.Second

type idlObs struct {
	kind string // ok err panic hang
	msg  string
	tree *idl.IDL
}

func runIdlNew(text string) idlObs {
	done := make(chan idlObs, 1)
	go func() {
		defer func() {
			if r := recover(); r != nil {
				done <- idlObs{kind: "panic", msg: fmt.Sprint(r)}
			}
		}()
		d, err := idl.New(text)
		if err != nil {
			if d != nil {
				done <- idlObs{kind: "panic", msg: "error and tree returned together: " + err.Error()}
				return
			}
			done <- idlObs{kind: "err", msg: err.Error()}
			return
		}
		if d == nil {
			done <- idlObs{kind: "panic", msg: "nil tree without error"}
			return
		}
		done <- idlObs{kind: "ok", tree: d}
	}()
	select {
	case o := <-done:
		return o
	case <-time.After(idlWatchdog):
		return idlObs{kind: "hang"}
	}
}

func encObsTy(t *idl.Type, l *Line) {
	if t == nil {
		l.S("X")
		return
	}
	plain := t.ElementType == nil && t.Alias == "" && len(t.Fields) == 0
	switch t.Kind {
	case idl.TypeBool, idl.TypeInt, idl.TypeFloat, idl.TypeString, idl.TypeObject:
		if !plain {
			l.S("X")
			return
		}
		l.S(string("bifso"[t.Kind-idl.TypeBool]))
	case idl.TypeAlias:
		if t.ElementType != nil || len(t.Fields) != 0 {
			l.S("X")
			return
		}
		l.S("n").Str(t.Alias)
	case idl.TypeMaybe, idl.TypeArray, idl.TypeMap:
		if t.ElementType == nil || t.Alias != "" || len(t.Fields) != 0 {
			l.S("X")
			return
		}
		switch t.Kind {
		case idl.TypeMaybe:
			l.S("q")
		case idl.TypeArray:
			l.S("a")
		default:
			l.S("d")
		}
		encObsTy(t.ElementType, l)
	case idl.TypeStruct, idl.TypeEnum:
		if t.ElementType != nil || t.Alias != "" {
			l.S("X")
			return
		}
		if t.Kind == idl.TypeStruct {
			l.S("S")
		} else {
			l.S("E")
		}
		l.N(len(t.Fields))
		for _, f := range t.Fields {
			l.Str(f.Name)
			if f.Type == nil {
				l.N(0)
			} else {
				l.N(1)
				encObsTy(f.Type, l)
			}
		}
	default:
		l.S("X")
	}
}

func encObsTree(d *idl.IDL, l *Line) {
	l.Str(d.Name).Str(d.Doc).N(len(d.Members))
	ia, im, ie := 0, 0, 0
	sub := true
	for _, m := range d.Members {
		switch v := m.(type) {
		case *idl.Alias:
			l.S("A").Str(v.Name).Str(v.Doc)
			encObsTy(v.Type, l)
			if ia >= len(d.Aliases) || d.Aliases[ia] != v {
				sub = false
			}
			ia++
		case *idl.Method:
			l.S("M").Str(v.Name).Str(v.Doc)
			encObsTy(v.In, l)
			encObsTy(v.Out, l)
			if im >= len(d.Methods) || d.Methods[im] != v {
				sub = false
			}
			im++
		case *idl.Error:
			l.S("R").Str(v.Name).Str(v.Doc)
			if v.Type == nil {
				l.N(0)
			} else {
				l.N(1)
				encObsTy(v.Type, l)
			}
			if ie >= len(d.Errors) || d.Errors[ie] != v {
				sub = false
			}
			ie++
		default:
			l.S("X")
			sub = false
		}
	}
	if ia != len(d.Aliases) || im != len(d.Methods) || ie != len(d.Errors) {
		sub = false
	}
	l.Str(d.Description).Bool(sub)
}

func idlLine(text string, exp *gIdl, tags []string) string {
	l := &Line{}
	l.S("idl").Str(text)
	if exp != nil {
		l.N(1)
		exp.enc(l)
	} else {
		l.N(0)
	}
	l.N(len(tags))
	for _, t := range tags {
		l.S(t)
	}
	l.S("|")
	o := runIdlNew(text)
	l.S(o.kind)
	switch o.kind {
	case "ok":
		encObsTree(o.tree, l)
	case "err", "panic":
		l.Str(o.msg)
	}
	return l.String()
}

// ---- family: generated descriptions (C05) -----------------------------------------------------------

// documentation-bearing gap texts used for G0/G2/G3
var idlDocGaps = []string{
	"\n# doc\n", "\n# line one\n# line two\n", "\n#nospace\n", "\n#\n", "\n# \n", "\n#  two spaces\n",
	"\n\t# indented\n\t", "\n# a\n\n# b\n", "\n# crlf\r\n", "\n# a\r\n#b\r\n  ", " # trailing\n# doc\n",
	"\n# doc\n\n", "\n# x # y\n", "\n##\n", "\n# doc\n \t\r", "\n# a\n#\n# c\n", "\r\n# d\r\n",
}

func idlPoolLayouts() (lays []layouter, names []string) {
	lays = append(lays, minimalLayout{})
	names = append(names, "minimal")
	for c := 0; c < numGapClasses; c++ {
		for a, atom := range idlAtoms {
			lays = append(lays, poolLayout{class: c, text: atom})
			names = append(names, gapClassNames[c]+"-"+idlAtomNames[a])
		}
	}
	for _, c := range []int{gapBeforeInterface, gapAfterIfaceName, gapBetweenMembers, gapErrorType} {
		for k, s := range idlDocGaps {
			if c == gapBeforeInterface {
				s = strings.TrimPrefix(s, "\n")
			}
			lays = append(lays, poolLayout{class: c, text: s})
			names = append(names, fmt.Sprintf("%s-doc%d", gapClassNames[c], k))
		}
	}
	// members that share a line: directly behind the previous member (a blank is inserted only where two words
	// would merge), and behind every layout in front of an error's parameter list
	lays = append(lays, poolLayout{class: gapBetweenMembers, text: ""})
	names = append(names, "g3-none")
	for k, s := range []string{"\n", "\r\n", " # c\n", "\n# c\n", "\n# c\n\t", "\r", "\n\n# a\n# b\n", "#\n"} {
		for j, m := range []string{"", " ", "\t# t\n# d\n"} {
			lays = append(lays, pairLayout{c1: gapErrorType, t1: s, c2: gapBetweenMembers, t2: m})
			names = append(names, fmt.Sprintf("g6g3-%d.%d", k, j))
		}
	}
	// the end of the text, in particular behind an error without parameters
	for k, s := range []string{"", " ", "\t", "\r", "\n", "\r\n", "\n  ", " # c\n", "\n# c\n"} {
		for j, c := range idlFinalComments[2:] {
			lays = append(lays, endLayout{gapText: s, comment: c})
			names = append(names, fmt.Sprintf("g11end-%d.%d", k, j))
		}
	}
	return
}

var idlFinalComments = []string{"", "", "", "#", "# x", "#x", "# ", "#\r", "# end\r"}

// idlErrorCases: every member-kind sequence of length ≤ 3 that contains an error (with or without parameters)
// under every layout of the pool that touches the surroundings of an error: the gap in front of the parameter
// list (G6), the gap in front of the next member (G3), the end of the text (G11, last comment). Both tiers run
// all of them.
func idlErrorCases(small []*gIdl, layNames []string) (trees []*gIdl, layIdx []int) {
	for _, d := range small {
		hasErr := false
		for _, m := range d.members {
			if m.kind == 'R' {
				hasErr = true
			}
		}
		if hasErr && d.typeNodes() <= 4 {
			trees = append(trees, d)
		}
	}
	for i, n := range layNames {
		for _, p := range []string{"g6-", "g6g3-", "g3-", "g11-", "g11end-"} {
			if strings.HasPrefix(n, p) {
				layIdx = append(layIdx, i)
			}
		}
	}
	return
}

func idlGenCase(e *env, i int, g *Rng, small []*gIdl, lays []layouter, layNames []string, perTree int, errTrees []*gIdl, errLays []int) (string, *gIdl, []string) {
	nEnum := len(small) * perTree
	nErr := len(errTrees) * len(errLays)
	var d *gIdl
	var lay layouter
	var tags []string
	final := ""
	if i >= nEnum && i < nEnum+nErr {
		k := i - nEnum
		src := errTrees[k/len(errLays)]
		cp := *src
		cp.members = append([]gMember{}, src.members...)
		d = &cp
		li := errLays[k%len(errLays)]
		lay = lays[li]
		if fc, ok := lay.(finalCommenter); ok {
			final = fc.final()
		}
		tags = append(tags, "fam=errlay", "layout="+strings.SplitN(layNames[li], "-", 2)[0])
	} else if i < nEnum {
		// bounded-exhaustive trees, each under `perTree` pool layouts; the offsets rotate so that every layout
		// of the pool meets many trees
		ti, k := i/perTree, i%perTree
		src := small[ti]
		cp := *src
		cp.members = append([]gMember{}, src.members...)
		d = &cp
		li := 0
		if k > 0 {
			li = (ti*(perTree-1) + k - 1) % len(lays)
		}
		lay = lays[li]
		if fc, ok := lay.(finalCommenter); ok {
			final = fc.final()
		}
		tags = append(tags, "fam=exh", "layout="+strings.SplitN(layNames[li], "-", 2)[0])
	} else {
		depth := 1 + g.Intn(3)
		maxM := 1 + g.Intn(6)
		if g.Chance(1, 40) {
			depth, maxM = 5, 12
		}
		d = g.idlTree(maxM, depth)
		rl := &randomLayout{g: g, density: g.Intn(7), crlf: g.Chance(1, 5), inline: 1 + g.Intn(3)}
		lay = rl
		final = g.Pick(idlFinalComments)
		tags = append(tags, "fam=rnd")
		if rl.crlf {
			tags = append(tags, "crlf=1")
		}
	}
	r := renderIdl(d, lay, final)
	text, t2 := expectedOf(d, r)
	tags = append(tags, t2...)
	if final != "" {
		tags = append(tags, "finalcomment=1")
	}
	return text, d, tags
}

func init() {
	commands["idl"] = func(e *env) error {
		budget, perTree := 3, 9
		small := idlSmallTrees(budget)
		lays, names := idlPoolLayouts()
		if e.tier == "thorough" {
			perTree = len(lays) + 1 // every small tree under every layout of the pool
		}
		errTrees, errLays := idlErrorCases(small, names)
		return e.each(func(i int, g *Rng) error {
			text, d, tags := idlGenCase(e, i, g, small, lays, names, perTree, errTrees, errLays)
			fmt.Fprintln(e.out, idlLine(text, d, tags))
			return nil
		})
	}
}
