package main

// bigframes (C02, send side under concurrency): one service, connection 0 asks for a multi-megabyte
// reply and starts reading late (so the service's single Write of that frame parks half way), while the
// other connections ask for large replies of their own, staggered in time. Every byte stream a client
// receives must still be a sequence of messages, each one JSON object + one NUL, equal to what was asked
// for. Half of the cases run with GOMAXPROCS(1) or (2): fewer Ps make it likelier that a second encoder
// runs on the P the parked writer last used (schedule exploration, nothing else changes).
// The oracle for these multi-megabyte frames is evaluated here in Go (json.Valid + byte comparison with
// the expected text) and the driver only reads the verdict: parsing megabytes in the Lean driver would
// dominate the run.

import (
	"bytes"
	"context"
	"encoding/json"
	"fmt"
	"io"
	"net"
	"runtime"
	"strings"
	"sync"
	"time"
)

func init() {
	commands["bigframes"] = func(e *env) error {
		return e.each(func(i int, g *Rng) error {
			ctx := context.Background()
			procs := []int{1, 2, 0, 0}[i%4]
			if procs > 0 {
				defer runtime.GOMAXPROCS(runtime.GOMAXPROCS(procs))
			}
			reg := registrySpec{vendor: "big", ifaces: []ifaceSpec{{name: "org.example.big", desc: "interface org.example.big\nmethod Big() -> ()\n"}}}
			svc, err := reg.build(newDispatchLog())
			if err != nil {
				return err
			}
			addr := fmt.Sprintf("@verif-big-%d-%d-%d", e.seed, i, time.Now().UnixNano()%1000000)
			if err := svc.Bind(ctx, "unix:"+addr); err != nil {
				return err
			}
			done := make(chan error, 1)
			go func() { done <- svc.DoListen(ctx, 0) }()
			for t := 0; t < 3000; t++ {
				if running, _, _, _ := svc.VerifState(); running {
					break
				}
				time.Sleep(time.Millisecond)
			}
			n := 2 + g.Intn(5)
			calls := 1 + g.Intn(4)
			sizes := make([][]int, n)
			fill := make([]byte, n)
			for k := 0; k < n; k++ {
				fill[k] = byte('a' + k)
				cnt := calls
				if k == 0 {
					cnt = 1
				}
				for c := 0; c < cnt; c++ {
					if k == 0 {
						sizes[k] = append(sizes[k], 2<<20+g.Intn(2<<20))
					} else {
						sizes[k] = append(sizes[k], 300<<10+g.Intn(900<<10))
					}
				}
			}
			request := func(k, size int) []byte {
				return []byte(`{"method":"org.example.big.Big","parameters":{"id":"big","acts":[["r",{"pad":"` + strings.Repeat(string(fill[k]), size) + `"}]]}}` + "\x00")
			}
			expect := func(k, size int) []byte {
				return []byte(`{"parameters":{"pad":"` + strings.Repeat(string(fill[k]), size) + `"}}`)
			}
			bad := 0
			first := ""
			var mu sync.Mutex
			var wg sync.WaitGroup
			for k := 0; k < n; k++ {
				wg.Add(1)
				go func(k int) {
					defer wg.Done()
					conn, err := net.Dial("unix", addr)
					if err != nil {
						return
					}
					defer conn.Close()
					if k > 0 {
						time.Sleep(time.Duration(40+15*k) * time.Millisecond)
					}
					go func() {
						for _, sz := range sizes[k] {
							conn.Write(request(k, sz))
						}
						conn.(*net.UnixConn).CloseWrite()
					}()
					if k == 0 {
						time.Sleep(250 * time.Millisecond)
					}
					conn.SetReadDeadline(time.Now().Add(30 * time.Second))
					got, _ := io.ReadAll(conn)
					frames := bytes.Split(got, []byte{0})
					problem := ""
					if len(frames) == 0 || len(frames[len(frames)-1]) != 0 {
						problem = "stream-does-not-end-with-nul"
					} else {
						frames = frames[:len(frames)-1]
						if len(frames) != len(sizes[k]) {
							problem = fmt.Sprintf("frames=%d,expected=%d", len(frames), len(sizes[k]))
						}
						for c, f := range frames {
							if problem != "" {
								break
							}
							if !json.Valid(f) {
								problem = fmt.Sprintf("frame-%d-not-valid-json", c)
							} else if !bytes.Equal(f, expect(k, sizes[k][c])) {
								problem = fmt.Sprintf("frame-%d-differs", c)
							}
						}
					}
					if problem != "" {
						mu.Lock()
						bad++
						if first == "" {
							first = fmt.Sprintf("conn%d:%s", k, problem)
						}
						mu.Unlock()
					}
				}(k)
			}
			wg.Wait()
			svc.Shutdown()
			select {
			case <-done:
			case <-time.After(10 * time.Second):
			}
			if first == "" {
				first = "-"
			}
			l := &Line{}
			l.S("bigframes").N(n).N(calls).N(procs).S("|").N(bad).S(first)
			fmt.Fprintln(e.out, l.String())
			return nil
		})
	}
}
