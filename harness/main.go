package main

import (
	"bufio"
	"flag"
	"fmt"
	"os"
)

// verifharness: drives the real varlink/go code on generated cases and writes one line per case
// in the protocol understood by the Lean driver (lean/Driver). See /verif/DESIGN.md.

type env struct {
	seed uint64
	n    int
	tier string
	out  *bufio.Writer
	only int
}

// each runs f for every case index of the run (or only the one selected by -only).
func (e *env) each(f func(i int, g *Rng) error) error {
	root := NewRng(e.seed)
	for i := 0; i < e.n; i++ {
		if e.only >= 0 && i != e.only {
			continue
		}
		if err := f(i, root.Fork(uint64(i))); err != nil {
			return err
		}
	}
	return nil
}

var commands = map[string]func(e *env) error{}

func main() {
	if len(os.Args) < 2 {
		fmt.Fprintln(os.Stderr, "usage: vh <command> [-seed N] [-n N] [-tier quick|thorough] [-out file]")
		os.Exit(2)
	}
	cmd := os.Args[1]
	if cmd == "actchild" && len(os.Args) == 3 { // C20: re-executed child, see activation.go
		actChild(os.Args[2])
		return
	}
	if cmd == "bridgechild" && len(os.Args) == 3 { // C03: bridge transport, see e2e.go
		bridgeChild(os.Args[2])
		return
	}
	fs := flag.NewFlagSet(cmd, flag.ExitOnError)
	seed := fs.Uint64("seed", 1, "seed")
	n := fs.Int("n", 1000, "number of cases")
	tier := fs.String("tier", "quick", "tier")
	out := fs.String("out", "", "output file (default stdout)")
	only := fs.Int("only", -1, "run only this case index")
	fs.Parse(os.Args[2:])
	f, ok := commands[cmd]
	if !ok {
		fmt.Fprintln(os.Stderr, "unknown command", cmd)
		os.Exit(2)
	}
	w := os.Stdout
	if *out != "" {
		var err error
		w, err = os.Create(*out)
		if err != nil {
			fmt.Fprintln(os.Stderr, err)
			os.Exit(2)
		}
		defer w.Close()
	}
	e := &env{seed: *seed, n: *n, tier: *tier, only: *only, out: bufio.NewWriterSize(w, 1<<20)}
	err := f(e)
	e.out.Flush()
	if err != nil {
		fmt.Fprintln(os.Stderr, "harness error:", err)
		os.Exit(3)
	}
}

func init() {
	commands["conn"] = func(e *env) error {
		return e.each(func(i int, g *Rng) error {
			c := g.connCase(i)
			replies, log, err := runConnPipe(c)
			if err != nil {
				return err
			}
			fmt.Fprintln(e.out, connLine(c, replies, log))
			return nil
		})
	}
}
