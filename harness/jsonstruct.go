package main

// jsonstruct — field-level differential of the struct decoding the models assume: json.Unmarshal into the
// service's serviceCall (through a white-box accessor) and into the client's reply struct (a replica with
// the tags the extractor pins) on generated objects: key spellings in every case variant (incl. the
// non-ASCII fold partners U+017F and U+212A), duplicates, nulls, wrong value types, unknown members,
// non-objects. The driver compares with `decodeCall` / `decodeReply`.

import (
	"encoding/json"
	"fmt"
	"strings"

	"github.com/varlink/go/varlink"
)

type clientReplyReplica struct {
	Parameters *json.RawMessage `json:"parameters"`
	Continues  bool             `json:"continues"`
	Error      string           `json:"error"`
}

func (g *Rng) keyVariant(k string) string {
	switch g.Intn(8) {
	case 0:
		return strings.ToUpper(k)
	case 1:
		return strings.ToUpper(k[:1]) + k[1:]
	case 2:
		return strings.ReplaceAll(k, "s", "ſ")
	case 3:
		return strings.ReplaceAll(k, "k", "K")
	case 4:
		return k + g.Pick([]string{" ", "x", "_", "\u0000"})
	case 5:
		b := []byte(k)
		p := g.Intn(len(b))
		if b[p] >= 'a' && b[p] <= 'z' {
			b[p] -= 32
		}
		return string(b)
	}
	return k
}

func (g *Rng) structDoc(keys []string) string {
	if g.Chance(1, 15) {
		return g.Pick([]string{"null", "[]", "5", `"x"`, "true", "{}", " null ", "{\"a\":}", ""})
	}
	n := g.Intn(6)
	var ms []string
	for i := 0; i < n; i++ {
		k := g.Pick(keys)
		if g.Chance(1, 3) {
			k = g.keyVariant(k)
		}
		if g.Chance(1, 10) {
			k = g.randString()
		}
		var v string
		switch g.Intn(8) {
		case 0:
			v = "null"
		case 1, 2:
			v = g.Pick([]string{"true", "false"})
		case 3, 4:
			v = g.jsonString(g.randString())
		case 5:
			v = g.Pick(advNumbers)
		default:
			v = g.jsonValue(2)
		}
		ms = append(ms, g.jsonString(k)+":"+g.ws()+v)
	}
	return g.ws() + "{" + strings.Join(ms, ",") + "}" + g.ws()
}

func init() {
	commands["jsonstruct"] = func(e *env) error {
		return e.each(func(i int, g *Rng) error {
			l := &Line{}
			if i%2 == 0 {
				doc := g.structDoc([]string{"method", "parameters", "more", "oneway", "upgrade"})
				m, p, hp, more, ow, up, err := varlink.VerifDecodeCall([]byte(doc))
				l.S("jsonstruct").S("call").Str(doc).S("|").Bool(err == nil).Str(m).Bool(hp).B(p).Bool(more).Bool(ow).Bool(up)
			} else {
				doc := g.structDoc([]string{"parameters", "continues", "error"})
				var r clientReplyReplica
				err := json.Unmarshal([]byte(doc), &r)
				var p []byte
				if r.Parameters != nil {
					p = []byte(*r.Parameters)
				}
				l.S("jsonstruct").S("reply").Str(doc).S("|").Bool(err == nil).Str(r.Error).Bool(r.Parameters != nil).B(p).Bool(r.Continues).Bool(false).Bool(false)
			}
			fmt.Fprintln(e.out, l.String())
			return nil
		})
	}
}
