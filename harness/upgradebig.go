package main

// C18 end to end, long streams: after an upgraded call the raw byte stream is continued for megabytes
// (below, at and above 4 MiB and 16 MiB) in one direction, real Connection <-> real Service over a unix
// socket, read with buffers of several sizes. Lengths and SHA-256 digests of what was sent and what
// arrived go on the line (the payloads themselves would make the lines tens of megabytes long).
//
//   upgradebig <direction> <n> <k> {bufsize} | <lenSvc> <digest sent to svc> <digest got by svc> <lenCli> <digest sent to cli> <digest got by cli>

import (
	"context"
	"crypto/sha256"
	"encoding/json"
	"fmt"
	"time"

	"github.com/varlink/go/varlink"
)

func fillPayload(seed uint64, n int) []byte {
	b := make([]byte, n)
	x := seed*0x9E3779B97F4A7C15 + 1
	for i := range b {
		x ^= x << 13
		x ^= x >> 7
		x ^= x << 17
		b[i] = byte(x >> 24)
	}
	return b
}

func digest(b []byte) []byte {
	h := sha256.Sum256(b)
	return h[:16]
}

func init() {
	commands["upgradebig"] = func(e *env) error {
		sizesN := []int{4<<20 - 4200, 4<<20 - 1, 4 << 20, 4<<20 + 1, 4<<20 + 70000, 6 << 20, 16<<20 + 5, 1 << 20}
		return e.each(func(i int, g *Rng) error {
			ctx := context.Background()
			n := sizesN[i%len(sizesN)]
			dir := []string{"tosvc", "tocli"}[(i/len(sizesN))%2]
			bufs := [][]int{{4096}, {32768}, {65536, 1000, 4096}, {1 << 20}}[g.Intn(4)]
			big := fillPayload(e.seed*1000+uint64(i), n)
			small := fillPayload(e.seed*1000+uint64(i)+7, 1+g.Intn(300))
			toSvc, toCli := big, small
			if dir == "tocli" {
				toSvc, toCli = small, big
			}
			u := &upIface{bufSizes: bufs, want: len(toSvc), send: toCli, got: make(chan []byte, 1), readTimeout: 20 * time.Second}
			svc, err := varlink.NewService("up", "p", "1", "u")
			if err != nil {
				return err
			}
			if err := svc.RegisterInterface(u); err != nil {
				return err
			}
			addr := fmt.Sprintf("@verif-upbig-%d-%d-%d", e.seed, i, time.Now().UnixNano()%1000000)
			if err := svc.Bind(ctx, "unix:"+addr); err != nil {
				return err
			}
			done := make(chan error, 1)
			go func() { done <- svc.DoListen(ctx, 0) }()
			for t := 0; t < 3000; t++ {
				if running, _, _, _ := svc.VerifState(); running {
					break
				}
				time.Sleep(time.Millisecond)
			}
			c, err := varlink.NewConnection(ctx, "unix:"+addr)
			if err != nil {
				return err
			}
			receive, err := c.Upgrade(ctx, "org.example.up.Up", nil)
			if err != nil {
				return err
			}
			var out json.RawMessage
			var gotSvc, gotCli []byte
			_, rw, err := receive(ctx, &out)
			if err == nil {
				wdone := make(chan struct{})
				go func() { // the long direction may be either one: write and read concurrently
					wctx, cancel := context.WithTimeout(ctx, 20*time.Second)
					rw.Write(wctx, toSvc)
					cancel()
					close(wdone)
				}()
				rctx, cancel := context.WithTimeout(ctx, 20*time.Second)
				gotCli = readN(rctx, rw, len(toCli), bufs)
				cancel()
				<-wdone
			}
			select {
			case gotSvc = <-u.got:
			case <-time.After(25 * time.Second):
			}
			c.Close()
			svc.Shutdown()
			select {
			case <-done:
			case <-time.After(5 * time.Second):
			}
			l := &Line{}
			l.S("upgradebig").S(dir).N(n).N(len(bufs))
			for _, z := range bufs {
				l.N(z)
			}
			l.S("|").N(len(gotSvc)).B(digest(toSvc)).B(digest(gotSvc)).N(len(gotCli)).B(digest(toCli)).B(digest(gotCli)).N(len(toSvc)).N(len(toCli))
			fmt.Fprintln(e.out, l.String())
			return nil
		})
	}
}
