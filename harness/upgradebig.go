package main

// C18 end to end, long streams: after an upgraded call the raw byte stream is continued for megabytes
// (below, at and above 4 MiB and 16 MiB) in one direction, real Connection <-> real Service over a unix
// socket, read with buffers of several sizes. Lengths and SHA-256 digests of what was sent and what
// arrived go on the line (the payloads themselves would make the lines tens of megabytes long).
//
//   upgradebig <direction> <n> <k> {bufsize} | <lenSvc> <digest sent to svc> <digest got by svc> <lenCli> <digest sent to cli> <digest got by cli>

import (
	"context"
	"crypto/sha256"
	"encoding/json"
	"fmt"
	"sync/atomic"
	"time"

	"github.com/varlink/go/varlink"
)

func fillPayload(seed uint64, n int) []byte {
	b := make([]byte, n)
	x := seed*0x9E3779B97F4A7C15 + 1
	for i := range b {
		x ^= x << 13
		x ^= x >> 7
		x ^= x << 17
		b[i] = byte(x >> 24)
	}
	return b
}

func digest(b []byte) []byte {
	h := sha256.Sum256(b)
	return h[:16]
}

func init() {
	commands["upgradebig"] = func(e *env) error {
		sizesN := []int{4<<20 - 4200, 4<<20 - 1, 4 << 20, 4<<20 + 1, 4<<20 + 70000, 6 << 20, 16<<20 + 5, 1 << 20}
		return e.each(func(i int, g *Rng) error {
			ctx := context.Background()
			n := sizesN[i%len(sizesN)]
			dir := []string{"tosvc", "tocli"}[(i/len(sizesN))%2]
			bufs := [][]int{{4096}, {32768}, {65536, 1000, 4096}, {1 << 20}}[g.Intn(4)]
			big := fillPayload(e.seed*1000+uint64(i), n)
			small := fillPayload(e.seed*1000+uint64(i)+7, 1+g.Intn(300))
			toSvc, toCli := big, small
			if dir == "tocli" {
				toSvc, toCli = small, big
			}
			u := &upIface{bufSizes: bufs, want: len(toSvc), send: toCli, got: make(chan []byte, 1), readTimeout: 20 * time.Second}
			svc, err := varlink.NewService("up", "p", "1", "u")
			if err != nil {
				return err
			}
			if err := svc.RegisterInterface(u); err != nil {
				return err
			}
			addr := fmt.Sprintf("@verif-upbig-%d-%d-%d", e.seed, i, time.Now().UnixNano()%1000000)
			if err := svc.Bind(ctx, "unix:"+addr); err != nil {
				return err
			}
			done := make(chan error, 1)
			go func() { done <- svc.DoListen(ctx, 0) }()
			for t := 0; t < 3000; t++ {
				if running, _, _, _ := svc.VerifState(); running {
					break
				}
				time.Sleep(time.Millisecond)
			}
			c, err := varlink.NewConnection(ctx, "unix:"+addr)
			if err != nil {
				return err
			}
			receive, err := c.Upgrade(ctx, "org.example.up.Up", nil)
			if err != nil {
				return err
			}
			var out json.RawMessage
			var gotSvc, gotCli []byte
			_, rw, err := receive(ctx, &out)
			if err == nil {
				wdone := make(chan struct{})
				go func() { // the long direction may be either one: write and read concurrently
					wctx, cancel := context.WithTimeout(ctx, 20*time.Second)
					rw.Write(wctx, toSvc)
					cancel()
					close(wdone)
				}()
				rctx, cancel := context.WithTimeout(ctx, 20*time.Second)
				gotCli = readN(rctx, rw, len(toCli), bufs)
				cancel()
				<-wdone
			}
			select {
			case gotSvc = <-u.got:
			case <-time.After(25 * time.Second):
			}
			c.Close()
			svc.Shutdown()
			select {
			case <-done:
			case <-time.After(5 * time.Second):
			}
			l := &Line{}
			l.S("upgradebig").S(dir).N(n).N(len(bufs))
			for _, z := range bufs {
				l.N(z)
			}
			l.S("|").N(len(gotSvc)).B(digest(toSvc)).B(digest(gotSvc)).N(len(gotCli)).B(digest(toCli)).B(digest(gotCli)).N(len(toSvc)).N(len(toCli))
			fmt.Fprintln(e.out, l.String())
			return nil
		})
	}
}

// duplex (C17, C18) — an upgraded connection used in both directions at once: a raw Read is blocked with nothing
// in flight while another goroutine writes on the same connection. Each operation completes with its own result:
// the Write reports the bytes it wrote, the Read returns only when the peer has sent something, and then exactly
// those bytes.
//
//	duplex <side> <nwrite> <nreply> | <write n> <write ok> <read early 0/1> <read equals what the peer sent 0/1>
type duplexIface struct {
	side     string
	payload  []byte
	reply    []byte
	res      chan [4]int
	peerSent *int32 // set by whoever plays the peer right before it answers
}

func (u *duplexIface) VarlinkGetName() string { return "org.example.duplex" }
func (u *duplexIface) VarlinkGetDescription() string {
	return "interface org.example.duplex\nmethod Up() -> ()\n"
}
func (u *duplexIface) VarlinkDispatch(ctx context.Context, c varlink.Call, method string) error {
	if err := c.Reply(ctx, nil); err != nil {
		return err
	}
	if u.side == "service" {
		u.res <- duplexRun(ctx, c.Conn, u.payload, u.reply, u.peerSent)
		return fmt.Errorf("done")
	}
	// peer role: wait for the payload, then answer
	got := readN(ctx, c.Conn, len(u.payload), []int{4096})
	_ = got
	time.Sleep(30 * time.Millisecond)
	atomic.StoreInt32(u.peerSent, 1)
	c.Conn.Write(ctx, u.reply)
	time.Sleep(50 * time.Millisecond)
	return fmt.Errorf("done")
}

// duplexRun: Read blocks first, then Write; returns {write n, write ok, read returned before the peer answered, read equal}
func duplexRun(ctx context.Context, rw varlink.ReadWriterContext, payload, reply []byte, peerSent *int32) [4]int {
	type rres struct {
		b     []byte
		early bool
		err   error
	}
	rc := make(chan rres, 1)
	go func() {
		buf := make([]byte, len(reply)+64)
		rctx, cancel := context.WithTimeout(ctx, 5*time.Second)
		defer cancel()
		n, err := rw.Read(rctx, buf)
		if n < 0 || n > len(buf) {
			// a byte count that cannot be: reported as "did not deliver the peer's bytes"
			rc <- rres{nil, atomic.LoadInt32(peerSent) == 0, fmt.Errorf("read reported %d bytes for a buffer of %d", n, len(buf))}
			return
		}
		// no clock involved: had the peer already started to answer when the Read came back?
		rc <- rres{buf[:n], atomic.LoadInt32(peerSent) == 0, err}
	}()
	time.Sleep(20 * time.Millisecond) // the Read is blocked now, nothing is in flight
	wctx, cancel := context.WithTimeout(ctx, 5*time.Second)
	n, werr := rw.Write(wctx, payload)
	cancel()
	r := <-rc
	out := [4]int{n, 0, 0, 0}
	if werr == nil {
		out[1] = 1
	}
	if r.early {
		out[2] = 1
	}
	if r.err == nil && string(r.b) == string(reply) {
		out[3] = 1
	}
	return out
}

func init() {
	commands["duplex"] = func(e *env) error {
		return e.each(func(i int, g *Rng) error {
			ctx := context.Background()
			side := []string{"client", "service"}[i%2]
			payload := fillPayload(e.seed*31+uint64(i), []int{1, 4, 100, 5000}[g.Intn(4)])
			reply := fillPayload(e.seed*37+uint64(i), []int{1, 9, 300}[g.Intn(3)])
			var peerSent int32
			u := &duplexIface{side: side, payload: payload, reply: reply, res: make(chan [4]int, 1), peerSent: &peerSent}
			svc, err := varlink.NewService("duplex", "p", "1", "u")
			if err != nil {
				return err
			}
			if err := svc.RegisterInterface(u); err != nil {
				return err
			}
			addr := fmt.Sprintf("unix:@verif-duplex-%d-%d-%d", e.seed, i, time.Now().UnixNano()%1000000)
			if err := svc.Bind(ctx, addr); err != nil {
				return err
			}
			done := make(chan error, 1)
			go func() { done <- svc.DoListen(ctx, 0) }()
			for t := 0; t < 3000; t++ {
				if running, _, _, _ := svc.VerifState(); running {
					break
				}
				time.Sleep(time.Millisecond)
			}
			c, err := varlink.NewConnection(ctx, addr)
			if err != nil {
				return err
			}
			var out [4]int
			receive, err := c.Upgrade(ctx, "org.example.duplex.Up", nil)
			if err == nil {
				var o json.RawMessage
				_, rw, err := receive(ctx, &o)
				if err == nil {
					if side == "client" {
						out = duplexRun(ctx, rw, payload, reply, &peerSent)
					} else {
						// peer role on the client side
						got := readN(ctx, rw, len(payload), []int{4096})
						_ = got
						time.Sleep(30 * time.Millisecond)
						atomic.StoreInt32(&peerSent, 1)
						rw.Write(ctx, reply)
						select {
						case out = <-u.res:
						case <-time.After(10 * time.Second):
						}
					}
				}
			}
			c.Close()
			svc.Shutdown()
			select {
			case <-done:
			case <-time.After(5 * time.Second):
			}
			l := &Line{}
			l.S("duplex").S(side).N(len(payload)).N(len(reply)).S("|").N(out[0]).N(out[1]).N(out[2]).N(out[3])
			fmt.Fprintln(e.out, l.String())
			return nil
		})
	}
}
