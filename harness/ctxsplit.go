package main

// ctxsplit (C17, client side): every blocking client operation obeys ITS OWN context. Send and the
// receive function it returns are given different contexts; the scripted peer (a raw unix-socket or tcp
// server) stays silent or answers late.
//   recv-cancel   : Send(live), receive(ctx cancelled 30 ms later), peer silent  -> receive must return a
//                   context error promptly
//   recv-deadline : same with a 30 ms deadline                                   -> context/timeout error promptly
//   send-ctx-dead : Send(ctxA), ctxA cancelled after the write; peer answers; receive(live) -> the reply
//   reuse         : recv-cancel, then the peer sends the reply, then a second call with live contexts must
//                   receive BOTH frames in order (nothing lost, no goroutine left behind)
//   call          : Connection.Call with one context, cancelled while the peer is silent -> context error promptly
// Observed: outcome class and whether it arrived within the margin (2 s; the peer would otherwise stay
// silent for 10 s), goroutines left behind after settling.

import (
	"context"
	"encoding/json"
	"fmt"
	"net"
	"runtime"
	"strings"
	"time"

	"github.com/varlink/go/varlink"
)

func classifyCtxErr(err error) string {
	switch {
	case err == nil:
		return "ok"
	case err == context.Canceled || err == context.DeadlineExceeded:
		return "ctxerr"
	}
	if ne, ok := err.(net.Error); ok && ne.Timeout() {
		return "ctxerr"
	}
	if strings.Contains(err.Error(), "i/o timeout") || strings.Contains(err.Error(), "deadline") {
		return "ctxerr"
	}
	return "other:" + strings.ReplaceAll(fmt.Sprintf("%T", err), " ", "_")
}

func init() {
	commands["ctxsplit"] = func(e *env) error {
		stuckCases := 0
		return e.each(func(i int, g *Rng) error {
			if stuckCases >= 4 {
				return nil // enough operations that never came back; each further one costs seconds
			}
			scen := []string{"recv-cancel", "recv-deadline", "send-ctx-dead", "reuse", "call"}[i%5]
			network := "unix"
			laddr := fmt.Sprintf("@verif-ctxsplit-%d-%d-%d", e.seed, i, time.Now().UnixNano()%1000000)
			if i%2 == 1 {
				network, laddr = "tcp", "127.0.0.1:0"
			}
			ln, err := net.Listen(network, laddr)
			if err != nil {
				return err
			}
			defer ln.Close()
			answer := make(chan struct{}, 4) // one token = send one reply frame
			go func() {
				s, err := ln.Accept()
				if err != nil {
					return
				}
				defer s.Close()
				go func() { // drain requests
					buf := make([]byte, 4096)
					for {
						if _, err := s.Read(buf); err != nil {
							return
						}
					}
				}()
				k := 0
				for range answer {
					k++
					fmt.Fprintf(s, `{"parameters":{"n":%d}}`+"\x00", k)
				}
			}()
			base := runtime.NumGoroutine()
			addr := network + ":" + ln.Addr().String()
			if network == "unix" {
				addr = "unix:" + laddr
			}
			conn, err := varlink.NewConnection(context.Background(), addr)
			if err != nil {
				return err
			}
			live := context.Background()
			margin := 2 * time.Second
			out := ""
			prompt := true
			timed := func(f func() string) {
				t0 := time.Now()
				done := make(chan string, 1)
				go func() { done <- f() }()
				select {
				case r := <-done:
					out += r + ","
					if time.Since(t0) > margin {
						prompt = false
					}
				case <-time.After(6 * time.Second):
					out += "stuck,"
					prompt = false
				}
			}
			var reply struct {
				N int `json:"n"`
			}
			switch scen {
			case "recv-cancel", "recv-deadline", "reuse":
				receive, err := conn.Send(live, "a.b.C", nil, 0)
				if err != nil {
					return err
				}
				var rctx context.Context
				var cancel context.CancelFunc
				if scen == "recv-deadline" {
					rctx, cancel = context.WithTimeout(live, 30*time.Millisecond)
				} else {
					rctx, cancel = context.WithCancel(live)
					time.AfterFunc(30*time.Millisecond, cancel)
				}
				timed(func() string { _, err := receive(rctx, &reply); return classifyCtxErr(err) })
				cancel()
				if scen == "reuse" {
					answer <- struct{}{} // the late reply to the first call
					time.Sleep(20 * time.Millisecond)
					timed(func() string {
						_, err := receive(live, &reply)
						return fmt.Sprintf("%s:%d", classifyCtxErr(err), reply.N)
					})
					answer <- struct{}{}
					timed(func() string {
						var r2 struct {
							N int `json:"n"`
						}
						err := conn.Call(live, "a.b.D", nil, &r2)
						return fmt.Sprintf("%s:%d", classifyCtxErr(err), r2.N)
					})
				}
			case "send-ctx-dead":
				sctx, cancel := context.WithCancel(live)
				receive, err := conn.Send(sctx, "a.b.C", nil, 0)
				cancel()
				if err != nil {
					return err
				}
				answer <- struct{}{}
				timed(func() string {
					_, err := receive(live, &reply)
					return fmt.Sprintf("%s:%d", classifyCtxErr(err), reply.N)
				})
			case "call":
				cctx, cancel := context.WithCancel(live)
				time.AfterFunc(30*time.Millisecond, cancel)
				timed(func() string {
					var raw json.RawMessage
					return classifyCtxErr(conn.Call(cctx, "a.b.C", nil, &raw))
				})
				cancel()
			}
			if strings.Contains(out, "stuck") {
				stuckCases++
			}
			conn.Close()
			close(answer)
			// goroutines must settle back (the scripted server's own goroutines end when the connection closes)
			left := 0
			for t := 0; t < 200; t++ {
				left = runtime.NumGoroutine() - base
				if left <= 0 {
					break
				}
				time.Sleep(5 * time.Millisecond)
			}
			if left < 0 {
				left = 0
			}
			l := &Line{}
			l.S("ctxsplit").S(scen).S(network).S("|").S(strings.TrimSuffix(out, ",")).Bool(prompt).N(left)
			fmt.Fprintln(e.out, l.String())
			return nil
		})
	}
}
