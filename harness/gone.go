package main

// gone (C10) — a handler that keeps replying learns that its peer has gone. The handler of a `more`
// call streams replies until `Call.Reply` returns an error (that is the only way a running handler
// can notice); the client reads k replies and then disappears (close, or reset on tcp). The handler
// must end with an error, the connection must be released, the service must still shut down.
// This is the assumption "I/O on a dead peer errors" of the C10/C14 progress theorems, checked at
// the library boundary.
//
//   gone <network> <mode> <k> | <handler ended 0/1> <with error 0/1> <released 0/1> <serving ended 0/1>

import (
	"context"
	"fmt"
	"net"
	"sync/atomic"
	"time"

	"github.com/varlink/go/varlink"
)

type goneIface struct {
	ended   int32
	withErr int32
	sent    int64
}

func (s *goneIface) VarlinkGetName() string { return "org.example.gone" }
func (s *goneIface) VarlinkGetDescription() string {
	return "interface org.example.gone\nmethod Tick() -> (i: int)\n"
}
func (s *goneIface) VarlinkDispatch(ctx context.Context, c varlink.Call, method string) error {
	if method != "Tick" || !c.WantsMore() {
		return c.ReplyMethodNotFound(ctx, method)
	}
	deadline := time.Now().Add(8 * time.Second)
	pad := make([]byte, 2000)
	for i := range pad {
		pad[i] = 'x'
	}
	var err error
	for i := int64(0); time.Now().Before(deadline); i++ {
		c.Continues = true
		if err = c.Reply(ctx, map[string]interface{}{"i": i, "pad": string(pad)}); err != nil {
			break
		}
		atomic.AddInt64(&s.sent, 1)
	}
	if err != nil {
		atomic.StoreInt32(&s.withErr, 1)
	}
	atomic.StoreInt32(&s.ended, 1)
	if err == nil {
		return fmt.Errorf("gave up waiting for the reply to fail")
	}
	return err
}

func init() {
	commands["gone"] = func(e *env) error {
		return e.each(func(i int, g *Rng) error {
			ctx := context.Background()
			network := []string{"unix", "tcp"}[i%2]
			mode := []string{"close", "reset", "close"}[(i/2)%3]
			if network == "unix" && mode == "reset" {
				mode = "close"
			}
			k := []int{0, 1, 3, 40}[g.Intn(4)]
			iface := &goneIface{}
			svc, err := varlink.NewService("gone", "p", "1", "u")
			if err != nil {
				return err
			}
			if err := svc.RegisterInterface(iface); err != nil {
				return err
			}
			addr := fmt.Sprintf("unix:@verif-gone-%d-%d-%d", e.seed, i, time.Now().UnixNano()%1000000)
			if network == "tcp" {
				addr = fmt.Sprintf("tcp:127.0.0.1:%d", freePort())
			}
			if err := svc.Bind(ctx, addr); err != nil {
				return err
			}
			done := make(chan error, 1)
			go func() { done <- svc.DoListen(ctx, 0) }()
			for t := 0; t < 3000; t++ {
				if running, _, _, _ := svc.VerifState(); running {
					break
				}
				time.Sleep(time.Millisecond)
			}
			target := addr[5:]
			if network == "tcp" {
				target = addr[4:]
			}
			conn, err := net.Dial(network, target)
			if err != nil {
				return err
			}
			conn.Write([]byte(`{"method":"org.example.gone.Tick","more":true}` + "\x00"))
			// read k complete replies, then disappear
			buf := make([]byte, 4096)
			seen := 0
			conn.SetReadDeadline(time.Now().Add(5 * time.Second))
			for seen < k {
				n, err := conn.Read(buf)
				for _, b := range buf[:n] {
					if b == 0 {
						seen++
					}
				}
				if err != nil {
					break
				}
			}
			if mode == "reset" {
				conn.(*net.TCPConn).SetLinger(0)
			}
			conn.Close()
			ended, released := false, false
			for t := 0; t < 6000; t++ {
				if atomic.LoadInt32(&iface.ended) == 1 {
					ended = true
					break
				}
				time.Sleep(time.Millisecond)
			}
			for t := 0; t < 3000 && ended; t++ {
				if svc.VerifConnCounter() == 0 {
					released = true
					break
				}
				time.Sleep(time.Millisecond)
			}
			svc.Shutdown()
			servingEnded := false
			select {
			case <-done:
				servingEnded = true
			case <-time.After(10 * time.Second):
			}
			l := &Line{}
			l.S("gone").S(network).S(mode).N(k).S("|").Bool(ended).Bool(atomic.LoadInt32(&iface.withErr) == 1).Bool(released).Bool(servingEnded)
			fmt.Fprintln(e.out, l.String())
			return nil
		})
	}
}

// connctx (C17) — the context a handler is given belongs to its connection: once the connection has ended (the
// client closed it, or sent something that is not a call, or the handler failed) that context is cancelled, so
// whatever a handler tied to it ends too; while the connection lives and the serving context is live it is not.
//
//	connctx <ending> | <live while connected 0/1> <cancelled after the end 0/1>
type ctxIface struct{ got chan context.Context }

func (s *ctxIface) VarlinkGetName() string { return "org.example.ctx" }
func (s *ctxIface) VarlinkGetDescription() string {
	return "interface org.example.ctx\nmethod Keep() -> ()\nmethod Fail() -> ()\n"
}
func (s *ctxIface) VarlinkDispatch(ctx context.Context, c varlink.Call, method string) error {
	select {
	case s.got <- ctx:
	default:
	}
	if method == "Fail" {
		return fmt.Errorf("handler gives up")
	}
	if method == "KeepDl" {
		// a reply sent under a deadline of its own, which passes soon afterwards: later replies on this connection,
		// sent under the connection's own context, must not inherit it
		dctx, cancel := context.WithTimeout(ctx, 40*time.Millisecond)
		defer cancel()
		return c.Reply(dctx, nil)
	}
	return c.Reply(ctx, nil)
}

func init() {
	commands["connctx"] = func(e *env) error {
		return e.each(func(i int, g *Rng) error {
			ctx := context.Background()
			ending := []string{"client-close", "garbage", "handler-error", "client-abort", "deadline-then-plain"}[i%5]
			iface := &ctxIface{got: make(chan context.Context, 4)}
			svc, err := varlink.NewService("ctx", "p", "1", "u")
			if err != nil {
				return err
			}
			if err := svc.RegisterInterface(iface); err != nil {
				return err
			}
			addr := fmt.Sprintf("unix:@verif-connctx-%d-%d-%d", e.seed, i, time.Now().UnixNano()%1000000)
			if err := svc.Bind(ctx, addr); err != nil {
				return err
			}
			done := make(chan error, 1)
			go func() { done <- svc.DoListen(ctx, 0) }()
			for t := 0; t < 3000; t++ {
				if running, _, _, _ := svc.VerifState(); running {
					break
				}
				time.Sleep(time.Millisecond)
			}
			conn, err := net.Dial("unix", addr[5:])
			if err != nil {
				return err
			}
			method := "Keep"
			if ending == "handler-error" {
				method = "Fail"
			}
			if ending == "deadline-then-plain" {
				method = "KeepDl"
			}
			conn.Write([]byte(`{"method":"org.example.ctx.` + method + `"}` + "\x00"))
			var hctx context.Context
			select {
			case hctx = <-iface.got:
			case <-time.After(5 * time.Second):
				return fmt.Errorf("handler not reached")
			}
			live := true
			if ending != "handler-error" {
				// the reply has arrived, the connection is idle: the context must still be live
				buf := make([]byte, 256)
				conn.SetReadDeadline(time.Now().Add(5 * time.Second))
				conn.Read(buf)
				time.Sleep(20 * time.Millisecond)
				live = hctx.Err() == nil
			}
			second := true
			switch ending {
			case "deadline-then-plain":
				time.Sleep(90 * time.Millisecond) // the handler's 40 ms deadline is long past
				conn.Write([]byte(`{"method":"org.example.ctx.Keep"}` + "\x00"))
				buf := make([]byte, 256)
				conn.SetReadDeadline(time.Now().Add(3 * time.Second))
				n, err := conn.Read(buf)
				second = err == nil && n > 0 && buf[n-1] == 0
				conn.Close()
			case "client-close":
				conn.Close()
			case "client-abort":
				conn.Write([]byte(`{"method":"org.example.ctx.Ke`))
				conn.Close()
			case "garbage":
				conn.Write([]byte("}{\x00"))
			}
			cancelled := false
			select {
			case <-hctx.Done():
				cancelled = true
			case <-time.After(3 * time.Second):
			}
			conn.Close()
			svc.Shutdown()
			select {
			case <-done:
			case <-time.After(10 * time.Second):
			}
			l := &Line{}
			l.S("connctx").S(ending).S("|").Bool(live).Bool(cancelled).Bool(second)
			fmt.Fprintln(e.out, l.String())
			return nil
		})
	}
}

// stall (C10) — one client floods the service with well-formed calls and never reads a reply, so that the replies to
// it block; it stays connected. Other connections must not notice: an established one is still answered, a new one
// is accepted and answered, and Shutdown still returns.
//
//	stall <calls> | <established probe answered 0/1> <new connection answered 0/1> <shutdown returned 0/1> <serving ended after the staller left 0/1>
func init() {
	commands["stall"] = func(e *env) error {
		return e.each(func(i int, g *Rng) error {
			ctx := context.Background()
			svc, err := varlink.NewService("stall", "p", "1", "u")
			if err != nil {
				return err
			}
			if err := svc.RegisterInterface(&ctxIface{got: make(chan context.Context, 4)}); err != nil {
				return err
			}
			addr := fmt.Sprintf("unix:@verif-stall-%d-%d-%d", e.seed, i, time.Now().UnixNano()%1000000)
			if err := svc.Bind(ctx, addr); err != nil {
				return err
			}
			done := make(chan error, 1)
			go func() { done <- svc.DoListen(ctx, 0) }()
			for t := 0; t < 3000; t++ {
				if running, _, _, _ := svc.VerifState(); running {
					break
				}
				time.Sleep(time.Millisecond)
			}
			probe, err := varlink.NewConnection(ctx, addr)
			if err != nil {
				return err
			}
			staller, err := net.Dial("unix", addr[5:])
			if err != nil {
				return err
			}
			frame := []byte(`{"method":"org.varlink.service.GetInfo"}` + "\x00" + `{"method":"org.varlink.service.GetInterfaceDescription","parameters":{"interface":"org.varlink.service"}}` + "\x00")
			calls := 0
			staller.SetWriteDeadline(time.Now().Add(1500 * time.Millisecond))
			for calls < 400000 {
				if _, err := staller.Write(frame); err != nil {
					break // the service no longer takes input from it: its replies are stuck
				}
				calls += 2
			}
			answered := func(c *varlink.Connection) bool {
				cctx, cancel := context.WithTimeout(ctx, 3*time.Second)
				defer cancel()
				var v string
				return c.GetInfo(cctx, &v, nil, nil, nil, nil) == nil && v == "stall"
			}
			established := answered(probe)
			fresh := false
			if c2, err := varlink.NewConnection(ctx, addr); err == nil {
				fresh = answered(c2)
				c2.Close()
			}
			probe.Close()
			shut := make(chan struct{})
			go func() { svc.Shutdown(); close(shut) }()
			shutdownReturned := false
			select {
			case <-shut:
				shutdownReturned = true
			case <-time.After(3 * time.Second):
			}
			staller.Close()
			ended := false
			select {
			case <-done:
				ended = true
			case <-time.After(10 * time.Second):
			}
			l := &Line{}
			l.S("stall").N(calls).S("|").Bool(established).Bool(fresh).Bool(shutdownReturned).Bool(ended)
			fmt.Fprintln(e.out, l.String())
			return nil
		})
	}
}
