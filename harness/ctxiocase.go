package main

import (
	"context"
	"fmt"

	"github.com/varlink/go/varlink/internal/ctxio"
)

// ctxio: frame reads and raw reads interleaved over a scripted segmentation (C18, C02 receive side).

type rop struct {
	frame bool
	n     int
}

type ctxioCase struct {
	segs [][]byte
	ops  []rop
}

func (g *Rng) streamBytes() []byte {
	n := g.Intn(6)
	var b []byte
	for i := 0; i < n; i++ {
		switch g.Intn(6) {
		case 5: // frames that exactly fill what is left of the buffer after the previous ones
			k := (4096 - (len(b)+1)%4096) % 4096
			for j := 0; j < k; j++ {
				b = append(b, byte(1+g.Intn(255)))
			}
			b = append(b, 0)
		case 0:
			b = append(b, 0) // empty frame
		case 1:
			k := g.Intn(40)
			for j := 0; j < k; j++ {
				b = append(b, byte(1+g.Intn(255)))
			}
			b = append(b, 0)
		case 2: // payload without NUL
			k := 1 + g.Intn(30)
			for j := 0; j < k; j++ {
				b = append(b, byte(1+g.Intn(255)))
			}
		case 3: // large frame; half of them with a wire length at or next to a multiple of the reader's 4096-byte buffer
			k := 4000 + g.Intn(6000)
			if g.Bool() {
				k = g.Pick3(4096, 8192, 12288) - 1 + g.Pick3(-1, 0, 1)
			}
			for j := 0; j < k; j++ {
				b = append(b, byte(1+g.Intn(255)))
			}
			b = append(b, 0)
		default:
			b = append(b, []byte(`{"a":1}`)...)
			b = append(b, 0)
		}
	}
	return b
}

func (g *Rng) ctxioCase() ctxioCase {
	var c ctxioCase
	s := g.streamBytes()
	c.segs = g.cut(s)
	n := g.Intn(8)
	for i := 0; i < n; i++ {
		if g.Chance(3, 5) {
			c.ops = append(c.ops, rop{frame: true})
		} else {
			sz := []int{1, 2, 3, 7, 16, 100, 4095, 4096, 4097, 10000}[g.Intn(10)]
			c.ops = append(c.ops, rop{n: sz})
		}
	}
	return c
}

func runCtxio(c ctxioCase) [][]byte {
	conn := ctxio.NewConn(newSegConn(cloneSegs(c.segs)))
	ctx := context.Background()
	var outs [][]byte
	for _, op := range c.ops {
		if op.frame {
			b, _ := conn.ReadBytes(ctx, 0)
			outs = append(outs, append([]byte(nil), b...))
		} else {
			p := make([]byte, op.n)
			n, _ := conn.Read(ctx, p)
			outs = append(outs, append([]byte(nil), p[:n]...))
		}
	}
	return outs
}

func cloneSegs(s [][]byte) [][]byte {
	out := make([][]byte, len(s))
	for i := range s {
		out[i] = append([]byte(nil), s[i]...)
	}
	return out
}

func ctxioLine(c ctxioCase, outs [][]byte) string {
	l := &Line{}
	l.S("ctxio").N(len(c.segs))
	for _, s := range c.segs {
		l.B(s)
	}
	l.N(len(c.ops))
	for _, o := range c.ops {
		if o.frame {
			l.S("f")
		} else {
			l.S(fmt.Sprintf("r%d", o.n))
		}
	}
	l.S("|").N(len(outs))
	for _, o := range outs {
		l.B(o)
	}
	return l.String()
}

func init() {
	commands["ctxio"] = func(e *env) error {
		return e.each(func(i int, g *Rng) error {
			var c ctxioCase
			switch i {
			case 0: // corpus: payload coalesced with the preceding frame
				c = ctxioCase{segs: [][]byte{{1, 0, 7, 7}, {9}}, ops: []rop{{frame: true}, {n: 4}}}
			case 1:
				c = ctxioCase{segs: [][]byte{[]byte("{}\x00PAYLOAD")}, ops: []rop{{frame: true}, {n: 3}, {n: 100}}}
			default:
				c = g.ctxioCase()
			}
			fmt.Fprintln(e.out, ctxioLine(c, runCtxio(c)))
			return nil
		})
	}
}
