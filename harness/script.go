package main

import (
	"context"
	"encoding/json"
	"io"
	"net"
	"os"
	"sync"

	"github.com/varlink/go/varlink"
)

// Handler scripts travel in the call's parameters (see lean/Varlink/Script.lean, mirrored here).

type act struct {
	tag  string
	b    bool
	name string
	has  bool
	val  json.RawMessage
	kind string
}

type script struct {
	id   string
	acts []act
	fail bool
}

// unencodable: a value json.Marshal rejects, in several guises — a failing MarshalJSON, and raw messages that are
// not one JSON value (a NUL inside, a surplus brace, a truncated document; also behind a pointer). Nothing may be
// written for any of them.
func unencodable(k int) interface{} {
	raws := []json.RawMessage{json.RawMessage("{\"a\":\"x\x00y\"}"), json.RawMessage(`{"a":1}}`), json.RawMessage(`{"a":[1,2`), json.RawMessage("{}\x00{}")}
	switch k % 6 {
	case 0:
		return badPayload{}
	case 1:
		r := raws[(k/6)%len(raws)]
		return &r
	default:
		return raws[k%len(raws)]
	}
}

type badPayload struct{}

func (badPayload) MarshalJSON() ([]byte, error) { return nil, errBad }

type strErr string

func (e strErr) Error() string { return string(e) }

const errBad = strErr("verif: unencodable payload")

// strict helpers: a JSON text must be of the given kind (no null-is-no-op leniency)
func asString(r json.RawMessage) (string, bool) {
	t := trimWs(r)
	if len(t) == 0 || t[0] != '"' {
		return "", false
	}
	var s string
	if json.Unmarshal(r, &s) != nil {
		return "", false
	}
	return s, true
}

func asBool(r json.RawMessage) (bool, bool) {
	switch string(trimWs(r)) {
	case "true":
		return true, true
	case "false":
		return false, true
	}
	return false, false
}

func asArray(r json.RawMessage) ([]json.RawMessage, bool) {
	t := trimWs(r)
	if len(t) == 0 || t[0] != '[' {
		return nil, false
	}
	var l []json.RawMessage
	if json.Unmarshal(r, &l) != nil {
		return nil, false
	}
	return l, true
}

func trimWs(b []byte) []byte {
	i, j := 0, len(b)
	for i < j && (b[i] == ' ' || b[i] == '\t' || b[i] == '\n' || b[i] == '\r') {
		i++
	}
	for j > i && (b[j-1] == ' ' || b[j-1] == '\t' || b[j-1] == '\n' || b[j-1] == '\r') {
		j--
	}
	return b[i:j]
}

func decodeAct(r json.RawMessage) (act, bool) {
	l, ok := asArray(r)
	if !ok || len(l) == 0 {
		return act{}, false
	}
	tag, ok := asString(l[0])
	if !ok {
		return act{}, false
	}
	args := l[1:]
	switch tag {
	case "c":
		if len(args) == 1 {
			if b, ok := asBool(args[0]); ok {
				return act{tag: "c", b: b}, true
			}
		}
	case "r":
		if len(args) == 0 {
			return act{tag: "r"}, true
		}
		if len(args) == 1 {
			return act{tag: "r", has: true, val: args[0]}, true
		}
	case "rb":
		if len(args) == 0 {
			return act{tag: "rb"}, true
		}
	case "e":
		if len(args) == 1 || len(args) == 2 {
			if n, ok := asString(args[0]); ok {
				a := act{tag: "e", name: n}
				if len(args) == 2 {
					a.has = true
					a.val = args[1]
				}
				return a, true
			}
		}
	case "eb":
		if len(args) == 1 {
			if n, ok := asString(args[0]); ok {
				return act{tag: "eb", name: n}, true
			}
		}
	case "s":
		if len(args) == 2 {
			k, ok1 := asString(args[0])
			a, ok2 := asString(args[1])
			if ok1 && ok2 && (k == "i" || k == "m" || k == "n" || k == "p") {
				return act{tag: "s", kind: k, name: a}, true
			}
		}
	}
	return act{}, false
}

func decodeScript(params *json.RawMessage) script {
	var s script
	if params == nil {
		return s
	}
	t := trimWs(*params)
	if len(t) == 0 || t[0] != '{' {
		return s
	}
	var top map[string]json.RawMessage
	if json.Unmarshal(*params, &top) != nil {
		return script{}
	}
	if id, ok := top["id"]; ok {
		if v, ok := asString(id); ok {
			s.id = v
		}
	}
	if f, ok := top["fail"]; ok {
		b, ok := asBool(f)
		if !ok {
			return script{id: s.id}
		}
		s.fail = b
	}
	if a, ok := top["acts"]; ok {
		l, ok := asArray(a)
		if !ok {
			return script{id: s.id}
		}
		for _, e := range l {
			x, ok := decodeAct(e)
			if !ok {
				return script{id: s.id}
			}
			s.acts = append(s.acts, x)
		}
	}
	return s
}

// dispatchLog records, per case id, every invocation of a scripted dispatcher.
type invocation struct {
	iface, method string
	results       []bool // true = the API call returned an error
}

type dispatchLog struct {
	mu  sync.Mutex
	log map[string][]invocation
	// single != "": every invocation is filed under this id (one connection per service)
	single string
}

func newDispatchLog() *dispatchLog { return &dispatchLog{log: map[string][]invocation{}} }

func (d *dispatchLog) add(id string, inv invocation) {
	d.mu.Lock()
	if d.single != "" {
		id = d.single
	}
	d.log[id] = append(d.log[id], inv)
	d.mu.Unlock()
}

func (d *dispatchLog) take(id string) []invocation {
	d.mu.Lock()
	defer d.mu.Unlock()
	l := d.log[id]
	delete(d.log, id)
	return l
}

// scriptedIface is a varlink dispatcher whose behaviour is the script carried by each call.
type scriptedIface struct {
	name, desc string
	log        *dispatchLog
	defaultID  string
	// hook, if set, runs at the start of every dispatch (used to hold a handler until told to go on)
	hook func(method string)
}

func (s *scriptedIface) VarlinkGetName() string        { return s.name }
func (s *scriptedIface) VarlinkGetDescription() string { return s.desc }

func (s *scriptedIface) VarlinkDispatch(ctx context.Context, c varlink.Call, methodname string) error {
	if s.hook != nil {
		s.hook(methodname)
	}
	// the parameters as a handler gets them (public API), not through the internal field
	var rawParams *json.RawMessage
	var raw json.RawMessage
	if c.GetParameters(&raw) == nil {
		rawParams = &raw
	}
	sc := decodeScript(rawParams)
	inv := invocation{iface: s.name, method: methodname}
	for _, a := range sc.acts {
		var err error
		switch a.tag {
		case "c":
			c.Continues = a.b
			inv.results = append(inv.results, false)
			continue
		case "r":
			if a.has {
				err = c.Reply(ctx, a.val)
			} else {
				err = c.Reply(ctx, nil)
			}
		case "rb":
			err = c.Reply(ctx, unencodable(len(inv.results)+len(methodname)))
		case "e":
			if a.has {
				err = c.ReplyError(ctx, a.name, a.val)
			} else {
				err = c.ReplyError(ctx, a.name, nil)
			}
		case "eb":
			err = c.ReplyError(ctx, a.name, unencodable(len(inv.results)+len(a.name)))
		case "s":
			switch a.kind {
			case "i":
				err = c.ReplyInterfaceNotFound(ctx, a.name)
			case "m":
				err = c.ReplyMethodNotFound(ctx, a.name)
			case "n":
				err = c.ReplyMethodNotImplemented(ctx, a.name)
			case "p":
				err = c.ReplyInvalidParameter(ctx, a.name)
			}
		}
		inv.results = append(inv.results, err != nil)
	}
	id := sc.id
	if id == "" {
		id = s.defaultID
	}
	s.log.add(id, inv)
	if sc.fail {
		// whatever the error is — also one that looks transient (a timeout, a cancelled context, EOF) — a handler
		// that returns it ends its connection
		errs := []error{strErr("scripted handler failure"), context.DeadlineExceeded, context.Canceled, io.EOF,
			io.ErrUnexpectedEOF, &net.OpError{Op: "write", Net: "unix", Err: os.ErrDeadlineExceeded}}
		return errs[(len(id)+len(methodname)+len(inv.results))%len(errs)]
	}
	return nil
}
