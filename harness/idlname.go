package main

import (
	"fmt"
	"go/ast"
	"go/parser"
	"go/token"
	"os"
	"regexp"
	"strconv"
	"strings"
)

// idlname: the two regular expressions of idl.go's readInterfaceName against the hand-written matchers of the
// Lean model. The expressions are read from the source of the tree under test (the literals handed to
// regexp.MustCompile inside readInterfaceName), compiled with package regexp and applied to generated strings:
//
//	idlname x<bytes> | <len(dnrx.FindString)> <len(xdnrx.FindString)>

// the source the regular expressions are read from: /repo, or the snapshot a background sweep runs against
var idlSourcePath = func() string {
	if r := os.Getenv("VERIF_REPO"); r != "" {
		return r + "/varlink/idl/idl.go"
	}
	return "/repo/varlink/idl/idl.go"
}()

func idlNameRegexps() ([]*regexp.Regexp, error) {
	fset := token.NewFileSet()
	f, err := parser.ParseFile(fset, idlSourcePath, nil, 0)
	if err != nil {
		return nil, err
	}
	var res []*regexp.Regexp
	for _, d := range f.Decls {
		fd, ok := d.(*ast.FuncDecl)
		if !ok || fd.Name.Name != "readInterfaceName" || fd.Body == nil {
			continue
		}
		ast.Inspect(fd.Body, func(n ast.Node) bool {
			c, ok := n.(*ast.CallExpr)
			if !ok || len(c.Args) != 1 {
				return true
			}
			sel, ok := c.Fun.(*ast.SelectorExpr)
			if !ok || sel.Sel.Name != "MustCompile" {
				return true
			}
			lit, ok := c.Args[0].(*ast.BasicLit)
			if !ok || lit.Kind != token.STRING {
				return true
			}
			s, err := strconv.Unquote(lit.Value)
			if err != nil {
				return true
			}
			if re, err := regexp.Compile(s); err == nil {
				res = append(res, re)
			}
			return true
		})
	}
	if len(res) != 2 {
		return nil, fmt.Errorf("readInterfaceName: expected 2 regular expressions, found %d", len(res))
	}
	return res, nil
}

var idlNameAlphabet = []string{"a", "Z", "0", ".", "-", "x", "n", "xn--", " ", "_", "é", "b9", "..", "--", ".-", "-.", "\n", "#"}

func init() {
	commands["idlname"] = func(e *env) error {
		res, err := idlNameRegexps()
		if err != nil {
			return err
		}
		crafted := append([]string{}, idlIfaceNames...)
		crafted = append(crafted, "", "a", "a.", ".a", "a..b", "a.b.", "a.b-", "a.b-.c", "a-b.c", "9a.b", "a.9", "xn--", "xn--a", "xn--a.", "xn--.a",
			"xn--A.b", "xn--a.B", "xn-a.b", "xn.a", "xn--a-b.c", "xn--a.b-c", "a.b c", "a.b\n", "a.b#", "a.b_c", "a_b.c", "é.a", "a.é",
			strings.Repeat("a", 253)+".b", strings.Repeat("a", 254)+".b", strings.Repeat("a", 253)+".bc", "a."+strings.Repeat("b", 300),
			"xn--"+strings.Repeat("a", 249)+".b", "xn--"+strings.Repeat("a", 250)+".b", "xn--"+strings.Repeat("a", 249)+".bc",
			strings.Repeat("a.", 127)+"b", strings.Repeat("a.", 128)+"b", strings.Repeat("a-", 10)+".b", "a."+strings.Repeat("b-", 10)+"c")
		return e.each(func(i int, g *Rng) error {
			var s string
			if i < len(crafted) {
				s = crafted[i]
			} else {
				n := g.Intn(9)
				for k := 0; k < n; k++ {
					s += g.Pick(idlNameAlphabet)
				}
				if g.Chance(1, 20) {
					s = g.randString()
				}
			}
			l := &Line{}
			l.S("idlname").Str(s).S("|").N(len(res[0].FindString(s))).N(len(res[1].FindString(s)))
			fmt.Fprintln(e.out, l.String())
			return nil
		})
	}
}
