//go:build verif
// +build verif

package varlink

// White-box accessors for the verification harness. This file is never committed to the
// repository: it is mapped into package varlink at build time with `go build -overlay`.

import (
	"context"
	"net"
	"sync"
)

// VerifHandleConnection runs the service's per-connection loop on conn exactly as the accept loop
// does (counter, wait group, goroutine) and returns when the handler has finished.
func (s *Service) VerifHandleConnection(ctx context.Context, conn net.Conn) {
	var wg sync.WaitGroup
	s.mutex.Lock()
	s.conncounter++
	s.mutex.Unlock()
	wg.Add(1)
	go s.handleConnection(ctx, conn, &wg)
	wg.Wait()
}

// VerifConnCounter reads the active-connection counter under the mutex.
func (s *Service) VerifConnCounter() int64 {
	s.mutex.Lock()
	defer s.mutex.Unlock()
	return s.conncounter
}

// VerifSetListener installs a listener as Bind would.
func (s *Service) VerifSetListener(l net.Listener) {
	s.mutex.Lock()
	s.listener = l
	s.mutex.Unlock()
}

// VerifState reports the lifecycle fields under the mutex.
func (s *Service) VerifState() (running bool, hasListener bool, protocol string, address string) {
	s.mutex.Lock()
	defer s.mutex.Unlock()
	return s.running, s.listener != nil, s.protocol, s.address
}
