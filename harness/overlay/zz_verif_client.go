//go:build verif
// +build verif

package varlink

// White-box constructor for the verification harness (mapped in with `go build -overlay`, never
// committed to the repository): a Connection over an arbitrary net.Conn, as NewConnection builds it.

import (
	"net"

	"github.com/varlink/go/varlink/internal/ctxio"
)

func VerifNewConnection(conn net.Conn) *Connection {
	c := Connection{}
	c.address = "verif"
	c.conn = ctxio.NewConn(conn)
	return &c
}
