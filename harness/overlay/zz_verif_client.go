//go:build verif
// +build verif

package varlink

// White-box constructor for the verification harness (mapped in with `go build -overlay`, never
// committed to the repository): a Connection over an arbitrary net.Conn, as NewConnection builds it.

import (
	"encoding/json"
	"net"

	"github.com/varlink/go/varlink/internal/ctxio"
)

func VerifNewConnection(conn net.Conn) *Connection {
	c := Connection{}
	c.address = "verif"
	c.conn = ctxio.NewConn(conn)
	return &c
}

// VerifDecodeCall decodes a request frame exactly as HandleMessage does (json.Unmarshal into serviceCall).
func VerifDecodeCall(frame []byte) (method string, params []byte, hasParams, more, oneway, upgrade bool, err error) {
	var in serviceCall
	err = json.Unmarshal(frame, &in)
	if in.Parameters != nil {
		// read them the way a handler does (Call.GetParameters), whatever the field's representation is
		hasParams = true
		c := Call{In: &in}
		var raw json.RawMessage
		if e := c.GetParameters(&raw); e == nil {
			params = []byte(raw)
		}
	}
	return in.Method, params, hasParams, in.More, in.Oneway, in.Upgrade, err
}
