package main

import (
	"fmt"
	"strings"
)

// Mutation / totality streams for the IDL parser (C06, C09): no expected tree; the driver compares the real
// parser with the model and evaluates the C06 and C09 oracles on what the real parser returned.

// ---- token level ----------------------------------------------------------------------------------------

func tyTokens(t *gTy, out []string) []string {
	switch t.kind {
	case 'b':
		return append(out, "bool")
	case 'i':
		return append(out, "int")
	case 'f':
		return append(out, "float")
	case 's':
		return append(out, "string")
	case 'o':
		return append(out, "object")
	case 'n':
		return append(out, t.name)
	case 'q':
		return tyTokens(t.elem, append(out, "?"))
	case 'a':
		return tyTokens(t.elem, append(out, "[]"))
	case 'd':
		return tyTokens(t.elem, append(out, "[string]"))
	}
	out = append(out, "(")
	for i, f := range t.fields {
		if i > 0 {
			out = append(out, ",")
		}
		out = append(out, f.name)
		if f.ty != nil {
			out = append(out, ":")
			out = tyTokens(f.ty, out)
		}
	}
	return append(out, ")")
}

func idlTokens(d *gIdl) []string {
	out := []string{"interface", d.name}
	for _, m := range d.members {
		switch m.kind {
		case 'A':
			out = append(out, "type", m.name)
			out = tyTokens(m.t1, out)
		case 'M':
			out = append(out, "method", m.name)
			out = tyTokens(m.t1, out)
			out = append(out, "->")
			out = tyTokens(m.t2, out)
		case 'R':
			out = append(out, "error", m.name)
			if m.t1 != nil {
				out = tyTokens(m.t1, out)
			}
		}
	}
	return out
}

func isWordTok(s string) bool { return s != "" && startsAlnum(s[len(s)-1:]) }

// joinTokens: style 0 canonical (newline before member keywords, one space elsewhere, nothing after a type
// prefix), style 1 tight (a separator only where two tokens would merge), style 2 one token per line.
func joinTokens(toks []string, style int) string {
	var b strings.Builder
	for i, t := range toks {
		if i > 0 {
			p := toks[i-1]
			glue := p == "?" || p == "[]" || p == "[string]" || p == "["
			switch style {
			case 0:
				if t == "type" || t == "method" || t == "error" {
					b.WriteString("\n")
				} else if !glue {
					b.WriteString(" ")
				}
			case 1:
				if isWordTok(p) && startsAlnum(t) {
					if t == "type" || t == "method" || t == "error" {
						b.WriteString("\n")
					} else {
						b.WriteString(" ")
					}
				}
			default:
				if !glue {
					b.WriteString("\n")
				}
			}
		}
		b.WriteString(t)
	}
	if style != 1 {
		b.WriteString("\n")
	}
	return b.String()
}

var idlVocab = []string{
	"interface", "type", "method", "error", "(", ")", ":", ",", "->", "?", "[]", "[string]", "[", "]", "string",
	"int", "bool", "float", "object", "A", "Foo", "a", "foo", "a.b", "-", ">", "#", "\n", ".", "_", "9", "[int]",
	"xn--a.b", "T", "??", "\r", "\x00", "é",
}

// mutations of a token list: returns the number of single-token mutants and the k-th one
func idlMutantCount(n int) int {
	v := len(idlVocab)
	return n + n*v + (n+1)*v + (n - 1)
}

func idlMutant(toks []string, k int) (out []string, kind string) {
	n, v := len(toks), len(idlVocab)
	cp := func() []string { return append([]string{}, toks...) }
	switch {
	case k < n:
		out = append(cp()[:k], toks[k+1:]...)
		return out, "del"
	case k < n+n*v:
		k -= n
		out = cp()
		out[k/v] = idlVocab[k%v]
		return out, "subst"
	case k < n+n*v+(n+1)*v:
		k -= n + n*v
		pos := k / v
		out = append(append(cp()[:pos], idlVocab[k%v]), toks[pos:]...)
		return out, "ins"
	default:
		k -= n + n*v + (n+1)*v
		out = cp()
		out[k], out[k+1] = out[k+1], out[k]
		return out, "swap"
	}
}

// small vocabulary for the exhaustive token sequences behind "interface a.b\n"
var idlSeqVocab = []string{"method", "type", "error", "F", "(", ")", "->", "a", ":", "int", ",", "?", "[]", "[string]", "#", "\n"}

func idlSeqCount(maxLen int) int {
	n, p := 0, 1
	for l := 0; l <= maxLen; l++ {
		n += p
		p *= len(idlSeqVocab)
	}
	return n
}

func idlSeq(k int) []string {
	// k-th sequence in length-lexicographic order
	v := len(idlSeqVocab)
	l, p := 0, 1
	for k >= p {
		k -= p
		p *= v
		l++
	}
	out := make([]string, l)
	for i := l - 1; i >= 0; i-- {
		out[i] = idlSeqVocab[k%v]
		k /= v
	}
	return out
}

// ---- families -------------------------------------------------------------------------------------------

type idlFamily struct {
	name  string
	count int
	gen   func(j int, g *Rng) (text string, tags []string)
}

func idlBaseTexts(budget int) (toks [][]string) {
	for _, d := range idlSmallTrees(budget) {
		toks = append(toks, idlTokens(d))
	}
	return
}

func famBases(bases [][]string) idlFamily {
	return idlFamily{"base", len(bases) * 3, func(j int, g *Rng) (string, []string) {
		return joinTokens(bases[j/3], j%3), []string{"fam=base", "mut=1"}
	}}
}

func famMutants(bases [][]string) idlFamily {
	offs := make([]int, len(bases)+1)
	for i, b := range bases {
		offs[i+1] = offs[i] + idlMutantCount(len(b))
	}
	return idlFamily{"mutant", offs[len(bases)], func(j int, g *Rng) (string, []string) {
		lo, hi := 0, len(bases)
		for hi-lo > 1 {
			mid := (lo + hi) / 2
			if offs[mid] <= j {
				lo = mid
			} else {
				hi = mid
			}
		}
		m, kind := idlMutant(bases[lo], j-offs[lo])
		return joinTokens(m, (j/7)%2), []string{"fam=mutant", "mut=" + kind}
	}}
}

func famSeqs(maxLen int) idlFamily {
	return idlFamily{"seq", idlSeqCount(maxLen), func(j int, g *Rng) (string, []string) {
		s := idlSeq(j)
		return "interface a.b\n" + joinTokens(s, 0), []string{"fam=seq", fmt.Sprintf("seqlen=%d", len(s)), "mut=1"}
	}}
}

// random mutants of random (larger) trees under random layouts
func famRandomMutants(count int) idlFamily {
	return idlFamily{"rndmutant", count, func(j int, g *Rng) (string, []string) {
		d := g.idlTree(1+g.Intn(5), 1+g.Intn(3))
		toks := idlTokens(d)
		n := g.Intn(3)
		kind := "none"
		for k := 0; k < n; k++ {
			toks, kind = idlMutant(toks, g.Intn(idlMutantCount(len(toks))))
			if len(toks) < 2 {
				break
			}
		}
		return joinTokens(toks, g.Intn(3)), []string{"fam=rndmutant", "mut=" + kind}
	}}
}

// valid descriptions under random layouts (no expected tree: only the model comparison and the C06/C09 oracles)
func famRandomValid(count int) idlFamily {
	return idlFamily{"rndvalid", count, func(j int, g *Rng) (string, []string) {
		d := g.idlTree(1+g.Intn(6), 1+g.Intn(3))
		rl := &randomLayout{g: g, density: g.Intn(8), crlf: g.Chance(1, 5)}
		r := renderIdl(d, rl, g.Pick(idlFinalComments))
		return r.b.String(), []string{"fam=rndvalid", "mut=1"}
	}}
}

func idlSampleTexts(g *Rng) string {
	d := g.idlTree(1+g.Intn(4), 1+g.Intn(3))
	rl := &randomLayout{g: g, density: g.Intn(8), crlf: g.Chance(1, 5)}
	return renderIdl(d, rl, "").b.String()
}

// every truncation of valid descriptions: of every small base text (all cuts), and of random larger ones
func famTruncations(count int) idlFamily {
	bases := idlBaseTexts(2)
	const stride = 128
	return idlFamily{"trunc", count, func(j int, g *Rng) (string, []string) {
		// the description depends on j/stride only, the cut on j%stride (random beyond the text's length)
		var text string
		if k := j / stride; k < len(bases)*2 {
			text = joinTokens(bases[k/2], k%2)
		} else {
			text = idlSampleTexts(NewRng(uint64(k) + 77))
		}
		cut := j % stride
		if cut > len(text) {
			cut = g.Intn(len(text) + 1)
		}
		return text[:cut], []string{"fam=trunc", "mut=1"}
	}}
}

var idlTails = []string{"#", "# x", "#x", "# ", "\x00", "\xff\xfe", "\xc3", "\n#", "\r", "(", "?", "[", "[string", "->", "-", ":", ",", "é", "\x80", "# c\r"}

func famEndings(count int) idlFamily {
	return idlFamily{"ending", count, func(j int, g *Rng) (string, []string) {
		h := NewRng(uint64(j/len(idlTails)) + 99)
		text := idlSampleTexts(h)
		tail := idlTails[j%len(idlTails)]
		switch g.Intn(3) {
		case 0:
			return text + tail, []string{"fam=ending", "mut=1"}
		case 1:
			cut := g.Intn(len(text) + 1)
			return text[:cut] + tail, []string{"fam=ending", "mut=1"}
		default:
			cut := g.Intn(len(text) + 1)
			return text[:cut] + tail + text[cut:], []string{"fam=ending", "mut=1"}
		}
	}}
}

// deep nesting within 64 KiB
func famNesting(maxBytes int) idlFamily {
	type nest struct {
		open, close string
	}
	shapes := []nest{{"[]", ""}, {"?[]", ""}, {"[string]", ""}, {"(a:", ")"}, {"(a: ", " )"}, {"?(a:[]", ")"}, {"(", ")"}, {"?", ""}, {"[", "]"}, {"(a,", ")"}}
	sizes := []int{1, 2, 17, 256, 4096, maxBytes}
	return idlFamily{"nest", len(shapes) * len(sizes) * 4, func(j int, g *Rng) (string, []string) {
		sh := shapes[j%len(shapes)]
		j /= len(shapes)
		size := sizes[j%len(sizes)]
		j /= len(sizes)
		pre := "interface a.b\nmethod F(x: "
		post := ") -> ()\n"
		if j%2 == 1 {
			pre, post = "interface a.b\nmethod F() -> ()\ntype T ", "\n"
		}
		k := (size - len(pre) - len(post) - 3) / (len(sh.open) + len(sh.close))
		if k < 1 {
			k = 1
		}
		inner := "int"
		closeAll := true
		if j/2 == 1 {
			closeAll = false // truncated: nothing closes, no innermost type
			inner = ""
		}
		var b strings.Builder
		b.WriteString(pre)
		b.WriteString(strings.Repeat(sh.open, k))
		b.WriteString(inner)
		if closeAll {
			b.WriteString(strings.Repeat(sh.close, k))
			b.WriteString(post)
		}
		return b.String(), []string{"fam=nest", fmt.Sprintf("depth=%d", k), "mut=1"}
	}}
}

// wide inputs: many fields / many members / many comment lines
func famWide(maxBytes int) idlFamily {
	return idlFamily{"wide", 12, func(j int, g *Rng) (string, []string) {
		n := []int{10, 1000, maxBytes / 12}[j%3]
		var b strings.Builder
		b.WriteString("interface a.b\n")
		switch j / 3 {
		case 0:
			b.WriteString("method F(")
			for i := 0; i < n; i++ {
				if i > 0 {
					b.WriteString(",")
				}
				fmt.Fprintf(&b, "a%d:int", i)
			}
			b.WriteString(")->()\n")
		case 1:
			b.WriteString("method F()->()\ntype E (")
			for i := 0; i < n; i++ {
				if i > 0 {
					b.WriteString(",")
				}
				fmt.Fprintf(&b, "a%d", i)
			}
			b.WriteString(")\n")
		case 2:
			for i := 0; i < n/3+1; i++ {
				fmt.Fprintf(&b, "method M%d()->()\n", i)
			}
		default:
			for i := 0; i < n/2+1; i++ {
				b.WriteString("# c\n")
			}
			b.WriteString("method F()->()\n")
		}
		return b.String(), []string{"fam=wide", "mut=1"}
	}}
}

func famRandomBytes(count int) idlFamily {
	return idlFamily{"bytes", count, func(j int, g *Rng) (string, []string) {
		n := g.Intn(40)
		var b strings.Builder
		if g.Bool() {
			b.WriteString("interface a.b\n")
		}
		soup := g.Bool()
		for i := 0; i < n; i++ {
			if soup {
				b.WriteString(g.Pick(idlVocab))
				if g.Bool() {
					b.WriteString(" ")
				}
			} else {
				b.WriteByte(byte(g.Intn(256)))
			}
		}
		return b.String(), []string{"fam=bytes"}
	}}
}

// runFamilies maps case index i to a family: the families are laid out one after the other; indexes beyond the
// total wrap into the families marked as random.
func runFamilies(e *env, fams []idlFamily, randomFrom int) error {
	total := 0
	for _, f := range fams {
		total += f.count
	}
	return e.each(func(i int, g *Rng) error {
		j := i
		var fam *idlFamily
		if j < total {
			for k := range fams {
				if j < fams[k].count {
					fam = &fams[k]
					break
				}
				j -= fams[k].count
			}
		} else {
			k := randomFrom + (i-total)%(len(fams)-randomFrom)
			fam = &fams[k]
			j = fam.count + (i-total)/(len(fams)-randomFrom)
		}
		text, tags := fam.gen(j, g)
		fmt.Fprintln(e.out, idlLine(text, nil, tags))
		return nil
	})
}

func init() {
	commands["idlmut"] = func(e *env) error {
		if e.tier == "thorough" {
			bases := idlBaseTexts(3)
			return runFamilies(e, []idlFamily{famBases(bases), famMutants(bases), famSeqs(4),
				famRandomMutants(20000), famRandomValid(20000), famRandomBytes(5000)}, 3)
		}
		bases := idlBaseTexts(1)
		return runFamilies(e, []idlFamily{famBases(idlBaseTexts(2)), famMutants(bases), famSeqs(3),
			famRandomMutants(3000), famRandomValid(3000), famRandomBytes(1000)}, 3)
	}
	commands["idltot"] = func(e *env) error {
		if e.tier == "thorough" {
			return runFamilies(e, []idlFamily{famNesting(65536), famWide(65536), famTruncations(128 * 400), famEndings(20 * 400),
				famSeqs(3), famRandomBytes(20000), famRandomMutants(10000)}, 5)
		}
		return runFamilies(e, []idlFamily{famNesting(65536), famWide(16384), famTruncations(128 * 60), famEndings(20 * 60),
			famSeqs(2), famRandomBytes(3000), famRandomMutants(2000)}, 5)
	}
}
