package main

// history — state that outlives one operation must not leak into the next one: from one call to the next on a
// connection, from one connection to the next, from one serving run to the next on a Service. Each scenario is a
// short fixed history against the real library whose (simple) oracle is evaluated here; the driver reads the
// verdict through the `scale` line format.
//
//   scale resend <k>        a Send that is given up (its deadline passes while the peer does not read, nothing of
//                           it has been taken by the peer) followed by k Calls under a live context: the peer
//                           sees exactly the k later calls, each Call returns the reply to itself
//   scale staleclose <k>    a client abandons a `more` call after the first of k replies and closes with later
//                           replies received but unread; then a new connection calls, gets its own reply, upgrades
//                           and reads exactly the upgraded payload
//   scale reroute <k>       a call to an interface that is not registered (InterfaceNotFound), then between two
//                           serving runs that interface is registered: the same call now reaches it (k times)
//   scale staleflags <k>    a `more` call answered to its end, then a plain call on the same connection: the
//                           handler sees the flags of the call it is handling (k rounds)
//
//   line: scale <scenario> <n> | <bad> <first-problem>

import (
	"bufio"
	"context"
	"encoding/json"
	"fmt"
	"net"
	"strings"
	"sync"
	"time"

	"github.com/varlink/go/varlink"
)

type histIface struct {
	name string
	mu   sync.Mutex
	seen []string // "<method> more=<0/1>"
}

func (s *histIface) VarlinkGetName() string { return s.name }
func (s *histIface) VarlinkGetDescription() string {
	return "interface " + s.name + "\nmethod Ping(i: int) -> (i: int)\nmethod Count(n: int) -> (i: int)\nmethod Up() -> ()\n"
}
func (s *histIface) VarlinkDispatch(ctx context.Context, c varlink.Call, method string) error {
	s.mu.Lock()
	s.seen = append(s.seen, fmt.Sprintf("%s more=%v", method, c.WantsMore()))
	s.mu.Unlock()
	switch method {
	case "Ping":
		var in struct {
			I int64 `json:"i"`
		}
		if err := c.GetParameters(&in); err != nil {
			return c.ReplyInvalidParameter(ctx, "parameters")
		}
		if c.WantsMore() {
			// an implementation that streams when it may
			c.Continues = true
			if err := c.Reply(ctx, map[string]int64{"i": -1}); err != nil {
				return err
			}
			c.Continues = false
		}
		return c.Reply(ctx, map[string]int64{"i": in.I})
	case "Count":
		var in struct {
			N int64 `json:"n"`
		}
		if err := c.GetParameters(&in); err != nil || !c.WantsMore() {
			return c.ReplyInvalidParameter(ctx, "parameters")
		}
		for i := int64(0); i < in.N; i++ {
			c.Continues = i+1 < in.N
			if err := c.Reply(ctx, map[string]int64{"i": 1000 + i}); err != nil {
				return err
			}
		}
		return nil
	case "Up":
		if !c.WantsUpgrade() {
			return c.ReplyInvalidParameter(ctx, "upgrade")
		}
		if err := c.Reply(ctx, nil); err != nil {
			return err
		}
		_, err := c.Conn.Write(ctx, []byte("UPGRADED-PAYLOAD-OF-THIS-CONNECTION"))
		if err != nil {
			return err
		}
		return fmt.Errorf("upgraded protocol finished") // ends the connection
	}
	return c.ReplyMethodNotFound(ctx, method)
}

func histServe(svc *varlink.Service, addr string) (chan error, error) {
	ctx := context.Background()
	if err := svc.Bind(ctx, addr); err != nil {
		return nil, err
	}
	done := make(chan error, 1)
	go func() { done <- svc.DoListen(ctx, 0) }()
	for t := 0; t < 3000; t++ {
		if running, _, _, _ := svc.VerifState(); running {
			break
		}
		time.Sleep(time.Millisecond)
	}
	return done, nil
}

func histStop(svc *varlink.Service, done chan error) bool {
	svc.Shutdown()
	select {
	case <-done:
		return true
	case <-time.After(10 * time.Second):
		return false
	}
}

func init() {
	commands["history"] = func(e *env) error {
		type sc struct {
			name string
			n    int
		}
		plan := []sc{{"resend", 2}, {"staleclose", 40}, {"reroute", 2}, {"staleflags", 3}, {"resend", 1}, {"staleclose", 3}, {"reroute", 1}, {"staleflags", 1}}
		return e.each(func(i int, g *Rng) error {
			ctx := context.Background()
			p := plan[i%len(plan)]
			bad := 0
			first := "-"
			fail := func(f string, a ...interface{}) {
				if bad == 0 {
					first = fmt.Sprintf(f, a...)
				}
				bad++
			}
			uniq := fmt.Sprintf("%d-%d-%d", e.seed, i, time.Now().UnixNano()%1000000)
			addr := "unix:@verif-hist-" + uniq
			cctx, cancel := context.WithTimeout(ctx, 30*time.Second)
			defer cancel()
			switch p.name {
			case "resend":
				// net.Pipe has no buffer: a Write whose peer does not read transfers nothing, so giving the Send up
				// leaves the stream exactly where it was
				cli, srv := net.Pipe()
				var mu sync.Mutex
				var got []string
				start := make(chan struct{})
				peerDone := make(chan struct{})
				go func() {
					defer close(peerDone)
					<-start
					rd := bufio.NewReader(srv)
					for {
						f, err := rd.ReadBytes(0)
						if err != nil {
							return
						}
						var m struct {
							Method string `json:"method"`
						}
						json.Unmarshal(f[:len(f)-1], &m)
						mu.Lock()
						got = append(got, m.Method)
						mu.Unlock()
						srv.Write([]byte(`{"parameters":{"seen":"` + m.Method + `"}}` + "\x00"))
					}
				}()
				c := varlink.VerifNewConnection(cli)
				dctx, dcancel := context.WithTimeout(ctx, 60*time.Millisecond)
				_, err := c.Send(dctx, "org.example.hist.GivenUp", map[string]string{"pad": strings.Repeat("x", 100)}, 0)
				dcancel()
				if err == nil {
					fail("send-to-a-peer-that-does-not-read-succeeded")
				}
				close(start)
				for k := 0; k < p.n && bad == 0; k++ {
					name := fmt.Sprintf("org.example.hist.Later%d", k)
					var out struct {
						Seen string `json:"seen"`
					}
					octx, ocancel := context.WithTimeout(ctx, 3*time.Second)
					err := c.Call(octx, name, nil, &out)
					ocancel()
					if err != nil {
						fail("call-after-a-given-up-send-failed:%T", err)
					} else if out.Seen != name {
						fail("call-after-a-given-up-send-got-the-reply-to-another-call")
					}
				}
				c.Close()
				srv.Close()
				<-peerDone
				mu.Lock()
				if bad == 0 && len(got) != p.n {
					fail("peer-saw-%d-calls-after-%d-were-made", len(got), p.n)
				}
				for _, m := range got {
					if strings.HasSuffix(m, "GivenUp") && bad == 0 {
						fail("peer-saw-the-call-that-was-given-up")
					}
				}
				mu.Unlock()
			case "staleclose", "staleflags":
				iface := &histIface{name: "org.example.hist"}
				svc, err := varlink.NewService("hist", "p", "1", "u")
				if err != nil {
					return err
				}
				if err := svc.RegisterInterface(iface); err != nil {
					return err
				}
				done, err := histServe(svc, addr)
				if err != nil {
					return err
				}
				if p.name == "staleclose" {
					a, err := varlink.NewConnection(cctx, addr)
					if err != nil {
						return err
					}
					recv, err := a.Send(cctx, "org.example.hist.Count", map[string]int64{"n": int64(p.n)}, varlink.More)
					if err != nil {
						fail("send-failed")
					} else {
						var out struct {
							I int64 `json:"i"`
						}
						if _, err := recv(cctx, &out); err != nil || out.I != 1000 {
							fail("first-reply-of-the-stream-wrong")
						}
					}
					time.Sleep(30 * time.Millisecond) // the later replies have arrived; they stay unread
					a.Close()
					b, err := varlink.NewConnection(cctx, addr)
					if err != nil {
						return err
					}
					var out struct {
						I int64 `json:"i"`
					}
					if err := b.Call(cctx, "org.example.hist.Ping", map[string]int64{"i": 42}, &out); err != nil {
						fail("call-on-a-new-connection-failed:%T", err)
					} else if out.I != 42 {
						fail("new-connection-got-a-reply-that-is-not-its-own")
					}
					if bad == 0 {
						var none struct{}
						var rw varlink.ReadWriterContext
						recvU, err := b.Upgrade(cctx, "org.example.hist.Up", nil)
						if err == nil {
							_, rw, err = recvU(cctx, &none)
						}
						if err != nil {
							fail("upgrade-on-a-new-connection-failed:%T", err)
						} else {
							want := "UPGRADED-PAYLOAD-OF-THIS-CONNECTION"
							buf := make([]byte, 0, 64)
							tmp := make([]byte, 7)
							for len(buf) < len(want) {
								n, err := rw.Read(cctx, tmp)
								buf = append(buf, tmp[:n]...)
								if err != nil {
									break
								}
							}
							if string(buf) != want {
								fail("upgraded-payload-on-a-new-connection-differs")
							}
						}
					}
					b.Close()
				} else {
					c, err := varlink.NewConnection(cctx, addr)
					if err != nil {
						return err
					}
					for k := 0; k < p.n && bad == 0; k++ {
						recv, err := c.Send(cctx, "org.example.hist.Ping", map[string]int64{"i": int64(k)}, varlink.More)
						if err != nil {
							fail("send-failed")
							break
						}
						var out struct {
							I int64 `json:"i"`
						}
						fl, err := recv(cctx, &out)
						if err != nil || out.I != -1 || fl&varlink.Continues == 0 {
							fail("first-reply-of-a-more-call-wrong")
						}
						fl, err = recv(cctx, &out)
						if err != nil || out.I != int64(k) || fl&varlink.Continues != 0 {
							fail("last-reply-of-a-more-call-wrong")
						}
						// the plain call that follows is a plain call
						if err := c.Call(cctx, "org.example.hist.Ping", map[string]int64{"i": int64(100 + k)}, &out); err != nil {
							fail("plain-call-after-a-more-call-failed:%T", err)
						} else if out.I != int64(100+k) {
							fail("plain-call-after-a-more-call-got-another-reply")
						}
					}
					c.Close()
					iface.mu.Lock()
					for k, s := range iface.seen {
						if want := fmt.Sprintf("Ping more=%v", k%2 == 0); s != want && bad == 0 {
							fail("handler-%d-saw-%s", k, strings.ReplaceAll(s, " ", "-"))
						}
					}
					iface.mu.Unlock()
				}
				if !histStop(svc, done) {
					fail("serving-did-not-end")
				}
			case "reroute":
				name := "org.example.late"
				svc, err := varlink.NewService("hist", "p", "1", "u")
				if err != nil {
					return err
				}
				done, err := histServe(svc, addr)
				if err != nil {
					return err
				}
				c, err := varlink.NewConnection(cctx, addr)
				if err != nil {
					return err
				}
				var out struct {
					I int64 `json:"i"`
				}
				err = c.Call(cctx, name+".Ping", map[string]int64{"i": 1}, &out)
				if _, ok := err.(*varlink.InterfaceNotFound); !ok {
					fail("call-to-an-unregistered-interface-not-answered-InterfaceNotFound")
				}
				c.Close()
				if !histStop(svc, done) {
					fail("serving-did-not-end")
				}
				iface := &histIface{name: name}
				if err := svc.RegisterInterface(iface); err != nil {
					fail("registration-between-two-serving-runs-refused")
				}
				addr2 := addr + "-2"
				done, err = histServe(svc, addr2)
				if err != nil {
					return err
				}
				c, err = varlink.NewConnection(cctx, addr2)
				if err != nil {
					return err
				}
				for k := 0; k < p.n && bad == 0; k++ {
					if err := c.Call(cctx, name+".Ping", map[string]int64{"i": int64(7 + k)}, &out); err != nil {
						fail("call-to-the-interface-registered-meanwhile-failed:%T", err)
					} else if out.I != int64(7+k) {
						fail("call-to-the-interface-registered-meanwhile-got-another-reply")
					}
				}
				c.Close()
				if !histStop(svc, done) {
					fail("serving-did-not-end")
				}
			}
			l := &Line{}
			l.S("scale").S(p.name).N(p.n).S("|").N(bad).S(first)
			fmt.Fprintln(e.out, l.String())
			return nil
		})
	}
}
