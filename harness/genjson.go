package main

import (
	"fmt"
	"strings"
)

// Generators of JSON text. They produce *text* (not Go values) so that number literals, escapes and
// whitespace are under the generator's control.

var advStrings = []string{
	"", "a", "method", "org.varlink.service", "é", "世界", "\U0001F600", " ", " ",
	"<>&", "a\"b", "a\\b", "/", "\x7f", "ſ", "K", "tab\there", "nl\nx", "cr\rx", "nul\x00x", "\x01\x1f",
	"0", "-1", "true", "null", "{}", "[", "]", ",", ":", " ", "#", "'", "�", "￿", " ",
	`C:\users\u003cname\u003e`, `\u0026`, `a\u003cb`, `\\u003e`, `\n`, `\"`, `\u0000`, `<\u003c>`, "\\", `\ud800`,
}

// jsonString renders s as a JSON string literal choosing among equivalent escape forms.
func (g *Rng) jsonString(s string) string {
	var b strings.Builder
	b.WriteByte('"')
	for _, r := range s {
		switch {
		case r == '"':
			b.WriteString(`\"`)
		case r == '\\':
			b.WriteString(`\\`)
		case r == '/':
			if g.Bool() {
				b.WriteString(`\/`)
			} else {
				b.WriteByte('/')
			}
		case r < 0x20:
			switch {
			case r == '\n' && g.Bool():
				b.WriteString(`\n`)
			case r == '\t' && g.Bool():
				b.WriteString(`\t`)
			case r == '\r' && g.Bool():
				b.WriteString(`\r`)
			case r == '\b' && g.Bool():
				b.WriteString(`\b`)
			case r == '\f' && g.Bool():
				b.WriteString(`\f`)
			default:
				if g.Bool() {
					fmt.Fprintf(&b, `\u%04x`, r)
				} else {
					fmt.Fprintf(&b, `\u%04X`, r)
				}
			}
		case r >= 0x10000 && g.Chance(1, 2):
			r2 := r - 0x10000
			fmt.Fprintf(&b, `\u%04x\u%04x`, 0xd800+(r2>>10), 0xdc00+(r2&0x3ff))
		case r < 0x10000 && g.Chance(1, 8):
			fmt.Fprintf(&b, `\u%04x`, r)
		default:
			b.WriteRune(r)
		}
	}
	b.WriteByte('"')
	return b.String()
}

func (g *Rng) randString() string {
	switch g.Intn(4) {
	case 0:
		return g.Pick(advStrings)
	case 1:
		return g.Pick(advStrings) + g.Pick(advStrings)
	case 2:
		n := g.Intn(12)
		var b strings.Builder
		for i := 0; i < n; i++ {
			b.WriteByte("abcxyzABC019._- "[g.Intn(16)])
		}
		return b.String()
	default:
		n := g.Intn(6)
		var b strings.Builder
		for i := 0; i < n; i++ {
			switch g.Intn(5) {
			case 0:
				b.WriteRune(rune(g.Intn(0x80)))
			case 1:
				b.WriteRune(rune(0x80 + g.Intn(0x780)))
			case 2:
				r := rune(0x800 + g.Intn(0xf800))
				if r >= 0xd800 && r < 0xe000 {
					r = 0x4e16
				}
				b.WriteRune(r)
			case 3:
				b.WriteRune(rune(0x10000 + g.Intn(0x100000)))
			default:
				b.WriteString(g.Pick(advStrings))
			}
		}
		return b.String()
	}
}

var advNumbers = []string{
	"0", "-0", "1", "-1", "9007199254740993", "-9007199254740993", "18446744073709551616",
	"123456789012345678901234567890", "1e400", "-1E-400", "0.1", "1.0", "1.5e+3", "2E5", "0e0", "0.000",
	"9223372036854775807", "-9223372036854775808", "3.141592653589793238462643383279",
}

func (g *Rng) ws() string {
	if g.Chance(3, 4) {
		return ""
	}
	return g.Pick([]string{" ", "\t", "\n", "\r", "  ", " \n "})
}

// jsonValue: depth-bounded random document.
func (g *Rng) jsonValue(depth int) string {
	k := g.Intn(10)
	if depth <= 0 && k >= 6 {
		k = g.Intn(6)
	}
	switch k {
	case 0:
		return "null"
	case 1:
		return "true"
	case 2:
		return "false"
	case 3:
		return g.Pick(advNumbers)
	case 4, 5:
		return g.jsonString(g.randString())
	case 6, 7:
		n := g.Intn(4)
		parts := make([]string, n)
		for i := range parts {
			parts[i] = g.ws() + g.jsonValue(depth-1) + g.ws()
		}
		return "[" + g.ws() + strings.Join(parts, ",") + "]"
	default:
		return g.jsonObject(depth - 1)
	}
}

func (g *Rng) jsonObject(depth int) string {
	n := g.Intn(4)
	parts := make([]string, n)
	for i := range parts {
		parts[i] = g.ws() + g.jsonString(g.randString()) + g.ws() + ":" + g.ws() + g.jsonValue(depth) + g.ws()
	}
	if n == 0 {
		return "{" + g.ws() + "}"
	}
	return "{" + strings.Join(parts, ",") + "}"
}

// deepValue: nesting of the given depth.
func deepValue(depth int, open, close, leaf string) string {
	return strings.Repeat(open, depth) + leaf + strings.Repeat(close, depth)
}

// bigString: a JSON string literal of about n bytes.
func (g *Rng) bigString(n int) string {
	var b strings.Builder
	b.WriteByte('"')
	for b.Len() < n {
		b.WriteString("abcdefghij0123456789")
		if g.Chance(1, 50) {
			b.WriteString(`\u0000\n\"`)
		}
	}
	b.WriteByte('"')
	return b.String()
}
