package main

// C19 — address strings: Bind / DoListen / NewConnection on generated address strings, sequences of
// binds on one service object, with and without a pre-existing file at a unix socket path.

import (
	"context"
	"fmt"
	"net"
	"os"
	"path/filepath"
	"strconv"
	"strings"
	"time"

	"github.com/varlink/go/varlink"
)

type addrStep struct {
	addr  string
	pre   string // absent | stale | file | na : state of the filesystem path before the bind
	path  string // filesystem path concerned ("" if none)
	twice bool   // Bind the same address twice in a row before serving (Bind path only)
	// Bind, Shutdown without having served, Bind again with the same string (Bind path only)
	shutBetween bool
	serveAnyway bool   // after a refused Bind: call DoListen all the same
	viaListen   bool   // serve with Listen(addr) instead of Bind(addr) + DoListen
	must        bool   // the generator knows that the endpoint, read per the property, is listenable
	cmp         bool   // the listener's Addr().String() is expected to equal the endpoint text literally
	kind        string // generator class, for the histogram
}

type addrObs struct {
	class                    string // ok | panic | running | unknown-protocol | invalid-address | listenerr
	network, laddr           string
	afterBind, afterShutdown int // 0 no, 1 yes (socket), 2 not applicable, 3 exists but is not a socket
	reach                    int // 0 no, 1 yes, 2 not attempted
	clientClass              string
	servRet                  string
}

// freePort returns a tcp port that is free now and is very unlikely to be taken before it is used: it is
// chosen OUTSIDE the kernel's ephemeral range (so no unrelated connect/listen(:0) can grab it), from a
// sequence that depends on this process's pid (so other harness processes running at the same time walk
// different ports), and probed by listening on it once.
var portCounter int

func freePort() int {
	for try := 0; try < 200; try++ {
		portCounter++
		p := 20000 + (os.Getpid()*131+portCounter*17)%11000
		l, err := net.Listen("tcp", fmt.Sprintf("127.0.0.1:%d", p))
		if err != nil {
			continue
		}
		l.Close()
		return p
	}
	l, err := net.Listen("tcp", "127.0.0.1:0")
	if err != nil {
		return 1
	}
	defer l.Close()
	return l.Addr().(*net.TCPAddr).Port
}

func (g *Rng) tail() string {
	switch g.Intn(6) {
	case 0, 1, 2:
		return ""
	case 3:
		return ";mode=0600"
	case 4:
		return ";"
	default:
		return ";a:b;c=" + g.randStringValid()
	}
}

var addrSerial int

func (g *Rng) addrStep(dir string, uniq string, k int) addrStep {
	fs := func(pre string) addrStep {
		p := filepath.Join(dir, fmt.Sprintf("s%d", k))
		return addrStep{addr: "unix:" + p, pre: pre, path: p, must: true, cmp: true, kind: "unix-fs-" + pre}
	}
	var s addrStep
	switch g.Intn(25) {
	case 22:
		// a relative path whose file name starts with '@': a filesystem socket, not an abstract one
		p := fmt.Sprintf("./@rel-%s-%d", uniq, k)
		s = addrStep{addr: "unix:" + p, pre: "absent", path: p, must: true, cmp: true, kind: "unix-dot-at"}
	case 23:
		// `link/..` where link is a symbolic link to a deeper directory: the kernel resolves it to the parent of
		// the link's target, a lexical clean-up of the path would end up somewhere else
		real := filepath.Join(dir, fmt.Sprintf("real%d", k))
		os.MkdirAll(filepath.Join(real, "sub"), 0o755)
		os.Symlink(filepath.Join(real, "sub"), filepath.Join(dir, fmt.Sprintf("link%d", k)))
		given := filepath.Join(dir, fmt.Sprintf("link%d", k)) + "/../sock"
		s = addrStep{addr: "unix:" + given, pre: "absent", path: filepath.Join(real, "sock"), must: true, cmp: true, kind: "unix-symlink-dotdot"}
	case 24:
		// redundant separators and dots are the kernel's business, not the library's
		p := dir + fmt.Sprintf("//./d%d", k)
		s = addrStep{addr: "unix:" + p, pre: "absent", path: filepath.Join(dir, fmt.Sprintf("d%d", k)), must: true, cmp: true, kind: "unix-unclean"}
	case 0, 1:
		s = fs("absent")
	case 2:
		s = fs("stale")
	case 3:
		s = fs("file")
	case 4, 5:
		s = addrStep{addr: fmt.Sprintf("unix:@verif-%s-%d", uniq, k), pre: "na", must: true, cmp: true, kind: "unix-abstract"}
	case 6, 7:
		s = addrStep{addr: fmt.Sprintf("tcp:127.0.0.1:%d", freePort()), pre: "na", must: true, cmp: true, kind: "tcp"}
	case 8:
		s = addrStep{addr: g.Pick([]string{"unix:", "unix:;x", "unix:;", "unix:;unix:/tmp/x"}), pre: "na", kind: "unix-empty"}
		return s // the tail is part of the class
	case 9:
		s = addrStep{addr: g.Pick([]string{"foo", "", "unix", "tcp", "/run/x", "@x", ";unix:/x", "unix;x", "127.0.0.1"}), pre: "na", kind: "no-protocol"}
		return s
	case 10, 11:
		p := g.Pick([]string{"unixpacket", "unixgram", "tcp4", "tcp6", "udp", "UNIX", "Unix", "unix ", " unix", "", "ip", "uni", "unixx", "tcp "})
		rest := g.Pick([]string{fmt.Sprintf("@verif-%s-%d", uniq, k), "127.0.0.1:0", filepath.Join(dir, fmt.Sprintf("p%d", k)), ""})
		s = addrStep{addr: p + ":" + rest, pre: "na", kind: "other-protocol"}
	case 12:
		s = addrStep{addr: "unix:" + filepath.Join(dir, "nonexistent", fmt.Sprintf("s%d", k)), pre: "na", kind: "unix-nodir"}
	case 13:
		s = addrStep{addr: "unix:" + filepath.Join(dir, strings.Repeat("x", 120)), pre: "na", kind: "unix-toolong"}
	case 14:
		s = addrStep{addr: g.Pick([]string{"tcp:", "tcp:127.0.0.1", "tcp:256.0.0.1:1", "tcp:127.0.0.1:99999", "tcp:nohost.invalid:1", "tcp::::", "tcp:127.0.0.1:http"}), pre: "na", kind: "tcp-bad"}
	case 15:
		s = addrStep{addr: fmt.Sprintf("tcp:localhost:%d", freePort()), pre: "na", kind: "tcp-name"}
	case 16:
		s = addrStep{addr: "tcp:127.0.0.1:0", pre: "na", kind: "tcp-port0"}
	case 17:
		// relative filesystem path (the harness runs with its scratch directory as cwd)
		p := fmt.Sprintf("rel-%s-%d", uniq, k)
		s = addrStep{addr: "unix:" + p, pre: "absent", path: p, must: true, cmp: true, kind: "unix-relative"}
	case 18:
		s = addrStep{addr: "unix:@", pre: "na", kind: "unix-abstract-empty"}
	case 19:
		// a path that contains ':' (only the first ':' separates the protocol)
		p := filepath.Join(dir, fmt.Sprintf("c:%d", k))
		s = addrStep{addr: "unix:" + p, pre: "absent", path: p, must: true, cmp: true, kind: "unix-fs-colon"}
	default:
		s = addrStep{addr: g.randString(), pre: "na", kind: "random"}
		if strings.ContainsRune(s.addr, 0) {
			s.addr = strings.ReplaceAll(s.addr, "\x00", "0")
		}
		return s
	}
	s.addr += g.tail()
	return s
}

func prepPath(s addrStep) {
	switch s.pre {
	case "stale":
		l, err := net.ListenUnix("unix", &net.UnixAddr{Name: s.path, Net: "unix"})
		if err == nil {
			l.SetUnlinkOnClose(false)
			l.Close()
		}
	case "file":
		os.WriteFile(s.path, []byte("x"), 0o644)
	}
}

func pathState(p string) int {
	if p == "" {
		return 2
	}
	st, err := os.Lstat(p)
	if err != nil {
		return 0
	}
	if st.Mode()&os.ModeSocket != 0 {
		return 1
	}
	return 3
}

func classifyBindErr(err error) string {
	switch err.Error() {
	case "Init(): already running":
		return "running"
	case "Unknown protocol":
		return "unknown-protocol"
	case "Invalid address":
		return "invalid-address"
	}
	return "listenerr"
}

func runAddrStep(svc *varlink.Service, vendor string, s addrStep) (o addrObs) {
	o = addrObs{afterBind: 2, afterShutdown: 2, reach: 2, clientClass: "-", servRet: "-"}
	prepPath(s)
	ctx := context.Background()
	viaListen := s.viaListen
	done := make(chan error, 1)
	func() {
		defer func() {
			if r := recover(); r != nil {
				o.class = "panic"
			}
		}()
		if viaListen {
			// Listen binds by itself: either it returns the bind error at once or it starts serving
			go func() {
				defer func() {
					if r := recover(); r != nil {
						done <- fmt.Errorf("verif-panic")
					}
				}()
				done <- svc.Listen(ctx, s.addr, 0)
			}()
			for t := 0; t < 3000; t++ {
				select {
				case err := <-done:
					if err == nil {
						o.class = "listenerr" // returned nil without having served: treated like a failed bind
					} else if err.Error() == "verif-panic" {
						o.class = "panic"
					} else {
						o.class = classifyBindErr(err)
					}
					return
				default:
				}
				if running, _, _, _ := svc.VerifState(); running {
					o.class = "ok"
					return
				}
				time.Sleep(time.Millisecond)
			}
			o.class = "hang"
			return
		}
		err := svc.Bind(ctx, s.addr)
		if err == nil && s.twice {
			// binding the same address again without serving in between must work just as well
			err = svc.Bind(ctx, s.addr)
		}
		if err == nil && s.shutBetween {
			// bound, shut down before it ever served, bound again with the same string: the endpoint must be
			// there again (the listener of the first bind is closed, a filesystem socket removed with it)
			svc.Shutdown()
			err = svc.Bind(ctx, s.addr)
		}
		if err != nil {
			o.class = classifyBindErr(err)
			if l, _ := svc.GetListener(); l == nil && s.serveAnyway {
				// a caller that does not look at Bind's error goes on to serve: there is nothing to serve, so this
				// returns an error at once, and it must not leave the service unable to bind either
				ret := make(chan error, 2)
				go func() {
					defer func() { recover(); ret <- nil }()
					ret <- svc.DoListen(ctx, 0)
				}()
				select {
				case <-ret:
				case <-time.After(2 * time.Second):
					svc.Shutdown()
				}
			}
		} else {
			o.class = "ok"
		}
	}()
	if o.class != "ok" {
		// the client side must not panic either, whatever the string
		func() {
			defer func() {
				if r := recover(); r != nil {
					o.clientClass = "panic"
				}
			}()
			cctx, cancel := context.WithTimeout(ctx, 300*time.Millisecond)
			defer cancel()
			c, err := varlink.NewConnection(cctx, s.addr)
			if err != nil {
				o.clientClass = "err"
			} else {
				o.clientClass = "connected"
				c.Close()
			}
		}()
		return
	}
	l, _ := svc.GetListener()
	if l != nil {
		o.network, o.laddr = l.Addr().Network(), l.Addr().String()
	}
	o.afterBind = pathState(s.path)
	if !viaListen {
		go func() { done <- svc.DoListen(ctx, 0) }()
	}
	// wait until the accept loop has started: a Shutdown that overtakes the start of serving is a
	// different history (the serving call may then return the accept error), not what is observed here
	for t := 0; t < 2000; t++ {
		if running, _, _, _ := svc.VerifState(); running {
			break
		}
		time.Sleep(time.Millisecond)
	}
	func() {
		defer func() {
			if r := recover(); r != nil {
				o.clientClass = "panic"
			}
		}()
		cctx, cancel := context.WithTimeout(ctx, 2*time.Second)
		defer cancel()
		c, err := varlink.NewConnection(cctx, s.addr)
		if err != nil {
			o.clientClass, o.reach = "err", 0
			return
		}
		defer c.Close()
		var v string
		if err := c.GetInfo(cctx, &v, nil, nil, nil, nil); err != nil || v != vendor {
			o.clientClass, o.reach = "connected-wrong-peer", 0
			return
		}
		o.clientClass, o.reach = "ok", 1
	}()
	svc.Shutdown()
	select {
	case err := <-done:
		if err == nil {
			o.servRet = "nil"
		} else {
			o.servRet = "err"
		}
	case <-time.After(5 * time.Second):
		o.servRet = "hang"
	}
	o.afterShutdown = pathState(s.path)
	return
}

func init() {
	commands["addr"] = func(e *env) error {
		work := os.Getenv("VERIF_WORK")
		if work == "" {
			work = os.TempDir()
		}
		base := filepath.Join(work, fmt.Sprintf("addr-%d", os.Getpid()))
		if err := os.MkdirAll(base, 0o755); err != nil {
			return err
		}
		defer os.RemoveAll(base)
		if err := os.Chdir(base); err != nil {
			return err
		}
		hangs := 0
		slow := 0
		return e.each(func(i int, g *Rng) error {
			if hangs >= 2 || slow >= 8 {
				return nil // enough hanging / crawling cases to report; each further one costs many seconds
			}
			t0 := time.Now()
			defer func() {
				// a case normally takes milliseconds; seconds mean that some step waited out one of its time limits
				if time.Since(t0) > 1500*time.Millisecond {
					slow++
				}
			}()
			dir := filepath.Join(base, strconv.Itoa(i))
			os.MkdirAll(dir, 0o755)
			defer os.RemoveAll(dir)
			uniq := fmt.Sprintf("%d-%d", os.Getpid(), i)
			vendor := "addr-" + uniq
			svc, err := varlink.NewService(vendor, "p", "1", "u")
			if err != nil {
				return err
			}
			n := 1 + g.Intn(3)
			steps := make([]addrStep, 0, n+1)
			for k := 0; k < n; k++ {
				st := g.addrStep(dir, uniq, k)
				st.viaListen = g.Chance(2, 5)
				// (only filesystem sockets: there the second bind replaces the first one's path; for tcp and
				//  abstract names the first listener still owns the endpoint and the second bind may
				//  legitimately fail with "address in use")
				st.twice = !st.viaListen && st.path != "" && g.Chance(1, 3)
				st.shutBetween = !st.viaListen && !st.twice && st.must && g.Chance(1, 3)
				st.serveAnyway = !st.viaListen && g.Chance(1, 2)
				steps = append(steps, st)
			}
			// whatever happened before, the service must still be able to bind
			steps = append(steps, addrStep{addr: fmt.Sprintf("unix:@verif-%s-final", uniq), pre: "na", must: true, cmp: true, kind: "final-abstract"})
			l := &Line{}
			l.S("addr").N(len(steps))
			obs := make([]addrObs, len(steps))
			hung := false
			for k, s := range steps {
				if hung {
					// the service object is stuck: every further use would block as well
					obs[k] = addrObs{class: "hang", afterBind: 2, afterShutdown: 2, reach: 2, clientClass: "-", servRet: "-"}
				} else {
					ch := make(chan addrObs, 1)
					go func(s addrStep) { ch <- runAddrStep(svc, vendor, s) }(s)
					select {
					case obs[k] = <-ch:
					case <-time.After(20 * time.Second):
						obs[k] = addrObs{class: "hang", afterBind: 2, afterShutdown: 2, reach: 2, clientClass: "-", servRet: "-"}
						hung = true
						hangs++
					}
				}
				l.Str(s.addr).S(s.pre).Bool(s.must).Bool(s.cmp).S(s.kind)
			}
			// relative paths are relative to base
			for _, s := range steps {
				if s.path != "" && !filepath.IsAbs(s.path) {
					os.Remove(s.path)
				}
			}
			l.S("|")
			for _, o := range obs {
				l.S(o.class).Str(o.network).Str(o.laddr).N(o.afterBind).N(o.reach).N(o.afterShutdown).S(o.clientClass).S(o.servRet)
			}
			fmt.Fprintln(e.out, l.String())
			return nil
		})
	}
}
