package main

import (
	"encoding/hex"
	"go/ast"
	"go/parser"
	"go/token"
	"sort"
	"strconv"
	"strings"
)

// goSummary: canonical structural summary of a generated Go file, extracted with go/parser. The Lean
// driver renders the model's `GoFile` view (lean/Varlink/Gen/View.lean) in the same format
// (lean/Driver/CmdsGen.lean `renderFile`) and compares the two byte for byte.
//
//	package <p> / import <path> / type <n> <ty> / alias <n> <ty> (type n = ty) / iface <n> + " m <n> (<fields>) (<fields>)"
//	func <recv|-> <n> (<fields>) (<fields>) uses=<pkgs>  followed by the body records, one space per depth:
//	  var <n> <ty> | def <a,b> | set <e> = <e> | args <a.b.c> (<e>;…) | use <x.f> | str <x.f> x<hex>
//	  | ret x<hex> | closure (<fields>) (<fields>) | case x<hex> | case -
func goSummary(src []byte) []byte {
	fset := token.NewFileSet()
	f, err := parser.ParseFile(fset, "x.go", src, 0)
	if err != nil {
		return []byte("PARSE-ERROR " + err.Error())
	}
	s := &summarizer{imports: map[string]bool{}}
	s.line(0, "package "+f.Name.Name)
	var paths []string
	for _, im := range f.Imports {
		p, _ := strconv.Unquote(im.Path.Value)
		paths = append(paths, p)
	}
	sort.Strings(paths) // go/format sorts the import block
	for _, p := range paths {
		s.line(0, "import "+p)
	}
	for _, im := range f.Imports {
		p, _ := strconv.Unquote(im.Path.Value)
		name := p[strings.LastIndex(p, "/")+1:]
		if im.Name != nil {
			name = im.Name.Name
		}
		s.imports[name] = true
	}
	for _, d := range f.Decls {
		switch x := d.(type) {
		case *ast.GenDecl:
			if x.Tok != token.TYPE {
				continue
			}
			for _, sp := range x.Specs {
				ts := sp.(*ast.TypeSpec)
				if it, ok := ts.Type.(*ast.InterfaceType); ok {
					s.line(0, "iface "+ts.Name.Name)
					for _, m := range it.Methods.List {
						ft, ok := m.Type.(*ast.FuncType)
						if !ok || len(m.Names) != 1 {
							s.line(0, " embedded "+s.ty(m.Type))
							continue
						}
						s.line(0, " m "+m.Names[0].Name+" ("+s.fields(ft.Params)+") ("+s.fields(ft.Results)+")")
					}
				} else {
					kw := "type "
					if ts.Assign.IsValid() {
						kw = "alias " // type N = T
					}
					s.line(0, kw+ts.Name.Name+" "+s.ty(ts.Type))
				}
			}
		case *ast.FuncDecl:
			recv := "-"
			if x.Recv != nil && len(x.Recv.List) == 1 {
				r := x.Recv.List[0]
				n := ""
				if len(r.Names) == 1 {
					n = r.Names[0].Name
				}
				recv = n + " " + s.ty(r.Type)
			}
			uses := map[string]bool{}
			ast.Inspect(x, func(n ast.Node) bool {
				if se, ok := n.(*ast.SelectorExpr); ok {
					if id, ok := se.X.(*ast.Ident); ok && id.Obj == nil && s.imports[id.Name] {
						uses[id.Name] = true
					}
				}
				return true
			})
			var us []string
			for u := range uses {
				us = append(us, u)
			}
			sort.Strings(us)
			s.line(0, "func "+recv+" "+x.Name.Name+" ("+s.fields(x.Type.Params)+") ("+s.fields(x.Type.Results)+") uses="+strings.Join(us, ","))
			if x.Body != nil {
				s.stmts(x.Body.List, 1)
			}
		}
	}
	return []byte(s.b.String())
}

type summarizer struct {
	b       strings.Builder
	imports map[string]bool
}

func (s *summarizer) line(depth int, t string) {
	s.b.WriteString(strings.Repeat(" ", depth) + t + "\n")
}

func (s *summarizer) ty(e ast.Expr) string {
	switch x := e.(type) {
	case *ast.Ident:
		return x.Name
	case *ast.SelectorExpr:
		return s.ty(x.X) + "." + x.Sel.Name
	case *ast.StarExpr:
		return "*" + s.ty(x.X)
	case *ast.ParenExpr:
		return s.ty(x.X)
	case *ast.ArrayType:
		if x.Len != nil {
			return "[?]" + s.ty(x.Elt)
		}
		return "[]" + s.ty(x.Elt)
	case *ast.MapType:
		return "map[" + s.ty(x.Key) + "]" + s.ty(x.Value)
	case *ast.StructType:
		return "struct{" + s.fields(x.Fields) + "}"
	case *ast.FuncType:
		return "func(" + s.fields(x.Params) + ")(" + s.fields(x.Results) + ")"
	case *ast.InterfaceType:
		return "interface{…}"
	}
	return "?"
}

func (s *summarizer) fields(fl *ast.FieldList) string {
	if fl == nil {
		return ""
	}
	var parts []string
	for _, f := range fl.List {
		t := s.ty(f.Type)
		tag := ""
		if f.Tag != nil {
			v, _ := strconv.Unquote(f.Tag.Value)
			tag = " \"" + v + "\""
		}
		if len(f.Names) == 0 {
			parts = append(parts, t+tag)
		}
		for _, n := range f.Names {
			parts = append(parts, n.Name+" "+t+tag)
		}
	}
	return strings.Join(parts, ";")
}

func isTypeExpr(e ast.Expr) bool {
	switch x := e.(type) {
	case *ast.ArrayType, *ast.MapType, *ast.StructType, *ast.StarExpr, *ast.FuncType:
		return true
	case *ast.ParenExpr:
		return isTypeExpr(x.X)
	}
	return false
}

// expr renders an identifier, selector or conversion; ok=false for anything else
func (s *summarizer) expr(e ast.Expr) (string, bool) {
	switch x := e.(type) {
	case *ast.Ident:
		return x.Name, true
	case *ast.SelectorExpr:
		if id, ok := x.X.(*ast.Ident); ok {
			return id.Name + "." + x.Sel.Name, true
		}
	case *ast.CallExpr:
		if isTypeExpr(x.Fun) && len(x.Args) == 1 {
			inner, ok := s.expr(x.Args[0])
			if !ok {
				return "", false
			}
			k := "conv"
			if _, p := x.Fun.(*ast.ParenExpr); p {
				k = "pconv"
			}
			return k + "[" + s.ty(x.Fun) + "](" + inner + ")", true
		}
	}
	return "", false
}

func constString(e ast.Expr) (string, bool) {
	switch x := e.(type) {
	case *ast.BasicLit:
		if x.Kind == token.STRING {
			v, err := strconv.Unquote(x.Value)
			return v, err == nil
		}
	case *ast.BinaryExpr:
		if x.Op == token.ADD {
			a, ok1 := constString(x.X)
			b, ok2 := constString(x.Y)
			return a + b, ok1 && ok2
		}
	case *ast.ParenExpr:
		return constString(x.X)
	}
	return "", false
}

func selPath(e ast.Expr) []string {
	switch x := e.(type) {
	case *ast.Ident:
		return []string{x.Name}
	case *ast.SelectorExpr:
		p := selPath(x.X)
		if p == nil {
			return nil
		}
		return append(p, x.Sel.Name)
	}
	return nil
}

func (s *summarizer) stmts(list []ast.Stmt, d int) {
	for _, st := range list {
		s.stmt(st, d)
	}
}

func (s *summarizer) stmt(st ast.Stmt, d int) {
	switch x := st.(type) {
	case *ast.DeclStmt:
		if gd, ok := x.Decl.(*ast.GenDecl); ok && gd.Tok == token.VAR {
			for _, sp := range gd.Specs {
				vs := sp.(*ast.ValueSpec)
				for _, n := range vs.Names {
					t := "?"
					if vs.Type != nil {
						t = s.ty(vs.Type)
					}
					s.line(d, "var "+n.Name+" "+t)
				}
				for _, v := range vs.Values {
					s.walk(v, d)
				}
			}
		}
	case *ast.AssignStmt:
		if x.Tok == token.DEFINE {
			var ns []string
			for _, l := range x.Lhs {
				if id, ok := l.(*ast.Ident); ok {
					ns = append(ns, id.Name)
				} else {
					ns = append(ns, "?")
				}
			}
			s.line(d, "def "+strings.Join(ns, ","))
		} else if x.Tok == token.ASSIGN && len(x.Lhs) == 1 && len(x.Rhs) == 1 {
			l, ok1 := s.expr(x.Lhs[0])
			r, ok2 := s.expr(x.Rhs[0])
			if ok1 && ok2 {
				s.line(d, "set "+l+" = "+r)
				return
			}
		}
		for _, r := range x.Rhs {
			s.walk(r, d)
		}
	case *ast.ExprStmt:
		s.walk(x.X, d)
	case *ast.ReturnStmt:
		if len(x.Results) == 1 {
			if v, ok := constString(x.Results[0]); ok {
				s.line(d, "ret x"+hex.EncodeToString([]byte(v)))
				return
			}
		}
		for _, r := range x.Results {
			s.walk(r, d)
		}
	case *ast.IfStmt:
		if x.Init != nil {
			s.stmt(x.Init, d)
		}
		s.walk(x.Cond, d)
		s.stmts(x.Body.List, d)
		if x.Else != nil {
			s.stmt(x.Else, d)
		}
	case *ast.BlockStmt:
		s.stmts(x.List, d)
	case *ast.SwitchStmt:
		if x.Init != nil {
			s.stmt(x.Init, d)
		}
		if x.Tag != nil {
			s.walk(x.Tag, d)
		}
		for _, c := range x.Body.List {
			cc := c.(*ast.CaseClause)
			label := "-"
			if len(cc.List) == 1 {
				if v, ok := constString(cc.List[0]); ok {
					label = "x" + hex.EncodeToString([]byte(v))
				} else {
					label = "?"
				}
			} else if len(cc.List) > 1 {
				label = "?"
			}
			s.line(d, "case "+label)
			s.stmts(cc.Body, d+1)
		}
	default:
		s.line(d, "unknown-statement")
	}
}

// walk records what an expression contributes: calls with string arguments, the dispatcher's call,
// function literals
func (s *summarizer) walk(e ast.Expr, d int) {
	switch x := e.(type) {
	case *ast.CallExpr:
		if isTypeExpr(x.Fun) {
			for _, a := range x.Args {
				s.walk(a, d)
			}
			return
		}
		p := selPath(x.Fun)
		if len(p) == 3 {
			var as []string
			for i, a := range x.Args {
				if i < 2 {
					continue
				}
				r, ok := s.expr(a)
				if !ok {
					r = "?"
				}
				as = append(as, r)
			}
			s.line(d, "args "+strings.Join(p, ".")+" ("+strings.Join(as, ";")+")")
			return
		}
		for _, a := range x.Args {
			if len(p) == 2 {
				if bl, ok := a.(*ast.BasicLit); ok && bl.Kind == token.STRING {
					v, _ := strconv.Unquote(bl.Value)
					s.line(d, "str "+p[0]+"."+p[1]+" x"+hex.EncodeToString([]byte(v)))
					continue
				}
				if p[0] == "fmt" && p[1] == "Sprintf" {
					if sp := selPath(a); len(sp) == 2 {
						s.line(d, "use "+sp[0]+"."+sp[1])
						continue
					}
				}
			}
			s.walk(a, d)
		}
	case *ast.FuncLit:
		s.line(d, "closure ("+s.fields(x.Type.Params)+") ("+s.fields(x.Type.Results)+")")
		s.stmts(x.Body.List, d+1)
	case *ast.UnaryExpr:
		s.walk(x.X, d)
	case *ast.ParenExpr:
		s.walk(x.X, d)
	case *ast.StarExpr:
		s.walk(x.X, d)
	case *ast.BinaryExpr:
		s.walk(x.X, d)
		s.walk(x.Y, d)
	case *ast.TypeAssertExpr:
		s.walk(x.X, d)
	case *ast.CompositeLit:
		for _, el := range x.Elts {
			s.walk(el, d)
		}
	case *ast.KeyValueExpr:
		s.walk(x.Value, d)
	}
}
