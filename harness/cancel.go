package main

import (
	"context"
	"fmt"
	"io"
	"net"
	"os"
	"runtime"
	"strings"
	"sync"
	"time"

	"github.com/varlink/go/varlink/internal/ctxio"
)

// cancel (C17), part 1: the real ctxio.Conn over a tracing net.Conn.  Data arrival, peer close,
// cancellation and deadline expiry are injected at the instants of the model (before the call, while
// blocked with nothing in flight, with a frame partially received, after completion); every
// SetRead/WriteDeadline (value classified none / future / past), every Read / Write call and return of
// the underlying connection and the operation's return value are recorded.  The driver checks the
// trace against the transition system of lean/Varlink/Ctxio.lean and the bytes against its data model.

type timeoutErr struct{}

func (timeoutErr) Error() string   { return "i/o timeout (verif trace conn)" }
func (timeoutErr) Timeout() bool   { return true }
func (timeoutErr) Temporary() bool { return true }

type traceConn struct {
	mu       sync.Mutex
	cond     *sync.Cond
	honours  bool
	segs     [][]byte // arrived, unread
	eof      bool     // peer closed its side
	rdl, wdl time.Time
	wcap     int // bytes the peer is willing to take
	written  int
	log      []string
	blocked  chan struct{} // one token per Read/Write call that starts waiting
	closed   bool
	failPast bool // SetReadDeadline with a time in the past fails (probe only, see cancelprobe)
}

func newTraceConn(honours bool) *traceConn {
	c := &traceConn{honours: honours, blocked: make(chan struct{}, 64)}
	c.cond = sync.NewCond(&c.mu)
	return c
}

func classifyDeadline(t time.Time) string {
	switch {
	case t.IsZero():
		return "d0"
	case t.Before(time.Now()):
		return "d2"
	}
	return "d1"
}

// wakeAt: make waiting calls re-check when the deadline passes
func (c *traceConn) wakeAt(t time.Time) {
	if t.IsZero() {
		return
	}
	d := time.Until(t)
	if d < 0 {
		d = 0
	}
	time.AfterFunc(d+200*time.Microsecond, func() { c.mu.Lock(); c.cond.Broadcast(); c.mu.Unlock() })
}

func (c *traceConn) SetReadDeadline(t time.Time) error {
	c.mu.Lock()
	if c.failPast && classifyDeadline(t) == "d2" {
		c.log = append(c.log, "Rfail")
		c.mu.Unlock()
		return fmt.Errorf("set deadline: refused")
	}
	c.log = append(c.log, "R"+classifyDeadline(t))
	c.rdl = t
	c.cond.Broadcast()
	c.mu.Unlock()
	c.wakeAt(t)
	return nil
}

func (c *traceConn) SetWriteDeadline(t time.Time) error {
	c.mu.Lock()
	c.log = append(c.log, "W"+classifyDeadline(t))
	c.wdl = t
	c.cond.Broadcast()
	c.mu.Unlock()
	c.wakeAt(t)
	return nil
}

func (c *traceConn) SetDeadline(t time.Time) error {
	c.SetReadDeadline(t)
	return c.SetWriteDeadline(t)
}

func (c *traceConn) expired(t time.Time) bool {
	return c.honours && !t.IsZero() && !time.Now().Before(t)
}

func (c *traceConn) Read(p []byte) (int, error) {
	c.mu.Lock()
	defer c.mu.Unlock()
	c.log = append(c.log, "c")
	waited := false
	for {
		for len(c.segs) > 0 && len(c.segs[0]) == 0 {
			c.segs = c.segs[1:]
		}
		switch {
		case c.closed:
			c.log = append(c.log, "r3")
			return 0, net.ErrClosed
		case c.expired(c.rdl):
			c.log = append(c.log, "r2")
			return 0, timeoutErr{}
		case len(c.segs) > 0:
			n := copy(p, c.segs[0])
			c.segs[0] = c.segs[0][n:]
			if len(c.segs[0]) == 0 {
				c.segs = c.segs[1:]
			}
			c.log = append(c.log, "r0")
			return n, nil
		case c.eof:
			c.log = append(c.log, "r1")
			return 0, io.EOF
		}
		if !waited {
			waited = true
			select {
			case c.blocked <- struct{}{}:
			default:
			}
		}
		c.cond.Wait()
	}
}

func (c *traceConn) Write(p []byte) (int, error) {
	c.mu.Lock()
	defer c.mu.Unlock()
	c.log = append(c.log, "c")
	n := 0
	waited := false
	for {
		switch {
		case c.closed:
			c.log = append(c.log, "r3")
			return n, net.ErrClosed
		case c.expired(c.wdl):
			c.log = append(c.log, "r2")
			return n, timeoutErr{}
		}
		room := c.wcap - c.written
		if room > len(p)-n {
			room = len(p) - n
		}
		if room > 0 {
			c.written += room
			n += room
		}
		if n == len(p) {
			c.log = append(c.log, "r0")
			return n, nil
		}
		if !waited {
			waited = true
			select {
			case c.blocked <- struct{}{}:
			default:
			}
		}
		c.cond.Wait()
	}
}

func (c *traceConn) Close() error {
	c.mu.Lock()
	c.closed = true
	c.cond.Broadcast()
	c.mu.Unlock()
	return nil
}
func (c *traceConn) LocalAddr() net.Addr  { return fakeAddr{} }
func (c *traceConn) RemoteAddr() net.Addr { return fakeAddr{} }

func (c *traceConn) inject(seg []byte) {
	c.mu.Lock()
	c.segs = append(c.segs, append([]byte(nil), seg...))
	c.cond.Broadcast()
	c.mu.Unlock()
}
func (c *traceConn) peerClose() {
	c.mu.Lock()
	c.eof = true
	c.cond.Broadcast()
	c.mu.Unlock()
}
func (c *traceConn) peerReads(n int) {
	c.mu.Lock()
	c.wcap += n
	c.cond.Broadcast()
	c.mu.Unlock()
}
func (c *traceConn) mark() int {
	c.mu.Lock()
	defer c.mu.Unlock()
	return len(c.log)
}
func (c *traceConn) since(m int) []string {
	c.mu.Lock()
	defer c.mu.Unlock()
	return append([]string(nil), c.log[m:]...)
}
func (c *traceConn) waitBlocked(d time.Duration) bool {
	select {
	case <-c.blocked:
		return true
	case <-time.After(d):
		return false
	}
}
func (c *traceConn) drainBlocked() {
	for {
		select {
		case <-c.blocked:
		default:
			return
		}
	}
}

// ---- cases ---------------------------------------------------------------------------------------

type cxOpSpec struct {
	kind    string // r (raw read) | f (frame read) | w (write)
	n       int    // buffer size / bytes to write
	ctx     string // live | cancel | deadline
	instant string // - | before | blocked | partial | after
}

type cancelCase struct {
	honours bool
	p0      [][]byte // arrived before the first operation
	partial []byte   // arrives while the cancelled operation is blocked (instant = partial)
	rest    [][]byte // arrives after the cancelled operation returned; then the peer closes
	ops     []cxOpSpec
	wcap    int // write cases: what the peer takes before it stops reading
}

func (g *Rng) cxBytes(n int) []byte {
	b := make([]byte, n)
	for i := range b {
		b[i] = byte(1 + g.Intn(255))
	}
	return b
}

func (g *Rng) cxFrame(n int) []byte { return append(g.cxBytes(n), 0) }

func (g *Rng) cancelCase() cancelCase {
	c := cancelCase{honours: !g.Chance(1, 4)}
	mode := "cancel"
	if g.Bool() {
		mode = "deadline"
	}
	if g.Chance(1, 5) { // write
		n := 100 + g.Intn(5000)
		inst := g.Pick([]string{"before", "blocked", "blocked", "after"})
		c.wcap = n / (2 + g.Intn(3))
		if inst == "after" {
			c.wcap = n
		}
		c.ops = []cxOpSpec{{kind: "w", n: n, ctx: mode, instant: inst}, {kind: "w", n: 1 + g.Intn(300), ctx: "live", instant: "-"}}
		return c
	}
	kind := "f"
	if g.Chance(2, 5) {
		kind = "r"
	}
	inst := g.Pick([]string{"before", "blocked", "blocked", "partial", "after"})
	if kind == "r" && inst == "partial" {
		inst = "blocked"
	}
	// optional live operation first; it may leave bytes in the bufio.Reader
	pre := g.Chance(1, 2)
	if pre {
		seg := g.cxFrame(g.Intn(20))
		left := 0
		if g.Bool() && !(kind == "r" && inst == "blocked") {
			left = 1 + g.Intn(5)
			seg = append(seg, g.cxBytes(left)...) // start of the next frame, buffered
		}
		c.p0 = append(c.p0, seg)
		c.ops = append(c.ops, cxOpSpec{kind: "f", ctx: "live", instant: "-"})
	}
	n := []int{1, 3, 16, 4096, 5000}[g.Intn(5)]
	switch inst {
	case "after", "before":
		// enough data for the operation to complete without waiting (before: the context is already done)
		if inst == "after" || g.Bool() {
			if kind == "f" {
				c.p0 = append(c.p0, g.cxFrame(g.Intn(30)))
			} else {
				c.p0 = append(c.p0, g.cxBytes(1+g.Intn(30)))
			}
		}
	case "partial":
		c.partial = g.cxBytes(1 + g.Intn(20))
	}
	c.ops = append(c.ops, cxOpSpec{kind: kind, n: n, ctx: mode, instant: inst})
	// what the peer sends after the cancelled operation returned, and the live follow-up operations
	k := 1 + g.Intn(3)
	for i := 0; i < k; i++ {
		switch g.Intn(3) {
		case 0:
			c.rest = append(c.rest, g.cxFrame(g.Intn(40)))
		case 1:
			f := g.cxFrame(1 + g.Intn(40))
			cut := 1 + g.Intn(len(f)-1+1)
			if cut >= len(f) {
				cut = len(f) - 1
			}
			if cut < 1 {
				c.rest = append(c.rest, f)
			} else {
				c.rest = append(c.rest, f[:cut], f[cut:])
			}
		default:
			c.rest = append(c.rest, append(g.cxFrame(g.Intn(10)), g.cxFrame(g.Intn(10))...))
		}
	}
	m := 1 + g.Intn(4)
	for i := 0; i < m; i++ {
		if g.Chance(2, 3) {
			c.ops = append(c.ops, cxOpSpec{kind: "f", ctx: "live", instant: "-"})
		} else {
			c.ops = append(c.ops, cxOpSpec{kind: "r", n: []int{1, 2, 7, 100, 4096}[g.Intn(5)], ctx: "live", instant: "-"})
		}
	}
	return c
}

type cxOpObs struct {
	trace  []string
	out    []byte
	stuck  bool
	gdelta int
}

func classifyErr(ctx context.Context, err error) string {
	switch {
	case err == nil:
		return "Rok"
	case err == context.Canceled:
		return "Rcancelled"
	case err == context.DeadlineExceeded:
		return "Rexpired"
	case isTimeout(err):
		return "Rtimeout"
	case err == io.EOF:
		return "Reof"
	}
	return "Rerr"
}

// settleGoroutines: goroutines above the baseline once things have settled (0 = none left behind)
func settleGoroutines(base int) int {
	deadline := time.Now().Add(500 * time.Millisecond)
	for {
		n := runtime.NumGoroutine()
		if n <= base {
			return 0
		}
		if time.Now().After(deadline) {
			return n - base
		}
		time.Sleep(200 * time.Microsecond)
	}
}

// stableGoroutines: the goroutine count once it has stopped changing (timer callbacks etc. are gone)
func stableGoroutines() int {
	last, same := runtime.NumGoroutine(), 0
	for i := 0; i < 200 && same < 3; i++ {
		time.Sleep(300 * time.Microsecond)
		n := runtime.NumGoroutine()
		if n == last {
			same++
		} else {
			last, same = n, 0
		}
	}
	return last
}

func runCancelCase(c cancelCase) []cxOpObs {
	conn := newTraceConn(c.honours)
	conn.wcap = c.wcap
	cx := ctxio.NewConn(conn)
	for _, s := range c.p0 {
		conn.inject(s)
	}
	restSent := false
	sendRest := func() {
		if restSent {
			return
		}
		restSent = true
		for _, s := range c.rest {
			conn.inject(s)
		}
		conn.peerClose()
		conn.peerReads(1 << 30)
	}
	var obs []cxOpObs
	for _, op := range c.ops {
		if op.ctx == "live" && len(obs) > 0 && !restSent {
			// follow-up operations: everything the peer still sends is on its way (never before the
			// cancelled operation has returned)
			cancelledSeen := false
			for _, o := range c.ops[:len(obs)] {
				if o.ctx != "live" {
					cancelledSeen = true
				}
			}
			if cancelledSeen {
				sendRest()
			}
		}
		base := stableGoroutines()
		conn.drainBlocked()
		m := conn.mark()
		var ctx context.Context
		var cancel context.CancelFunc
		switch op.ctx {
		case "live":
			ctx, cancel = context.WithCancel(context.Background())
		case "cancel":
			ctx, cancel = context.WithCancel(context.Background())
			if op.instant == "before" {
				cancel()
			}
		case "deadline":
			d := 25 * time.Millisecond
			if op.instant == "before" {
				d = -time.Second
			}
			if op.instant == "after" {
				d = 300 * time.Millisecond
			}
			ctx, cancel = context.WithTimeout(context.Background(), d)
		}
		type res struct {
			out []byte
			err error
		}
		done := make(chan res, 1)
		go func() {
			switch op.kind {
			case "f":
				b, err := cx.ReadBytes(ctx, 0)
				done <- res{append([]byte(nil), b...), err}
			case "r":
				p := make([]byte, op.n)
				n, err := cx.Read(ctx, p)
				done <- res{append([]byte(nil), p[:n]...), err}
			case "w":
				p := make([]byte, op.n)
				n, err := cx.Write(ctx, p)
				done <- res{[]byte(fmt.Sprint(n)), err}
			}
		}()
		o := cxOpObs{}
		var r res
		got := false
		if op.ctx != "live" {
			if op.instant == "blocked" || op.instant == "partial" {
				conn.waitBlocked(2 * time.Second)
				if op.instant == "partial" {
					conn.inject(c.partial)
					conn.waitBlocked(2 * time.Second)
				}
				if op.ctx == "cancel" {
					cancel()
				}
			}
			if op.instant != "after" {
				// it has to come back by itself (within the 2 s margin); a connection without deadlines
				// needs the peer, and is expected to
				stuckAfter := 2 * time.Second
				if !c.honours {
					stuckAfter = 150 * time.Millisecond
				}
				select {
				case r = <-done:
					got = true
				case <-time.After(stuckAfter):
					o.stuck = true
					sendRest()
				}
			}
		}
		if !got {
			select {
			case r = <-done:
			case <-time.After(5 * time.Second):
				o.stuck = true
				conn.Close()
				r = <-done
			}
		}
		cancel()
		o.trace = append(conn.since(m), classifyErr(ctx, r.err))
		o.out = r.out
		o.gdelta = settleGoroutines(base)
		obs = append(obs, o)
	}
	conn.Close()
	return obs
}

func cancelLine(c cancelCase, obs []cxOpObs) string {
	l := &Line{}
	l.S("cancel").S("t").Bool(c.honours)
	all := append(append([][]byte{}, c.p0...), nonEmpty(c.partial)...)
	all = append(all, c.rest...)
	l.N(len(all))
	for _, s := range all {
		l.B(s)
	}
	l.N(len(c.ops))
	for _, o := range c.ops {
		l.S(fmt.Sprintf("%s%d", o.kind, o.n)).S(o.ctx).S(o.instant)
	}
	l.S("|").N(len(obs))
	for _, o := range obs {
		l.N(len(o.trace))
		for _, t := range o.trace {
			l.S(t)
		}
		l.B(o.out).N(o.gdelta).Bool(o.stuck)
	}
	return l.String()
}

func nonEmpty(b []byte) [][]byte {
	if len(b) == 0 {
		return nil
	}
	return [][]byte{b}
}

func init() {
	commands["cancel"] = func(e *env) error {
		return e.each(func(i int, g *Rng) error {
			nx := len(cancelXCases())
			if i < nx {
				fmt.Fprintln(e.out, runCancelX(cancelXCases()[i]))
				return nil
			}
			var c cancelCase
			switch i - nx {
			case 0: // corpus: frame read cancelled with half a frame received, then reuse
				c = cancelCase{honours: true, partial: []byte{1, 2}, rest: [][]byte{{3, 0}, {4, 0}},
					ops: []cxOpSpec{{kind: "f", ctx: "cancel", instant: "partial"}, {kind: "f", ctx: "live", instant: "-"}, {kind: "f", ctx: "live", instant: "-"}}}
			case 1: // corpus: a connection that ignores deadlines (the bridge before its repair)
				c = cancelCase{honours: false, rest: [][]byte{{7, 0}},
					ops: []cxOpSpec{{kind: "f", ctx: "cancel", instant: "blocked"}, {kind: "f", ctx: "live", instant: "-"}}}
			default:
				c = g.cancelCase()
			}
			fmt.Fprintln(e.out, cancelLine(c, runCancelCase(c)))
			return nil
		})
	}
	// cancelprobe (not part of any check stream): the one exit of the cancel arm that does not join the
	// helper - SetReadDeadline(aLongTimeAgo) itself fails.  Outside the property's quantifier (it needs a
	// connection whose SetDeadline fails while it is open); prints what happens.
	commands["cancelprobe"] = func(e *env) error {
		conn := newTraceConn(true)
		conn.failPast = true
		cx := ctxio.NewConn(conn)
		base := stableGoroutines()
		ctx, cancel := context.WithCancel(context.Background())
		go func() { conn.waitBlocked(time.Second); cancel() }()
		_, err := cx.ReadBytes(ctx, 0)
		left := settleGoroutines(base)
		fmt.Fprintf(e.out, "cancelprobe returned=%v trace=%s goroutines-left-behind=%d\n", err, strings.Join(conn.since(0), ","), left)
		conn.Close()
		return nil
	}
	_ = os.Getpid
}
