package main

import (
	"bytes"
	"context"
	"encoding/hex"
	"fmt"
	"net"
	"os"
	"os/exec"
	"path/filepath"
	"runtime"
	"sort"
	"strconv"
	"strings"
	"sync"
	"sync/atomic"
	"time"

	"github.com/varlink/go/varlink"
	"github.com/varlink/go/varlink/internal/ctxio"
)

// race (C16): every pair and triple of the operations the property lists, concurrently with one serving
// call (Listen or DoListen), under the Go race detector.  The parent command re-executes the harness
// binary that was built with -race ($VERIF_VH_RACE) once per scenario ("racechild"), with
// GORACE=halt_on_error=0 log_path=…, and turns the detector's reports into the case line.

var raceOps = []string{"shutdown", "getlistener", "register", "clients", "ctxcancel",
	"cancelread", "cancelreadbytes", "cancelwrite", "reuse"}

func raceCombos() [][]string {
	var out [][]string
	n := len(raceOps)
	for a := 0; a < n; a++ {
		out = append(out, []string{raceOps[a]})
	}
	for a := 0; a < n; a++ {
		for b := a + 1; b < n; b++ {
			out = append(out, []string{raceOps[a], raceOps[b]})
		}
	}
	for a := 0; a < n; a++ {
		for b := a + 1; b < n; b++ {
			for c := b + 1; c < n; c++ {
				out = append(out, []string{raceOps[a], raceOps[b], raceOps[c]})
			}
		}
	}
	return out
}

type raceScenario struct {
	base    string // listen | dolisten
	ops     []string
	reps    int   // repetitions inside each operation
	k       int   // client connections
	tcp     bool  // tcp loopback instead of an abstract unix socket
	early   bool  // operations start without waiting for the service to be up
	offsUs  []int // start offset of each operation in microseconds
	timeout int   // accept timeout in ms (0 = none)
}

func (g *Rng) raceScenario(i int) raceScenario {
	combos := raceCombos()
	sc := raceScenario{base: "listen"}
	if i%2 == 1 {
		sc.base = "dolisten"
	}
	sc.ops = combos[(i/2)%len(combos)]
	sc.reps = 2 + g.Intn(6)
	sc.k = 1 + g.Intn(4)
	sc.tcp = g.Chance(1, 3)
	sc.early = g.Chance(1, 4)
	for range sc.ops {
		sc.offsUs = append(sc.offsUs, g.Intn(3000))
	}
	if g.Chance(1, 3) {
		sc.timeout = 40 + g.Intn(60)
	}
	return sc
}

// ---- the child: runs one scenario under the race detector ---------------------------------------

type raceIface struct {
	name  string
	calls *int64
}

func (r *raceIface) VarlinkGetName() string { return r.name }
func (r *raceIface) VarlinkGetDescription() string {
	return "interface " + r.name + "\nmethod Ping() -> (n: int)\n"
}
func (r *raceIface) VarlinkDispatch(ctx context.Context, c varlink.Call, method string) error {
	atomic.AddInt64(r.calls, 1)
	return c.Reply(ctx, map[string]int{"n": 1})
}

type raceEff struct {
	served, registered, refused, cancelled, reused, shut, listened int64
}

var raceSeq int64

func runRaceScenario(sc raceScenario, idx int) (status string, eff *raceEff) {
	eff = &raceEff{}
	status = "ok"
	svc, err := varlink.NewService("verif", "race", "1", "http://verif")
	if err != nil {
		return "setup-" + err.Error(), eff
	}
	if err := svc.RegisterInterface(&raceIface{name: "org.verif.race", calls: &eff.served}); err != nil {
		return "setup-register", eff
	}
	// a second interface whose name sorts before the others: the name list is not in alphabetical order, so code
	// that tidies it up while serving (the tables are read by handlers without the mutex) would have to write
	if err := svc.RegisterInterface(&raceIface{name: "a.verif.race", calls: &eff.served}); err != nil {
		return "setup-register", eff
	}
	addr := fmt.Sprintf("unix:@verif-race-%d-%d-%d", os.Getpid(), idx, atomic.AddInt64(&raceSeq, 1))
	if sc.tcp {
		addr = "tcp:127.0.0.1:0"
	}
	ctx, cancelSvc := context.WithCancel(context.Background())
	defer cancelSvc()
	timeout := time.Duration(sc.timeout) * time.Millisecond

	served := make(chan error, 1)
	go func() {
		if sc.base == "listen" {
			served <- svc.Listen(ctx, addr, timeout)
		} else {
			if err := svc.Bind(ctx, addr); err != nil {
				served <- err
				return
			}
			served <- svc.DoListen(ctx, timeout)
		}
	}()

	// the address clients dial: from the listener (GetListener is part of the intended use)
	dialAddr := func(wait time.Duration) string {
		deadline := time.Now().Add(wait)
		for {
			l, _ := svc.GetListener()
			if l != nil {
				a := l.Addr()
				return a.Network() + ":" + a.String()
			}
			if time.Now().After(deadline) {
				return ""
			}
			time.Sleep(200 * time.Microsecond)
		}
	}
	if !sc.early {
		if dialAddr(2*time.Second) == "" {
			status = "not-listening"
		} else {
			atomic.AddInt64(&eff.listened, 1)
		}
	}

	var wg sync.WaitGroup
	var regN int64
	runOp := func(op string, off int) {
		defer wg.Done()
		time.Sleep(time.Duration(off) * time.Microsecond)
		switch op {
		case "shutdown":
			for r := 0; r < 1+sc.reps/3; r++ {
				svc.Shutdown()
				atomic.AddInt64(&eff.shut, 1)
				time.Sleep(100 * time.Microsecond)
			}
		case "getlistener":
			for r := 0; r < sc.reps*20; r++ {
				l, _ := svc.GetListener()
				if l != nil {
					_ = l.Addr()
				}
				if r%5 == 0 {
					runtime.Gosched()
				}
			}
		case "register":
			for r := 0; r < sc.reps*3; r++ {
				n := atomic.AddInt64(&regN, 1)
				err := svc.RegisterInterface(&raceIface{name: fmt.Sprintf("org.verif.r%d", n), calls: &eff.served})
				if err == nil {
					atomic.AddInt64(&eff.registered, 1)
				} else {
					atomic.AddInt64(&eff.refused, 1)
				}
				time.Sleep(50 * time.Microsecond)
			}
		case "clients":
			var cw sync.WaitGroup
			for c := 0; c < sc.k; c++ {
				cw.Add(1)
				go func() {
					defer cw.Done()
					a := dialAddr(300 * time.Millisecond)
					if a == "" {
						return
					}
					for r := 0; r < sc.reps; r++ {
						cctx, cc := context.WithTimeout(context.Background(), 2*time.Second)
						conn, err := varlink.NewConnection(cctx, a)
						if err != nil {
							cc()
							return
						}
						var vendor string
						var ifaces []string
						conn.GetInfo(cctx, &vendor, nil, nil, nil, &ifaces)
						conn.GetInterfaceDescription(cctx, "org.verif.race")
						var out map[string]int
						conn.Call(cctx, "org.verif.race.Ping", nil, &out)
						conn.Close()
						cc()
					}
				}()
			}
			cw.Wait()
		case "ctxcancel":
			// open idle connections so that handlers sit in ReadBytes, then cancel the service's context
			a := dialAddr(300 * time.Millisecond)
			var conns []net.Conn
			if a != "" {
				parts := strings.SplitN(a, ":", 2)
				for c := 0; c < sc.k; c++ {
					if nc, err := net.DialTimeout(parts[0], parts[1], time.Second); err == nil {
						conns = append(conns, nc)
					}
				}
			}
			time.Sleep(time.Duration(200+off/4) * time.Microsecond)
			cancelSvc()
			for _, nc := range conns {
				// the handler was cancelled: it closes the connection; we see EOF promptly
				nc.SetReadDeadline(time.Now().Add(2 * time.Second))
				var b [1]byte
				if _, err := nc.Read(b[:]); err != nil && !isTimeout(err) {
					atomic.AddInt64(&eff.cancelled, 1)
				}
				nc.Close()
			}
		case "cancelread", "cancelreadbytes", "cancelwrite", "reuse":
			for r := 0; r < sc.reps; r++ {
				raceCtxioOp(op, off+r, eff)
			}
		}
	}
	for i, op := range sc.ops {
		wg.Add(1)
		go runOp(op, sc.offsUs[i])
	}
	opsDone := make(chan struct{})
	go func() { wg.Wait(); close(opsDone) }()
	select {
	case <-opsDone:
	case <-time.After(20 * time.Second):
		return "ops-timeout", eff
	}

	// with an idle timeout configured, let at least one accept deadline expire after the operations
	// (and their connections) have ended: the timeout branch of the accept loop runs, and may end serving
	if sc.timeout > 0 {
		select {
		case <-served:
			return status, eff
		case <-time.After(time.Duration(sc.timeout+40) * time.Millisecond):
		}
	}

	// end of scenario: shut down until the serving call returns
	deadline := time.After(10 * time.Second)
	for {
		svc.Shutdown()
		select {
		case <-served:
			return status, eff
		case <-deadline:
			return "serve-timeout", eff
		case <-time.After(2 * time.Millisecond):
		}
	}
}

func isTimeout(err error) bool {
	ne, ok := err.(net.Error)
	return ok && ne.Timeout()
}

// raceCtxioOp: a cancelled ctxio operation on a connection used by this goroutine only, and the reuse
// of the same connection afterwards.  The caller touches its buffer right after the operation returns:
// were the helper goroutine still running, the detector would see it.
func raceCtxioOp(op string, salt int, eff *raceEff) {
	var a, b net.Conn
	if salt%2 == 0 {
		a, b = net.Pipe()
	} else {
		l, err := net.Listen("unix", fmt.Sprintf("@verif-racecx-%d-%d", os.Getpid(), atomic.AddInt64(&raceSeq, 1)))
		if err != nil {
			a, b = net.Pipe()
		} else {
			acc := make(chan net.Conn, 1)
			go func() { c, _ := l.Accept(); acc <- c }()
			a, err = net.Dial("unix", l.Addr().String())
			if err != nil {
				l.Close()
				a, b = net.Pipe()
			} else {
				b = <-acc
				l.Close()
			}
		}
	}
	if a == nil || b == nil {
		return
	}
	defer a.Close()
	defer b.Close()
	cx := ctxio.NewConn(a)
	ctx, cancel := context.WithCancel(context.Background())
	go func() {
		time.Sleep(time.Duration(100+(salt%7)*150) * time.Microsecond)
		cancel()
	}()
	buf := make([]byte, 64)
	var err error
	switch op {
	case "cancelread":
		_, err = cx.Read(ctx, buf)
		buf[0] = 1 // the buffer is the caller's again
	case "cancelreadbytes", "reuse":
		_, err = cx.ReadBytes(ctx, 0)
	case "cancelwrite":
		big := make([]byte, 1<<20)
		_, err = cx.Write(ctx, big)
		big[0] = 1
	}
	cancel()
	if err == context.Canceled {
		atomic.AddInt64(&eff.cancelled, 1)
	}
	if op == "cancelwrite" {
		return // the peer has half a message: the stream is not reusable for frames
	}
	// reuse with a live context: the peer sends a frame, a frame read and a raw read get it
	go func() { b.Write([]byte("pong\x00raw")) }()
	lctx, lc := context.WithTimeout(context.Background(), 2*time.Second)
	defer lc()
	f, err1 := cx.ReadBytes(lctx, 0)
	n, err2 := cx.Read(lctx, buf)
	if err1 == nil && err2 == nil && string(f) == "pong\x00" && string(buf[:n]) == "raw" {
		atomic.AddInt64(&eff.reused, 1)
	}
	buf[1] = 2
}

// ---- the parent: runs the children, reads the detector's reports ------------------------------------

type raceReport struct {
	class  string // lib | lib-below | harness | other
	owners [2]string
	text   string
}

// ownerOf: first frame of an access stack that belongs to the library or to the harness
func frameClass(fn string) string {
	switch {
	case strings.HasPrefix(fn, "github.com/varlink/go/varlink."),
		strings.HasPrefix(fn, "github.com/varlink/go/varlink/internal/ctxio."),
		strings.HasPrefix(fn, "github.com/varlink/go/varlink/idl."):
		return "lib"
	case strings.HasPrefix(fn, "main."):
		return "harness"
	}
	return ""
}

func shortFn(fn string) string {
	fn = strings.TrimSuffix(fn, "()")
	if i := strings.Index(fn, "("); i > 0 && strings.HasSuffix(fn, ")") && !strings.Contains(fn[i:], "*") && !strings.Contains(fn[i:], ".") {
		fn = fn[:i]
	}
	fn = strings.TrimPrefix(fn, "github.com/varlink/go/")
	r := strings.NewReplacer("(", "", ")", "", "*", "", " ", "", "/", ".")
	return r.Replace(fn)
}

func parseRaceLog(text string) []raceReport {
	var out []raceReport
	for _, blk := range strings.Split(text, "==================") {
		if !strings.Contains(blk, "WARNING: DATA RACE") {
			continue
		}
		rep := raceReport{text: strings.TrimSpace(blk)}
		// sections: access 1, access 2, then goroutine creation stacks
		var sections [][]string
		var cur []string
		inAccess := false
		for _, ln := range strings.Split(blk, "\n") {
			t := strings.TrimSpace(ln)
			low := strings.ToLower(t)
			isHdr := strings.HasPrefix(low, "read at") || strings.HasPrefix(low, "write at") ||
				strings.HasPrefix(low, "previous read at") || strings.HasPrefix(low, "previous write at") ||
				strings.HasPrefix(low, "atomic") || strings.HasPrefix(low, "previous atomic")
			if isHdr {
				if inAccess {
					sections = append(sections, cur)
				}
				cur, inAccess = nil, true
				continue
			}
			if strings.HasPrefix(t, "Goroutine ") {
				if inAccess {
					sections = append(sections, cur)
				}
				cur, inAccess = nil, false
				continue
			}
			if inAccess && t != "" && !strings.HasPrefix(t, "/") && !strings.Contains(t, ".go:") {
				cur = append(cur, t)
			}
		}
		if inAccess {
			sections = append(sections, cur)
		}
		anyLib := strings.Contains(blk, "github.com/varlink/go/varlink")
		ownLib, ownHarness := false, false
		for i := 0; i < 2 && i < len(sections); i++ {
			for _, fn := range sections[i] {
				if c := frameClass(fn); c != "" {
					rep.owners[i] = shortFn(fn)
					if c == "lib" {
						ownLib = true
					} else {
						ownHarness = true
					}
					break
				}
			}
			if rep.owners[i] == "" {
				rep.owners[i] = "unknown"
			}
		}
		for i := len(sections); i < 2; i++ {
			rep.owners[i] = "unknown"
		}
		switch {
		case ownLib:
			rep.class = "lib"
		case ownHarness && !anyLib:
			rep.class = "harness"
		case ownHarness:
			rep.class = "harness-under-lib"
		case anyLib:
			rep.class = "lib-below"
		default:
			rep.class = "other"
		}
		out = append(out, rep)
	}
	return out
}

func raceLine(sc raceScenario, status string, effs string, reps []raceReport) string {
	l := &Line{}
	l.S("race").S(sc.base).N(len(sc.ops))
	for _, o := range sc.ops {
		l.S(o)
	}
	l.N(sc.reps).N(sc.k).Bool(sc.tcp).Bool(sc.early).N(sc.timeout)
	l.S("|").S(status).S(effs).N(len(reps))
	for _, r := range reps {
		t := r.text
		if len(t) > 3000 {
			t = t[:3000]
		}
		l.S(r.class).S(r.owners[0]).S(r.owners[1]).S("x" + hex.EncodeToString([]byte(t)))
	}
	return l.String()
}

func init() {
	commands["racechild"] = func(e *env) error {
		return e.each(func(i int, g *Rng) error {
			sc := g.raceScenario(i)
			status, eff := runRaceScenario(sc, i)
			status = strings.Map(func(r rune) rune {
				if r == ' ' || r == '\n' {
					return '_'
				}
				return r
			}, status)
			b2 := func(n int64) int {
				if n > 0 {
					return 1
				}
				return 0
			}
			fmt.Fprintf(e.out, "RESULT %s served%d-reg%d-ref%d-canc%d-reuse%d\n", status,
				b2(eff.served), b2(eff.registered), b2(eff.refused), b2(eff.cancelled), b2(eff.reused))
			return nil
		})
	}
	commands["race"] = func(e *env) error {
		bin := os.Getenv("VERIF_VH_RACE")
		if bin == "" {
			return fmt.Errorf("VERIF_VH_RACE is not set (the -race build of the harness; ./check sets it for properties with race_binary)")
		}
		var idx []int
		for i := 0; i < e.n; i++ {
			if e.only >= 0 && i != e.only {
				continue
			}
			idx = append(idx, i)
		}
		tmp, err := os.MkdirTemp("", "verif-race-")
		if err != nil {
			return err
		}
		defer os.RemoveAll(tmp)
		lines := make([]string, len(idx))
		workers := runtime.NumCPU() / 2
		if workers < 2 {
			workers = 2
		}
		if workers > 8 {
			workers = 8
		}
		root := NewRng(e.seed)
		var wg sync.WaitGroup
		jobs := make(chan int)
		for w := 0; w < workers; w++ {
			wg.Add(1)
			go func() {
				defer wg.Done()
				for j := range jobs {
					i := idx[j]
					sc := root.Fork(uint64(i)).raceScenario(i)
					logp := filepath.Join(tmp, fmt.Sprintf("r%d", i))
					ctx, cancel := context.WithTimeout(context.Background(), 60*time.Second)
					cmd := exec.CommandContext(ctx, bin, "racechild", "-seed", strconv.FormatUint(e.seed, 10),
						"-n", strconv.Itoa(e.n), "-only", strconv.Itoa(i))
					env := []string{}
					for _, kv := range os.Environ() {
						if strings.HasPrefix(kv, "GORACE=") || strings.HasPrefix(kv, "LISTEN_") {
							continue
						}
						env = append(env, kv)
					}
					cmd.Env = append(env, "GORACE=halt_on_error=0 atexit_sleep_ms=0 log_path="+logp)
					var stdout, stderr bytes.Buffer
					cmd.Stdout, cmd.Stderr = &stdout, &stderr
					runErr := cmd.Run()
					cancel()
					status, effs := "crash", "none"
					for _, ln := range strings.Split(stdout.String(), "\n") {
						f := strings.Fields(ln)
						if len(f) == 3 && f[0] == "RESULT" {
							status, effs = f[1], f[2]
						}
					}
					if status == "crash" && runErr != nil {
						msg := stderr.String()
						if len(msg) > 300 {
							msg = msg[len(msg)-300:]
						}
						status = "crash-" + strings.Map(func(r rune) rune {
							if r == ' ' || r == '\n' || r == '\t' {
								return '_'
							}
							return r
						}, msg)
					}
					var logText strings.Builder
					files, _ := filepath.Glob(logp + ".*")
					sort.Strings(files)
					for _, f := range files {
						b, _ := os.ReadFile(f)
						logText.Write(b)
						os.Remove(f)
					}
					lines[j] = raceLine(sc, status, effs, parseRaceLog(logText.String()))
				}
			}()
		}
		for j := range idx {
			jobs <- j
		}
		close(jobs)
		wg.Wait()
		for _, l := range lines {
			fmt.Fprintln(e.out, l)
		}
		return nil
	}
}
