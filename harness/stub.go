package main

import (
	"bufio"
	"bytes"
	"encoding/json"
	"fmt"
	"os"
	"os/exec"
	"path/filepath"
	"sort"
	"strconv"
	"strings"

	"github.com/varlink/go/varlink/idl"
)

// stub: the generated stubs as a typed binding (C08). Per description (inside the C07 domain, real generator
// output that compiles): a driver package is emitted next to the generated package — an implementation of the
// generated interface that records what it receives and answers from a table, and the calls through the
// generated client stubs with literal typed values. All driver packages of a run are linked into ONE program;
// it talks to real `varlink.Service`s over abstract unix sockets through a recording proxy.
//
//   stubs <idl> <k> (<scenario> x<method> <flags> <nin> <val>*nin <scenario data> | <observations>)*k   one line per description
//   stubskip <why> | stubbuild <idl> | x<message>
//
// scenarios: reply | error | notimpl | unknown | badparams

type stubCase struct {
	desc     *stubDesc
	idx      int // case index within the run
	scenario string
	method   *idl.Method
	flags    int  // 0, 1 (more), 2 (oneway), 8 (upgrade)
	lenient  bool // the implementation ignores the error of every reply but the last (a streaming implementation that does not check WantsMore)
	viaSend  bool // flags == 8: pass varlink.Upgrade to the generated Send stub instead of calling the Upgrade stub (same wire form)
	ins      []*gval
	replies  []stubReply // what the implementation does, in order
	errName  string
	errVals  []*gval
	rawFrame string // unknown / badparams: the request frame sent raw
	obs      string // observation tokens from the driver program
}

type stubReply struct {
	continues bool
	outs      []*gval
}

type stubDesc struct {
	idx      int
	dc       descCase
	tree     *idl.IDL
	treeLine string
	pkg      string
	src      []byte
	env      *typeEnv
	cases    []*stubCase
}

func errFields(e *idl.Error) []idl.TypeField {
	if e.Type == nil {
		return nil
	}
	return e.Type.Fields
}

func (d *stubDesc) genCases(g *Rng, perDesc int) {
	t := d.tree
	for k := 0; k < perDesc; k++ {
		m := t.Methods[g.Intn(len(t.Methods))]
		c := &stubCase{desc: d, method: m}
		for _, f := range m.In.Fields {
			c.ins = append(c.ins, d.env.randVal(g, f.Type, 3, false))
		}
		outs := func() []*gval {
			var vs []*gval
			for _, f := range m.Out.Fields {
				vs = append(vs, d.env.randVal(g, f.Type, 3, false))
			}
			return vs
		}
		r := g.Intn(12)
		forcedErr := -1
		if d.dc.tag == "std-error-names" && k < len(t.Errors) {
			// every error of this description in turn (they share their member names with the standard errors)
			r, forcedErr = 6, k
		}
		switch {
		case r < 5:
			c.scenario = "reply"
			switch g.Intn(6) {
			case 5:
				// a streaming implementation called WITHOUT more: the continues reply must be refused
				// (nothing written), the final reply is the only frame
				c.flags = 0
				c.lenient = true
				c.replies = []stubReply{{true, outs()}, {false, outs()}}
			case 0:
				c.flags = 1
				c.replies = []stubReply{{true, outs()}, {false, outs()}}
			case 1:
				c.flags = 2
				c.replies = []stubReply{{false, outs()}}
			case 2:
				c.flags = 8
				c.viaSend = g.Bool()
				c.replies = []stubReply{{false, outs()}}
			default:
				c.replies = []stubReply{{false, outs()}}
			}
		case r < 8 && len(t.Errors) > 0:
			c.scenario = "error"
			if g.Chance(1, 4) {
				// an error reply to an upgrade call, through the generated Upgrade stub: the typed error comes back
				c.flags = 8
			}
			e := t.Errors[g.Intn(len(t.Errors))]
			if forcedErr >= 0 {
				e = t.Errors[forcedErr]
				c.flags = 0
			} else if c.flags == 0 && g.Chance(1, 3) {
				// a `more` call that ends in an error while Call.Continues is still set (as it is after streamed
				// replies): the error reply is a final one
				c.flags = 1
			}
			c.errName = e.Name
			for _, f := range errFields(e) {
				c.errVals = append(c.errVals, d.env.randVal(g, f.Type, 3, false))
			}
		case r < 9 && g.Chance(1, 2) && len(m.In.Fields) > 0:
			// a call a non-Go peer could send: other key order, other letter case, unknown members
			c.scenario = "rawcall"
			c.replies = []stubReply{{false, outs()}}
			var parts []string
			for i, f := range m.In.Fields {
				if f.Type.Kind == idl.TypeMaybe && c.ins[i].kind == "none" && g.Bool() {
					continue
				}
				key := f.Name
				twin := false
				for _, o := range m.In.Fields {
					if o.Name != f.Name && strings.EqualFold(o.Name, f.Name) {
						twin = true
					}
				}
				if !twin {
					switch g.Intn(4) {
					case 0:
						key = strings.ToUpper(key)
					case 1:
						key = title(key)
					}
				}
				kb, _ := json.Marshal(key)
				parts = append(parts, string(kb)+":"+d.env.jsonOf(f.Type, c.ins[i]))
			}
			if g.Bool() {
				parts = append(parts, `"zz unknown member":{"x":[1,2]}`)
			}
			for i := len(parts) - 1; i > 0; i-- {
				j := g.Intn(i + 1)
				parts[i], parts[j] = parts[j], parts[i]
			}
			c.rawFrame = `{"parameters":{` + strings.Join(parts, ",") + `},"method":"` + t.Name + `.` + m.Name + `"}`
		case r < 9:
			c.scenario = "notimpl"
			if g.Chance(1, 3) {
				c.flags = 8
			}
		case r < 10:
			c.scenario = "unknown"
			c.rawFrame = `{"method":"` + t.Name + `.` + g.Pick([]string{"Nope", "", "m", m.Name + "x", strings.ToLower(m.Name)}) + `"}`
		default:
			c.scenario = "badparams"
			if len(m.In.Fields) == 0 {
				c.scenario = "reply"
				c.replies = []stubReply{{false, outs()}}
				break
			}
			f := m.In.Fields[g.Intn(len(m.In.Fields))]
			bad := d.badValueFor(f.Type, g)
			switch g.Intn(4) {
			case 0:
				c.rawFrame = `{"method":"` + t.Name + `.` + m.Name + `"}`
			case 1:
				c.rawFrame = `{"method":"` + t.Name + `.` + m.Name + `","parameters":null}`
			case 2:
				c.rawFrame = `{"method":"` + t.Name + `.` + m.Name + `","parameters":` + g.Pick([]string{`[]`, `"x"`, `1`, `true`}) + `}`
			default:
				if bad == "" {
					c.rawFrame = `{"method":"` + t.Name + `.` + m.Name + `","parameters":7}`
				} else {
					c.rawFrame = `{"method":"` + t.Name + `.` + m.Name + `","parameters":{` + strconv.Quote(f.Name) + `:` + bad + `}}`
				}
			}
		}
		// the standard error replies of the library obey the oneway flag like every other reply: an unknown method
		// or undecodable parameters on a oneway call are answered with nothing at all
		if (c.scenario == "unknown" || c.scenario == "badparams") && strings.HasSuffix(c.rawFrame, "}") && g.Chance(1, 3) {
			c.rawFrame = c.rawFrame[:len(c.rawFrame)-1] + `,"oneway":true}`
		}
		d.cases = append(d.cases, c)
	}
}

// badValueFor: a JSON value json.Unmarshal rejects for the Go type of t ("" = there is none: object)
func (d *stubDesc) badValueFor(t *idl.Type, g *Rng) string {
	return d.badValueForN(t, g, 0)
}

func (d *stubDesc) badValueForN(t *idl.Type, g *Rng, n int) string {
	if n > 20 {
		return "" // `type P ?P`: every JSON value below the pointers is a pointer again
	}
	for t.Kind == idl.TypeAlias {
		n++
		if n > 20 {
			return ""
		}
		a, ok := d.env.aliases[t.Alias]
		if !ok {
			return `{}`
		}
		t = a
	}
	switch t.Kind {
	case idl.TypeBool:
		return g.Pick([]string{`1`, `"true"`, `[]`})
	case idl.TypeInt:
		return g.Pick([]string{`1.5`, `"1"`, `1e2`, `9223372036854775808`, `true`, `-9223372036854775809`})
	case idl.TypeFloat:
		return g.Pick([]string{`"1"`, `true`, `[]`, `1e999`, `1.797693134862315808e308`, `-1.8e308`, `17976931348623158` + strings.Repeat("0", 293)})
	case idl.TypeString, idl.TypeEnum:
		return g.Pick([]string{`1`, `true`, `{}`})
	case idl.TypeObject:
		return ""
	case idl.TypeArray:
		return g.Pick([]string{`{}`, `1`, `"x"`})
	case idl.TypeMap, idl.TypeStruct:
		return g.Pick([]string{`[]`, `1`, `"x"`})
	case idl.TypeMaybe:
		return d.badValueForN(t.ElementType, g, n+1)
	}
	return `{}`
}

func (c *stubCase) line() string {
	l := &Line{}
	l.S(c.scenario).Str(c.method.Name).N(c.flags)
	l.N(len(c.ins))
	for _, v := range c.ins {
		v.ser(l)
	}
	switch c.scenario {
	case "reply":
		l.N(len(c.replies))
		for _, r := range c.replies {
			l.Bool(r.continues).N(len(r.outs))
			for _, v := range r.outs {
				v.ser(l)
			}
		}
	case "error":
		l.Str(c.errName).N(len(c.errVals))
		for _, v := range c.errVals {
			v.ser(l)
		}
	case "unknown", "badparams":
		l.Str(c.rawFrame)
	case "rawcall":
		l.Str(c.rawFrame)
		l.N(len(c.replies[0].outs))
		for _, v := range c.replies[0].outs {
			v.ser(l)
		}
	}
	l.S("|").S(c.obs)
	return l.String()
}

// ---- emitted Go -----------------------------------------------------------------------------------

const stubRuntime = `package rt

import (
	"context"
	"encoding/hex"
	"encoding/json"
	"fmt"
	"io"
	"net"
	"strings"
	"sync"
	"time"

	"github.com/varlink/go/varlink"
)

// Recorder collects what one case observes.
type Recorder struct {
	mu    sync.Mutex
	Calls []string // one per invocation of the implementation
	Res   []string // one per receive on the client
}

func (r *Recorder) Call(method string, args []interface{}, more, oneway, upgrade bool) {
	b, err := json.Marshal(args)
	if err != nil {
		b = []byte("MARSHAL-ERROR")
	}
	r.mu.Lock()
	r.Calls = append(r.Calls, fmt.Sprintf("x%s x%s %d %d %d", hex.EncodeToString([]byte(method)), hex.EncodeToString(b), b2i(more), b2i(oneway), b2i(upgrade)))
	r.mu.Unlock()
}

func b2i(b bool) int {
	if b {
		return 1
	}
	return 0
}

// Result records what a client stub returned: values or an error.
func (r *Recorder) Result(vals []interface{}, flags uint64, err error) {
	var s string
	if err != nil {
		b, merr := json.Marshal(err)
		if merr != nil {
			b = []byte("null")
		}
		s = fmt.Sprintf("err x%s x%s x%s", hex.EncodeToString([]byte(fmt.Sprintf("%T", err))), hex.EncodeToString([]byte(err.Error())), hex.EncodeToString(b))
	} else {
		b, merr := json.Marshal(vals)
		if merr != nil {
			b = []byte("MARSHAL-ERROR")
		}
		s = fmt.Sprintf("vals x%s %d", hex.EncodeToString(b), flags)
	}
	r.mu.Lock()
	r.Res = append(r.Res, s)
	r.mu.Unlock()
}

type Service struct {
	Addr  string
	svc   *varlink.Service
	done  chan error
	proxy net.Listener
	pmu   sync.Mutex
	c2s   []byte
	s2c   []byte
	wg    sync.WaitGroup
}

var counter int

// Start serves iface on an abstract unix socket behind a recording proxy.
func Start(pid int, iface interface {
	VarlinkDispatch(ctx context.Context, c varlink.Call, methodname string) error
	VarlinkGetName() string
	VarlinkGetDescription() string
}) (*Service, error) {
	counter++
	s := &Service{done: make(chan error, 1)}
	svc, err := varlink.NewService("v", "p", "1", "u")
	if err != nil {
		return nil, err
	}
	if err := svc.RegisterInterface(iface); err != nil {
		return nil, err
	}
	s.svc = svc
	back := fmt.Sprintf("unix:@verifstub-%d-%d-b", pid, counter)
	go func() { s.done <- svc.Listen(context.Background(), back, 0) }()
	front := fmt.Sprintf("@verifstub-%d-%d-f", pid, counter)
	l, err := net.Listen("unix", front)
	if err != nil {
		return nil, err
	}
	s.proxy = l
	s.Addr = "unix:" + front
	go func() {
		for {
			c, err := l.Accept()
			if err != nil {
				return
			}
			var b net.Conn
			for i := 0; i < 200; i++ {
				b, err = net.Dial("unix", back[5:])
				if err == nil {
					break
				}
				time.Sleep(5 * time.Millisecond)
			}
			if err != nil {
				c.Close()
				continue
			}
			s.wg.Add(2)
			go s.pump(c, b, true)
			go s.pump(b, c, false)
		}
	}()
	return s, nil
}

func (s *Service) pump(from, to net.Conn, c2s bool) {
	defer s.wg.Done()
	buf := make([]byte, 65536)
	for {
		n, err := from.Read(buf)
		if n > 0 {
			s.pmu.Lock()
			if c2s {
				s.c2s = append(s.c2s, buf[:n]...)
			} else {
				s.s2c = append(s.s2c, buf[:n]...)
			}
			s.pmu.Unlock()
			to.Write(buf[:n])
		}
		if err != nil {
			if uc, ok := to.(*net.UnixConn); ok {
				uc.CloseWrite()
			} else {
				to.Close()
			}
			return
		}
	}
}

// Take waits until both directions of the case's connection are closed and returns what went over them.
func (s *Service) Take() (c2s, s2c []byte) {
	s.wg.Wait()
	s.pmu.Lock()
	defer s.pmu.Unlock()
	c2s, s2c = s.c2s, s.s2c
	s.c2s, s.s2c = nil, nil
	return
}

func (s *Service) Stop() {
	s.proxy.Close()
	s.svc.Shutdown()
	select {
	case <-s.done:
	case <-time.After(5 * time.Second):
	}
}

// Raw sends one frame and reads one reply frame (or EOF).
func Raw(addr string, frame string) {
	c, err := net.Dial("unix", strings.TrimPrefix(addr, "unix:"))
	if err != nil {
		return
	}
	c.Write(append([]byte(frame), 0))
	// nothing more to send: the service answers (or, for a oneway call, does not) and then closes
	if u, ok := c.(*net.UnixConn); ok {
		u.CloseWrite()
	}
	c.SetReadDeadline(time.Now().Add(5 * time.Second))
	buf := make([]byte, 4096)
	for {
		if _, err := c.Read(buf); err != nil {
			break
		}
	}
	c.Close()
}

// Emit prints one observation line.
func Emit(w io.Writer, desc, idx int, rec *Recorder, c2s, s2c []byte) {
	rec.mu.Lock()
	defer rec.mu.Unlock()
	var sb strings.Builder
	fmt.Fprintf(&sb, "%d %d x%s x%s %d", desc, idx, hex.EncodeToString(c2s), hex.EncodeToString(s2c), len(rec.Calls))
	for _, c := range rec.Calls {
		sb.WriteString(" " + c)
	}
	fmt.Fprintf(&sb, " %d", len(rec.Res))
	for _, r := range rec.Res {
		sb.WriteString(" " + r)
	}
	fmt.Fprintln(w, sb.String())
}

// WaitCalls waits until the implementation has been invoked n times (oneway calls return before that).
func (r *Recorder) WaitCalls(n int) {
	for i := 0; i < 1000; i++ {
		r.mu.Lock()
		k := len(r.Calls)
		r.mu.Unlock()
		if k >= n {
			return
		}
		time.Sleep(2 * time.Millisecond)
	}
}
`

func (d *stubDesc) fieldsArgs(fields []idl.TypeField, suffix string) (decl, names string) {
	var ds, ns []string
	for _, f := range fields {
		ds = append(ds, f.Name+suffix+" "+d.env.goType(f.Type, false))
		ns = append(ns, f.Name+suffix)
	}
	return strings.Join(ds, ", "), strings.Join(ns, ", ")
}

func (d *stubDesc) lits(fields []idl.TypeField, vals []*gval) string {
	var parts []string
	for i, f := range fields {
		parts = append(parts, d.env.lit(f.Type, vals[i], false))
	}
	return strings.Join(parts, ", ")
}

// driverSource emits package d<idx>: implementation + cases.
func (d *stubDesc) driverSource() string {
	var b strings.Builder
	t := d.tree
	var body strings.Builder
	// implementation
	body.WriteString("type impl struct {\n\tg.VarlinkInterface\n\ton func(ctx context.Context, method string, args []interface{}, call g.VarlinkCall) error\n}\n\n")
	for _, m := range t.Methods {
		decl, names := d.fieldsArgs(m.In.Fields, "_")
		if decl != "" {
			decl = ", " + decl
		}
		fmt.Fprintf(&body, "func (i *impl) %s(ctx context.Context, call g.VarlinkCall%s) error {\n\treturn i.on(ctx, %q, []interface{}{%s}, call)\n}\n\n", m.Name, decl, m.Name, names)
	}
	body.WriteString("type dummy struct{ g.VarlinkInterface }\n\n")
	body.WriteString("func Run(w io.Writer, pid int) error {\n")
	body.WriteString("\tim := &impl{}\n\tsvcA, err := rt.Start(pid, g.VarlinkNew(im))\n\tif err != nil {\n\t\treturn err\n\t}\n\tdefer svcA.Stop()\n")
	body.WriteString("\tsvcB, err := rt.Start(pid, g.VarlinkNew(&dummy{}))\n\tif err != nil {\n\t\treturn err\n\t}\n\tdefer svcB.Stop()\n")
	body.WriteString("\tctx := context.Background()\n\t_ = ctx\n")
	for _, c := range d.cases {
		m := c.method
		fmt.Fprintf(&body, "\t{ // case %d: %s\n\t\trec := &rt.Recorder{}\n", c.idx, c.scenario)
		svc := "svcA"
		if c.scenario == "notimpl" {
			svc = "svcB"
		}
		switch c.scenario {
		case "rawcall":
			args := d.lits(m.Out.Fields, c.replies[0].outs)
			if args != "" {
				args = ", " + args
			}
			fmt.Fprintf(&body, "\t\tim.on = func(ctx context.Context, method string, args []interface{}, call g.VarlinkCall) error {\n\t\t\trec.Call(method, args, call.WantsMore(), call.IsOneway(), call.WantsUpgrade())\n\t\t\treturn call.Reply%s(ctx%s)\n\t\t}\n", m.Name, args)
			fmt.Fprintf(&body, "\t\trt.Raw(%s.Addr, %q)\n", svc, c.rawFrame)
		case "unknown", "badparams":
			fmt.Fprintf(&body, "\t\tim.on = func(ctx context.Context, method string, args []interface{}, call g.VarlinkCall) error {\n\t\t\trec.Call(method, args, call.WantsMore(), call.IsOneway(), call.WantsUpgrade())\n\t\t\treturn call.Call.ReplyInvalidParameter(ctx, \"unexpected-dispatch\")\n\t\t}\n")
			fmt.Fprintf(&body, "\t\trt.Raw(%s.Addr, %q)\n", svc, c.rawFrame)
		default:
			// what the implementation does
			fmt.Fprintf(&body, "\t\tim.on = func(ctx context.Context, method string, args []interface{}, call g.VarlinkCall) error {\n\t\t\trec.Call(method, args, call.WantsMore(), call.IsOneway(), call.WantsUpgrade())\n")
			if c.scenario == "error" {
				var e *idl.Error
				for _, x := range t.Errors {
					if x.Name == c.errName {
						e = x
					}
				}
				args := d.lits(errFields(e), c.errVals)
				if args != "" {
					args = ", " + args
				}
				if c.flags == 1 {
					body.WriteString("\t\t\tcall.Continues = true\n")
				}
				fmt.Fprintf(&body, "\t\t\treturn call.Reply%s(ctx%s)\n", c.errName, args)
			} else {
				for ri, r := range c.replies {
					args := d.lits(m.Out.Fields, r.outs)
					if args != "" {
						args = ", " + args
					}
					fmt.Fprintf(&body, "\t\t\tcall.Continues = %v\n", r.continues)
					if ri == len(c.replies)-1 {
						fmt.Fprintf(&body, "\t\t\treturn call.Reply%s(ctx%s)\n", m.Name, args)
					} else if c.lenient {
						fmt.Fprintf(&body, "\t\t\t_ = call.Reply%s(ctx%s)\n", m.Name, args)
					} else {
						fmt.Fprintf(&body, "\t\t\tif err := call.Reply%s(ctx%s); err != nil {\n\t\t\t\treturn err\n\t\t\t}\n", m.Name, args)
					}
				}
				if len(c.replies) == 0 {
					body.WriteString("\t\t\treturn nil\n")
				}
			}
			body.WriteString("\t\t}\n")
			// the client
			fmt.Fprintf(&body, "\t\tconn, err := varlink.NewConnection(ctx, %s.Addr)\n\t\tif err != nil {\n\t\t\treturn err\n\t\t}\n", svc)
			ins := d.lits(m.In.Fields, c.ins)
			if ins != "" {
				ins = ", " + ins
			}
			var outNames []string
			for _, f := range m.Out.Fields {
				outNames = append(outNames, "o_"+f.Name)
			}
			lhs := strings.Join(append(append([]string{}, outNames...), "fl", "err2"), ", ")
			vals := strings.Join(outNames, ", ")
			nrecv := len(c.replies)
			if c.scenario == "error" || c.scenario == "notimpl" {
				nrecv = 1
			}
			if c.flags == 8 && !c.viaSend {
				lhsU := strings.Join(append(append([]string{}, outNames...), "fl", "_", "err2"), ", ")
				fmt.Fprintf(&body, "\t\trecv, err := g.%s().Upgrade(ctx, conn%s)\n\t\tif err != nil {\n\t\t\trec.Result(nil, 0, err)\n\t\t} else {\n", m.Name, ins)
				fmt.Fprintf(&body, "\t\t\t%s := recv(ctx)\n\t\t\trec.Result([]interface{}{%s}, fl, err2)\n\t\t}\n", lhsU, vals)
			} else {
				fmt.Fprintf(&body, "\t\trecv, err := g.%s().Send(ctx, conn, %d%s)\n\t\tif err != nil {\n\t\t\trec.Result(nil, 0, err)\n\t\t} else {\n", m.Name, c.flags, ins)
				if c.flags == 2 {
					body.WriteString("\t\t\t_ = recv\n\t\t\trec.WaitCalls(1)\n\t\t}\n")
				} else {
					fmt.Fprintf(&body, "\t\t\tfor k := 0; k < %d; k++ {\n\t\t\t\t%s := recv(ctx)\n\t\t\t\trec.Result([]interface{}{%s}, fl, err2)\n\t\t\t\tif err2 != nil || fl&varlink.Continues == 0 {\n\t\t\t\t\tbreak\n\t\t\t\t}\n\t\t\t}\n\t\t}\n", nrecv, lhs, vals)
				}
			}
			body.WriteString("\t\tconn.Close()\n")
		}
		fmt.Fprintf(&body, "\t\tc2s, s2c := %s.Take()\n\t\trt.Emit(w, %d, %d, rec, c2s, s2c)\n\t}\n", svc, d.idx, c.idx)
	}
	body.WriteString("\treturn nil\n}\n")
	src := body.String()
	// encoding/json and math are imported unconditionally and kept used by blank declarations: whether the
	// value literals need them cannot be read off the text, which also contains the interface name and
	// string values ("interface json.RawMessage" — the mistake the generator itself made before 30ae85f)
	fmt.Fprintf(&b, "package d%d\n\nimport (\n\t\"context\"\n\t\"io\"\n", d.idx)
	b.WriteString("\t\"encoding/json\"\n")
	b.WriteString("\t\"math\"\n")
	b.WriteString("\n\t\"github.com/varlink/go/varlink\"\n")
	fmt.Fprintf(&b, "\tg \"scratch/g%d\"\n\t\"scratch/rt\"\n)\n\nvar _ = varlink.More\nvar _ json.RawMessage\nvar _ = math.MaxInt64\n\n", d.idx)
	b.WriteString(src)
	return b.String()
}

func runStub(e *env) error {
	ge, err := newGenEnv()
	if err != nil {
		return err
	}
	defer ge.close()
	perDesc := 6
	// descriptions: random in-domain ones plus the type-at-position table
	var descs []*stubDesc
	lines := map[int]string{}
	caseIdx := 0
	err = e.each(func(i int, g *Rng) error {
		var dc descCase
		sys := genSystematicCases()
		if i%3 == 0 {
			// the systematic cases (specials, types at positions, keyword fields, …) in table order
			dc = sys[(i/3)%len(sys)]
		} else {
			dc = g.randomDescription()
		}
		if strings.HasPrefix(dc.tag, "x-") || dc.tag == "random-risky" {
			dc = descCase{"interface a.b\ntype T (a: ?int, b: []T)\nmethod M(t: T, s: string) -> (t: ?T)\nerror E (t: T)\n", "fallback"}
		}
		tree, _, _ := parseReal(dc.text)
		if tree == nil {
			lines[i] = (&Line{}).S("stubskip").S("parse-error").String()
			return nil
		}
		d := &stubDesc{idx: i, dc: dc, tree: tree}
		l := &Line{}
		serIDL(l, tree)
		d.treeLine = l.String()
		st, _, outFile, out := ge.runReal(filepath.Join(ge.work, fmt.Sprintf("s%d", i)), dc.text)
		os.RemoveAll(filepath.Join(ge.work, fmt.Sprintf("s%d", i)))
		if st != "ok" {
			lines[i] = (&Line{}).S("stubskip").S("generator-" + st).String()
			return nil
		}
		d.pkg = strings.TrimSuffix(outFile, ".go")
		if d.pkg == "main" {
			lines[i] = (&Line{}).S("stubskip").S("package-main").String()
			return nil
		}
		if d.pkg == "documentation" {
			// go/build ignores the files of a package documentation: nothing to bind against (C07 decides that)
			lines[i] = (&Line{}).S("stubskip").S("package-documentation").String()
			return nil
		}
		d.src = out
		d.env = newTypeEnv(tree, "g.")
		d.genCases(g, perDesc)
		for _, c := range d.cases {
			c.idx = caseIdx
			caseIdx++
		}
		descs = append(descs, d)
		return nil
	})
	if err != nil {
		return err
	}
	// scratch module
	mod := filepath.Join(ge.work, "stubmod")
	os.MkdirAll(filepath.Join(mod, "rt"), 0o755)
	gomod := "module scratch\n\ngo 1.13\n\nrequire github.com/varlink/go v0.0.0\n\nreplace github.com/varlink/go => " + ge.repo + "\n"
	os.WriteFile(filepath.Join(mod, "go.mod"), []byte(gomod), 0o644)
	os.WriteFile(filepath.Join(mod, "rt", "rt.go"), []byte(stubRuntime), 0o644)
	var pkgs []string
	for _, d := range descs {
		os.MkdirAll(filepath.Join(mod, fmt.Sprintf("g%d", d.idx)), 0o755)
		os.MkdirAll(filepath.Join(mod, fmt.Sprintf("d%d", d.idx)), 0o755)
		os.WriteFile(filepath.Join(mod, fmt.Sprintf("g%d", d.idx), d.pkg+".go"), d.src, 0o644)
		os.WriteFile(filepath.Join(mod, fmt.Sprintf("d%d", d.idx), "driver.go"), []byte(d.driverSource()), 0o644)
		pkgs = append(pkgs, fmt.Sprintf("./d%d", d.idx))
	}
	// which driver packages build (a description whose generated package does not compile is C07's business)
	bad := map[int]string{}
	if len(pkgs) > 0 {
		cmd := exec.Command("go", append([]string{"build", "-p", "16"}, pkgs...)...)
		cmd.Dir = mod
		cmd.Env = ge.goenv
		out, _ := cmd.CombinedOutput()
		cur := -1
		for _, line := range strings.Split(string(out), "\n") {
			if strings.HasPrefix(line, "# scratch/") {
				f := strings.Fields(line[2:])[0]
				n, err := strconv.Atoi(strings.TrimLeft(strings.TrimPrefix(f, "scratch/"), "dg"))
				if err == nil {
					cur = n
					bad[n] = ""
				}
				continue
			}
			if cur >= 0 && bad[cur] == "" && strings.TrimSpace(line) != "" {
				bad[cur] = strings.TrimSpace(line)
			}
		}
	}
	var good []*stubDesc
	for _, d := range descs {
		if msg, isBad := bad[d.idx]; isBad && strings.HasPrefix(msg, fmt.Sprintf("g%d/", d.idx)) {
			// the GENERATED package does not compile: property C07 decides that, nothing to run here
			lines[d.idx] = (&Line{}).S("stubskip").S("generated-package-does-not-compile").String()
			continue
		}
		if msg, isBad := bad[d.idx]; isBad {
			// a driver that does not build against a generated package that compiles is a harness defect or a
			// violation (the emitted API does not have the documented shape): report it
			lines[d.idx] = (&Line{}).S("stubbuild").S(d.treeLine).S("|").Str(msg).String()
			continue
		}
		good = append(good, d)
	}
	if len(good) > 0 {
		var src strings.Builder
		src.WriteString("package main\n\nimport (\n\t\"bufio\"\n\t\"fmt\"\n\t\"os\"\n")
		for _, d := range good {
			fmt.Fprintf(&src, "\td%d \"scratch/d%d\"\n", d.idx, d.idx)
		}
		src.WriteString(")\n\nfunc main() {\n\tw := bufio.NewWriter(os.Stdout)\n\tdefer w.Flush()\n\tpid := os.Getpid()\n")
		for _, d := range good {
			fmt.Fprintf(&src, "\tif err := d%d.Run(w, pid); err != nil {\n\t\tfmt.Fprintln(w, \"RUNERR\", %d, err)\n\t}\n", d.idx, d.idx)
		}
		src.WriteString("}\n")
		os.MkdirAll(filepath.Join(mod, "main"), 0o755)
		os.WriteFile(filepath.Join(mod, "main", "main.go"), []byte(src.String()), 0o644)
		bin := filepath.Join(mod, "stub.bin")
		cmd := exec.Command("go", "build", "-o", bin, "./main")
		cmd.Dir = mod
		cmd.Env = ge.goenv
		if out, err := cmd.CombinedOutput(); err != nil {
			return fmt.Errorf("stub program build failed: %v\n%.3000s", err, out)
		}
		run := exec.Command(bin)
		var stdout bytes.Buffer
		run.Stdout = &stdout
		run.Stderr = os.Stderr
		if err := run.Run(); err != nil {
			return fmt.Errorf("stub program failed: %v", err)
		}
		obs := map[int]string{}
		sc := bufio.NewScanner(&stdout)
		sc.Buffer(make([]byte, 1<<20), 1<<28)
		for sc.Scan() {
			f := strings.SplitN(sc.Text(), " ", 3)
			if len(f) == 3 && f[0] != "RUNERR" {
				if n, err := strconv.Atoi(f[1]); err == nil {
					obs[n] = f[2]
				}
			} else if f[0] == "RUNERR" {
				return fmt.Errorf("stub program: %s", sc.Text())
			}
		}
		for _, d := range good {
			l := &Line{}
			l.S("stubs").S(d.treeLine).N(len(d.cases))
			for _, c := range d.cases {
				o, ok := obs[c.idx]
				if !ok {
					o = "MISSING"
				}
				c.obs = o
				l.S(c.line())
			}
			lines[d.idx] = l.String()
		}
	}
	// exactly one line per case index of the run, in order (so that `-only i` replays line i)
	var idxs []int
	for i := range lines {
		idxs = append(idxs, i)
	}
	sort.Ints(idxs)
	for _, i := range idxs {
		fmt.Fprintln(e.out, lines[i])
	}
	return nil
}

func init() {
	commands["stub"] = runStub
}
