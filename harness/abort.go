package main

// C10 — the service under arbitrary and aborted client byte streams, over a real socket served by
// DoListen, while a well-behaved probe connection keeps calling GetInfo. For each generated stream the
// client stops at several byte offsets, either by an orderly half-close (everything before the offset
// must be answered exactly as the model says) or by a hard abort (close / reset without reading:
// what was dispatched must be a prefix of the model's dispatch log). Afterwards the connection's
// resources must be released: the active count returns to zero and Shutdown ends DoListen.

import (
	"context"
	"fmt"
	"io"
	"net"
	"sort"
	"time"

	"github.com/varlink/go/varlink"
)

type abortRun struct {
	offset   int
	mode     string // half | hard | reset
	replies  []byte
	log      []invocation
	released bool
	probeOK  bool
}

// a frame that is not JSON (the same bytes are appended by the driver for mode "linger")
var lingerBadFrame = []byte("}{\x00")

func probeOnce(ctx context.Context, c *varlink.Connection, vendor string) bool {
	cctx, cancel := context.WithTimeout(ctx, 5*time.Second)
	defer cancel()
	var v string
	if err := c.GetInfo(cctx, &v, nil, nil, nil, nil); err != nil {
		return false
	}
	return v == vendor
}

func init() {
	commands["abort"] = func(e *env) error {
		failures := 0
		return e.each(func(i int, g *Rng) error {
			if failures >= 5 {
				return nil // enough failing cases to report; every further one costs seconds of waiting
			}
			ctx := context.Background()
			c := g.connCase(i)
			// keep streams moderate: every offset run replays the prefix
			if len(c.stream) > 6000 {
				c.stream = c.stream[:6000]
			}
			dl := newDispatchLog()
			dl.single = c.id
			svc, err := c.reg.build(dl)
			if err != nil {
				return err
			}
			useTCP := i%5 == 4
			addr := fmt.Sprintf("unix:@verif-abort-%d-%d-%d", e.seed, i, time.Now().UnixNano()%1000000)
			if useTCP {
				addr = fmt.Sprintf("tcp:127.0.0.1:%d", freePort())
			}
			if err := svc.Bind(ctx, addr); err != nil {
				return err
			}
			done := make(chan error, 1)
			go func() { done <- svc.DoListen(ctx, 0) }()
			for t := 0; t < 3000; t++ {
				if running, _, _, _ := svc.VerifState(); running {
					break
				}
				time.Sleep(time.Millisecond)
			}
			probe, err := varlink.NewConnection(ctx, addr)
			if err != nil {
				return err
			}
			// offsets: thorough = every offset of short streams; otherwise a sample that always contains
			// 0, the full length, a position right after a NUL and one inside a frame
			offs := map[int]bool{0: true, len(c.stream): true}
			if e.tier == "thorough" && len(c.stream) <= 400 {
				for k := 0; k <= len(c.stream); k++ {
					offs[k] = true
				}
			} else {
				for k := 0; k < 4 && len(c.stream) > 0; k++ {
					offs[g.Intn(len(c.stream)+1)] = true
				}
				for p, b := range c.stream {
					if b == 0 && g.Chance(1, 3) {
						offs[p+1] = true
						if p > 0 {
							offs[p] = true
						}
					}
				}
			}
			var offList []int
			for k := range offs {
				offList = append(offList, k)
			}
			sort.Ints(offList)
			if len(offList) > 40 && e.tier != "thorough" {
				offList = offList[:40]
			}
			network, target := "unix", addr[5:]
			if useTCP {
				network, target = "tcp", addr[4:]
			}
			var runs []abortRun
			for _, off := range offList {
				mode := []string{"half", "hard", "half", "reset", "linger"}[g.Intn(5)]
				if mode == "reset" && !useTCP {
					mode = "hard"
				}
				if mode == "linger" {
					// the client sends the complete frames before the offset, then a frame that is not JSON, and
					// keeps its end open: the service must end the connection itself and release it at once
					for off > 0 && c.stream[off-1] != 0 {
						off--
					}
				}
				r := abortRun{offset: off, mode: mode}
				lingerReleased := false
				conn, err := net.Dial(network, target)
				if err != nil {
					return err
				}
				// the connection must have been accepted (and counted) before it is torn down, otherwise
				// "counter back to 1" could be observed before the service has even seen it
				for t := 0; t < 5000; t++ {
					if svc.VerifConnCounter() == 2 {
						break
					}
					time.Sleep(200 * time.Microsecond)
				}
				prefix := c.stream[:off]
				if mode == "linger" {
					prefix = append(append([]byte{}, prefix...), lingerBadFrame...)
				}
				for _, seg := range g.cut(prefix) {
					if _, err := conn.Write(seg); err != nil {
						break
					}
				}
				switch mode {
				case "half":
					switch cc := conn.(type) {
					case *net.UnixConn:
						cc.CloseWrite()
					case *net.TCPConn:
						cc.CloseWrite()
					}
					conn.SetReadDeadline(time.Now().Add(10 * time.Second))
					r.replies, _ = io.ReadAll(conn)
					conn.Close()
				case "linger":
					conn.SetReadDeadline(time.Now().Add(10 * time.Second))
					var rerr error
					// end of stream or a reset (the service closed with input still unread) = the service ended the
					// connection; only running into the deadline means it did not
					r.replies, rerr = io.ReadAll(conn)
					lingerEnded := true
					if ne, ok := rerr.(net.Error); ok && ne.Timeout() {
						lingerEnded = false
					}
					for t := 0; t < 5000 && lingerEnded; t++ {
						if svc.VerifConnCounter() == 1 {
							lingerReleased = true
							break
						}
						time.Sleep(time.Millisecond)
					}
					conn.Close()
				case "reset":
					conn.(*net.TCPConn).SetLinger(0)
					conn.Close()
				default:
					conn.Close()
				}
				r.probeOK = probeOnce(ctx, probe, c.reg.vendor)
				// released: only the probe connection is still counted
				r.released = false
				for t := 0; t < 5000; t++ {
					if svc.VerifConnCounter() == 1 {
						r.released = true
						break
					}
					time.Sleep(time.Millisecond)
				}
				if mode == "linger" {
					// what counts is the release while the client still held its end open
					r.released = lingerReleased
				}
				r.log = dl.take(c.id)
				runs = append(runs, r)
				if !r.released || !r.probeOK {
					failures++
					break // already a failure: do not wait out every remaining offset
				}
			}
			probe.Close()
			svc.Shutdown()
			ret := "hang"
			select {
			case err := <-done:
				if err == nil {
					ret = "nil"
				} else {
					ret = "err"
				}
			case <-time.After(10 * time.Second):
			}
			l := &Line{}
			l.S("abort")
			c.reg.line(l)
			l.B(c.stream).N(len(runs))
			for _, r := range runs {
				l.N(r.offset).S(r.mode)
			}
			l.S("|")
			for _, r := range runs {
				l.B(r.replies).N(len(r.log))
				for _, inv := range r.log {
					l.Str(inv.iface).Str(inv.method).N(len(inv.results))
					for _, x := range inv.results {
						l.Bool(x)
					}
				}
				l.Bool(r.released).Bool(r.probeOK)
			}
			l.S(ret).N(int(svc.VerifConnCounter()))
			fmt.Fprintln(e.out, l.String())
			return nil
		})
	}
}
