package main

import (
	"encoding/json"
	"fmt"
	"math"
	"sort"
	"strconv"
	"strings"

	"github.com/varlink/go/varlink/idl"
)

// Typed values for the generated-stub property (C08): random values of description types, their Go
// literals (for the emitted driver programs) and their serialisation for the Lean driver.
//
//   val := vb 0|1 | vi <decimal> | vf x<literal> | vs x<bytes> | vo x<json> | vn | vS <val> | vl0 | vl <n> <val>*n
//        | vm0 | vm <n> (x<key> <val>)*n | vt <n> <val>*n

type gval struct {
	kind  string // bool int float str obj none some nillist list nilmap map struct
	b     bool
	i     int64
	f     float64
	s     string // str, obj (JSON text)
	elem  *gval
	items []*gval
	keys  []string
}

func (v *gval) ser(l *Line) {
	switch v.kind {
	case "bool":
		l.S("vb").Bool(v.b)
	case "int":
		l.S("vi").S(strconv.FormatInt(v.i, 10))
	case "float":
		b, _ := json.Marshal(v.f)
		l.S("vf").B(b)
	case "str":
		l.S("vs").Str(v.s)
	case "obj":
		l.S("vo").Str(v.s)
	case "none":
		l.S("vn")
	case "some":
		l.S("vS")
		v.elem.ser(l)
	case "nillist":
		l.S("vl0")
	case "list":
		l.S("vl").N(len(v.items))
		for _, x := range v.items {
			x.ser(l)
		}
	case "nilmap":
		l.S("vm0")
	case "map":
		l.S("vm").N(len(v.items))
		for i, x := range v.items {
			l.Str(v.keys[i])
			x.ser(l)
		}
	case "struct":
		l.S("vt").N(len(v.items))
		for _, x := range v.items {
			x.ser(l)
		}
	}
}

// encodesNull: does the JSON encoding of the value equal null (such values are not allowed under `?`)
func (v *gval) encodesNull() bool {
	switch v.kind {
	case "none", "nillist", "nilmap":
		return true
	case "obj":
		return strings.TrimSpace(v.s) == "null"
	}
	return false
}

type typeEnv struct {
	aliases map[string]*idl.Type
	pkg     string // qualifier of alias names in emitted Go code ("g.")
}

func newTypeEnv(t *idl.IDL, pkg string) *typeEnv {
	e := &typeEnv{aliases: map[string]*idl.Type{}, pkg: pkg}
	for _, a := range t.Aliases {
		e.aliases[a.Name] = a.Type
	}
	return e
}

var stubStrings = []string{"", "a", "hello world", "é", "世界", "\U0001F600", "<>&", "a\"b", "a\\b", "/", "\x7f", "tab\there",
	"nl\nx", "cr\rx", "\x01\x1f", "  ", "null", "{}", "ſ", "K", "0", "true"}
var stubObjects = []string{`{}`, `[]`, `null`, `true`, `0`, `-1.5e3`, `"s"`, `{"a":[1,2,{"b":null}],"c":"<x>"}`, `[[],{},""]`,
	`{"nested":{"deep":{"deeper":[1,2,3]}}}`, `12345678901234567890`, `"é\n"`, `{"a":1,"A":2}`}
var stubInts = []int64{0, 1, -1, 42, math.MaxInt64, math.MinInt64, math.MaxInt32, math.MinInt32, 1 << 53, -(1 << 53) - 1, 1000000}
var stubFloats = []float64{0, 1, -1, 1.5, 0.1, 1e21, 1e-7, 5e-324, math.MaxFloat64, -math.MaxFloat64, 100, 3.141592653589793, 1e20, 123456789.125, math.Copysign(0, -1)}
var stubKeys = []string{"a", "b", "", "key with space", "é", "A", "z", "0", "a.b", "\U0001F600"}

// randVal: a random value of type t; nonNull forces a value whose encoding is not `null`
func (e *typeEnv) randVal(g *Rng, t *idl.Type, depth int, nonNull bool) *gval {
	switch t.Kind {
	case idl.TypeBool:
		return &gval{kind: "bool", b: g.Bool()}
	case idl.TypeInt:
		return &gval{kind: "int", i: stubInts[g.Intn(len(stubInts))]}
	case idl.TypeFloat:
		return &gval{kind: "float", f: stubFloats[g.Intn(len(stubFloats))]}
	case idl.TypeString:
		return &gval{kind: "str", s: g.Pick(stubStrings)}
	case idl.TypeEnum:
		if g.Chance(3, 4) && len(t.Fields) > 0 {
			return &gval{kind: "str", s: t.Fields[g.Intn(len(t.Fields))].Name}
		}
		return &gval{kind: "str", s: g.Pick(stubStrings)}
	case idl.TypeObject:
		for {
			s := g.Pick(stubObjects)
			if nonNull && s == "null" {
				continue
			}
			return &gval{kind: "obj", s: s}
		}
	case idl.TypeMaybe:
		if !e.nonNullable(t.ElementType, map[string]bool{}) {
			return &gval{kind: "none"} // e.g. `type P ?P`: the only value is nil
		}
		if !nonNull && (depth <= 0 || g.Chance(1, 3)) {
			return &gval{kind: "none"}
		}
		return &gval{kind: "some", elem: e.randVal(g, t.ElementType, depth-1, true)}
	case idl.TypeArray:
		if !nonNull && g.Chance(1, 5) {
			return &gval{kind: "nillist"}
		}
		n := g.Intn(4)
		if depth <= 0 {
			n = 0
		}
		v := &gval{kind: "list"}
		for i := 0; i < n; i++ {
			v.items = append(v.items, e.randVal(g, t.ElementType, depth-1, false))
		}
		return v
	case idl.TypeMap:
		if !nonNull && g.Chance(1, 5) {
			return &gval{kind: "nilmap"}
		}
		n := g.Intn(4)
		if depth <= 0 {
			n = 0
		}
		seen := map[string]bool{}
		var keys []string
		for i := 0; i < n; i++ {
			k := g.Pick(stubKeys)
			if !seen[k] {
				seen[k] = true
				keys = append(keys, k)
			}
		}
		sort.Strings(keys)
		v := &gval{kind: "map", keys: keys}
		for range keys {
			v.items = append(v.items, e.randVal(g, t.ElementType, depth-1, false))
		}
		return v
	case idl.TypeStruct:
		v := &gval{kind: "struct"}
		for _, f := range t.Fields {
			v.items = append(v.items, e.randVal(g, f.Type, depth-1, false))
		}
		return v
	case idl.TypeAlias:
		if a, ok := e.aliases[t.Alias]; ok {
			return e.randVal(g, a, depth-1, nonNull)
		}
	}
	return &gval{kind: "none"}
}

// nonNullable: does the type have a value whose JSON encoding is not null
func (e *typeEnv) nonNullable(t *idl.Type, seen map[string]bool) bool {
	switch t.Kind {
	case idl.TypeMaybe:
		return e.nonNullable(t.ElementType, seen)
	case idl.TypeAlias:
		if seen[t.Alias] {
			return false
		}
		a, ok := e.aliases[t.Alias]
		if !ok {
			return false
		}
		seen[t.Alias] = true
		return e.nonNullable(a, seen)
	}
	return true
}

func title(s string) string {
	if s == "" {
		return s
	}
	return strings.ToUpper(s[:1]) + s[1:]
}

// goType: the Go type the generator emits for t (single line)
func (e *typeEnv) goType(t *idl.Type, tagged bool) string {
	switch t.Kind {
	case idl.TypeBool:
		return "bool"
	case idl.TypeInt:
		return "int64"
	case idl.TypeFloat:
		return "float64"
	case idl.TypeString, idl.TypeEnum:
		return "string"
	case idl.TypeObject:
		return "json.RawMessage"
	case idl.TypeArray:
		return "[]" + e.goType(t.ElementType, tagged)
	case idl.TypeMap:
		return "map[string]" + e.goType(t.ElementType, tagged)
	case idl.TypeMaybe:
		return "*" + e.goType(t.ElementType, tagged)
	case idl.TypeAlias:
		return e.pkg + t.Alias
	case idl.TypeStruct:
		var parts []string
		for _, f := range t.Fields {
			p := title(f.Name) + " " + e.goType(f.Type, tagged)
			if tagged {
				tag := f.Name
				if f.Type.Kind == idl.TypeMaybe {
					tag += ",omitempty"
				}
				p += " `json:\"" + tag + "\"`"
			}
			parts = append(parts, p)
		}
		return "struct{" + strings.Join(parts, "; ") + "}"
	}
	return "interface{}"
}

// lit: Go expression of type goType(t, tagged) with value v
func (e *typeEnv) lit(t *idl.Type, v *gval, tagged bool) string {
	ty := e.goType(t, tagged)
	switch t.Kind {
	case idl.TypeBool:
		return strconv.FormatBool(v.b)
	case idl.TypeInt:
		return "int64(" + strconv.FormatInt(v.i, 10) + ")"
	case idl.TypeFloat:
		return fmt.Sprintf("math.Float64frombits(0x%x)", math.Float64bits(v.f))
	case idl.TypeString, idl.TypeEnum:
		return strconv.Quote(v.s)
	case idl.TypeObject:
		return "json.RawMessage(" + strconv.Quote(v.s) + ")"
	case idl.TypeMaybe:
		if v.kind == "none" {
			return "(" + ty + ")(nil)"
		}
		return "func() " + ty + " { x := " + e.lit(t.ElementType, v.elem, tagged) + "; return &x }()"
	case idl.TypeArray:
		if v.kind == "nillist" {
			return ty + "(nil)"
		}
		var parts []string
		for _, x := range v.items {
			parts = append(parts, e.lit(t.ElementType, x, tagged))
		}
		return ty + "{" + strings.Join(parts, ", ") + "}"
	case idl.TypeMap:
		if v.kind == "nilmap" {
			return ty + "(nil)"
		}
		var parts []string
		for i, x := range v.items {
			parts = append(parts, strconv.Quote(v.keys[i])+": "+e.lit(t.ElementType, x, tagged))
		}
		return ty + "{" + strings.Join(parts, ", ") + "}"
	case idl.TypeStruct:
		var parts []string
		for i, f := range t.Fields {
			parts = append(parts, title(f.Name)+": "+e.lit(f.Type, v.items[i], tagged))
		}
		return ty + "{" + strings.Join(parts, ", ") + "}"
	case idl.TypeAlias:
		if a, ok := e.aliases[t.Alias]; ok {
			// the named type is declared with the tagged rendering of its body
			return ty + "(" + e.lit(a, v, true) + ")"
		}
	}
	return "nil"
}

// jsonOf: the varlink JSON encoding of v as a value of type t (what a non-Go peer would send)
func (e *typeEnv) jsonOf(t *idl.Type, v *gval) string {
	switch v.kind {
	case "bool":
		return strconv.FormatBool(v.b)
	case "int":
		return strconv.FormatInt(v.i, 10)
	case "float":
		b, _ := json.Marshal(v.f)
		return string(b)
	case "str":
		b, _ := json.Marshal(v.s)
		return string(b)
	case "obj":
		return v.s
	case "none", "nillist", "nilmap":
		return "null"
	}
	for t.Kind == idl.TypeAlias {
		a, ok := e.aliases[t.Alias]
		if !ok {
			return "null"
		}
		t = a
	}
	switch v.kind {
	case "some":
		return e.jsonOf(t.ElementType, v.elem)
	case "list":
		var parts []string
		for _, x := range v.items {
			parts = append(parts, e.jsonOf(t.ElementType, x))
		}
		return "[" + strings.Join(parts, ",") + "]"
	case "map":
		var parts []string
		for i, x := range v.items {
			k, _ := json.Marshal(v.keys[i])
			parts = append(parts, string(k)+":"+e.jsonOf(t.ElementType, x))
		}
		return "{" + strings.Join(parts, ",") + "}"
	case "struct":
		var parts []string
		for i, f := range t.Fields {
			if f.Type.Kind == idl.TypeMaybe && v.items[i].kind == "none" {
				continue
			}
			k, _ := json.Marshal(f.Name)
			parts = append(parts, string(k)+":"+e.jsonOf(f.Type, v.items[i]))
		}
		return "{" + strings.Join(parts, ",") + "}"
	}
	return "null"
}
