package main

import (
	"fmt"
	"strings"
)

// Generators of varlink interface descriptions for the generator properties (C07, C08).
// Case i of a run is systematic (bounded-exhaustive tables below) while i < len(table), random afterwards.

type descCase struct {
	text string
	tag  string // generator category (evidence feature `src=`)
}

var genBaseTypes = []string{"bool", "int", "float", "string", "object", "T", "(a, b)", "(x: int)", "()"}
var genWrappers = []string{"", "?", "[]", "[string]", "?[]", "?[string]", "[]?", "[][]", "[][string]", "[string]?", "[string][]", "[string][string]"}
var genPositions = []string{"in", "out", "err", "aliasfield", "aliasbody", "nested"}

const genPrelude = "interface org.example.p\ntype T (n: int, s: ?string)\n"

// one type at one position
func descTypeAt(ty, pos string) string {
	switch pos {
	case "in":
		return genPrelude + "method M(a: " + ty + ", z: int) -> ()\n"
	case "out":
		return genPrelude + "method M() -> (a: " + ty + ", z: int)\n"
	case "err":
		return genPrelude + "method M() -> ()\nerror E (a: " + ty + ", z: int)\n"
	case "aliasfield":
		return genPrelude + "type U (a: " + ty + ")\nmethod M(u: U) -> (u: U)\n"
	case "aliasbody":
		return genPrelude + "type U " + ty + "\nmethod M(u: U) -> (u: U)\n"
	default: // nested
		return genPrelude + "method M(a: (b: " + ty + ", c: [](d: " + ty + "))) -> (a: ?(b: " + ty + "))\nerror E (a: [string](b: " + ty + "))\n"
	}
}

// field names: Go keywords, predeclared and imported names, identifiers the generated file uses locally
var genFieldNames = []string{
	"a", "b", "x", "z", "type", "func", "in", "out", "err", "c", "ctx", "flags", "receive", "m", "s", "call",
	"string", "int", "int64", "bool", "nil", "true", "error", "json", "varlink", "context", "fmt", "e", "ok", "param",
	"conn", "methodname", "err_", "in_", "out_", "x_in", "x_in_", "x_out_", "aB", "a1", "a_b", "a__", "var", "range",
	"return", "switch", "case", "default", "struct", "interface", "map", "go", "select", "package", "import", "const",
	"errorRawParameters", "break", "len", "append", "new", "make", "uint64", "float64", "any",
}

func fieldList(names []string, ty func(i int) string) string {
	var parts []string
	for i, n := range names {
		parts = append(parts, n+": "+ty(i))
	}
	return "(" + strings.Join(parts, ", ") + ")"
}

func namesWithout(names []string, drop string) []string {
	var out []string
	for _, n := range names {
		if n != drop {
			out = append(out, n)
		}
	}
	return out
}

// hand-written descriptions: inside the domain first, then deliberately outside (crash paths, rejected files)
func genSpecials() []descCase {
	tyCycle := []string{"int", "string", "?bool", "[]int", "(q: int)", "[string]string", "object", "float", "T", "?(q: int)"}
	cyc := func(i int) string { return tyCycle[i%len(tyCycle)] }
	in := []descCase{
		{"interface a.b\nmethod M() -> ()\n", "minimal"},
		// errors of the description that share their member name with the standard org.varlink.service errors: they
		// are errors of THIS interface, with their own parameters, and must come back as the generated typed errors
		{"interface a.b\nmethod M(a: int) -> (b: int)\nerror InvalidParameter (parameter: string, reason: string)\nerror MethodNotFound (method: string, why: int)\nerror InterfaceNotFound (interface: string, extra: bool)\n", "std-error-names"},
		{"interface a.b\nmethod M() -> ()\nerror E\n", "typeless-error"},
		{"interface a.b\nmethod M() -> ()\nerror E\nerror F ()\nerror G (a: int)\n", "typeless-error"},
		{"interface a.b\nerror E\nmethod M() -> ()", "typeless-error"},
		{"interface com.example.my-service\nmethod M() -> ()\n", "iface-dash"},
		{"interface Com.Example-X.Foo-Bar.baz9\nmethod M(a: int) -> (b: int)\nerror E (a: int)\n", "iface-dash-upper"},
		{"interface xn--lgbbat1ad8j.example.algeria\nmethod M() -> ()\n", "iface-xn"},
		{"interface A.B\nmethod M() -> ()\n", "iface-upper"},
		{genPrelude + "method M" + fieldList(genFieldNames, cyc) + " -> " + fieldList(genFieldNames, cyc) + "\n", "kw-fields-method"},
		{genPrelude + "method M() -> ()\nerror E " + fieldList(namesWithout(genFieldNames, "error"), cyc) + "\n", "kw-fields-error"},
		{genPrelude + "type U " + fieldList(genFieldNames, cyc) + "\nmethod M(u: U, n: " + fieldList(genFieldNames, cyc) + ") -> (u: []U)\n", "kw-fields-alias"},
		{"# Interface with `backticks` and ``two``\ninterface a.b\n\n# A `type`\ntype T (a: int)\n\n# A `method`\n# second line\nmethod M(t: T) -> (t: T)\n\n# An `error`\nerror E (t: T)\n", "doc-backtick"},
		{"# `\ninterface a.b\n# ``\nmethod M() -> ()\n# trailing `", "doc-backtick"},
		{"# Doc\r\ninterface a.b\r\n\r\n# T doc\r\ntype T (a: int)\r\n# M doc\r\n# more\r\nmethod M(t: T) -> (t: T)\r\n# E doc\r\nerror E (t: T)\r\n", "crlf"},
		{"interface a.b\r\nmethod M() -> ()\r\n\r\n\r\n", "crlf"},
		{"# a\rb `c` \r\ninterface a.b\n# x\ry\nmethod M() -> ()\n", "cr-in-doc"},
		{"interface a.b\nmethod M() -> ()\n\n\n\n", "trailing-newlines"},
		{"# */ /* // \" \\ \\n %v %!\ninterface a.b\n# \" quote \\\nmethod M() -> ()\nerror E (a: string)\n", "doc-special"},
		{"# é 世界 \U0001F600\ninterface a.b\nmethod M() -> ()\n", "doc-unicode"},
		{"interface a.b\ntype T (a: ?T, b: []T, c: [string]T)\ntype L []L\ntype P ?P\nmethod M(t: T, l: L, p: P) -> (t: ?T)\n", "recursion-indirect"},
		{"interface a.b\ntype A (b: ?B)\ntype B (a: []A)\nmethod M(a: A) -> (b: B)\n", "recursion-indirect"},
		{"interface a.b\nmethod MethodNotFound() -> ()\nmethod InvalidParameter() -> ()\nmethod InterfaceNotFound() -> ()\nmethod Reply() -> ()\nerror GetParameters\n", "member-like-call-method"},
		{"interface a.b\ntype Context (a: int)\ntype Connection (a: int)\ntype Call (a: int)\ntype RawMessage (a: int)\ntype Sprintf (a: int)\nmethod M(a: Context, b: Connection, c: Call, d: RawMessage, e: Sprintf) -> ()\n", "member-like-imported"},
		{"interface a.b\ntype String (a: int)\ntype Int64 string\ntype Bool (a, b)\ntype Err object\nmethod Send(a: String) -> (b: Int64)\nmethod Call(c: Bool) -> (e: Err)\nmethod Upgrade() -> ()\n", "member-like-fixed"},
		{"interface a.b\nmethod A() -> ()\nmethod B(a: int) -> ()\nmethod C() -> (a: int)\nmethod D(a: int) -> (a: int)\nerror A1\nerror B1 (a: int)\ntype A2 (a: int)\n", "multi-member"},
		{"interface a.b\nmethod M(a: (b: (c: (d: (e: (f: int)))))) -> (a: [][][]?[][string]?int)\n", "deep"},
		{"interface a.b\nmethod M(e: (a, b, c), f: ?(x, y), g: [](one)) -> (e: (a, b))\nerror E (e: (a, b))\ntype En (a, b, c)\n", "enum-field"},
		{"interface a.b\ntype O object\nmethod M(o: O, m: [string]O, d: object) -> (o: O, l: []O)\nerror E (o: O)\n", "obj-alias"},
		{"interface a.b\ntype U ?object\nmethod M(u: U) -> (u: U)\nerror E (u: U)\n", "opt-obj-alias"},
		{"interface var.link\nmethod M() -> ()\n", "pkg-varlink"},
		{"interface con.text\nmethod M(o: object) -> ()\nerror E (a: int)\n", "pkg-context"},
		{"interface js.on\nmethod M(o: object) -> ()\nerror E (a: int)\n", "pkg-json"},
		{"interface f.mt\nmethod M(o: object) -> ()\nerror E (a: int)\n", "pkg-fmt"},
		{"interface in.t\nmethod M() -> ()\n", "pkg-predeclared"},
		{"interface str.ing\nmethod M(s: string) -> (s: string)\nerror E (s: string)\n", "pkg-predeclared"},
		{"interface err.or\nmethod M() -> ()\nerror E (s: string)\n", "pkg-predeclared"},
		{"interface in.it\nmethod M() -> ()\n", "pkg-init"},
		// former findings, repaired by 30ae85f / 764942c / 2a8a008: regression inputs, now expected to succeed
		// like any other description of the domain (text equality, go build, probe)
		{"# uses json.RawMessage\ninterface a.b\nmethod M() -> ()\n", "imp=comment-mentions-json"},
		{"interface a.b\n# calls fmt.Sprintf\nmethod M() -> ()\nerror E\n", "imp=comment-mentions-fmt"},
		{"interface fmt.Sprintf\nmethod M() -> ()\n", "imp=name-mentions-fmt"},
		{"interface json.RawMessage\nmethod M() -> ()\n", "imp=name-mentions-json"},
		{"# uses json.RawMessage and fmt.Sprintf and context.Context\ninterface a.b\nmethod M(o: object) -> ()\nerror E (a: int)\n", "imp=mentions-but-used"},
		{"# see @IMPORTS@ here\ninterface a.b\nmethod M() -> ()\n", "imp=placeholder-in-iface-doc"},
		{"interface a.b\n# see @IMPORTS@ here\nmethod M() -> ()\n", "imp=placeholder-in-member-doc"},
		{"interface i.f\nmethod M() -> ()\n", "pkg=keyword"},
		{"interface fu.nc\nmethod M() -> ()\n", "pkg=keyword"},
		{"interface g.o\nmethod M() -> ()\n", "pkg=keyword"},
		{"interface Ty.Pe\nmethod M() -> ()\n", "pkg=keyword"},
		{"interface ma.in\nmethod M() -> ()\n", "pkg=main"},
		{"interface Ma.I-n\nmethod M(o: object) -> (s: string)\nerror E (a: int)\n", "pkg=main"},
		{"interface i.f\ntype T (a: ?T, o: object)\nmethod M(t: T) -> (t: []T)\nerror E (t: T)\nerror F\n", "pkg=keyword"},
		{"interface im.port\nmethod M() -> ()\nerror E\n", "pkg=keyword"},
		{"interface pack.age\nmethod M() -> ()\n", "pkg=keyword"},
		{"interface context.Context\nmethod M() -> ()\n", "imp=name-mentions-context"},
		{"# @IMPORTS@\n# @IMPORTS@ json.RawMessage fmt.Sprintf\ninterface a.b\n# @IMPORTS@\ntype T (a: int)\n# @IMPORTS@\nmethod M(o: object) -> ()\n# @IMPORTS@\nerror E (a: int)\n", "imp=placeholder-everywhere"},
		{"# see @IMPORTS@ here\ninterface i.f\nmethod M() -> ()\n", "imp=placeholder-and-keyword"},
		{"interface a.b\ntype RawMessage (a: int)\ntype Sprintf (a: int)\nmethod Context(a: RawMessage, b: Sprintf) -> ()\n", "imp=member-names-mention"},
		{"interface a.b\n# json.RawMessage\nmethod M() -> ()\n# fmt.Sprintf\nerror E\n", "imp=comment-mentions-fmt-typeless-error"},
		// former finding, repaired by f1a09c1: the derived package name "documentation" is the one go/build reserves
		// for doc-only files (it ignores every file of such a package, "build constraints exclude all Go files");
		// now documentation_. The first label of an interface name has no dash (docu-ment.ation does not parse).
		{"interface document.ation\nmethod M() -> ()\n", "pkg=documentation"},
		{"interface document.ation\ntype T (a: ?T, o: object)\nmethod M(t: T, o: object) -> (t: []T)\nerror E (t: T)\nerror F\n", "pkg=documentation"},
		{"interface Document.Ation\ntype T (a: int)\nmethod M(o: object) -> (s: string)\nerror E (a: int)\n", "pkg=documentation"},
		{"interface docu.ment-ation\ntype T (a: int)\nmethod M(t: T, o: object) -> (t: T)\nerror E (a: int)\n", "pkg=documentation"},
		{"interface d.o-c-u.men-tat.i.o.n\nmethod M(o: object) -> ()\nerror E (a: int)\n", "pkg=documentation"},
		{"# documentation\ninterface DOCUMENT.ATION\nmethod M() -> ()\nerror E\n", "pkg=documentation"},
		// neighbours that must stay as they are
		{"interface document.ations\nmethod M(o: object) -> ()\nerror E (a: int)\n", "pkg-near-documentation"},
		{"interface doc.umentation9\nmethod M() -> ()\n", "pkg-near-documentation"},
	}
	out := []descCase{
		{"interface a.b\nmethod M() -> ()\nerror E (a, b)\n", "x-enum-error"},
		{"interface a.b\nmethod M(a, b) -> ()\n", "x-enum-in"},
		{"interface a.b\nmethod M() -> (a, b)\n", "x-enum-out"},
		{"interface a.b\nmethod M int -> string\n", "x-nonstruct-io"},
		{"interface a.b\nmethod M ?(a: int) -> [](b: int)\n", "x-nonstruct-io"},
		{"interface a.b\ntype T (a: int)\nmethod M T -> T\n", "x-nonstruct-io"},
		{"interface a.b\nmethod M() -> ()\nerror E int\n", "x-nonstruct-error"},
		{"interface a.b\nmethod M() -> ()\nerror E ?(a: int)\n", "x-nonstruct-error"},
		{"interface a.b\nmethod M() -> ()\nerror E [](a: int)\n", "x-nonstruct-error"},
		{"interface a.b\ntype T (a: int)\nmethod M() -> ()\nerror E T\n", "x-nonstruct-error"},
		// rejected by the parser (one name space for types, methods and errors): the generator must fail on them
		{"interface a.b\nerror Busy (since: int)\nmethod Busy() -> (busy: bool)\n", "x-dup-member"},
		{"interface a.b\nmethod Busy() -> ()\nerror Busy\n", "x-dup-member"},
		{"interface a.b\nerror Busy\ntype Busy (a: int)\nmethod M() -> ()\n", "x-dup-member"},
		{"interface a.b\ntype Busy (a: int)\nmethod Busy() -> ()\n", "x-dup-member"},
		{"interface a.b\nerror Busy\nerror Busy (a: int)\nmethod M() -> ()\n", "x-dup-member"},
		{"interface a.b\nmethod M() -> ()\nmethod M(a: int) -> ()\n", "x-dup-member"},
		{"interface a.b\ntype T (a: int)\nerror E\n", "x-no-method"},
		{"interface a.b\nmethod M(a: int, b) -> ()\n", "x-mixed-list"},
		{"interface a.b\nmethod M(a: int, a: string) -> ()\n", "x-dup-field"},
		{"interface a.b\nmethod M() -> (a: int, a: int)\n", "x-dup-field"},
		{"interface a.b\nmethod M(a: (b: int, b: int)) -> ()\n", "x-dup-field"},
		{"interface a.b\ntype T (b: int, c: int, b: int)\nmethod M() -> ()\n", "x-dup-field"},
		{"interface a.b\nmethod M() -> ()\nerror E (b: int, b: int)\n", "x-dup-field"},
		{"interface a.b\nmethod M(a: U) -> ()\n", "x-undefined-ref"},
		{"interface a.b\nmethod M(a: M) -> ()\n", "x-ref-to-method"},
		{"interface a.b\nmethod M(a: E) -> ()\nerror E (a: int)\n", "x-ref-to-error"},
		{"interface a.b\nmethod M() -> ()\nerror Error (a: int)\n", "x-member-Error"},
		{"interface a.b\nmethod Error() -> ()\n", "x-member-Error"},
		{"interface a.b\ntype Error (a: int)\nmethod M() -> ()\n", "x-member-Error"},
		{"interface a.b\nmethod MethodNotImplemented() -> ()\n", "x-member-MethodNotImplemented"},
		{"interface a.b\nmethod M() -> ()\nerror MethodNotImplemented\n", "x-member-MethodNotImplemented"},
		{"interface a.b\nmethod VarlinkCall() -> ()\n", "x-member-fixed"},
		{"interface a.b\ntype VarlinkCall (a: int)\nmethod M() -> ()\n", "x-member-fixed"},
		{"interface a.b\nmethod VarlinkDispatch() -> ()\n", "x-member-fixed"},
		{"interface a.b\ntype VarlinkDispatch (a: int)\nmethod M() -> ()\n", "x-member-fixed"},
		{"interface a.b\nmethod VarlinkGetName() -> ()\n", "x-member-fixed"},
		{"interface a.b\nmethod VarlinkGetDescription() -> ()\n", "x-member-fixed"},
		{"interface a.b\ntype VarlinkNew (a: int)\nmethod M() -> ()\n", "x-member-fixed"},
		{"interface a.b\nmethod M() -> ()\nerror VarlinkInterface (a: int)\n", "x-member-fixed"},
		{"interface a.b\nmethod VarlinkInterface() -> ()\n", "x-member-fixed"},
		{"interface a.b\nmethod M() -> ()\nerror E (error: string)\n", "x-error-field-error"},
		{"interface a.b\nmethod M(error: string) -> (error: string)\nerror E (a: (error: string))\ntype T (error: int)\n", "error-field-elsewhere"},
		{"interface a.b\ntype T (a: T)\nmethod M() -> ()\n", "x-recursion-direct"},
		{"interface a.b\ntype T T\nmethod M() -> ()\n", "x-recursion-direct"},
		{"interface a.b\ntype A (b: B)\ntype B (a: A)\nmethod M() -> ()\n", "x-recursion-direct"},
		{"interface a.b\ntype A B\ntype B (x: int, a: (y: A))\nmethod M() -> ()\n", "x-recursion-direct"},
		{"# \xff\ninterface a.b\nmethod M() -> ()\n", "x-invalid-utf8"},
		{"# \x00\ninterface a.b\nmethod M() -> ()\n", "x-nul"},
		{"# \xef\xbb\xbf\ninterface a.b\nmethod M() -> ()\n", "x-bom"},
		{"interface a.b\nmethod M() -> ()\n# \xc3\n", "x-invalid-utf8"},
		{"interface a.b\n", "x-parse-error"},
		{"interface a.b\nmethod m() -> ()\n", "x-parse-error"},
		{"", "x-parse-error"},
	}
	return append(in, out...)
}

var genSystematic []descCase

func genSystematicCases() []descCase {
	if genSystematic != nil {
		return genSystematic
	}
	var cs []descCase
	cs = append(cs, genSpecials()...)
	for _, pos := range genPositions {
		for _, w := range genWrappers {
			for _, b := range genBaseTypes {
				cs = append(cs, descCase{descTypeAt(w+b, pos), "type-at-" + pos})
			}
		}
	}
	// every keyword-ish field name alone at every position (so that a failure names the culprit)
	for _, n := range genFieldNames {
		d := genPrelude + "method M(" + n + ": int, q: ?(" + n + ": []T)) -> (" + n + ": string)\n"
		if n != "error" {
			d += "error E (" + n + ": ?T)\n"
		}
		cs = append(cs, descCase{d, "kw-field"})
	}
	genSystematic = cs
	return cs
}

// ---- random descriptions ------------------------------------------------------------------------

var genIfaceNames = []string{
	"org.example.test", "com.Example-x.foo", "a.b", "A.B-c.d9", "io.systemd.Resolve", "org.varlink.certification",
	"x.y.z", "xn--lgbbat1ad8j.example.algeria", "a.b-c-d", "Ab.Cd.Ef", "org.example.more9", "z.a0",
	// package name a Go keyword, main or documentation; names mentioning what the import detection used to search for
	"i.f", "ma.in", "Ty.pe", "fmt.Sprintf", "json.RawMessage", "document.ation", "Docu.ment-ation",
}
var genMemberNames = []string{
	"Foo", "Bar", "Baz", "T", "U", "V", "Ping", "GetInfo", "A1", "Zz9", "Item", "State", "Monitor", "Start", "End",
	"NotFound", "Failed", "X", "Y", "MyType", "Send", "Call", "Upgrade", "Reply", "Context",
}
var genRiskyMemberNames = []string{"Error", "MethodNotImplemented", "MethodNotFound", "InvalidParameter", "VarlinkCall", "VarlinkNew", "VarlinkInterface", "VarlinkDispatch"}
var genDocLines = []string{
	"plain doc", "with `tick`", "``", "é 世界", "tab\there", "a */ b", "quote \" back\\slash", "%v %d", "trailing space ",
	"", "  indented", "#hash", "// slashes", "x\ry",
}
var genRiskyDocLines = []string{"uses json.RawMessage", "calls fmt.Sprintf", "context.Context", "@IMPORTS@"}

type descBuilder struct {
	g       *Rng
	aliases []string // declared alias names usable as references
	risky   bool
}

func (d *descBuilder) fieldName(used map[string]bool) string {
	for k := 0; k < 50; k++ {
		var n string
		if d.g.Chance(2, 3) {
			n = d.g.Pick(genFieldNames)
		} else {
			n = string(rune('a'+d.g.Intn(26))) + []string{"", "1", "_", "X", "_y", "9z"}[d.g.Intn(6)]
		}
		if !used[n] || (d.risky && d.g.Chance(1, 30)) {
			used[n] = true
			return n
		}
	}
	n := fmt.Sprintf("f%d", len(used))
	used[n] = true
	return n
}

func (d *descBuilder) sp() string {
	switch d.g.Intn(8) {
	case 0:
		return " "
	case 1:
		return "  "
	case 2:
		return "\t"
	default:
		return ""
	}
}

func (d *descBuilder) structType(depth int, inError bool) string {
	n := d.g.Intn(4)
	if d.g.Chance(1, 8) {
		n = 0
	}
	used := map[string]bool{}
	if inError && !d.risky {
		used["error"] = true
	}
	var parts []string
	for i := 0; i < n; i++ {
		parts = append(parts, d.sp()+d.fieldName(used)+d.sp()+":"+d.sp()+d.ty(depth-1))
	}
	return "(" + strings.Join(parts, ",") + d.sp() + ")"
}

func (d *descBuilder) ty(depth int) string {
	k := d.g.Intn(12)
	if depth <= 0 && k >= 6 && k != 10 {
		k = d.g.Intn(6)
	}
	switch k {
	case 0:
		return "bool"
	case 1:
		return "int"
	case 2:
		return "float"
	case 3:
		return "string"
	case 4:
		return "object"
	case 5:
		if len(d.aliases) > 0 {
			return d.g.Pick(d.aliases)
		}
		return "string"
	case 6:
		t := d.ty(depth - 1)
		if strings.HasPrefix(t, "?") {
			return t
		}
		return "?" + t
	case 7:
		return "[]" + d.ty(depth-1)
	case 8:
		return "[string]" + d.ty(depth-1)
	case 9:
		return d.structType(depth, false)
	case 10:
		names := []string{"a", "b", "c", "one", "two", "type", "x_y"}
		n := 1 + d.g.Intn(3)
		off := d.g.Intn(len(names) - n + 1)
		return "(" + strings.Join(names[off:off+n], ", ") + ")"
	default:
		return d.structType(depth, false)
	}
}

func (d *descBuilder) doc(b *strings.Builder, nlStr string) {
	if !d.g.Chance(1, 3) {
		return
	}
	n := 1 + d.g.Intn(3)
	for i := 0; i < n; i++ {
		l := d.g.Pick(genDocLines)
		if d.g.Chance(1, 10) || (d.risky && d.g.Chance(1, 6)) {
			// texts the import detection used to search for; plain documentation since 30ae85f
			l = d.g.Pick(genRiskyDocLines)
		}
		b.WriteString("#")
		if d.g.Chance(4, 5) {
			b.WriteString(" ")
		}
		b.WriteString(l + nlStr)
	}
}

// randomDescription: a random interface inside the domain most of the time; `risky` ones use names that lie
// outside the domain (reserved member names, duplicate fields, direct recursion).
func (g *Rng) randomDescription() descCase {
	d := &descBuilder{g: g, risky: g.Chance(1, 12)}
	nlStr := "\n"
	tag := "random"
	if g.Chance(1, 8) {
		nlStr = "\r\n"
		tag = "random-crlf"
	}
	if d.risky {
		tag = "random-risky"
	}
	var b strings.Builder
	d.doc(&b, nlStr)
	b.WriteString("interface " + g.Pick(genIfaceNames) + nlStr)
	used := map[string]bool{}
	pickName := func() string {
		for k := 0; k < 50; k++ {
			n := g.Pick(genMemberNames)
			if d.risky && g.Chance(1, 5) {
				n = g.Pick(genRiskyMemberNames)
			}
			if !used[n] {
				used[n] = true
				return n
			}
		}
		n := fmt.Sprintf("N%d", len(used))
		used[n] = true
		return n
	}
	nAliases := g.Intn(4)
	// declare alias names first so that references may point forward as well as backward
	var names []string
	for i := 0; i < nAliases; i++ {
		names = append(names, pickName())
	}
	d.aliases = names
	var members []string
	for _, n := range names {
		var mb strings.Builder
		d.doc(&mb, nlStr)
		body := ""
		switch g.Intn(6) {
		case 0:
			body = d.ty(2)
			if !d.risky && (body == n || strings.HasPrefix(body, n)) {
				body = "(a: int)"
			}
		default:
			body = d.structType(3, false)
		}
		// direct recursion is outside the domain; only risky descriptions keep a chance of it
		if !d.risky {
			body = breakDirectRefs(body, names)
		}
		mb.WriteString("type " + n + " " + body + nlStr)
		members = append(members, mb.String())
	}
	nMethods := 1 + g.Intn(3)
	for i := 0; i < nMethods; i++ {
		var mb strings.Builder
		d.doc(&mb, nlStr)
		mb.WriteString("method " + pickName() + d.sp() + d.structType(3, false) + d.sp() + "->" + d.sp() + d.structType(3, false) + nlStr)
		members = append(members, mb.String())
	}
	nErrors := g.Intn(3)
	for i := 0; i < nErrors; i++ {
		var mb strings.Builder
		d.doc(&mb, nlStr)
		if g.Chance(1, 4) {
			mb.WriteString("error " + pickName() + nlStr)
		} else {
			mb.WriteString("error " + pickName() + " " + d.structType(2, true) + nlStr)
		}
		members = append(members, mb.String())
	}
	// shuffle members
	for i := len(members) - 1; i > 0; i-- {
		j := g.Intn(i + 1)
		members[i], members[j] = members[j], members[i]
	}
	for _, m := range members {
		if g.Chance(1, 3) {
			b.WriteString(nlStr)
		}
		b.WriteString(m)
	}
	s := b.String()
	if g.Chance(1, 6) {
		s = strings.TrimRight(s, "\r\n")
	} else if g.Chance(1, 6) {
		s += "\n\n"
	}
	return descCase{s, tag}
}

// breakDirectRefs makes every reference to an alias name inside an alias body indirect (an array), so that
// random in-domain descriptions never declare a type that contains itself without indirection.
func breakDirectRefs(body string, names []string) string {
	var out strings.Builder
	i := 0
	for i < len(body) {
		c := body[i]
		if c >= 'A' && c <= 'Z' {
			j := i
			for j < len(body) && (body[j] >= 'A' && body[j] <= 'Z' || body[j] >= 'a' && body[j] <= 'z' || body[j] >= '0' && body[j] <= '9') {
				j++
			}
			prevIndirect := i > 0 && (body[i-1] == ']' || body[i-1] == '?')
			if !prevIndirect {
				out.WriteString("[]")
			}
			out.WriteString(body[i:j])
			i = j
			continue
		}
		// skip lower-case words (field names, keywords) so that an upper-case letter inside them is not a reference
		if c >= 'a' && c <= 'z' {
			j := i
			for j < len(body) && (body[j] >= 'A' && body[j] <= 'Z' || body[j] >= 'a' && body[j] <= 'z' || body[j] >= '0' && body[j] <= '9' || body[j] == '_') {
				j++
			}
			out.WriteString(body[i:j])
			i = j
			continue
		}
		out.WriteByte(c)
		i++
	}
	return out.String()
}

// genDescription: case i of a run
func genDescription(i int, g *Rng) descCase {
	sys := genSystematicCases()
	if i < len(sys) {
		return sys[i]
	}
	return g.randomDescription()
}
