package main

// C20 — socket activation. The parent prepares descriptors 3..5 (listening unix sockets, a regular
// file, a pipe) and the LISTEN_* environment, re-executes this binary in `actchild` mode (so that
// LISTEN_PID can name the child's own pid), and the child binds a service with a fallback address and
// reports which listener the library chose. The parent then performs a GetInfo round trip on the
// reported endpoint.

import (
	"bufio"
	"context"
	"fmt"
	"net"
	"os"
	"os/exec"
	"path/filepath"
	"strconv"
	"strings"
	"sync"
	"time"

	"github.com/varlink/go/varlink"
)

type actCase struct {
	pidMode  string  // self | other | unset | raw
	pidRaw   string  // used when pidMode == raw
	fds      *string // nil = unset
	names    *string // nil = unset
	kinds    [3]string
	idx      int
	features string
	// a regular file exists at the address argument before the child starts
	occupied bool
}

var actFdsPool = []string{"", "foo", "-1", "0", "1", "2", "3", "+1", "01", " 1", "1 ", "1_0", "0x1", "２", "99999999999999999999", "+", "-"}

func strp(s string) *string { return &s }

// the property's product, enumerated exhaustively
func actProduct() []actCase {
	var out []actCase
	pidModes := []string{"self", "other", "unset", "raw:garbage", "raw:", "raw:+SELF", "raw:0SELF", "raw:SELF "}
	fdsVals := []*string{nil, strp(""), strp("foo"), strp("-1"), strp("0"), strp("1"), strp("2"), strp("3"), strp("+2"), strp("03")}
	namesFor := func(n int) []*string {
		base := []*string{nil, strp(""), strp("varlink")}
		switch n {
		case 2:
			return append(base, strp("varlink:x"), strp("x:varlink"), strp("varlink:varlink"), strp("x:y"), strp("x:y:varlink"), strp("Varlink:varlink "), strp(":varlink"))
		case 3:
			return append(base, strp("varlink:x:y"), strp("x:varlink:y"), strp("x:y:varlink"), strp("x:varlink:varlink"), strp("x:y:z"), strp("x:varlink"), strp("a:b:c:varlink"), strp("::varlink"))
		}
		return base
	}
	kindSets := [][3]string{{"sock", "sock", "sock"}, {"file", "sock", "pipe"}, {"pipe", "file", "sock"}, {"sock", "pipe", "file"}, {"tcp", "sock", "tcp"}}
	for _, pm := range pidModes {
		for _, fv := range fdsVals {
			n := 0
			if fv != nil {
				if v, err := strconv.Atoi(*fv); err == nil {
					n = v
				}
			}
			for _, nv := range namesFor(n) {
				for _, ks := range kindSets {
					c := actCase{fds: fv, names: nv, kinds: ks}
					if strings.HasPrefix(pm, "raw:") {
						c.pidMode, c.pidRaw = "raw", pm[4:]
					} else {
						c.pidMode = pm
					}
					out = append(out, c)
				}
			}
		}
	}
	return out
}

func (g *Rng) actRandom() actCase {
	c := actCase{kinds: [3]string{g.Pick([]string{"sock", "file", "pipe", "tcp"}), g.Pick([]string{"sock", "file", "pipe", "tcp"}), g.Pick([]string{"sock", "file", "pipe", "tcp"})}}
	switch g.Intn(6) {
	case 0:
		c.pidMode = "other"
	case 1:
		c.pidMode = "unset"
	case 2:
		c.pidMode, c.pidRaw = "raw", g.Pick([]string{"+SELF", "0SELF", "00SELF", "-SELF", "SELF0", " SELF", "SELF\n", "x", "SELF.0", "1e3"})
	default:
		c.pidMode = "self"
	}
	if !g.Chance(1, 8) {
		c.fds = strp(g.Pick(actFdsPool))
	}
	if !g.Chance(1, 5) {
		n := g.Intn(5)
		parts := make([]string, n)
		for i := range parts {
			parts[i] = g.Pick([]string{"varlink", "x", "", "varlinkx", "Varlink", "var", "varlink "})
		}
		c.names = strp(strings.Join(parts, ":"))
	}
	return c
}

func optTok(l *Line, s *string) {
	if s == nil {
		l.N(0)
	} else {
		l.N(1).Str(*s)
	}
}

// runActCase returns the observation token: fd3|fd4|fd5|fallback|binderr|childerr:<..>
func runActCase(c actCase, dir string) (obs string, pid int, pidEnv *string, err error) {
	os.MkdirAll(dir, 0o755)
	defer os.RemoveAll(dir)
	exe, err := os.Executable()
	if err != nil {
		return "", 0, nil, err
	}
	var files []*os.File
	var closers []func()
	addrOf := map[string]string{}
	tcpAddrs := map[string]bool{}
	for i, k := range c.kinds {
		switch k {
		case "sock":
			p := filepath.Join(dir, fmt.Sprintf("s%d", 3+i))
			l, err := net.ListenUnix("unix", &net.UnixAddr{Name: p, Net: "unix"})
			if err != nil {
				return "", 0, nil, err
			}
			f, err := l.File()
			if err != nil {
				return "", 0, nil, err
			}
			l.SetUnlinkOnClose(false)
			files = append(files, f)
			closers = append(closers, func() { l.Close(); f.Close() })
			addrOf[p] = fmt.Sprintf("fd%d", 3+i)
		case "tcp":
			// a listening socket of another family: just as much "the inherited listening socket"
			l, err := net.Listen("tcp", "127.0.0.1:0")
			if err != nil {
				return "", 0, nil, err
			}
			f, err := l.(*net.TCPListener).File()
			if err != nil {
				return "", 0, nil, err
			}
			files = append(files, f)
			closers = append(closers, func() { l.Close(); f.Close() })
			addrOf[l.Addr().String()] = fmt.Sprintf("fd%d", 3+i)
			tcpAddrs[l.Addr().String()] = true
		case "file":
			f, err := os.Create(filepath.Join(dir, fmt.Sprintf("f%d", 3+i)))
			if err != nil {
				return "", 0, nil, err
			}
			files = append(files, f)
			closers = append(closers, func() { f.Close() })
		default:
			r, w, err := os.Pipe()
			if err != nil {
				return "", 0, nil, err
			}
			files = append(files, r)
			closers = append(closers, func() { r.Close(); w.Close() })
		}
	}
	defer func() {
		for _, f := range closers {
			f()
		}
	}()
	fb := filepath.Join(dir, "fb")
	addrOf[fb] = "fallback"
	// in every other case something already exists at the address: a service that uses an inherited socket
	// "ignores the address argument", so that file must still be there, untouched, afterwards
	occupied := c.occupied
	if occupied {
		if err := os.WriteFile(fb, []byte("not a socket"), 0o600); err != nil {
			return "", 0, nil, err
		}
	}
	cmd := exec.Command(exe, "actchild", "unix:"+fb)
	cmd.ExtraFiles = files
	env := []string{}
	for _, e := range os.Environ() {
		if !strings.HasPrefix(e, "LISTEN_") && !strings.HasPrefix(e, "VERIF_LISTEN_PID") {
			env = append(env, e)
		}
	}
	switch c.pidMode {
	case "self":
		env = append(env, "VERIF_LISTEN_PID=SELF")
	case "other":
		env = append(env, "VERIF_LISTEN_PID="+strconv.Itoa(os.Getpid()))
	case "raw":
		env = append(env, "VERIF_LISTEN_PID="+c.pidRaw)
	}
	if c.fds != nil {
		env = append(env, "LISTEN_FDS="+*c.fds)
	}
	if c.names != nil {
		env = append(env, "LISTEN_FDNAMES="+*c.names)
	}
	cmd.Env = env
	stdin, _ := cmd.StdinPipe()
	stdout, _ := cmd.StdoutPipe()
	cmd.Stderr = os.Stderr
	if err := cmd.Start(); err != nil {
		return "", 0, nil, err
	}
	pid = cmd.Process.Pid
	done := make(chan struct{})
	go func() {
		select {
		case <-done:
		case <-time.After(20 * time.Second):
			cmd.Process.Kill()
		}
	}()
	defer func() { close(done); stdin.Close(); cmd.Wait() }()
	rd := bufio.NewReader(stdout)
	line, _ := rd.ReadString('\n')
	line = strings.TrimSpace(line)
	// child line: "<pidenv-set 0|1> <hex pidenv> <result...>"
	parts := strings.SplitN(line, " ", 3)
	if len(parts) < 3 {
		return "childerr:noline", pid, nil, nil
	}
	if parts[0] == "1" {
		b, _ := hexDecode(parts[1])
		s := string(b)
		pidEnv = &s
	}
	res := parts[2]
	if res == "binderr" {
		return "binderr", pid, pidEnv, nil
	}
	if !strings.HasPrefix(res, "addr ") {
		return "childerr:" + strings.ReplaceAll(res, " ", "_"), pid, pidEnv, nil
	}
	addr := strings.TrimPrefix(res, "addr ")
	label, ok := addrOf[addr]
	if !ok {
		return "childerr:unknown-addr", pid, pidEnv, nil
	}
	// GetInfo round trip on the endpoint the child says it serves
	ctx, cancel := context.WithTimeout(context.Background(), 5*time.Second)
	defer cancel()
	scheme := "unix:"
	if tcpAddrs[addr] {
		scheme = "tcp:"
	}
	conn, err := varlink.NewConnection(ctx, scheme+addr)
	if err != nil {
		return "childerr:dial-failed", pid, pidEnv, nil
	}
	var vendor string
	err = conn.GetInfo(ctx, &vendor, nil, nil, nil, nil)
	conn.Close()
	if err != nil || vendor != "actchild" {
		return "childerr:getinfo-failed", pid, pidEnv, nil
	}
	// when an inherited socket is used the fallback address must not have been bound
	if label != "fallback" {
		if occupied {
			if b, err := os.ReadFile(fb); err != nil || string(b) != "not a socket" {
				return "childerr:address-argument-touched", pid, pidEnv, nil
			}
		} else if _, err := os.Stat(fb); err == nil {
			return "childerr:fallback-bound-too", pid, pidEnv, nil
		}
	}
	return label, pid, pidEnv, nil
}

func hexDecode(s string) ([]byte, error) {
	out := make([]byte, len(s)/2)
	for i := 0; i+1 < len(s); i += 2 {
		v, err := strconv.ParseUint(s[i:i+2], 16, 8)
		if err != nil {
			return nil, err
		}
		out[i/2] = byte(v)
	}
	return out, nil
}

func actChild(fallback string) {
	if v, ok := os.LookupEnv("VERIF_LISTEN_PID"); ok {
		os.Setenv("LISTEN_PID", strings.ReplaceAll(v, "SELF", strconv.Itoa(os.Getpid())))
	}
	w := bufio.NewWriter(os.Stdout)
	pe, set := os.LookupEnv("LISTEN_PID")
	if set {
		fmt.Fprintf(w, "1 %x ", pe)
	} else {
		fmt.Fprintf(w, "0 - ")
	}
	svc, err := varlink.NewService("actchild", "p", "1", "u")
	if err != nil {
		fmt.Fprintln(w, "newservice-failed")
		w.Flush()
		return
	}
	ctx := context.Background()
	if err := svc.Bind(ctx, fallback); err != nil {
		fmt.Fprintln(w, "binderr")
		w.Flush()
		return
	}
	l, _ := svc.GetListener()
	if l == nil {
		fmt.Fprintln(w, "nolistener")
		w.Flush()
		return
	}
	fmt.Fprintln(w, "addr "+l.Addr().String())
	w.Flush()
	go svc.DoListen(ctx, 0)
	buf := make([]byte, 16)
	for {
		if _, err := os.Stdin.Read(buf); err != nil {
			break
		}
	}
	svc.Shutdown()
}

func actLine(c actCase, pid int, pidEnv *string, obs string) string {
	l := &Line{}
	l.S("act").N(pid)
	optTok(l, pidEnv)
	optTok(l, c.fds)
	optTok(l, c.names)
	for _, k := range c.kinds {
		l.S(k)
	}
	l.S("|").S(obs)
	return l.String()
}

func init() {
	commands["actchild"] = func(e *env) error { return nil } // placeholder: handled in main() before flag parsing
	commands["act"] = func(e *env) error {
		work := os.Getenv("VERIF_WORK")
		if work == "" {
			work = os.TempDir()
		}
		base := filepath.Join(work, fmt.Sprintf("act-%d", os.Getpid()))
		defer os.RemoveAll(base)
		cases := actProduct()
		root := NewRng(e.seed)
		for i := 0; i < e.n; i++ {
			cases = append(cases, root.Fork(uint64(i)).actRandom())
		}
		lines := make([]string, len(cases))
		var wg sync.WaitGroup
		sem := make(chan struct{}, 16)
		var firstErr error
		var mu sync.Mutex
		for i := range cases {
			if e.only >= 0 && i != e.only {
				continue
			}
			wg.Add(1)
			sem <- struct{}{}
			go func(i int) {
				defer wg.Done()
				defer func() { <-sem }()
				cases[i].occupied = i%2 == 1
				obs, pid, pidEnv, err := runActCase(cases[i], filepath.Join(base, strconv.Itoa(i)))
				if err != nil {
					mu.Lock()
					if firstErr == nil {
						firstErr = err
					}
					mu.Unlock()
					return
				}
				lines[i] = actLine(cases[i], pid, pidEnv, obs)
			}(i)
		}
		wg.Wait()
		if firstErr != nil {
			return firstErr
		}
		for _, l := range lines {
			if l != "" {
				fmt.Fprintln(e.out, l)
			}
		}
		return nil
	}
}

// atoi: the model of strconv.Atoi (lean/Varlink/Activation.lean) against the real function
func init() {
	commands["atoi"] = func(e *env) error {
		pool := append([]string{}, actFdsPool...)
		pool = append(pool, "9223372036854775807", "9223372036854775808", "-9223372036854775808", "-9223372036854775809", "+9223372036854775807",
			"00000000000000000000000001", "-0", "+0", "--1", "+-1", "1e3", "1.0", "１", "1\x00", "\x001", "123456789012345678", "1234567890123456789", "12345678901234567890")
		return e.each(func(i int, g *Rng) error {
			var s string
			if i < len(pool) {
				s = pool[i]
			} else {
				n := g.Intn(24)
				b := make([]byte, n)
				for j := range b {
					switch g.Intn(10) {
					case 0:
						b[j] = "+-_ x"[g.Intn(5)]
					case 1:
						b[j] = byte(g.Intn(256))
					default:
						b[j] = byte('0' + g.Intn(10))
					}
				}
				s = string(b)
			}
			v, err := strconv.Atoi(s)
			l := &Line{}
			l.S("atoi").Str(s).S("|").Bool(err == nil).S(strconv.Itoa(v))
			fmt.Fprintln(e.out, l.String())
			return nil
		})
	}
}
