package main

import (
	"bufio"
	"bytes"
	"context"
	"encoding/hex"
	"fmt"
	"go/format"
	"os"
	"os/exec"
	"path/filepath"
	"regexp"
	"sort"
	"strconv"
	"strings"
	"sync"
	"time"

	"github.com/varlink/go/varlink/idl"
)

// gen: the interface generator (C07). Per case: a description → the REAL generator binary built from
// /repo (exit status, output file, run twice) → the tree the real idl.New returns → the Lean model's text
// (vdriver `gentext`, formatted here with the real go/format) → byte comparison → `go build` of the
// emitted package against /repo and a probe binary printing VarlinkGetName/VarlinkGetDescription.
//
//   gen <idl> | <real> x<outfile> <fmt> <texteq> <twice> x<modeltext> <compile> x<compile error> <probe> x<name> x<desc> x<summary>
//   genperr x<description> | <real>
//
// Cases with index < K are compiled and probed: K = all systematic cases + 150 random ones in the quick
// tier, every case in the thorough tier (`-tier`).

type genCase struct {
	idx      int
	dc       descCase
	trimmed  string
	tree     *idl.IDL
	treeLine string // serialised tree
	// model
	modelText  []byte
	modelCrash bool
	// real
	real     string // ok | err | crash | timeout
	realMsg  string
	outFile  string
	realOut  []byte
	twice    bool
	fmtState string // ok | err | na
	texteq   string // 1 | 0 | na
	// compile
	compile    string // na | ok | fail
	compileErr string
	probe      string // na | ok | main
	probeName  []byte
	probeDesc  []byte
	summary    []byte
}

func serType(l *Line, t *idl.Type) {
	switch t.Kind {
	case idl.TypeBool:
		l.S("b")
	case idl.TypeInt:
		l.S("i")
	case idl.TypeFloat:
		l.S("f")
	case idl.TypeString:
		l.S("s")
	case idl.TypeObject:
		l.S("o")
	case idl.TypeAlias:
		l.S("n").Str(t.Alias)
	case idl.TypeMaybe:
		l.S("m")
		serType(l, t.ElementType)
	case idl.TypeArray:
		l.S("a")
		serType(l, t.ElementType)
	case idl.TypeMap:
		l.S("d")
		serType(l, t.ElementType)
	case idl.TypeStruct, idl.TypeEnum:
		if t.Kind == idl.TypeStruct {
			l.S("S")
		} else {
			l.S("E")
		}
		l.N(len(t.Fields))
		for _, f := range t.Fields {
			if f.Type == nil {
				l.S("B").Str(f.Name)
			} else {
				l.S("T").Str(f.Name)
				serType(l, f.Type)
			}
		}
	default:
		l.S("?")
	}
}

func serIDL(l *Line, t *idl.IDL) {
	l.Str(t.Name).Str(t.Doc).Str(t.Description).N(len(t.Members))
	for _, m := range t.Members {
		switch x := m.(type) {
		case *idl.Alias:
			l.S("A").Str(x.Name).Str(x.Doc)
			serType(l, x.Type)
		case *idl.Method:
			l.S("M").Str(x.Name).Str(x.Doc)
			serType(l, x.In)
			serType(l, x.Out)
		case *idl.Error:
			l.S("R").Str(x.Name).Str(x.Doc)
			if x.Type == nil {
				l.N(0)
			} else {
				l.N(1)
				serType(l, x.Type)
			}
		}
	}
}

// parseReal calls the real idl.New the way generateTemplate does (after trimming trailing newlines)
func parseReal(desc string) (t *idl.IDL, trimmed string, perr string) {
	trimmed = strings.TrimRight(desc, "\n")
	defer func() {
		if r := recover(); r != nil {
			t, perr = nil, fmt.Sprint("panic: ", r)
		}
	}()
	t, err := idl.New(trimmed)
	if err != nil {
		return nil, trimmed, err.Error()
	}
	return t, trimmed, ""
}

type genEnv struct {
	work    string // scratch directory of this run
	vgen    string // the real generator binary
	vdriver string
	repo    string
	goenv   []string
}

func newGenEnv() (*genEnv, error) {
	work := os.Getenv("VERIF_WORK")
	if work == "" {
		work = "/verif/.work"
	}
	repo := os.Getenv("VERIF_REPO")
	if repo == "" {
		repo = "/repo"
	}
	vd := os.Getenv("VERIF_VDRIVER")
	if vd == "" {
		vd = "/verif/lean/.lake/build/bin/vdriver"
	}
	dir := filepath.Join(work, "gen", fmt.Sprintf("run-%d", os.Getpid()))
	if err := os.MkdirAll(dir, 0o755); err != nil {
		return nil, err
	}
	ge := &genEnv{work: dir, vdriver: vd, repo: repo, vgen: filepath.Join(dir, "vgen")}
	ge.goenv = append(os.Environ(), "GOFLAGS=-mod=mod", "GOPROXY=off", "GOSUMDB=off", "GOTOOLCHAIN=local")
	// the real generator, built from /repo's working tree
	cmd := exec.Command("go", "build", "-o", ge.vgen, "./cmd/varlink-go-interface-generator")
	cmd.Dir = repo
	cmd.Env = ge.goenv
	if out, err := cmd.CombinedOutput(); err != nil {
		os.RemoveAll(dir)
		return nil, fmt.Errorf("building the generator from %s failed: %v\n%s", repo, err, out)
	}
	return ge, nil
}

func (ge *genEnv) close() { os.RemoveAll(ge.work) }

// runReal runs the generator binary once on the description in a fresh directory.
func (ge *genEnv) runReal(dir string, desc string) (state, msg, outFile string, out []byte) {
	return ge.runRealOver(dir, desc, "", nil)
}

// runRealOver: as runReal, with a file already present in the output directory (the output of an earlier run for a
// longer description, say): what the generator writes must replace it completely
func (ge *genEnv) runRealOver(dir string, desc string, preName string, pre []byte) (state, msg, outFile string, out []byte) {
	os.RemoveAll(dir)
	if err := os.MkdirAll(dir, 0o755); err != nil {
		return "harness", err.Error(), "", nil
	}
	if preName != "" {
		if err := os.WriteFile(filepath.Join(dir, preName), pre, 0o660); err != nil {
			return "harness", err.Error(), "", nil
		}
	}
	in := filepath.Join(dir, "x.varlink")
	if err := os.WriteFile(in, []byte(desc), 0o644); err != nil {
		return "harness", err.Error(), "", nil
	}
	ctx, cancel := context.WithTimeout(context.Background(), 20*time.Second)
	defer cancel()
	cmd := exec.CommandContext(ctx, ge.vgen, in)
	var stderr bytes.Buffer
	cmd.Stderr = &stderr
	cmd.Stdout = &stderr
	err := cmd.Run()
	if ctx.Err() != nil {
		return "timeout", "", "", nil
	}
	msg = stderr.String()
	if len(msg) > 300 {
		msg = msg[:300]
	}
	if err != nil {
		if strings.Contains(msg, "panic:") || strings.Contains(msg, "SIGSEGV") {
			return "crash", msg, "", nil
		}
		return "err", msg, "", nil
	}
	ents, _ := os.ReadDir(dir)
	for _, e := range ents {
		if strings.HasSuffix(e.Name(), ".go") {
			outFile = e.Name()
			out, _ = os.ReadFile(filepath.Join(dir, e.Name()))
		}
	}
	if outFile == "" {
		return "err", "exit 0 but no output file", "", nil
	}
	return "ok", msg, outFile, out
}

// modelTexts asks the Lean driver for the model's text of every case with a tree (one batch).
func (ge *genEnv) modelTexts(cs []*genCase) error {
	var in bytes.Buffer
	var idx []int
	for i, c := range cs {
		if c.tree != nil {
			in.WriteString("gentext " + c.treeLine + "\n")
			idx = append(idx, i)
		}
	}
	if len(idx) == 0 {
		return nil
	}
	cmd := exec.Command(ge.vdriver)
	cmd.Stdin = &in
	var out bytes.Buffer
	cmd.Stdout = &out
	cmd.Stderr = os.Stderr
	if err := cmd.Run(); err != nil {
		return fmt.Errorf("vdriver: %v", err)
	}
	sc := bufio.NewScanner(&out)
	sc.Buffer(make([]byte, 1<<20), 1<<28)
	k := 0
	for sc.Scan() {
		if k >= len(idx) {
			break
		}
		line := sc.Text()
		c := cs[idx[k]]
		k++
		switch {
		case line == "CRASH":
			c.modelCrash = true
		case strings.HasPrefix(line, "T x"):
			b, err := hex.DecodeString(line[3:])
			if err != nil {
				return fmt.Errorf("vdriver answer for case %d: %v", c.idx, err)
			}
			c.modelText = b
		default:
			return fmt.Errorf("vdriver answer for case %d: %.200s", c.idx, line)
		}
	}
	if k != len(idx) {
		return fmt.Errorf("vdriver answered %d of %d gentext lines", k, len(idx))
	}
	return nil
}

var posRe = regexp.MustCompile(`^[^:\s]+\.go:\d+(:\d+)?: `)
var noGoFilesRe = regexp.MustCompile(`^package (scratch/g\d+): build constraints exclude all Go files`)

// compileAll builds every selected generated package in one scratch module, then one probe binary that
// imports all packages that compiled and prints what they report.
func (ge *genEnv) compileAll(cs []*genCase) error {
	var sel []*genCase
	for _, c := range cs {
		if c.compile == "todo" {
			sel = append(sel, c)
		}
	}
	if len(sel) == 0 {
		return nil
	}
	mod := filepath.Join(ge.work, "mod")
	os.RemoveAll(mod)
	if err := os.MkdirAll(mod, 0o755); err != nil {
		return err
	}
	gomod := "module scratch\n\ngo 1.13\n\nrequire github.com/varlink/go v0.0.0\n\nreplace github.com/varlink/go => " + ge.repo + "\n"
	if err := os.WriteFile(filepath.Join(mod, "go.mod"), []byte(gomod), 0o644); err != nil {
		return err
	}
	if sum, err := os.ReadFile(filepath.Join(ge.repo, "go.sum")); err == nil {
		os.WriteFile(filepath.Join(mod, "go.sum"), sum, 0o644)
	}
	byDir := map[string]*genCase{}
	var pkgs []string
	for _, c := range sel {
		d := fmt.Sprintf("g%d", c.idx)
		os.MkdirAll(filepath.Join(mod, d), 0o755)
		if err := os.WriteFile(filepath.Join(mod, d, c.outFile), c.realOut, 0o644); err != nil {
			return err
		}
		byDir["scratch/"+d] = c
		pkgs = append(pkgs, "./"+d)
		c.compile = "ok"
	}
	// go build of several packages compiles them and discards the objects; -gcflags=-e is not needed, the
	// first error per package is what is reported
	for start := 0; start < len(pkgs); start += 400 {
		end := start + 400
		if end > len(pkgs) {
			end = len(pkgs)
		}
		chunk := append([]string{}, pkgs[start:end]...)
		var out []byte
		for len(chunk) > 0 {
			cmd := exec.Command("go", append([]string{"build", "-p", "16"}, chunk...)...)
			cmd.Dir = mod
			cmd.Env = ge.goenv
			out, _ = cmd.CombinedOutput()
			// a package whose files go/build ignores ("package documentation") is a LOAD error: go build reports
			// "package scratch/g7: build constraints exclude all Go files in <dir>" and compiles nothing at all.
			// Such packages fail; the rest of the chunk is built again without them.
			excluded := map[string]bool{}
			for _, line := range strings.Split(string(out), "\n") {
				if m := noGoFilesRe.FindStringSubmatch(line); m != nil {
					if c := byDir[m[1]]; c != nil {
						c.compile = "fail"
						c.compileErr = "build constraints exclude all Go files"
						excluded["./"+strings.TrimPrefix(m[1], "scratch/")] = true
					}
				}
			}
			if len(excluded) == 0 {
				break
			}
			var keep []string
			for _, p := range chunk {
				if !excluded[p] {
					keep = append(keep, p)
				}
			}
			chunk, out = keep, nil
		}
		var cur *genCase
		for _, line := range strings.Split(string(out), "\n") {
			if strings.HasPrefix(line, "# ") {
				cur = byDir[strings.Fields(line[2:])[0]]
				if cur != nil {
					cur.compile = "fail"
				}
				continue
			}
			if cur != nil && cur.compileErr == "" && strings.TrimSpace(line) != "" {
				l := strings.TrimSpace(line)
				if i := strings.Index(l, ".go:"); i >= 0 {
					l = l[strings.LastIndex(l[:i], "/")+1:]
				}
				cur.compileErr = posRe.ReplaceAllString(l, "")
			}
			if cur == nil && strings.TrimSpace(line) != "" && !strings.HasPrefix(line, "go: ") {
				// an error that is not attributed to a package: make it visible
				return fmt.Errorf("go build in %s: %s", mod, line)
			}
		}
	}
	// probe
	var good []*genCase
	for _, c := range sel {
		if c.compile != "ok" {
			continue
		}
		if strings.TrimSuffix(c.outFile, ".go") == "main" {
			c.probe = "main"
			continue
		}
		good = append(good, c)
	}
	if len(good) == 0 {
		return nil
	}
	byIdx := map[int]*genCase{}
	for _, c := range good {
		byIdx[c.idx] = c
	}
	// one probe program per 1500 packages (a single link of tens of thousands of packages is too slow)
	for start := 0; start < len(good); start += 1500 {
		end := start + 1500
		if end > len(good) {
			end = len(good)
		}
		chunk := good[start:end]
		var src strings.Builder
		src.WriteString("package main\n\nimport (\n\t\"encoding/hex\"\n\t\"fmt\"\n")
		for _, c := range chunk {
			fmt.Fprintf(&src, "\tp%d \"scratch/g%d\"\n", c.idx, c.idx)
		}
		src.WriteString(")\n\nfunc main() {\n")
		for _, c := range chunk {
			fmt.Fprintf(&src, "\t{ v := &p%d.VarlinkInterface{}; fmt.Println(%d, \"x\"+hex.EncodeToString([]byte(v.VarlinkGetName())), \"x\"+hex.EncodeToString([]byte(v.VarlinkGetDescription()))) }\n", c.idx, c.idx)
		}
		src.WriteString("}\n")
		pdir := fmt.Sprintf("probe%d", start)
		os.MkdirAll(filepath.Join(mod, pdir), 0o755)
		if err := os.WriteFile(filepath.Join(mod, pdir, "main.go"), []byte(src.String()), 0o644); err != nil {
			return err
		}
		bin := filepath.Join(mod, pdir+".bin")
		cmd := exec.Command("go", "build", "-o", bin, "./"+pdir)
		cmd.Dir = mod
		cmd.Env = ge.goenv
		if out, err := cmd.CombinedOutput(); err != nil {
			return fmt.Errorf("probe build failed: %v\n%.2000s", err, out)
		}
		out, err := exec.Command(bin).Output()
		if err != nil {
			return fmt.Errorf("probe run failed: %v", err)
		}
		os.Remove(bin)
		for _, line := range strings.Split(string(out), "\n") {
			f := strings.Fields(line)
			if len(f) != 3 {
				continue
			}
			i, _ := strconv.Atoi(f[0])
			c := byIdx[i]
			if c == nil {
				continue
			}
			c.probeName, _ = hex.DecodeString(f[1][1:])
			c.probeDesc, _ = hex.DecodeString(f[2][1:])
			c.probe = "ok"
		}
	}
	return nil
}

func compileErrClass(msg string) string {
	table := []struct{ sub, class string }{
		{"imported and not used", "unused-import"},
		{"function main is undeclared in the main package", "package-main"},
		{"build constraints exclude all Go files", "package-documentation"},
		{"invalid recursive type", "recursive-type"},
		{"field and method with the same name", "field-method-clash"},
		{"already declared", "method-redeclared"},
		{"redeclared", "redeclared"},
		{"is not a type", "not-a-type"},
		{"undefined:", "undefined"},
		{"too many arguments", "shadowed-call"},
		{"not enough arguments", "shadowed-call"},
		{"invalid receiver type", "invalid-receiver"},
		{"cannot use", "type-mismatch"},
		{"cannot convert", "bad-conversion"},
	}
	for _, t := range table {
		if strings.Contains(msg, t.sub) {
			return t.class
		}
	}
	return "other"
}

func (c *genCase) line() string {
	l := &Line{}
	if c.tree == nil {
		return l.S("genperr").Str(c.dc.tag).Str(c.dc.text).S("|").S(c.real).String()
	}
	l.S("gen").Str(c.dc.tag).S(c.treeLine).S("|")
	l.S(c.real).Str(c.outFile).S(c.fmtState).S(c.texteq).Bool(c.twice).B(c.modelText).Bool(c.modelCrash)
	l.S(c.compile).Str(compileErrClass(c.compileErr)).Str(c.compileErr).S(c.probe).B(c.probeName).B(c.probeDesc).B(c.summary)
	return l.String()
}

func runGen(e *env, compileN int) error {
	ge, err := newGenEnv()
	if err != nil {
		return err
	}
	defer ge.close()
	var cs []*genCase
	err = e.each(func(i int, g *Rng) error {
		c := &genCase{idx: i, dc: genDescription(i, g), compile: "na", probe: "na", fmtState: "na", texteq: "na"}
		c.tree, c.trimmed, _ = parseReal(c.dc.text)
		if c.tree != nil {
			l := &Line{}
			serIDL(l, c.tree)
			c.treeLine = l.String()
		}
		cs = append(cs, c)
		return nil
	})
	if err != nil {
		return err
	}
	if err := ge.modelTexts(cs); err != nil {
		return err
	}
	// the real generator, twice per case, 16 at a time
	var wg sync.WaitGroup
	sem := make(chan struct{}, 16)
	for _, c := range cs {
		wg.Add(1)
		sem <- struct{}{}
		go func(c *genCase) {
			defer wg.Done()
			defer func() { <-sem }()
			d1 := filepath.Join(ge.work, fmt.Sprintf("c%d-a", c.idx))
			d2 := filepath.Join(ge.work, fmt.Sprintf("c%d-b", c.idx))
			c.real, c.realMsg, c.outFile, c.realOut = ge.runReal(d1, c.dc.text)
			// the second run finds the output file of an earlier, longer generation in its directory
			stale := append(append([]byte{}, c.realOut...), bytes.Repeat([]byte("// left over from an earlier run\n"), 400)...)
			st2, _, of2, out2 := ge.runRealOver(d2, c.dc.text, c.outFile, stale)
			c.twice = st2 == c.real && of2 == c.outFile && bytes.Equal(out2, c.realOut)
			os.RemoveAll(d1)
			os.RemoveAll(d2)
			if c.tree != nil && !c.modelCrash {
				pretty, ferr := format.Source(c.modelText)
				if ferr != nil {
					c.fmtState = "err"
				} else {
					c.fmtState = "ok"
					if c.real == "ok" {
						if bytes.Equal(pretty, c.realOut) {
							c.texteq = "1"
						} else {
							c.texteq = "0"
						}
					}
				}
			}
			if c.real == "ok" {
				c.summary = goSummary(c.realOut)
				if c.idx < compileN {
					c.compile = "todo"
				}
			}
		}(c)
	}
	wg.Wait()
	if err := ge.compileAll(cs); err != nil {
		return err
	}
	sort.Slice(cs, func(i, j int) bool { return cs[i].idx < cs[j].idx })
	for _, c := range cs {
		fmt.Fprintln(e.out, c.line())
	}
	return nil
}

func init() {
	commands["gen"] = func(e *env) error {
		k := len(genSystematicCases()) + 150
		if e.tier == "thorough" {
			k = e.n
		}
		return runGen(e, k)
	}
}
