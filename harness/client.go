package main

// C11 — the client against a scripted raw server: Send with all 16 flag sets (what is written, what is
// refused) and the receive closure on generated reply streams (valid, error frames, mutated, wrong
// shape, random) under generated segmentations, with the server dying at a chosen byte offset.

import (
	"context"
	"encoding/json"
	"fmt"
	"io"
	"strings"

	"github.com/varlink/go/varlink"
)

func (g *Rng) replyFrame() string {
	var members []string
	switch g.Intn(10) {
	case 0:
	case 1:
		members = append(members, `"parameters":null`)
	case 2:
		members = append(members, `"parameters":`+g.jsonValue(2))
	default:
		members = append(members, `"parameters":`+g.jsonObject(2))
	}
	switch g.Intn(8) {
	case 0, 1:
		members = append(members, `"continues":true`)
	case 2:
		members = append(members, `"continues":false`)
	case 3:
		if g.Chance(1, 3) {
			members = append(members, `"Continues":true`)
		}
	}
	switch g.Intn(8) {
	case 0:
		members = append(members, `"error":`+g.jsonString(g.errName()))
	case 1:
		k := g.Pick([]string{"InterfaceNotFound", "MethodNotFound", "MethodNotImplemented", "InvalidParameter", "Nope"})
		members = append(members, `"error":"org.varlink.service.`+k+`"`)
		if g.Bool() {
			fld := map[string]string{"InterfaceNotFound": "interface", "MethodNotFound": "method", "MethodNotImplemented": "method", "InvalidParameter": "parameter"}[k]
			if fld == "" || g.Chance(1, 5) {
				fld = g.Pick([]string{"interface", "method", "parameter", "Method", "x"})
			}
			val := g.jsonString(g.randString())
			if g.Chance(1, 6) {
				val = g.jsonValue(1)
			}
			members = []string{`"parameters":{` + g.jsonString(fld) + `:` + val + `}`, members[len(members)-1]}
		}
	case 2:
		if g.Bool() {
			// the standard errors are recognised by their full name only: a bare or near-miss name is just some error
			k := g.Pick([]string{"InterfaceNotFound", "MethodNotFound", "MethodNotImplemented", "InvalidParameter"})
			name := g.Pick([]string{k, "." + k, "org.varlink.service" + k, "xorg.varlink.service." + k, "org.varlink.service." + strings.ToLower(k), "org.varlink.service.x." + k, "com.example." + k})
			fld := map[string]string{"InterfaceNotFound": "interface", "MethodNotFound": "method", "MethodNotImplemented": "method", "InvalidParameter": "parameter"}[k]
			members = []string{`"parameters":{` + g.jsonString(fld) + `:"x"}`, `"error":` + g.jsonString(name)}
		} else {
			members = append(members, `"error":""`)
		}
	case 3:
		if g.Chance(1, 3) {
			members = append(members, `"error":null`)
		}
	}
	if g.Chance(1, 12) {
		members = append(members, g.jsonString(g.randString())+":"+g.jsonValue(1))
	}
	if g.Chance(1, 6) {
		for i := len(members) - 1; i > 0; i-- {
			j := g.Intn(i + 1)
			members[i], members[j] = members[j], members[i]
		}
	}
	return g.ws() + "{" + strings.Join(members, ","+g.ws()) + "}" + g.ws()
}

func (g *Rng) badReplyFrame() string {
	switch g.Intn(8) {
	case 0:
		return "null"
	case 1:
		return g.Pick([]string{"[]", "5", `"x"`, "true", "{}", " null ", "nul", "{}{}", "", "{} x"})
	case 2:
		return `{"continues":` + g.Pick([]string{"1", `"true"`, "[]", "null"}) + `}`
	case 3:
		return `{"error":` + g.Pick([]string{"1", "true", "[]", "{}"}) + `}`
	case 4:
		return g.jsonValue(2)
	case 5, 6:
		f := []byte(g.replyFrame())
		if len(f) == 0 {
			return ""
		}
		for k := 0; k < 1+g.Intn(2) && len(f) > 0; k++ {
			p := g.Intn(len(f))
			switch g.Intn(3) {
			case 0:
				f[p] = byte(1 + g.Intn(255))
			case 1:
				f = append(f[:p], f[p+1:]...)
			default:
				f[p] = mutChars[g.Intn(len(mutChars))]
			}
		}
		for i := range f {
			if f[i] == 0 {
				f[i] = '0'
			}
		}
		return string(f)
	default:
		n := g.Intn(20)
		b := make([]byte, n)
		for i := range b {
			b[i] = byte(1 + g.Intn(255))
		}
		return string(b)
	}
}

type recvObs struct {
	kind   string // reply | ueof | decode | remote | std-i | std-m | std-n | std-p | other
	flags  uint64
	params string // raw JSON of the parameters handed to the caller ("" = none)
	name   string
}

func classifyRecv(flags uint64, err error, out json.RawMessage) recvObs {
	switch e := err.(type) {
	case nil:
		return recvObs{kind: "reply", flags: flags, params: string(out)}
	case *varlink.InterfaceNotFound:
		return recvObs{kind: "std-i", name: e.Interface}
	case *varlink.MethodNotFound:
		return recvObs{kind: "std-m", name: e.Method}
	case *varlink.MethodNotImplemented:
		return recvObs{kind: "std-n", name: e.Method}
	case *varlink.InvalidParameter:
		return recvObs{kind: "std-p", name: e.Parameter}
	case *varlink.Error:
		o := recvObs{kind: "remote", name: e.Name}
		if e.Error() != e.Name {
			// Error() is documented to be the fully-qualified error name: whoever logs or relays it gets another one
			o.kind = "remote-error-string-is-not-the-name"
		}
		if rm, ok := e.Parameters.(*json.RawMessage); ok && rm != nil {
			o.params = string(*rm)
		}
		return o
	case *json.SyntaxError, *json.UnmarshalTypeError:
		return recvObs{kind: "decode"}
	}
	if err == io.ErrUnexpectedEOF {
		return recvObs{kind: "ueof"}
	}
	if strings.Contains(err.Error(), "json") || strings.Contains(err.Error(), "invalid character") || strings.Contains(err.Error(), "unexpected end of JSON") {
		return recvObs{kind: "decode"}
	}
	return recvObs{kind: "other:" + strings.ReplaceAll(fmt.Sprintf("%T", err), " ", "_")}
}

func init() {
	commands["client"] = func(e *env) error {
		return e.each(func(i int, g0 *Rng) error {
			g := g0
			// thorough tier: the same reply stream is cut at 48 evenly spread offsets in 48 consecutive cases
			// (for streams up to 47 bytes that is every offset), so the server dies at every point of it
			everyOffset := e.tier == "thorough" && i%2 == 1
			if everyOffset {
				g = NewRng(e.seed).Fork(uint64(1<<40 + i/96))
			}
			flags := uint64(g.Intn(16))
			if i < 64 {
				flags = uint64(i % 16) // all 16 flag sets, four times over, first
			}
			method := g.Pick([]string{"org.example.a.M", "org.varlink.service.GetInfo", "", "x", g.randString()})
			// parameters: absent, a JSON value, or something json.Marshal rejects
			pk := g.Intn(10)
			var params interface{}
			ptok := "absent"
			pjson := ""
			switch {
			case pk == 0:
				params = nil
			case pk == 1:
				params = badPayload{}
				ptok = "bad"
			default:
				pjson = g.jsonObject(2)
				if g.Chance(1, 8) {
					pjson = g.jsonValue(2)
				}
				params = json.RawMessage(pjson)
				ptok = "val"
			}
			// the reply stream
			var stream []byte
			n := g.Intn(5)
			for k := 0; k < n; k++ {
				if g.Chance(1, 5) {
					stream = append(stream, g.badReplyFrame()...)
				} else {
					stream = append(stream, g.replyFrame()...)
				}
				stream = append(stream, 0)
			}
			if g.Chance(1, 4) {
				f := g.replyFrame()
				stream = append(stream, f[:g.Intn(len(f)+1)]...)
			}
			if g.Chance(1, 30) {
				stream = append([]byte(`{"parameters":{"pad":`+g.bigString(5000+g.Intn(60000))+`}}`+"\x00"), stream...)
			}
			// server death: the stream ends at this offset
			if everyOffset {
				k := (i / 2) % 48
				stream = stream[:len(stream)*k/47]
			} else if g.Chance(1, 2) && len(stream) > 0 {
				stream = stream[:g.Intn(len(stream)+1)]
			}
			segs := g.cut(stream)
			conn := newSegConn(segs)
			c := varlink.VerifNewConnection(conn)
			ctx := context.Background()
			l := &Line{}
			l.S("client").N(int(flags)).Str(method).S(ptok).Str(pjson).N(len(segs))
			for _, s := range segs {
				l.B(s)
			}
			// a Send that failed (the transport refused the write, nothing went out) must leave nothing behind
			// that a later Send on the same connection would transmit
			prefail := g0.Chance(1, 3)
			if prefail {
				conn.setWriteLimit(0)
				func() {
					defer func() { recover() }()
					c.Send(ctx, "org.example.a.Failed", json.RawMessage(`{"stale":true}`), 0)
				}()
				conn.setWriteLimit(-1)
			}
			var sendClass string
			var receive func(context.Context, interface{}) (uint64, error)
			func() {
				defer func() {
					if r := recover(); r != nil {
						sendClass = "panic"
					}
				}()
				var err error
				receive, err = c.Send(ctx, method, params, flags)
				switch e := err.(type) {
				case nil:
					sendClass = "ok"
				case *varlink.Error:
					sendClass = "refused:" + fmt.Sprint(e.Parameters)
				default:
					if err == errBad || strings.Contains(err.Error(), "unencodable") {
						sendClass = "encode"
					} else {
						sendClass = "other"
					}
				}
			}()
			nrecv := n + 2
			// pipelined use: further calls are sent between the receives of the first one; what the reader has
			// already buffered belongs to the receives still to come and must not be touched by a Send
			pipelined := g0.Chance(1, 2)
			l.N(nrecv).Bool(pipelined).Bool(prefail).S("|").S(sendClass).B(conn.Written())
			var obs []recvObs
			if sendClass == "ok" {
				for k := 0; k < nrecv; k++ {
					var o recvObs
					func() {
						defer func() {
							if r := recover(); r != nil {
								o = recvObs{kind: "panic"}
							}
						}()
						if pipelined && k > 0 {
							c.Send(ctx, "org.example.a.Next", nil, 0)
						}
						var out json.RawMessage
						fl, err := receive(ctx, &out)
						o = classifyRecv(fl, err, out)
					}()
					obs = append(obs, o)
				}
			}
			l.N(len(obs))
			for _, o := range obs {
				l.S(o.kind).N(int(o.flags)).Str(o.params).Str(o.name)
			}
			fmt.Fprintln(e.out, l.String())
			return nil
		})
	}
}
