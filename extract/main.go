// verifextract: a small go/ast fact extractor. It re-reads the anchored source files of /repo on
// every run and regenerates lean/Varlink/Extracted/*.lean, so that `lake build` re-checks the
// theorems that depend on these facts against what the code says now.
package main

import (
	"flag"
	"fmt"
	"go/ast"
	"go/parser"
	"go/token"
	"os"
	"path/filepath"
	"reflect"
	"sort"
	"strconv"
	"strings"
)

var fset = token.NewFileSet()

func parse(path string) *ast.File {
	f, err := parser.ParseFile(fset, path, nil, parser.ParseComments)
	if err != nil {
		fmt.Fprintln(os.Stderr, "extract:", err)
		os.Exit(1)
	}
	return f
}

func leanStr(s string) string { return strconv.Quote(s) }

func writeIfChanged(path, content string) {
	old, err := os.ReadFile(path)
	if err == nil && string(old) == content {
		return
	}
	if err := os.WriteFile(path, []byte(content), 0o644); err != nil {
		fmt.Fprintln(os.Stderr, "extract:", err)
		os.Exit(1)
	}
}

// ---- struct tags ------------------------------------------------------------------------------

type field struct {
	goName, jsonName, typ string
	omitempty             bool
}

func structFields(st *ast.StructType) []field {
	var out []field
	for _, f := range st.Fields.List {
		for _, n := range f.Names {
			fl := field{goName: n.Name, jsonName: n.Name, typ: exprString(f.Type)}
			if f.Tag != nil {
				tag, _ := strconv.Unquote(f.Tag.Value)
				j := reflect.StructTag(tag).Get("json")
				parts := strings.Split(j, ",")
				if parts[0] != "" {
					fl.jsonName = parts[0]
				}
				for _, p := range parts[1:] {
					if p == "omitempty" {
						fl.omitempty = true
					}
				}
			}
			out = append(out, fl)
		}
	}
	return out
}

func exprString(e ast.Expr) string {
	switch t := e.(type) {
	case *ast.Ident:
		return t.Name
	case *ast.StarExpr:
		return "*" + exprString(t.X)
	case *ast.SelectorExpr:
		return exprString(t.X) + "." + t.Sel.Name
	case *ast.ArrayType:
		return "[]" + exprString(t.Elt)
	case *ast.InterfaceType:
		return "interface{}"
	case *ast.MapType:
		return "map[" + exprString(t.Key) + "]" + exprString(t.Value)
	}
	return fmt.Sprintf("%T", e)
}

// findStruct finds `type name struct{...}` at top level or inside the body of function fn ("" = top level).
func findStruct(f *ast.File, fn, name string) *ast.StructType {
	var res *ast.StructType
	visit := func(n ast.Node) bool {
		if ts, ok := n.(*ast.TypeSpec); ok && ts.Name.Name == name {
			if st, ok := ts.Type.(*ast.StructType); ok && res == nil {
				res = st
			}
		}
		return true
	}
	for _, d := range f.Decls {
		switch dd := d.(type) {
		case *ast.GenDecl:
			if fn == "" {
				ast.Inspect(dd, visit)
			}
		case *ast.FuncDecl:
			if fn != "" && dd.Name.Name == fn && dd.Body != nil {
				ast.Inspect(dd.Body, visit)
			}
		}
	}
	return res
}

// findVarStruct finds `var name struct{...}` inside function fn.
func findVarStruct(f *ast.File, fn, name string) *ast.StructType {
	var res *ast.StructType
	for _, d := range f.Decls {
		if dd, ok := d.(*ast.FuncDecl); ok && dd.Name.Name == fn && dd.Body != nil {
			ast.Inspect(dd.Body, func(n ast.Node) bool {
				if vs, ok := n.(*ast.ValueSpec); ok && len(vs.Names) == 1 && vs.Names[0].Name == name {
					if st, ok := vs.Type.(*ast.StructType); ok && res == nil {
						res = st
					}
				}
				return true
			})
		}
	}
	return res
}

func leanFields(name string, fs []field) string {
	var b strings.Builder
	fmt.Fprintf(&b, "/-- (json member name, omitempty, Go type) in declaration order -/\ndef %s : List (String × Bool × String) := [", name)
	for i, f := range fs {
		if i > 0 {
			b.WriteString(", ")
		}
		fmt.Fprintf(&b, "(%s, %v, %s)", leanStr(f.jsonName), f.omitempty, leanStr(f.typ))
	}
	b.WriteString("]\n\n")
	return b.String()
}

// ---- constants --------------------------------------------------------------------------------

// iotaConsts evaluates `const ( A = 1 << iota ... )` blocks for the names given.
func iotaConsts(f *ast.File, names ...string) map[string]int {
	want := map[string]bool{}
	for _, n := range names {
		want[n] = true
	}
	out := map[string]int{}
	for _, d := range f.Decls {
		gd, ok := d.(*ast.GenDecl)
		if !ok || gd.Tok != token.CONST {
			continue
		}
		var last ast.Expr
		for i, s := range gd.Specs {
			vs := s.(*ast.ValueSpec)
			if len(vs.Values) > 0 {
				last = vs.Values[0]
			}
			for _, n := range vs.Names {
				if want[n.Name] && last != nil {
					if v, ok := evalIota(last, i); ok {
						out[n.Name] = v
					}
				}
			}
		}
	}
	return out
}

func evalIota(e ast.Expr, iota int) (int, bool) {
	switch t := e.(type) {
	case *ast.Ident:
		if t.Name == "iota" {
			return iota, true
		}
	case *ast.BasicLit:
		v, err := strconv.Atoi(t.Value)
		return v, err == nil
	case *ast.BinaryExpr:
		l, ok1 := evalIota(t.X, iota)
		r, ok2 := evalIota(t.Y, iota)
		if ok1 && ok2 {
			switch t.Op {
			case token.SHL:
				return l << uint(r), true
			case token.ADD:
				return l + r, true
			case token.MUL:
				return l * r, true
			}
		}
	case *ast.ParenExpr:
		return evalIota(t.X, iota)
	}
	return 0, false
}

// stringLits collects string literals that occur in function fn (used for the standard error names).
func stringLits(f *ast.File, fn string) []string {
	var out []string
	for _, d := range f.Decls {
		if dd, ok := d.(*ast.FuncDecl); ok && dd.Name.Name == fn && dd.Body != nil {
			ast.Inspect(dd.Body, func(n ast.Node) bool {
				if bl, ok := n.(*ast.BasicLit); ok && bl.Kind == token.STRING {
					s, _ := strconv.Unquote(bl.Value)
					out = append(out, s)
				}
				return true
			})
		}
	}
	return out
}

// ---- ctxio ------------------------------------------------------------------------------------

// ioTarget: in method `name` of *Conn, the receiver field on which the blocking call inside the
// helper goroutine is made (c.conn.Read / c.reader.Read / c.reader.ReadBytes / c.conn.Write).
func ioTarget(f *ast.File, method string) (fieldName, call string) {
	for _, d := range f.Decls {
		dd, ok := d.(*ast.FuncDecl)
		if !ok || dd.Name.Name != method || dd.Recv == nil || dd.Body == nil {
			continue
		}
		ast.Inspect(dd.Body, func(n ast.Node) bool {
			g, ok := n.(*ast.GoStmt)
			if !ok {
				return true
			}
			ast.Inspect(g.Call, func(m ast.Node) bool {
				ce, ok := m.(*ast.CallExpr)
				if !ok {
					return true
				}
				if sel, ok := ce.Fun.(*ast.SelectorExpr); ok {
					if inner, ok := sel.X.(*ast.SelectorExpr); ok {
						if id, ok := inner.X.(*ast.Ident); ok && id.Name == "c" && fieldName == "" {
							fieldName, call = inner.Sel.Name, sel.Sel.Name
						}
					}
				}
				return true
			})
			return false
		})
	}
	return
}

// cancelArm: the sequence of synchronisation-relevant operations in the `case <-ctx.Done():` arm of
// the select in the given method: "deadline-past", "join" (receive from ch), "deadline-reset", "return".
func cancelArm(f *ast.File, method string) []string {
	var out []string
	for _, d := range f.Decls {
		dd, ok := d.(*ast.FuncDecl)
		if !ok || dd.Name.Name != method || dd.Recv == nil || dd.Body == nil {
			continue
		}
		ast.Inspect(dd.Body, func(n ast.Node) bool {
			sel, ok := n.(*ast.SelectStmt)
			if !ok {
				return true
			}
			for _, c := range sel.Body.List {
				cc := c.(*ast.CommClause)
				if cc.Comm == nil {
					continue
				}
				es, ok := cc.Comm.(*ast.ExprStmt)
				if !ok {
					continue
				}
				ue, ok := es.X.(*ast.UnaryExpr)
				if !ok || ue.Op != token.ARROW {
					continue
				}
				if ce, ok := ue.X.(*ast.CallExpr); !ok || !strings.HasSuffix(exprString(ce.Fun), "Done") {
					continue
				}
				for _, st := range cc.Body {
					out = append(out, armOps(st)...)
				}
			}
			return false
		})
	}
	return out
}

func armOps(st ast.Stmt) []string {
	var out []string
	switch s := st.(type) {
	case *ast.IfStmt:
		if s.Init != nil {
			out = append(out, armOps(s.Init)...)
		}
	case *ast.AssignStmt:
		for _, r := range s.Rhs {
			out = append(out, exprOps(r)...)
		}
	case *ast.ExprStmt:
		out = append(out, exprOps(s.X)...)
	case *ast.ReturnStmt:
		out = append(out, "return")
	}
	return out
}

func exprOps(e ast.Expr) []string {
	switch t := e.(type) {
	case *ast.UnaryExpr:
		if t.Op == token.ARROW {
			return []string{"join"}
		}
	case *ast.CallExpr:
		name := exprString(t.Fun)
		if strings.HasSuffix(name, "SetReadDeadline") || strings.HasSuffix(name, "SetWriteDeadline") || strings.HasSuffix(name, "SetDeadline") {
			if len(t.Args) == 1 {
				if id, ok := t.Args[0].(*ast.Ident); ok && id.Name == "aLongTimeAgo" {
					return []string{"deadline-past"}
				}
				if cl, ok := t.Args[0].(*ast.CompositeLit); ok && exprString(cl.Type) == "time.Time" {
					return []string{"deadline-reset"}
				}
			}
			return []string{"deadline-other"}
		}
	}
	return nil
}

func leanStrList(name, doc string, xs []string) string {
	q := make([]string, len(xs))
	for i, x := range xs {
		q[i] = leanStr(x)
	}
	return fmt.Sprintf("/-- %s -/\ndef %s : List String := [%s]\n\n", doc, name, strings.Join(q, ", "))
}

// generators: each produces one Lean file under lean/Varlink/Extracted/. Further files of this
// package (extract/*.go) register theirs in init().
type generator struct {
	file string
	gen  func(repo string) string
}

var generators []generator

const hdr = "-- GENERATED by /verif/extract from /repo's working tree on every run. Do not edit.\n"

func main() {
	repo := flag.String("repo", "/repo", "repository root")
	out := flag.String("out", "", "output directory for the generated Lean files")
	flag.Parse()
	if *out == "" {
		fmt.Fprintln(os.Stderr, "usage: vextract -repo /repo -out DIR")
		os.Exit(2)
	}
	os.MkdirAll(*out, 0o755)
	for _, g := range generators {
		writeIfChanged(filepath.Join(*out, g.file), g.gen(*repo))
	}
}

func init() {
	generators = append(generators, generator{"Wire.lean", genWire}, generator{"Ctxio.lean", genCtxio})
}

func genWire(repoDir string) string {
	repo := &repoDir
	// Wire.lean
	svc := parse(filepath.Join(*repo, "varlink/service.go"))
	con := parse(filepath.Join(*repo, "varlink/connection.go"))
	org := parse(filepath.Join(*repo, "varlink/orgvarlinkservice.go"))
	var w strings.Builder
	w.WriteString(hdr + "namespace Varlink.Extracted\n\n")
	for _, x := range []struct {
		lean string
		st   *ast.StructType
	}{
		{"serviceCallFields", findStruct(svc, "", "serviceCall")},
		{"serviceReplyFields", findStruct(svc, "", "serviceReply")},
		{"clientCallFields", findStruct(con, "Send", "call")},
		{"clientReplyFields", findStruct(con, "Send", "reply")},
		{"getInfoReplyFields", findVarStruct(org, "replyGetInfo", "out")},
		{"getDescriptionReplyFields", findVarStruct(org, "replyGetInterfaceDescription", "out")},
		{"getDescriptionParamFields", findVarStruct(org, "orgvarlinkserviceDispatch", "in")},
		{"clientGetInfoFields", findStruct(con, "GetInfo", "reply")},
		{"clientGetDescriptionFields", findStruct(con, "GetInterfaceDescription", "reply")},
		{"clientGetDescriptionRequestFields", findStruct(con, "GetInterfaceDescription", "request")},
		{"interfaceNotFoundFields", findStruct(org, "", "InterfaceNotFound")},
		{"methodNotFoundFields", findStruct(org, "", "MethodNotFound")},
		{"methodNotImplementedFields", findStruct(org, "", "MethodNotImplemented")},
		{"invalidParameterFields", findStruct(org, "", "InvalidParameter")},
	} {
		if x.st == nil {
			w.WriteString(leanFields(x.lean, nil))
		} else {
			w.WriteString(leanFields(x.lean, structFields(x.st)))
		}
	}
	flags := iotaConsts(con, "More", "Oneway", "Continues", "Upgrade")
	keys := make([]string, 0, len(flags))
	for k := range flags {
		keys = append(keys, k)
	}
	sort.Strings(keys)
	w.WriteString("/-- exported flag constants of connection.go -/\ndef flagBits : List (String × Nat) := [")
	for i, k := range keys {
		if i > 0 {
			w.WriteString(", ")
		}
		fmt.Fprintf(&w, "(%s, %d)", leanStr(k), flags[k])
	}
	w.WriteString("]\n\n")
	var errNames []string
	for _, fn := range []string{"ReplyInterfaceNotFound", "ReplyMethodNotFound", "ReplyMethodNotImplemented", "ReplyInvalidParameter"} {
		errNames = append(errNames, stringLits(org, fn)...)
	}
	w.WriteString(leanStrList("stdErrorNamesSent", "error names passed to doReplyError by the four helpers, in source order", errNames))
	var caseNames []string
	for _, s := range stringLits(con, "DispatchError") {
		caseNames = append(caseNames, s)
	}
	w.WriteString(leanStrList("stdErrorNamesDispatched", "string literals of DispatchError's switch", caseNames))
	w.WriteString("end Varlink.Extracted\n")
	return w.String()
}

func genCtxio(repoDir string) string {
	repo := &repoDir

	// Ctxio.lean
	cx := parse(filepath.Join(*repo, "varlink/internal/ctxio/conn.go"))
	var c strings.Builder
	c.WriteString(hdr + "namespace Varlink.Extracted\n\n")
	for _, m := range []string{"Read", "ReadBytes", "Write"} {
		fld, call := ioTarget(cx, m)
		fmt.Fprintf(&c, "/-- in ctxio.Conn.%s the helper goroutine calls c.<field>.<method> -/\ndef ctxio%sTarget : String × String := (%s, %s)\n\n", m, m, leanStr(fld), leanStr(call))
		c.WriteString(leanStrList("ctxio"+m+"CancelArm", "operations of the `case <-ctx.Done()` arm of "+m+", in order", cancelArm(cx, m)))
	}
	c.WriteString("end Varlink.Extracted\n")
	return c.String()
}
