// access.go: the access table of varlink.Service (C16) and the goroutine skeleton of the ctxio
// operations (C16, C17).  Regenerates lean/Varlink/Extracted/Access.lean.
//
// For every function of service.go / orgvarlinkservice.go with receiver *Service: every read and
// write of a Service field, every call of another Service method and every `go s.m(...)`, in source
// order, each with the state of s.mutex at that point.  The lock state comes from a structured walk:
//
//	s.mutex.Lock() ... s.mutex.Unlock()      held in between
//	defer s.mutex.Unlock()                   held up to every return
//	a branch that ends in return / continue / break / panic does not influence the state after it
//	branches that fall through with different states give `unknown`
//	loops are walked to a fixpoint (state at the loop head = join of entry and back edge)
//
// A `defer func() { ... }()` body is walked with the mutex free and its events are placed after the
// events of the function body (that is when it runs); `go func() {...}()` bodies likewise start free.
// Not tracked (trusted, cross-checked by the race detector runs): aliasing of *Service, accesses
// through values copied out of the struct (e.g. the map held in a local variable).
package main

import (
	"bytes"
	"fmt"
	"go/ast"
	"go/printer"
	"go/token"
	"path/filepath"
	"sort"
	"strings"
)

func init() {
	generators = append(generators, generator{"Access.lean", genAccess})
}

type lockSt int

const (
	lkFree lockSt = iota
	lkHeld
	lkUnknown
)

func (l lockSt) lean() string {
	return [...]string{".free", ".held", ".unknown"}[l]
}

func joinLock(a, b lockSt) lockSt {
	if a == b {
		return a
	}
	return lkUnknown
}

type accEvent struct {
	kind   string // read write call spawn
	target string // field or function
	lock   lockSt
}

type fnWalk struct {
	recv     string // receiver identifier
	events   []accEvent
	deferred [][]accEvent // bodies of deferred function literals, in source order
	lock     lockSt
	deferUn  bool // `defer s.mutex.Unlock()` seen
	usesMu   bool // any s.mutex.<M>() in the body (including closures, defers and go bodies)
	fields   map[string]bool
	methods  map[string]bool
	// conditions of `if ... { ...; return }` statements seen so far in this function (printed), with the lock state
	guards []guardCond
	// snapshot of guards at the first write of a table field
	guardsAtTableWrite []guardCond
	tableWriteSeen     bool
}

type guardCond struct {
	cond string
	lock lockSt
}

var tableFields = map[string]bool{"interfaces": true, "descriptions": true, "names": true}

func printNode(n ast.Node) string {
	var b bytes.Buffer
	printer.Fprint(&b, fset, n)
	return strings.Join(strings.Fields(b.String()), " ")
}

func (w *fnWalk) emit(kind, target string) {
	w.events = append(w.events, accEvent{kind, target, w.lock})
	if kind == "write" && tableFields[target] && !w.tableWriteSeen {
		w.tableWriteSeen = true
		w.guardsAtTableWrite = append([]guardCond(nil), w.guards...)
	}
}

// isRecvField: e is `s.<field>`
func (w *fnWalk) isRecvField(e ast.Expr) (string, bool) {
	sel, ok := e.(*ast.SelectorExpr)
	if !ok {
		return "", false
	}
	id, ok := sel.X.(*ast.Ident)
	if !ok || id.Name != w.recv {
		return "", false
	}
	if w.fields[sel.Sel.Name] {
		return sel.Sel.Name, true
	}
	return "", false
}

// mutexCall: e is s.mutex.Lock() / s.mutex.Unlock()
func (w *fnWalk) mutexCall(e ast.Expr) string {
	ce, ok := e.(*ast.CallExpr)
	if !ok {
		return ""
	}
	sel, ok := ce.Fun.(*ast.SelectorExpr)
	if !ok {
		return ""
	}
	if f, ok := w.isRecvField(sel.X); ok && f == "mutex" {
		w.usesMu = true
		return sel.Sel.Name
	}
	return ""
}

// reads: every s.<field> inside e is a read; s.m(...) is a call; function literals are walked in place
func (w *fnWalk) reads(e ast.Node) {
	if e == nil {
		return
	}
	ast.Inspect(e, func(n ast.Node) bool {
		switch t := n.(type) {
		case *ast.FuncLit:
			// a closure called in place or stored: walk its body with the current state
			w.block(t.Body.List)
			return false
		case *ast.CallExpr:
			if m := w.mutexCall(t); m != "" {
				// Lock/Unlock inside an expression context: treat as statement
				w.applyMutex(m)
				return false
			}
			if sel, ok := t.Fun.(*ast.SelectorExpr); ok {
				if id, ok := sel.X.(*ast.Ident); ok && id.Name == w.recv && w.methods[sel.Sel.Name] {
					for _, a := range t.Args {
						w.reads(a)
					}
					w.emit("call", sel.Sel.Name)
					return false
				}
			}
		case *ast.SelectorExpr:
			if f, ok := w.isRecvField(t); ok {
				if f != "mutex" {
					w.emit("read", f)
				}
				return false
			}
		}
		return true
	})
}

func (w *fnWalk) applyMutex(m string) {
	switch m {
	case "Lock":
		w.lock = lkHeld
	case "Unlock":
		w.lock = lkFree
	}
}

// lhs: the assigned location. `s.f = v`, `s.f[k] = v`, `s.f.x = v` are writes of f; other index /
// selector sub-expressions are reads.
func (w *fnWalk) lhs(e ast.Expr) {
	switch t := e.(type) {
	case *ast.IndexExpr:
		w.reads(t.Index)
		if f, ok := w.isRecvField(t.X); ok {
			w.emit("write", f)
			return
		}
		w.lhs(t.X)
	case *ast.StarExpr:
		w.reads(t.X)
	case *ast.ParenExpr:
		w.lhs(t.X)
	case *ast.SelectorExpr:
		if f, ok := w.isRecvField(t); ok {
			w.emit("write", f)
			return
		}
		if f, ok := w.isRecvField(t.X); ok {
			w.emit("write", f)
			return
		}
		w.reads(t.X)
	case *ast.Ident:
	default:
		w.reads(e)
	}
}

// stmt walks one statement; returns true when control does not fall through to the next statement.
func (w *fnWalk) stmt(s ast.Stmt) bool {
	switch t := s.(type) {
	case nil:
		return false
	case *ast.ExprStmt:
		if m := w.mutexCall(t.X); m != "" {
			w.applyMutex(m)
			return false
		}
		w.reads(t.X)
		if ce, ok := t.X.(*ast.CallExpr); ok {
			if id, ok := ce.Fun.(*ast.Ident); ok && id.Name == "panic" {
				return true
			}
		}
		return false
	case *ast.AssignStmt:
		for _, r := range t.Rhs {
			w.reads(r)
		}
		for _, l := range t.Lhs {
			if t.Tok != token.ASSIGN && t.Tok != token.DEFINE {
				// op-assign reads the location first
				w.reads(l)
			}
			w.lhs(l)
		}
		return false
	case *ast.IncDecStmt:
		w.reads(t.X)
		w.lhs(t.X)
		return false
	case *ast.DeclStmt:
		w.reads(t.Decl)
		return false
	case *ast.ReturnStmt:
		for _, r := range t.Results {
			w.reads(r)
		}
		return true
	case *ast.BranchStmt:
		return true // break / continue / goto: leaves this statement list
	case *ast.BlockStmt:
		return w.block(t.List)
	case *ast.LabeledStmt:
		return w.stmt(t.Stmt)
	case *ast.GoStmt:
		w.goOrDefer(t.Call, "spawn")
		return false
	case *ast.DeferStmt:
		if m := w.mutexCall(t.Call); m == "Unlock" {
			w.deferUn = true
			return false
		}
		w.goOrDefer(t.Call, "defer")
		return false
	case *ast.IfStmt:
		w.stmt(t.Init)
		w.reads(t.Cond)
		before := w.lock
		condStr := printNode(t.Cond)
		term := w.block(t.Body.List)
		afterBody := w.lock
		if term && endsInReturn(t.Body.List) {
			w.guards = append(w.guards, guardCond{condStr, before})
		}
		w.lock = before
		termElse := false
		afterElse := before
		if t.Else != nil {
			termElse = w.stmt(t.Else)
			afterElse = w.lock
		}
		switch {
		case term && termElse:
			w.lock = before
			return true
		case term:
			w.lock = afterElse
		case termElse:
			w.lock = afterBody
		default:
			w.lock = joinLock(afterBody, afterElse)
		}
		return false
	case *ast.ForStmt:
		w.stmt(t.Init)
		w.loop(func() {
			w.reads(t.Cond)
			if !w.block(t.Body.List) {
				w.stmt(t.Post)
			}
		})
		return false
	case *ast.RangeStmt:
		w.reads(t.X)
		w.loop(func() { w.block(t.Body.List) })
		return false
	case *ast.SwitchStmt:
		w.stmt(t.Init)
		w.reads(t.Tag)
		return w.clauses(t.Body.List)
	case *ast.TypeSwitchStmt:
		w.stmt(t.Init)
		w.stmt(t.Assign)
		return w.clauses(t.Body.List)
	case *ast.SelectStmt:
		return w.clauses(t.Body.List)
	case *ast.SendStmt:
		w.reads(t.Chan)
		w.reads(t.Value)
		return false
	default:
		w.reads(s)
		return false
	}
}

func endsInReturn(l []ast.Stmt) bool {
	if len(l) == 0 {
		return false
	}
	_, ok := l[len(l)-1].(*ast.ReturnStmt)
	return ok
}

// loop: the body is walked until the lock state at the loop head is stable; the events of the last
// walk are kept.
func (w *fnWalk) loop(body func()) {
	entry := w.lock
	for iter := 0; iter < 3; iter++ {
		mark := len(w.events)
		w.lock = entry
		body()
		back := w.lock
		j := joinLock(entry, back)
		if j == entry {
			w.lock = j
			return
		}
		// not stable: redo with the joined state
		w.events = w.events[:mark]
		entry = j
	}
	w.lock = lkUnknown
}

func (w *fnWalk) clauses(list []ast.Stmt) bool {
	before := w.lock
	hasDefault := false
	allTerm := true
	first := true
	var out lockSt
	for _, c := range list {
		w.lock = before
		var body []ast.Stmt
		switch cc := c.(type) {
		case *ast.CaseClause:
			if cc.List == nil {
				hasDefault = true
			}
			for _, e := range cc.List {
				w.reads(e)
			}
			body = cc.Body
		case *ast.CommClause:
			if cc.Comm == nil {
				hasDefault = true
			} else {
				w.stmt(cc.Comm)
			}
			body = cc.Body
		}
		if !w.block(body) {
			allTerm = false
			if first {
				out, first = w.lock, false
			} else {
				out = joinLock(out, w.lock)
			}
		}
	}
	if !hasDefault {
		allTerm = false
		if first {
			out, first = before, false
		} else {
			out = joinLock(out, before)
		}
	}
	if allTerm && len(list) > 0 {
		w.lock = before
		return true
	}
	if first {
		out = before
	}
	w.lock = out
	return false
}

func (w *fnWalk) block(l []ast.Stmt) bool {
	for i, s := range l {
		if w.stmt(s) {
			_ = i
			return true
		}
	}
	return false
}

func (w *fnWalk) goOrDefer(call *ast.CallExpr, how string) {
	for _, a := range call.Args {
		w.reads(a)
	}
	if fl, ok := call.Fun.(*ast.FuncLit); ok {
		// body runs later (defer) or in another goroutine (go): starts with the mutex free
		sub := &fnWalk{recv: w.recv, fields: w.fields, methods: w.methods, lock: lkFree}
		sub.block(fl.Body.List)
		if sub.usesMu {
			w.usesMu = true
		}
		evs := append([]accEvent(nil), sub.events...)
		for _, d := range sub.deferred {
			evs = append(evs, d...)
		}
		if how == "defer" {
			w.deferred = append(w.deferred, evs)
		} else {
			// accesses of an anonymous goroutine are attributed to the enclosing function, unlocked start
			w.events = append(w.events, evs...)
		}
		return
	}
	if sel, ok := call.Fun.(*ast.SelectorExpr); ok {
		if id, ok := sel.X.(*ast.Ident); ok && id.Name == w.recv && w.methods[sel.Sel.Name] {
			if how == "spawn" {
				w.emit("spawn", sel.Sel.Name)
			} else {
				w.deferred = append(w.deferred, []accEvent{{"call", sel.Sel.Name, lkFree}})
			}
			return
		}
	}
	w.reads(call.Fun)
}

var leanKeywords = map[string]bool{"end": true, "open": true, "at": true, "from": true, "fun": true, "in": true, "do": true,
	"then": true, "else": true, "if": true, "let": true, "have": true, "show": true, "with": true, "match": true, "where": true,
	"def": true, "theorem": true, "namespace": true, "section": true, "import": true, "instance": true, "structure": true,
	"class": true, "inductive": true, "by": true, "Type": true, "Prop": true, "Sort": true, "mutual": true, "private": true,
	"protected": true, "local": true, "prefix": true, "infix": true, "notation": true, "macro": true, "syntax": true,
	"deriving": true, "extends": true, "for": true, "unless": true, "return": true, "try": true, "catch": true, "finally": true,
	"variable": true, "universe": true, "example": true, "axiom": true, "opaque": true, "abbrev": true, "attribute": true,
	"name": true, "all": true}

func leanIdent(s string) string {
	if leanKeywords[s] {
		return "go_" + s
	}
	return s
}

type svcFn struct {
	name string
	w    *fnWalk
}

func genAccess(repoDir string) string {
	svc := parse(filepath.Join(repoDir, "varlink/service.go"))
	org := parse(filepath.Join(repoDir, "varlink/orgvarlinkservice.go"))

	// fields of Service, in declaration order
	var fieldNames []string
	fields := map[string]bool{}
	if st := findStruct(svc, "", "Service"); st != nil {
		for _, f := range st.Fields.List {
			for _, n := range f.Names {
				fieldNames = append(fieldNames, n.Name)
				fields[n.Name] = true
			}
		}
	}
	// methods with receiver *Service
	type decl struct {
		fd   *ast.FuncDecl
		recv string
	}
	var decls []decl
	methods := map[string]bool{}
	for _, f := range []*ast.File{svc, org} {
		for _, d := range f.Decls {
			fd, ok := d.(*ast.FuncDecl)
			if !ok || fd.Recv == nil || len(fd.Recv.List) != 1 || fd.Body == nil {
				continue
			}
			if exprString(fd.Recv.List[0].Type) != "*Service" {
				continue
			}
			recv := "_"
			if len(fd.Recv.List[0].Names) == 1 {
				recv = fd.Recv.List[0].Names[0].Name
			}
			decls = append(decls, decl{fd, recv})
			methods[fd.Name.Name] = true
		}
	}
	var fns []svcFn
	for _, d := range decls {
		w := &fnWalk{recv: d.recv, fields: fields, methods: methods, lock: lkFree}
		w.block(d.fd.Body.List)
		// deferred bodies run at exit, last registered first
		for i := len(w.deferred) - 1; i >= 0; i-- {
			w.events = append(w.events, w.deferred[i]...)
		}
		fns = append(fns, svcFn{d.fd.Name.Name, w})
	}

	var b strings.Builder
	b.WriteString(hdr + "namespace Varlink.Extracted\n\n")
	b.WriteString("/-- fields of `varlink.Service`, in declaration order -/\ninductive SField where\n")
	for _, f := range fieldNames {
		fmt.Fprintf(&b, "  | %s\n", leanIdent(f))
	}
	b.WriteString("  deriving DecidableEq, Repr\n\n")
	b.WriteString("def SField.all : List SField := [")
	for i, f := range fieldNames {
		if i > 0 {
			b.WriteString(", ")
		}
		b.WriteString("." + leanIdent(f))
	}
	b.WriteString("]\n\n")
	b.WriteString("def SField.goName : SField → String\n")
	for _, f := range fieldNames {
		fmt.Fprintf(&b, "  | .%s => %s\n", leanIdent(f), leanStr(f))
	}
	b.WriteString("\n/-- functions with receiver `*Service` in service.go and orgvarlinkservice.go, in source order -/\ninductive Fn where\n")
	for _, f := range fns {
		fmt.Fprintf(&b, "  | %s\n", leanIdent(f.name))
	}
	b.WriteString("  deriving DecidableEq, Repr\n\n")
	b.WriteString("def Fn.all : List Fn := [")
	for i, f := range fns {
		if i > 0 {
			b.WriteString(", ")
		}
		b.WriteString("." + leanIdent(f.name))
	}
	b.WriteString("]\n\n")
	b.WriteString("def Fn.goName : Fn → String\n")
	for _, f := range fns {
		fmt.Fprintf(&b, "  | .%s => %s\n", leanIdent(f.name), leanStr(f.name))
	}
	b.WriteString(`
/-- state of ` + "`s.mutex`" + ` at a program point, from the structured walk -/
inductive LockSt where
  | free | held | unknown
  deriving DecidableEq, Repr

inductive AccEv where
  | read (f : SField)
  | write (f : SField)
  | call (g : Fn)       -- ` + "`s.g(...)`" + ` in the same goroutine
  | spawn (g : Fn)      -- ` + "`go s.g(...)`" + `
  deriving DecidableEq, Repr

structure Access where
  fn : Fn
  ev : AccEv
  lock : LockSt
  deriving DecidableEq, Repr

`)
	b.WriteString("/-- every access of a Service field, call and spawn, per function in source order (deferred bodies last) -/\ndef serviceAccesses : List Access := [\n")
	first := true
	for _, f := range fns {
		for _, e := range f.w.events {
			if !first {
				b.WriteString(",\n")
			}
			first = false
			fmt.Fprintf(&b, "  ⟨.%s, .%s .%s, %s⟩", leanIdent(f.name), e.kind, leanIdent(e.target), e.lock.lean())
		}
	}
	b.WriteString("]\n\n")

	// guard of RegisterInterface
	var guards []guardCond
	for _, f := range fns {
		if f.name == "RegisterInterface" {
			guards = f.w.guardsAtTableWrite
		}
	}
	b.WriteString("/-- RegisterInterface: conditions of the `if … { return … }` statements that precede the first write of an\n    interface table (interfaces / descriptions / names), with the lock state at the condition -/\ndef registerInterfaceGuards : List (String × LockSt) := [")
	for i, g := range guards {
		if i > 0 {
			b.WriteString(", ")
		}
		fmt.Fprintf(&b, "(%s, %s)", leanStr(g.cond), g.lock.lean())
	}
	b.WriteString("]\n\n")
	var du []string
	for _, f := range fns {
		if f.w.deferUn {
			du = append(du, "."+leanIdent(f.name))
		}
	}
	sort.Strings(du)
	fmt.Fprintf(&b, "/-- functions that release the mutex with `defer s.mutex.Unlock()` -/\ndef deferUnlockFns : List Fn := [%s]\n\n", strings.Join(du, ", "))
	var mu []string
	for _, f := range fns {
		if f.w.usesMu {
			mu = append(mu, "."+leanIdent(f.name))
		}
	}
	sort.Strings(mu)
	fmt.Fprintf(&b, "/-- functions whose body (closures, deferred and go bodies included) locks or unlocks `s.mutex` -/\ndef mutexFns : List Fn := [%s]\n\n", strings.Join(mu, ", "))

	// ---- ctxio skeleton ----------------------------------------------------------------------
	cx := parse(filepath.Join(repoDir, "varlink/internal/ctxio/conn.go"))
	b.WriteString(`/-- one step of a ctxio operation's skeleton.
    objects: "conn" (the net.Conn, safe for concurrent use), "reader" (the bufio.Reader), "buf" (the caller's
    buffer / the delimiter argument), "ch" (the result channel) -/
inductive CxStep where
  | use (obj : String) (method : String)    -- c.<obj>.<method>(…), or use of the caller's buffer
  | deadline (which : String) (arg : String) -- SetReadDeadline / SetWriteDeadline with arg ctx | past | zero | other
  | exitIfErr                                -- ` + "`if err != nil { return }`" + ` guarding the preceding call
  | mkchan (cap : Nat)
  | spawn                                    -- ` + "`go func() {…}()`" + `
  | send                                     -- ch <- …
  | recv                                     -- <-ch
  | ret (what : String)                      -- return: "ctxerr" | "result" | "other"
  deriving DecidableEq, Repr

structure CxOp where
  name : String
  pre : List CxStep            -- caller, up to and including the spawn
  helper : List CxStep         -- body of the helper goroutine
  cancelArm : List CxStep      -- ` + "`case <-ctx.Done():`" + `
  doneArm : List CxStep        -- ` + "`case ret := <-ch:`" + ` (the receive is the first step)
  otherArms : Nat              -- further select arms (none expected)
  post : List CxStep           -- statements after the select (none expected)
  deriving Repr

`)
	var names []string
	for _, m := range []string{"Read", "ReadBytes", "Write"} {
		op := cxSkeleton(cx, m)
		names = append(names, "ctxio"+m+"Op")
		fmt.Fprintf(&b, "def ctxio%sOp : CxOp :=\n  { name := %s,\n    pre := %s,\n    helper := %s,\n    cancelArm := %s,\n    doneArm := %s,\n    otherArms := %d,\n    post := %s }\n\n",
			m, leanStr(m), leanSteps(op.pre), leanSteps(op.helper), leanSteps(op.cancel), leanSteps(op.done), op.other, leanSteps(op.post))
	}
	fmt.Fprintf(&b, "def ctxioOps : List CxOp := [%s]\n\n", strings.Join(names, ", "))
	b.WriteString("end Varlink.Extracted\n")
	return b.String()
}

// ---- ctxio skeleton ---------------------------------------------------------------------------

type cxOp struct {
	pre, helper, cancel, done, post []string
	other                           int
}

func leanSteps(xs []string) string { return "[" + strings.Join(xs, ", ") + "]" }

func cxSkeleton(f *ast.File, method string) cxOp {
	var op cxOp
	for _, d := range f.Decls {
		fd, ok := d.(*ast.FuncDecl)
		if !ok || fd.Name.Name != method || fd.Recv == nil || fd.Body == nil {
			continue
		}
		recv := "c"
		if len(fd.Recv.List) == 1 && len(fd.Recv.List[0].Names) == 1 {
			recv = fd.Recv.List[0].Names[0].Name
		}
		params := map[string]bool{}
		for _, p := range fd.Type.Params.List {
			for _, n := range p.Names {
				if n.Name != "ctx" {
					params[n.Name] = true
				}
			}
		}
		x := &cxWalk{recv: recv, params: params}
		seenSelect := false
		for _, st := range fd.Body.List {
			switch t := st.(type) {
			case *ast.SelectStmt:
				seenSelect = true
				for _, c := range t.Body.List {
					cc := c.(*ast.CommClause)
					var steps []string
					kind := "other"
					if cc.Comm != nil {
						if recvFrom(cc.Comm) == "ctx.Done()" {
							kind = "cancel"
						} else if recvFrom(cc.Comm) == "ch" {
							kind = "done"
							steps = append(steps, ".recv")
						}
					}
					for _, s := range cc.Body {
						steps = append(steps, x.steps(s)...)
					}
					switch kind {
					case "cancel":
						op.cancel = steps
					case "done":
						op.done = steps
					default:
						op.other++
					}
				}
			default:
				if seenSelect {
					op.post = append(op.post, x.steps(st)...)
				} else {
					op.pre = append(op.pre, x.steps(st)...)
				}
			}
		}
		op.helper = x.helper
	}
	return op
}

type cxWalk struct {
	recv   string
	params map[string]bool
	helper []string
}

// recvFrom: for `<-X` or `v := <-X` returns printed X
func recvFrom(s ast.Stmt) string {
	var e ast.Expr
	switch t := s.(type) {
	case *ast.ExprStmt:
		e = t.X
	case *ast.AssignStmt:
		if len(t.Rhs) == 1 {
			e = t.Rhs[0]
		}
	}
	if ue, ok := e.(*ast.UnaryExpr); ok && ue.Op == token.ARROW {
		return printNode(ue.X)
	}
	return ""
}

func (x *cxWalk) steps(s ast.Stmt) []string {
	var out []string
	switch t := s.(type) {
	case *ast.IfStmt:
		if t.Init != nil {
			out = append(out, x.steps(t.Init)...)
		}
		out = append(out, x.expr(t.Cond)...)
		// `if err != nil { return … }`
		if endsInReturn(t.Body.List) {
			out = append(out, ".exitIfErr")
		} else {
			for _, b := range t.Body.List {
				out = append(out, x.steps(b)...)
			}
		}
		if t.Else != nil {
			out = append(out, x.steps(t.Else)...)
		}
	case *ast.BlockStmt:
		for _, b := range t.List {
			out = append(out, x.steps(b)...)
		}
	case *ast.AssignStmt:
		for _, r := range t.Rhs {
			out = append(out, x.expr(r)...)
		}
	case *ast.ExprStmt:
		out = append(out, x.expr(t.X)...)
	case *ast.SendStmt:
		out = append(out, x.expr(t.Value)...)
		if printNode(t.Chan) == "ch" {
			out = append(out, ".send")
		}
	case *ast.GoStmt:
		if fl, ok := t.Call.Fun.(*ast.FuncLit); ok {
			h := &cxWalk{recv: x.recv, params: x.params}
			for _, b := range fl.Body.List {
				x.helper = append(x.helper, h.steps(b)...)
			}
		}
		out = append(out, ".spawn")
	case *ast.ReturnStmt:
		what := "other"
		for _, r := range t.Results {
			p := printNode(r)
			if p == "ctx.Err()" {
				what = "ctxerr"
			} else if strings.HasPrefix(p, "ret.") && what != "ctxerr" {
				what = "result"
			}
		}
		out = append(out, fmt.Sprintf(".ret %s", leanStr(what)))
	case *ast.DeclStmt:
	}
	return out
}

func (x *cxWalk) expr(e ast.Expr) []string {
	var out []string
	ast.Inspect(e, func(n ast.Node) bool {
		switch t := n.(type) {
		case *ast.UnaryExpr:
			if t.Op == token.ARROW && printNode(t.X) == "ch" {
				out = append(out, ".recv")
				return false
			}
		case *ast.CallExpr:
			name := printNode(t.Fun)
			if name == "make" && len(t.Args) >= 1 {
				if _, ok := t.Args[0].(*ast.ChanType); ok {
					capn := "0"
					if len(t.Args) == 2 {
						capn = printNode(t.Args[1])
					}
					out = append(out, ".mkchan "+capn)
					return false
				}
			}
			if sel, ok := t.Fun.(*ast.SelectorExpr); ok {
				if inner, ok := sel.X.(*ast.SelectorExpr); ok {
					if id, ok := inner.X.(*ast.Ident); ok && id.Name == x.recv {
						m := sel.Sel.Name
						if strings.HasSuffix(m, "Deadline") {
							arg := "other"
							if len(t.Args) == 1 {
								switch a := printNode(t.Args[0]); a {
								case "dl":
									arg = "ctx"
								case "aLongTimeAgo":
									arg = "past"
								case "time.Time{}":
									arg = "zero"
								}
							}
							out = append(out, fmt.Sprintf(".deadline %s %s", leanStr(m), leanStr(arg)))
						} else {
							out = append(out, fmt.Sprintf(".use %s %s", leanStr(inner.Sel.Name), leanStr(m)))
						}
						for _, a := range t.Args {
							if id, ok := a.(*ast.Ident); ok && x.params[id.Name] {
								out = append(out, fmt.Sprintf(".use \"buf\" %s", leanStr(id.Name)))
							}
						}
						return false
					}
				}
			}
		}
		return true
	})
	return out
}
