package main

import (
	"path/filepath"
	"strings"
)

// Idl.lean: the string literals of varlink/idl/idl.go the Lean model of the parser is written against — the two
// regular expressions of readInterfaceName, the keywords compared in readType / readIDL, and the error messages.
// VarlinkProofs/Props/C05.lean states them as a theorem, so a change of any of them in the source breaks the build
// of the property (in addition to the differential run, which compares behaviour).
func init() {
	generators = append(generators, generator{"Idl.lean", genIdl})
}

func nonEmpty(xs []string) []string {
	var out []string
	for _, x := range xs {
		if x != "" {
			out = append(out, x)
		}
	}
	return out
}

func genIdl(repoDir string) string {
	f := parse(filepath.Join(repoDir, "varlink", "idl", "idl.go"))
	var b strings.Builder
	b.WriteString(hdr)
	b.WriteString("namespace Varlink.Extracted\n\n")
	b.WriteString(leanStrList("idlNameRegexps", "the patterns compiled in readInterfaceName, in order", nonEmpty(stringLits(f, "readInterfaceName"))))
	b.WriteString(leanStrList("idlTypeKeywords", "string literals of readType (map key and builtin type keywords), in order", nonEmpty(stringLits(f, "readType"))))
	b.WriteString(leanStrList("idlMemberStrings", "string literals of readIDL (keywords and messages), in order", nonEmpty(stringLits(f, "readIDL"))))
	var msgs []string
	for _, fn := range []string{"readAlias", "readMethod", "readError", "New"} {
		msgs = append(msgs, nonEmpty(stringLits(f, fn))...)
	}
	b.WriteString(leanStrList("idlMessages", "error messages of readAlias, readMethod, readError, New, in order", msgs))
	b.WriteString("end Varlink.Extracted\n")
	return b.String()
}
