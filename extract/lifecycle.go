package main

// Synchronisation skeleton of varlink/service.go for the lifecycle model (C14, C15):
// every lifecycle function is reduced to the ordered list of its synchronisation-relevant operations
// (lock/unlock, reads and writes of Service fields, listener calls, wait-group calls, go, defer, calls of
// other Service methods, control flow with the guards reduced to what they read, returns by class).
// Names of locals, messages and formatting are ignored. The result is lean/Varlink/Extracted/Skeleton.lean;
// lean/Varlink/Expected.lean holds what the transition system was written against, and
// `skeleton_matches` (VarlinkProofs/Props/C14.lean) compares the two by `decide`.

import (
	"fmt"
	"go/ast"
	"go/token"
	"path/filepath"
	"strings"
)

var lifecycleFuncs = []string{
	"Shutdown", "handleConnection", "isRunning", "teardown", "GetListener", "setListener", "refreshTimeout",
	"Bind", "bind", "Listen", "DoListen", "RegisterInterface",
}

// fields of Service that matter for the lifecycle
var lifecycleFields = map[string]bool{
	"running": true, "listener": true, "conncounter": true, "mutex": true, "protocol": true, "address": true,
	"interfaces": true, "names": true, "descriptions": true,
}

type skel struct {
	recv string // receiver name
	ops  []string
}

func (k *skel) emit(s string) { k.ops = append(k.ops, s) }

// recvField returns the field name if e is <recv>.<field> for a lifecycle field.
func (k *skel) recvField(e ast.Expr) (string, bool) {
	se, ok := e.(*ast.SelectorExpr)
	if !ok {
		return "", false
	}
	id, ok := se.X.(*ast.Ident)
	if !ok || id.Name != k.recv || !lifecycleFields[se.Sel.Name] {
		return "", false
	}
	return se.Sel.Name, true
}

// expr emits the operations of an expression in source order.
func (k *skel) expr(e ast.Expr) {
	switch t := e.(type) {
	case nil:
	case *ast.CallExpr:
		k.call(t)
	case *ast.SelectorExpr:
		if f, ok := k.recvField(t); ok {
			k.emit("read " + f)
			return
		}
		k.expr(t.X)
	case *ast.BinaryExpr:
		k.expr(t.X)
		k.expr(t.Y)
	case *ast.UnaryExpr:
		k.expr(t.X)
	case *ast.ParenExpr:
		k.expr(t.X)
	case *ast.StarExpr:
		k.expr(t.X)
	case *ast.IndexExpr:
		k.expr(t.X)
		k.expr(t.Index)
	case *ast.TypeAssertExpr:
		k.expr(t.X)
	case *ast.CompositeLit:
		for _, el := range t.Elts {
			k.expr(el)
		}
	case *ast.KeyValueExpr:
		k.expr(t.Value)
	case *ast.FuncLit:
		k.emit("func{")
		k.block(t.Body)
		k.emit("}")
	}
}

func (k *skel) call(c *ast.CallExpr) {
	// arguments first (they are evaluated before the call)
	name := ""
	switch f := c.Fun.(type) {
	case *ast.SelectorExpr:
		if inner, ok := k.recvField(f.X); ok { // s.mutex.Lock(), s.listener.Close()
			switch {
			case inner == "mutex" && f.Sel.Name == "Lock":
				k.emit("lock")
				return
			case inner == "mutex" && f.Sel.Name == "Unlock":
				k.emit("unlock")
				return
			}
			for _, a := range c.Args {
				k.expr(a)
			}
			k.emit("read " + inner)
			k.emit("call field." + inner + "." + f.Sel.Name)
			return
		}
		if id, ok := f.X.(*ast.Ident); ok {
			switch {
			case id.Name == k.recv: // another method of Service
				name = "call " + f.Sel.Name
			case id.Name == "wg":
				name = "wg." + f.Sel.Name
			case f.Sel.Name == "Accept" || f.Sel.Name == "SetDeadline" || f.Sel.Name == "Close" || f.Sel.Name == "SetUnlinkOnClose":
				name = "call local." + f.Sel.Name
			case id.Name == "fmt" && f.Sel.Name == "Errorf":
				name = "errorf"
			case id.Name == "os" && f.Sel.Name == "Remove":
				name = "os.Remove"
			case f.Sel.Name == "ReadBytes":
				name = "conn.ReadBytes"
			case id.Name == "ctxio" || id.Name == "context" || id.Name == "time" || id.Name == "strings":
				name = "" // pure helpers
			default:
				name = ""
			}
		} else {
			// e.g. err.(net.Error).Timeout(), l.(*net.UnixListener).SetUnlinkOnClose(true), time.Now().Add(..)
			switch f.Sel.Name {
			case "Timeout":
				name = "is-timeout"
			case "SetUnlinkOnClose":
				name = "call local.SetUnlinkOnClose"
			case "ReadBytes":
				name = "conn.ReadBytes"
			}
			k.expr(f.X)
		}
	case *ast.Ident:
		switch f.Name {
		case "listen", "activationListener", "cancel":
			name = "call " + f.Name
		case "append", "len", "make":
			name = ""
		}
	case *ast.FuncLit:
		k.expr(f)
	}
	for _, a := range c.Args {
		k.expr(a)
	}
	if name != "" {
		k.emit(name)
	}
}

func (k *skel) lhs(e ast.Expr) {
	if f, ok := k.recvField(e); ok {
		k.emit("write " + f)
		return
	}
	if ix, ok := e.(*ast.IndexExpr); ok { // s.interfaces[name] = ...
		if f, ok := k.recvField(ix.X); ok {
			k.expr(ix.Index)
			k.emit("write " + f)
			return
		}
	}
}

// guard reduces a condition to what it reads.
func (k *skel) guard(e ast.Expr) string {
	sub := &skel{recv: k.recv}
	sub.expr(e)
	neg := ""
	if u, ok := e.(*ast.UnaryExpr); ok && u.Op == token.NOT {
		neg = "!"
	}
	cmp := ""
	if b, ok := e.(*ast.BinaryExpr); ok {
		switch b.Op {
		case token.EQL, token.NEQ, token.GTR, token.LSS, token.LOR, token.LAND:
			cmp = b.Op.String()
			if id, ok := b.Y.(*ast.Ident); ok {
				cmp += id.Name
			} else if bl, ok := b.Y.(*ast.BasicLit); ok {
				cmp += bl.Value
			}
			if id, ok := b.X.(*ast.Ident); ok {
				cmp = id.Name + cmp
			}
		}
	}
	if id, ok := e.(*ast.Ident); ok {
		cmp = id.Name
	}
	return neg + strings.Join(sub.ops, ",") + cmp
}

func (k *skel) block(b *ast.BlockStmt) {
	if b == nil {
		return
	}
	for _, s := range b.List {
		k.stmt(s)
	}
}

func (k *skel) stmt(s ast.Stmt) {
	switch t := s.(type) {
	case *ast.ExprStmt:
		k.expr(t.X)
	case *ast.AssignStmt:
		for _, r := range t.Rhs {
			k.expr(r)
		}
		val := ""
		if len(t.Lhs) == 1 && len(t.Rhs) == 1 { // the constant written, when it is one
			switch r := t.Rhs[0].(type) {
			case *ast.Ident:
				if r.Name == "true" || r.Name == "false" || r.Name == "nil" {
					val = "=" + r.Name
				}
			case *ast.BasicLit:
				val = "=" + r.Value
			}
		}
		for _, l := range t.Lhs {
			n := len(k.ops)
			k.lhs(l)
			if val != "" && len(k.ops) == n+1 {
				k.ops[n] += val
			}
		}
	case *ast.IncDecStmt:
		if f, ok := k.recvField(t.X); ok {
			if t.Tok == token.INC {
				k.emit("inc " + f)
			} else {
				k.emit("dec " + f)
			}
		}
	case *ast.DeclStmt:
		// var wg sync.WaitGroup / var err error: nothing
	case *ast.DeferStmt:
		if se, ok := t.Call.Fun.(*ast.SelectorExpr); ok {
			if inner, ok := k.recvField(se.X); ok && inner == "mutex" && se.Sel.Name == "Unlock" {
				k.emit("defer unlock")
				return
			}
		}
		k.emit("defer{")
		if fl, ok := t.Call.Fun.(*ast.FuncLit); ok {
			k.block(fl.Body)
		} else {
			k.call(t.Call)
		}
		k.emit("}")
	case *ast.GoStmt:
		sub := &skel{recv: k.recv}
		sub.call(t.Call)
		k.emit("go " + strings.Join(sub.ops, ","))
	case *ast.ReturnStmt:
		cls := "return"
		for _, r := range t.Results {
			switch rr := r.(type) {
			case *ast.Ident:
				cls += " " + map[bool]string{true: "nil", false: "var"}[rr.Name == "nil"]
			case *ast.CompositeLit:
				cls += " " + exprString(rr.Type)
			case *ast.CallExpr:
				sub := &skel{recv: k.recv}
				sub.call(rr)
				cls += " " + strings.Join(sub.ops, ",")
			case *ast.SelectorExpr:
				if f, ok := k.recvField(rr); ok {
					cls += " read " + f
				} else {
					cls += " sel"
				}
			default:
				cls += " expr"
			}
		}
		k.emit(cls)
	case *ast.BranchStmt:
		k.emit(strings.ToLower(t.Tok.String()))
	case *ast.IfStmt:
		if t.Init != nil {
			k.stmt(t.Init)
		}
		k.emit("if " + k.guard(t.Cond) + " {")
		k.block(t.Body)
		k.emit("}")
		if t.Else != nil {
			k.emit("else {")
			switch e := t.Else.(type) {
			case *ast.BlockStmt:
				k.block(e)
			default:
				k.stmt(e)
			}
			k.emit("}")
		}
	case *ast.ForStmt:
		g := ""
		if t.Cond != nil {
			g = k.guard(t.Cond)
		}
		k.emit("for " + g + " {")
		k.block(t.Body)
		k.emit("}")
	case *ast.SwitchStmt:
		k.emit("switch {")
		for _, c := range t.Body.List {
			cc := c.(*ast.CaseClause)
			k.emit("case {")
			for _, b := range cc.Body {
				k.stmt(b)
			}
			k.emit("}")
		}
		k.emit("}")
	case *ast.TypeSwitchStmt:
		// switch l := s.listener.(type)
		if as, ok := t.Assign.(*ast.AssignStmt); ok {
			for _, r := range as.Rhs {
				k.expr(r)
			}
		} else if es, ok := t.Assign.(*ast.ExprStmt); ok {
			k.expr(es.X)
		}
		k.emit("typeswitch {")
		for _, c := range t.Body.List {
			cc := c.(*ast.CaseClause)
			var tys []string
			for _, e := range cc.List {
				tys = append(tys, exprString(e))
			}
			k.emit("case " + strings.Join(tys, ",") + " {")
			for _, b := range cc.Body {
				k.stmt(b)
			}
			k.emit("}")
		}
		k.emit("}")
	case *ast.BlockStmt:
		k.block(t)
	}
}

func genSkeleton(repo string) string {
	f := parse(filepath.Join(repo, "varlink/service.go"))
	got := map[string][]string{}
	for _, d := range f.Decls {
		fd, ok := d.(*ast.FuncDecl)
		if !ok || fd.Recv == nil || fd.Body == nil || len(fd.Recv.List) != 1 || len(fd.Recv.List[0].Names) != 1 {
			continue
		}
		if exprString(fd.Recv.List[0].Type) != "*Service" {
			continue
		}
		k := &skel{recv: fd.Recv.List[0].Names[0].Name}
		k.block(fd.Body)
		got[fd.Name.Name] = k.ops
	}
	var b strings.Builder
	b.WriteString(hdr + "namespace Varlink.Extracted\n\n")
	b.WriteString("/-- synchronisation skeleton of the lifecycle functions of service.go: (function, operations in source order) -/\n")
	b.WriteString("def skeleton : List (String × List String) := [\n")
	for i, name := range lifecycleFuncs {
		ops := got[name]
		q := make([]string, len(ops))
		for j, o := range ops {
			q[j] = leanStr(o)
		}
		sep := ","
		if i == len(lifecycleFuncs)-1 {
			sep = ""
		}
		fmt.Fprintf(&b, "  (%s, [%s])%s\n", leanStr(name), strings.Join(q, ", "), sep)
	}
	b.WriteString("]\n\nend Varlink.Extracted\n")
	return b.String()
}

func init() {
	generators = append(generators, generator{"Skeleton.lean", genSkeleton})
}
