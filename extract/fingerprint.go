package main

// Code fingerprints: for every function the hand-written Lean models transliterate, the SHA-256 of its
// declaration printed by go/printer from the comment-free AST (so formatting and comments do not matter,
// any other change does). lean/Varlink/ExpectedCode.lean records the fingerprints of the code the models
// were validated against; each Props file states `modelled_code_unchanged` for the functions it depends
// on, by `decide`. A change to modelled code therefore breaks a proof obligation; the check then searches
// the streams for a failing input and reports `no-failing-input-found` when there is none.

import (
	"bytes"
	"crypto/sha256"
	"fmt"
	"go/ast"
	"go/parser"
	"go/printer"
	"go/token"
	"os"
	"path/filepath"
	"sort"
	"strings"
)

var fingerprintFiles = []string{
	"varlink/call.go", "varlink/service.go", "varlink/orgvarlinkservice.go", "varlink/connection.go",
	"varlink/resolver.go", "varlink/socketactivation.go", "varlink/listen_1.11.go", "varlink/bridge.go",
	"varlink/newbridge.go", "varlink/internal/ctxio/conn.go", "varlink/idl/idl.go",
	"cmd/varlink-go-interface-generator/main.go",
}

// which declarations each property's hand-written model transliterates
var (
	replyPath    = []string{"call:Call.sendMessage", "call:Call.Reply", "call:Call.ReplyError", "call:type Call", "orgvarlinkservice:doReplyError", "orgvarlinkservice:Call.ReplyInterfaceNotFound", "orgvarlinkservice:Call.ReplyMethodNotFound", "orgvarlinkservice:Call.ReplyMethodNotImplemented", "orgvarlinkservice:Call.ReplyInvalidParameter", "service:type serviceCall", "service:type serviceReply"}
	servicePath  = []string{"service:Service.HandleMessage", "service:Service.handleConnection", "orgvarlinkservice:Service.orgvarlinkserviceDispatch", "service:Service.getInfo", "service:Service.getInterfaceDescription", "orgvarlinkservice:Call.replyGetInfo", "orgvarlinkservice:Call.replyGetInterfaceDescription", "call:Call.GetParameters"}
	clientPath   = []string{"connection:Connection.Send", "connection:Connection.Call", "connection:Error.DispatchError", "connection:Error.Error", "connection:type Error", "connection:const More,Oneway,Continues,Upgrade", "orgvarlinkservice:type InterfaceNotFound", "orgvarlinkservice:type MethodNotFound", "orgvarlinkservice:type MethodNotImplemented", "orgvarlinkservice:type InvalidParameter"}
	readerPath   = []string{"conn:Conn.Read", "conn:Conn.ReadBytes", "conn:Conn.Write", "conn:NewConn", "conn:type Conn"}
	idlAll       = []string{"idl:New", "idl:isBlank", "idl:parser.advance", "idl:parser.backup", "idl:parser.next", "idl:parser.peek", "idl:parser.readAlias", "idl:parser.readError", "idl:parser.readFieldName", "idl:parser.readIDL", "idl:parser.readInterfaceName", "idl:parser.readKeyword", "idl:parser.readMethod", "idl:parser.readStructType", "idl:parser.readType", "idl:parser.readTypeName", "idl:type parser", "idl:type Type", "idl:type TypeField", "idl:type TypeKind", "idl:type Alias", "idl:type Method", "idl:type Error", "idl:type IDL", "idl:const TypeBool,TypeInt,TypeFloat,TypeString,TypeObject,TypeArray,TypeMaybe,TypeMap,TypeStruct,TypeEnum,TypeAlias"}
	genAll       = []string{"gen:writeType", "gen:writeDocString", "gen:generateTemplate", "gen:resolvesToObject", "gen:type source"}
	lifecycleAll = []string{"service:Service.Bind", "service:Service.bind", "service:Service.Listen", "service:Service.DoListen", "service:Service.Shutdown", "service:Service.teardown", "service:Service.isRunning", "service:Service.setListener", "service:Service.GetListener", "service:Service.refreshTimeout", "service:Service.handleConnection", "service:Service.RegisterInterface", "service:type Service"}
)

func cat(ls ...[]string) []string {
	var out []string
	seen := map[string]bool{}
	for _, l := range ls {
		for _, x := range l {
			if !seen[x] {
				seen[x] = true
				out = append(out, x)
			}
		}
	}
	return out
}

var modelledBy = map[string][]string{
	"C01": cat(replyPath, servicePath, readerPath, []string{"call:Call.IsOneway", "call:Call.WantsMore", "call:Call.WantsUpgrade"}),
	"C02": cat(replyPath, readerPath, servicePath, []string{"connection:Connection.Send", "connection:Connection.Call"}),
	"C03": cat(clientPath, replyPath, []string{"call:Call.GetParameters", "bridge:type PipeCon", "bridge:PipeCon.Read", "bridge:PipeCon.Write", "newbridge:NewBridgeWithStderr", "bridge:NewBridge", "bridge:PipeCon.Close", "bridge:PipeCon.LocalAddr", "bridge:PipeCon.RemoteAddr", "bridge:PipeCon.SetDeadline", "bridge:PipeCon.SetReadDeadline", "bridge:PipeCon.SetWriteDeadline", "bridge:var _", "connection:type Connection", "connection:Connection.Close", "connection:NewConnection", "conn:Conn.Read", "conn:Conn.ReadBytes", "conn:Conn.Write", "conn:NewConn", "conn:type Conn"}),
	"C04": cat(servicePath, []string{"service:type Service", "service:type dispatcher", "service:Service.RegisterInterface", "service:NewService"}),
	"C05": idlAll, "C06": idlAll, "C09": idlAll,
	"C07": cat(genAll, []string{"gen:generateFile", "gen:main"}),
	"C08": cat(genAll, clientPath, replyPath, []string{"call:Call.IsOneway", "call:Call.WantsMore", "call:Call.WantsUpgrade", "call:Call.GetParameters", "connection:Connection.Upgrade"}),
	"C10": cat(servicePath, readerPath, lifecycleAll, []string{"call:Call.sendMessage", "conn:Conn.Close"}),
	"C11": cat(clientPath, []string{"conn:Conn.ReadBytes", "conn:Conn.Write", "connection:type Connection", "connection:Connection.Close", "connection:type ReadWriterContext"}),
	"C12": cat(replyPath, clientPath, []string{"orgvarlinkservice:InterfaceNotFound.Error", "orgvarlinkservice:InvalidParameter.Error", "orgvarlinkservice:MethodNotFound.Error", "orgvarlinkservice:MethodNotImplemented.Error"}),
	// (everything that writes `running` / `conncounter`, which the registration guard reads, belongs to C13 too)
	"C13": cat(lifecycleAll, []string{"service:Service.RegisterInterface", "service:NewService", "service:Service.getInfo",
		"service:Service.getInterfaceDescription", "service:type Service",
		"orgvarlinkservice:Call.replyGetInfo", "orgvarlinkservice:Call.replyGetInterfaceDescription",
		"orgvarlinkservice:Service.orgvarlinkserviceDispatch",
		"orgvarlinkservice:orgvarlinkserviceInterface.VarlinkGetDescription",
		"connection:Connection.GetInfo", "connection:Connection.GetInterfaceDescription",
		"resolver:Resolver.GetInfo", "resolver:Resolver.Resolve", "resolver:NewResolver", "resolver:Resolver.Close", "resolver:const ResolverAddress", "resolver:type Resolver",
		"orgvarlinkservice:orgvarlinkserviceInterface.VarlinkDispatch", "orgvarlinkservice:orgvarlinkserviceInterface.VarlinkGetName", "orgvarlinkservice:orgvarlinkserviceNew", "orgvarlinkservice:type orgvarlinkserviceInterface"}),
	"C14": cat(lifecycleAll, []string{"conn:Conn.ReadBytes", "conn:Conn.Close", "conn:NewConn"}), "C15": cat(lifecycleAll, []string{"conn:Conn.ReadBytes", "conn:Conn.Close", "conn:NewConn", "service:ServiceTimeoutError.Error", "service:type ServiceTimeoutError"}),
	"C16": cat(lifecycleAll, readerPath, []string{"service:Service.HandleMessage", "service:Service.getInfo", "service:Service.getInterfaceDescription"}),
	"C17": cat(readerPath, []string{"conn:var aLongTimeAgo", "bridge:PipeCon.SetReadDeadline", "bridge:PipeCon.SetWriteDeadline", "service:Service.handleConnection",
		"connection:Connection.Send", "connection:Connection.Call", "connection:Connection.Upgrade", "conn:Conn.Close", "conn:Conn.NetConn", "conn:type ioret", "conn:type rret", "bridge:PipeCon.Close", "bridge:type PipeCon", "newbridge:NewBridgeWithStderr"}),
	"C18": cat(readerPath, []string{"service:Service.HandleMessage", "service:Service.handleConnection", "connection:Connection.Upgrade", "call:type Call", "connection:type ReadWriterContext", "connection:type GetNetConn", "conn:Conn.NetConn", "connection:type Connection"}),
	"C19": cat(lifecycleAll, []string{"service:Service.parseAddress", "service:Service.Bind", "service:Service.bind", "service:Service.setListener", "service:Service.teardown",
		"connection:NewConnection", "listen_1.11:listen"}),
	"C20": {"socketactivation:activationListener", "service:Service.setListener", "service:Service.bind", "service:Service.Bind"},
}

func declName(fd *ast.FuncDecl) string {
	if fd.Recv != nil && len(fd.Recv.List) == 1 {
		t := fd.Recv.List[0].Type
		if s, ok := t.(*ast.StarExpr); ok {
			t = s.X
		}
		if id, ok := t.(*ast.Ident); ok {
			return id.Name + "." + fd.Name.Name
		}
	}
	return fd.Name.Name
}

func genFingerprints(repo string) string {
	type fp struct{ name, hash string }
	var all []fp
	for _, rel := range fingerprintFiles {
		fs := token.NewFileSet()
		f, err := parser.ParseFile(fs, filepath.Join(repo, rel), nil, 0) // no comments
		if err != nil {
			all = append(all, fp{rel + ":PARSE-ERROR", ""})
			continue
		}
		base := strings.TrimSuffix(filepath.Base(rel), ".go")
		if strings.HasPrefix(rel, "cmd/") {
			base = "gen"
		}
		for _, d := range f.Decls {
			var buf bytes.Buffer
			var name string
			switch dd := d.(type) {
			case *ast.FuncDecl:
				name = base + ":" + declName(dd)
				printer.Fprint(&buf, fs, dd)
			case *ast.GenDecl:
				if dd.Tok != token.TYPE && dd.Tok != token.CONST && dd.Tok != token.VAR {
					continue
				}
				var ns []string
				for _, s := range dd.Specs {
					switch sp := s.(type) {
					case *ast.TypeSpec:
						ns = append(ns, sp.Name.Name)
					case *ast.ValueSpec:
						for _, n := range sp.Names {
							ns = append(ns, n.Name)
						}
					}
				}
				name = base + ":" + strings.ToLower(dd.Tok.String()) + " " + strings.Join(ns, ",")
				printer.Fprint(&buf, fs, dd)
			default:
				continue
			}
			all = append(all, fp{name, fmt.Sprintf("%x", sha256.Sum256(buf.Bytes()))[:32]})
		}
	}
	byName := map[string]string{}
	for _, x := range all {
		byName[x.name] = x.hash
	}
	var b strings.Builder
	b.WriteString(hdr + "namespace Varlink.Extracted\n\n")
	props := make([]string, 0, len(modelledBy))
	for p := range modelledBy {
		props = append(props, p)
	}
	sort.Strings(props)
	for _, p := range props {
		names := modelledBy[p]
		fmt.Fprintf(&b, "/-- declarations the model behind %s transliterates (file:declaration) -/\ndef codeNames_%s : List String := [", p, p)
		for i, n := range names {
			if i > 0 {
				b.WriteString(", ")
			}
			b.WriteString(leanStr(n))
		}
		fmt.Fprintf(&b, "]\n\n/-- their fingerprints, in the same order: first 128 bits of the SHA-256 of the comment-free go/printer rendering (0 = the declaration no longer exists) -/\ndef code_%s : List Nat := [", p)
		for i, n := range names {
			if i > 0 {
				b.WriteString(", ")
			}
			if h, ok := byName[n]; ok {
				b.WriteString("0x" + h)
			} else {
				b.WriteString("0")
			}
		}
		b.WriteString("]\n\n")
	}
	// every declaration of the fingerprinted files, assigned to a property or not: a NEW declaration (say a
	// MarshalJSON method, an init function, a package variable) can change behaviour without touching the
	// text of any existing declaration, so the set of declaration names is pinned as well
	assigned := map[string]bool{}
	for _, names := range modelledBy {
		for _, n := range names {
			assigned[n] = true
		}
	}
	var allNames, unassigned []string
	for _, x := range all {
		allNames = append(allNames, x.name)
		if !assigned[x.name] {
			unassigned = append(unassigned, x.name)
		}
	}
	// …and the set of Go source files of the modelled packages (a new file can carry an init function)
	for _, dir := range []string{"varlink", "varlink/idl", "varlink/internal/ctxio", "cmd/varlink-go-interface-generator"} {
		entries, _ := os.ReadDir(filepath.Join(repo, dir))
		for _, e := range entries {
			if strings.HasSuffix(e.Name(), ".go") && !strings.HasSuffix(e.Name(), "_test.go") {
				allNames = append(allNames, "file:"+dir+"/"+e.Name())
			}
		}
	}
	sort.Strings(allNames)
	sort.Strings(unassigned)
	fmt.Fprintf(&b, "/-- fingerprint of the SET of declaration names (functions, methods, types, consts, vars) of the fingerprinted files -/\ndef declarationSet : Nat := 0x%s\n\n", fmt.Sprintf("%x", sha256.Sum256([]byte(strings.Join(allNames, "\n"))))[:32])
	b.WriteString("/-- declarations of those files that no property's model covers (informational) -/\ndef unassigned : List String := [")
	for i, n := range unassigned {
		if i > 0 {
			b.WriteString(", ")
		}
		b.WriteString(leanStr(n))
	}
	b.WriteString("]\n\n")
	b.WriteString("end Varlink.Extracted\n")
	return b.String()
}

func init() {
	generators = append(generators, generator{"Code.lean", genFingerprints})
}
