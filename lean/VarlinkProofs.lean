import VarlinkProofs.Lemmas.Basic
