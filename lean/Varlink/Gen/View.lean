/-
  `genFile : Idl → Option GoFile` — the structured view of what `generateTemplate` emits, built along the same
  walk as `Generator.bodyText` (same loops, same `switch field.Type.Kind`, same crash points: `none` exactly
  when the text generator returns `none`, see `VarlinkProofs/Props/C07.lean: genFile_isSome_iff`).
  Every run of the correspondence compares its rendering with the same view extracted from the real output
  by go/parser (harness/gensummary.go).
-/
import Varlink.Gen.Generator
import Varlink.Gen.GoFile
namespace Varlink.Gen
open Varlink Varlink.Idl

/-- the struct tag `writeType` emits for a field (`json == true`) -/
def jsonTag (n : Bytes) (t : Ty) : Bytes :=
  str "json:\"" ++ n ++ (if t.isMaybe then str ",omitempty" else []) ++ str "\""

mutual
/-- the Go type `writeType(t, json, _)` denotes -/
def goTy : Ty → Bool → Option GoTy
  | .bool, _ => some (.name (str "bool"))
  | .int, _ => some (.name (str "int64"))
  | .float, _ => some (.name (str "float64"))
  | .string, _ => some (.name (str "string"))
  | .enum _, _ => some (.name (str "string"))
  | .object, _ => some (.qual (str "json") (str "RawMessage"))
  | .array t, j => (goTy t j).map .slice
  | .map t, j => (goTy t j).map .map
  | .maybe t, j => (goTy t j).map .ptr
  | .named n, _ => some (.name n)
  | .struct fs, j => (goFields fs j).map .struct
def goFields : Fields → Bool → Option GoFields
  | .nil, _ => some .nil
  | .bare _ _, _ => none
  | .typed n t r, j =>
    match goTy t j, goFields r j with
    | some a, some b => some (.cons (title n) a (if j then jsonTag n t else []) b)
    | _, _ => none
end

/-- parameter list `<name><suffix> <untagged type>` over the fields -/
def paramFields (suffix : Bytes) : Fields → Option GoFields
  | .nil => some .nil
  | .bare _ _ => none
  | .typed n t r =>
    match goTy t false, paramFields suffix r with
    | some a, some b => some (.cons (n ++ suffix) a [] b)
    | _, _ => none

/-- unnamed result list of the untagged field types -/
def resultTypeFields : Fields → Option GoFields
  | .nil => some .nil
  | .bare _ _ => none
  | .typed _ t r =>
    match goTy t false, resultTypeFields r with
    | some a, some b => some (.cons [] a [] b)
    | _, _ => none

/-- `<dst>.<Field> = <conversion to the tagged type>(<name><suffix>)` for every field -/
def copyInStmts (dst suffix : Bytes) : Fields → Option (List Stmt)
  | .nil => some []
  | .bare _ _ => none
  | .typed n t r =>
    match goTy t true, copyInStmts dst suffix r with
    | some ty, some rest =>
      let src := Expr.ident (n ++ suffix)
      let rhs := match convKind t with
        | .conv => Expr.conv ty false src
        | .convParen => Expr.conv ty true src
        | .plain => src
      some (.set (.sel dst (title n)) rhs :: rest)
    | _, _ => none

/-- `<name>_out_ = <conversion to the untagged type>(out.<Field>)` for every field -/
def copyOutStmts : Fields → Option (List Stmt)
  | .nil => some []
  | .bare _ _ => none
  | .typed n t r =>
    match goTy t false, copyOutStmts r with
    | some ty, some rest =>
      let src := Expr.sel (str "out") (title n)
      let rhs := match convKind t with
        | .conv => Expr.conv ty false src
        | .convParen => Expr.conv ty true src
        | .plain => src
      some (.set (.ident (n ++ str "_out_")) rhs :: rest)
    | _, _ => none

/-- the dispatcher's arguments `<conversion to the untagged type>(in.<Field>)` -/
def dispatchArgExprs : Fields → Option (List Expr)
  | .nil => some []
  | .bare _ _ => none
  | .typed n t r =>
    match goTy t false, dispatchArgExprs r with
    | some ty, some rest =>
      let src := Expr.sel (str "in") (title n)
      let e := match convKind t with
        | .conv => Expr.conv ty false src
        | .convParen => Expr.conv ty true src
        | .plain => src
      some (e :: rest)
    | _, _ => none

def tName (s : String) : GoTy := .name (str s)
def ctxTy : GoTy := .qual (str "context") (str "Context")
def connTy : GoTy := .ptr (.qual (str "varlink") (str "Connection"))
def rwcTy : GoTy := .qual (str "varlink") (str "ReadWriterContext")
def ctxParam : GoFields := param (str "ctx") ctxTy
def errorResult : GoFields := param [] (tName "error")

/-! ## package uses -/

/-- imported package names in the canonical (sorted) order -/
def canonPkgs : List Bytes := [str "context", str "fmt", str "json", str "varlink"]

def sortedUses (used : List Bytes) : List Bytes := canonPkgs.filter (fun p => used.contains p)

/-- a function declaration; `extra` are the packages its fixed text refers to outside types -/
def mkFunc (recv : Option Recv) (name : Bytes) (params results : GoFields) (body : List Stmt)
    (extra : List Bytes := []) : Func :=
  { recv, name, params, results, body,
    pkgUses := sortedUses (extra ++ params.quals ++ results.quals ++ Stmt.qualsList body) }

/-! ## declarations, in source order -/

def aliasView (idl : Idl) : Member → Option (List Decl)
  | .alias n _ ty => (goTy ty true).map (fun t => [if resolvesToObject idl ty then .alias n t else .type n t])
  | _ => some []

def fieldUses : Fields → List Stmt
  | .nil => []
  | .bare n r => .use (str "e") (title n) :: fieldUses r
  | .typed n _ r => .use (str "e") (title n) :: fieldUses r

/-- the format string of `Error()` (main.go:171-178) -/
def errorFormat (fs : Fields) : Bytes :=
  str "(" ++ eachName (fun f last => title f ++ str ": %v" ++ (if last then [] else str ", ")) fs ++ str ")"

def errorView : Member → Option (List Decl)
  | .error n _ oty =>
    let ty := errTy oty
    let fs := tyFields ty
    (goTy ty true).map (fun t =>
      [.type n t,
       .func (mkFunc (some ⟨str "e", false, n⟩) (str "Error") .nil (param [] (tName "string"))
          (.define [str "s"] ::
            (if !fs.isNil then .strArg (str "fmt") (str "Sprintf") (errorFormat fs) :: fieldUses fs else []))
          (if !fs.isNil then [str "fmt"] else []))])
  | _ => some []

def dispatchErrorCaseView (iface : Bytes) : Member → List Stmt
  | .error n _ _ =>
    [.caseBlock (some (iface ++ str "." ++ n))
      [.define [str "errorRawParameters"], .var (str "param") (.name n), .define [str "err"]]]
  | _ => []

def dispatchErrorView (iface : Bytes) (errors : List Member) : Decl :=
  .func (mkFunc none (str "Dispatch_Error") (param (str "err") (tName "error")) errorResult
    (.define [str "e", str "ok"] :: (errors.map (dispatchErrorCaseView iface)).flatten)
    ([str "varlink"] ++ (if errors.isEmpty then [] else [str "json"])))

/-- `var in <tagged>` + copies + the `receive, err := c.<callee>(ctx, "<iface>.<m>", …)` line -/
def sendPrologueView (iface name callee : Bytes) (inTy : Ty) : Option (List Stmt) :=
  let fs := tyFields inTy
  let call : List Stmt := [.define [str "receive", str "err"], .strArg (str "c") callee (iface ++ str "." ++ name)]
  if !fs.isNil then
    match goTy inTy true, copyInStmts (str "in") (str "_in_") fs with
    | some t, some c => some (.var (str "in") t :: c ++ call)
    | _, _ => none
  else some call

def receiveView (outTy : Ty) : Option (List Stmt) :=
  if !(tyFields outTy).isNil then (goTy outTy true).map (fun t => [.var (str "out") t]) else some []

def flagsResult : GoFields := param (str "flags") (tName "uint64")

def methodClientView (iface : Bytes) : Member → Option (List Decl)
  | .method n _ inTy outTy =>
    let ins := tyFields inTy
    let outs := tyFields outTy
    let mt := n ++ str "_methods"
    let recv : Option Recv := some ⟨str "m", false, mt⟩
    match paramFields (str "_in_") ins, paramFields (str "_out_") outs, resultTypeFields outs,
          sendPrologueView iface n (str "Send") inTy, sendPrologueView iface n (str "Upgrade") inTy,
          receiveView outTy, copyOutStmts outs with
    | some params, some results, some resultTys, some sendPro, some upPro, some recv', some copies =>
      let head := ctxParam.append (param (str "c") connTy)
      let closureSend : Stmt :=
        .closure (param [] ctxTy) (results.append (flagsResult.append (param (str "err") (tName "error"))))
          (recv' ++ copies)
      let closureUp : Stmt :=
        .closure (param [] ctxTy)
          (results.append (flagsResult.append ((param (str "conn") rwcTy).append (param (str "err") (tName "error")))))
          (recv' ++ copies)
      some [
        .type mt (.struct .nil),
        .func (mkFunc none n .nil (param [] (.name mt)) []),
        .func (mkFunc recv (str "Call") (head.append params) (results.append (param (str "err_") (tName "error")))
          [.define [str "receive", str "err_"]]),
        .func (mkFunc recv (str "Send") ((head.append flagsResult).append params)
          ((param [] (.func ctxParam (resultTys.append ((param [] (tName "uint64")).append errorResult)))).append errorResult)
          (sendPro ++ [closureSend])),
        .func (mkFunc recv (str "Upgrade") (head.append params)
          ((param [] (.func ctxParam
              (results.append (flagsResult.append ((param (str "conn") rwcTy).append (param (str "err_") (tName "error"))))))).append
            errorResult)
          (upPro ++ [closureUp]))]
    | _, _, _, _, _, _, _ => none
  | _ => some []

def callParams : GoFields := ctxParam.append (param (str "c") (tName "VarlinkCall"))

def ifaceMethodView : Member → Option (List IfaceMethod)
  | .method n _ inTy _ =>
    (paramFields (str "_") (tyFields inTy)).map (fun ps => [⟨n, callParams.append ps, errorResult⟩])
  | _ => some []

def varlinkCallRecv : Option Recv := some ⟨str "c", true, str "VarlinkCall"⟩
def varlinkIfaceRecv : Option Recv := some ⟨str "s", true, str "VarlinkInterface"⟩

def errorReplyView (iface : Bytes) : Member → Option (List Decl)
  | .error n _ oty =>
    let fs := tyFields (errTy oty)
    match paramFields (str "_") fs, copyInStmts (str "out") (str "_") fs with
    | some ps, some c =>
      some [.func (mkFunc varlinkCallRecv (str "Reply" ++ n) (ctxParam.append ps) errorResult
        (.var (str "out") (.name n) :: c ++ [.strArg (str "c") (str "ReplyError") (iface ++ str "." ++ n)]))]
    | _, _ => none
  | _ => some []

def methodReplyView : Member → Option (List Decl)
  | .method n _ _ outTy =>
    let fs := tyFields outTy
    match paramFields (str "_") fs with
    | some ps =>
      if !fs.isNil then
        match goTy outTy true, copyInStmts (str "out") (str "_") fs with
        | some t, some c =>
          some [.func (mkFunc varlinkCallRecv (str "Reply" ++ n) (ctxParam.append ps) errorResult
            (.var (str "out") t :: c))]
        | _, _ => none
      else some [.func (mkFunc varlinkCallRecv (str "Reply" ++ n) (ctxParam.append ps) errorResult [])]
    | none => none
  | _ => some []

def dummyView (iface : Bytes) : Member → Option (List Decl)
  | .method n _ inTy _ =>
    (paramFields (str "_") (tyFields inTy)).map (fun ps =>
      [.func (mkFunc varlinkIfaceRecv n (callParams.append ps) errorResult
        [.strArg (str "c") (str "ReplyMethodNotImplemented") (iface ++ str "." ++ n)])])
  | _ => some []

def dispatchCaseView (pkg : Bytes) : Member → Option (List Stmt)
  | .method n _ inTy _ =>
    let fs := tyFields inTy
    let path := [str "s", pkg ++ str "Interface", n]
    if !fs.isNil then
      match goTy inTy true, dispatchArgExprs fs with
      | some t, some as =>
        some [.caseBlock (some n)
          [.var (str "in") t, .define [str "err"],
           .strArg (str "call") (str "ReplyInvalidParameter") (str "parameters"),
           .args path as]]
      | _, _ => none
    else some [.caseBlock (some n) [.args path []]]
  | _ => some []

def concatOptL {α β} (f : α → Option (List β)) : List α → Option (List β)
  | [] => some []
  | a :: r =>
    match f a, concatOptL f r with
    | some x, some y => some (x ++ y)
    | _, _ => none

/-- the value of the Go expression `quoteDescription` splices together: a raw string literal drops
    carriage returns; the spliced `"\r"` and "`" literals put the original bytes back -/
def descriptionValue (description : Bytes) : Bytes := description ++ [nl]

/-- strip the quotes of an entry of `importList` -/
def unquote (s : Bytes) : Bytes := (s.drop 1).dropLast

/-- the file, given the results of the loops (source order of main.go) -/
def assembleFile (t : Idl) (aliases errors clients : List Decl) (ifaceMethods : List IfaceMethod)
    (errorReplies methodReplies dummies : List Decl) (cases : List Stmt) : GoFile :=
  let pkg := pkgName t.name
  let ifaceName := pkg ++ str "Interface"
  { pkg := pkg
    imports := (importList t).map unquote
    decls :=
      aliases ++ errors ++ [dispatchErrorView t.name t.errors] ++ clients
      ++ [.iface ifaceName ifaceMethods,
          .type (str "VarlinkCall") (.struct (param [] (.qual (str "varlink") (str "Call"))))]
      ++ errorReplies ++ methodReplies ++ dummies
      ++ [.func (mkFunc varlinkIfaceRecv (str "VarlinkDispatch")
            (ctxParam.append ((param (str "call") (.qual (str "varlink") (str "Call"))).append
              (param (str "methodname") (tName "string"))))
            errorResult (cases ++ [.caseBlock none []])),
          .func (mkFunc varlinkIfaceRecv (str "VarlinkGetName") .nil (param [] (tName "string"))
            [.retString t.name]),
          .func (mkFunc varlinkIfaceRecv (str "VarlinkGetDescription") .nil (param [] (tName "string"))
            [.retString (descriptionValue t.description)]),
          .type (str "VarlinkInterface") (.struct (param [] (.name ifaceName))),
          .func (mkFunc none (str "VarlinkNew") (param (str "m") (.name ifaceName))
            (param [] (.ptr (tName "VarlinkInterface"))) [])] }

def genFile (t : Idl) : Option GoFile :=
  match bodyText t,
        concatOptL (aliasView t) t.aliases, concatOptL errorView t.errors,
        concatOptL (methodClientView t.name) t.methods, concatOptL ifaceMethodView t.methods,
        concatOptL (errorReplyView t.name) t.errors, concatOptL methodReplyView t.methods,
        concatOptL (dummyView t.name) t.methods, concatOptL (dispatchCaseView (pkgName t.name)) t.methods with
  | some _, some aliases, some errors, some clients, some ifaceMethods, some errorReplies,
    some methodReplies, some dummies, some cases =>
    some (assembleFile t aliases errors clients ifaceMethods errorReplies methodReplies dummies cases)
  | _, _, _, _, _, _, _, _, _ => none

end Varlink.Gen
