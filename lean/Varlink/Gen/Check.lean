/-
  `wellFormed : GoFile → Bool` — the input-dependent obligations of "the emitted file compiles", as a
  checker over the structured view (a model of the fragment of Go's rules that the generated file can
  violate). The Go compiler stays the ground truth: every correspondence run compiles real output and
  reports BOTH directions (`model-wellformed-but-compiler-rejects`, `model-rejects-but-compiles`).

  Sub-checks (each a `Bool`, `wellFormed` is their conjunction, `firstFailure` names the first that fails):
    pkgOk          package name is an identifier, not a keyword, not `main`, not `documentation`
    importsOk      import paths distinct; imported packages = packages referred to
    topLevelOk     top-level names are valid identifiers, pairwise distinct, distinct from the import names
    typesOk        every struct type: field names valid and distinct; parameter lists: names valid and distinct
    namesResolve   every type name is predeclared or declared by a type/interface declaration; every
                   qualified name's package is imported
    methodsOk      receivers are declared non-pointer, non-interface types; per receiver type the method names are
                   distinct and differ from its field names; methods declared on a struct that embeds `varlink.Call`
                   do not shadow a promoted method the file calls through a value of that type
    scopesOk       per function: receiver, parameters, results and the locals of the outermost block are
                   pairwise distinct; `:=` declares at least one new name; nested blocks likewise
    typedOk        every kept assignment is between identical types (tags count), every conversion has an
                   operand whose type is identical ignoring tags (pointer types parenthesised), selectors
                   resolve to fields, the dispatcher's arguments have the parameter types of the interface method
    noCycleOk      no declared type contains itself without indirection; no alias declaration refers to itself
                   through alias declarations only
-/
import Varlink.Gen.GoFile
import Varlink.Gen.Strings
namespace Varlink.Gen
open Varlink

/-- predeclared type names the generated file may use -/
def predeclaredTypes : List Bytes :=
  ["bool", "int64", "float64", "string", "uint64", "error"].map str

def isIdentStart (c : UInt8) : Bool := isLetter c || c == underscore
def isIdentChar (c : UInt8) : Bool := isIdentStart c || isDigit c

/-- an ASCII Go identifier (non-ASCII letters are legal in Go but never emitted) -/
def isGoIdent : Bytes → Bool
  | [] => false
  | c :: r => isIdentStart c && r.all isIdentChar

/-- usable as a declared name: identifier, no keyword, not blank -/
def validName (n : Bytes) : Bool := isGoIdent n && !goKeywords.contains n && n != [underscore]

def distinct : List Bytes → Bool
  | [] => true
  | n :: r => !r.contains n && distinct r

/-- last element of an import path: the package name it binds (all imported packages are named like that) -/
def importName (path : Bytes) : Bytes :=
  match lastIndexOf 47 path with
  | some i => path.drop (i + 1)
  | none => path

/-! ## declarations -/

def Decl.typeName? : Decl → Option Bytes
  | .type n _ => some n
  | .alias n _ => some n
  | .iface n _ => some n
  | .func _ => none

def Decl.topName? : Decl → Option Bytes
  | .type n _ => some n
  | .alias n _ => some n
  | .iface n _ => some n
  | .func f => if f.recv.isNone then some f.name else none

def lookupType (decls : List Decl) (n : Bytes) : Option GoTy :=
  match decls with
  | [] => none
  | .type m t :: r => if m = n then some t else lookupType r n
  | .alias m t :: r => if m = n then some t else lookupType r n
  | _ :: r => lookupType r n

def lookupIface (decls : List Decl) (n : Bytes) : Option (List IfaceMethod) :=
  match decls with
  | [] => none
  | .iface m ms :: r => if m = n then some ms else lookupIface r n
  | _ :: r => lookupIface r n

def GoFile.typeNames (f : GoFile) : List Bytes := f.decls.filterMap Decl.typeName?
def GoFile.topNames (f : GoFile) : List Bytes := f.decls.filterMap Decl.topName?
def GoFile.importNames (f : GoFile) : List Bytes := f.imports.map importName

def Decl.func? : Decl → Option Func
  | .func g => some g
  | _ => none

def GoFile.funcs (f : GoFile) : List Func := f.decls.filterMap Decl.func?

/-! ## pkgOk, importsOk, topLevelOk -/

/-- the package clause: an identifier, no keyword, and none of `reservedPkgNames` — `main` (not importable) and
    `documentation` (go/build skips such files, the package has no Go files left) -/
def pkgOk (f : GoFile) : Bool := validName f.pkg && !reservedPkgNames.contains f.pkg

def Decl.pkgRefs : Decl → List Bytes
  | .type _ t => t.quals
  | .alias _ t => t.quals
  | .iface _ ms => (ms.map fun m => m.params.quals ++ m.results.quals).flatten
  | .func f => f.pkgUses

def GoFile.pkgRefs (f : GoFile) : List Bytes := (f.decls.map Decl.pkgRefs).flatten

def importsOk (f : GoFile) : Bool :=
  distinct f.imports
  && f.importNames.all (fun n => f.pkgRefs.contains n)      -- no unused import
  && f.pkgRefs.all (fun n => f.importNames.contains n)      -- nothing used that is not imported

def topLevelOk (f : GoFile) : Bool :=
  f.topNames.all validName && distinct f.topNames && f.topNames.all (fun n => !f.importNames.contains n)

/-! ## typesOk -/

/-- the name an embedded field is known by -/
def embeddedName : GoTy → Bytes
  | .name n => n
  | .qual _ n => n
  | .ptr (.name n) => n
  | .ptr (.qual _ n) => n
  | _ => []

def GoFields.fieldNames : GoFields → List Bytes
  | .nil => []
  | .cons n t _ r => (if n.isEmpty then embeddedName t else n) :: r.fieldNames

/-- declared (non-empty) names of a parameter list -/
def GoFields.paramNames : GoFields → List Bytes
  | .nil => []
  | .cons n _ _ r => if n.isEmpty then r.paramNames else n :: r.paramNames

def paramNameOk (n : Bytes) : Bool := isGoIdent n && !goKeywords.contains n

mutual
def GoTy.shapeOk : GoTy → Bool
  | .name _ => true
  | .qual _ _ => true
  | .ptr t => t.shapeOk
  | .slice t => t.shapeOk
  | .map t => t.shapeOk
  | .struct fs => fs.fieldNames.all validName && distinct fs.fieldNames && fs.shapeOk
  | .func p r => paramListOk p && paramListOk r && p.shapeOk && r.shapeOk
/-- the types inside a field / parameter list -/
def GoFields.shapeOk : GoFields → Bool
  | .nil => true
  | .cons _ t _ r => t.shapeOk && r.shapeOk
/-- names of one parameter list -/
def paramListOk (p : GoFields) : Bool :=
  p.paramNames.all paramNameOk
end

def Expr.shapeOk : Expr → Bool
  | .ident _ => true
  | .sel _ _ => true
  | .conv t _ e => t.shapeOk && e.shapeOk

mutual
def Stmt.shapeOk : Stmt → Bool
  | .var _ t => t.shapeOk
  | .set l r => l.shapeOk && r.shapeOk
  | .args _ as => as.all Expr.shapeOk
  | .closure p r b => paramListOk p && paramListOk r && p.shapeOk && r.shapeOk && Stmt.shapeOkList b
  | .caseBlock _ b => Stmt.shapeOkList b
  | _ => true
def Stmt.shapeOkList : List Stmt → Bool
  | [] => true
  | s :: r => s.shapeOk && Stmt.shapeOkList r
end

def Decl.shapeOk : Decl → Bool
  | .type _ t => t.shapeOk
  | .alias _ t => t.shapeOk
  | .iface _ ms => distinct (ms.map (·.name)) && ms.all fun m =>
      validName m.name && paramListOk m.params && paramListOk m.results && m.params.shapeOk && m.results.shapeOk
  | .func f => paramListOk f.params && paramListOk f.results && f.params.shapeOk && f.results.shapeOk
      && Stmt.shapeOkList f.body

def typesOk (f : GoFile) : Bool := f.decls.all Decl.shapeOk

/-! ## namesResolve -/

mutual
def GoTy.resolves (tn pn : List Bytes) : GoTy → Bool
  | .name n => predeclaredTypes.contains n || tn.contains n
  | .qual p _ => pn.contains p
  | .ptr t => t.resolves tn pn
  | .slice t => t.resolves tn pn
  | .map t => t.resolves tn pn
  | .struct fs => fs.resolves tn pn
  | .func p r => p.resolves tn pn && r.resolves tn pn
def GoFields.resolves (tn pn : List Bytes) : GoFields → Bool
  | .nil => true
  | .cons _ t _ r => t.resolves tn pn && r.resolves tn pn
end

def Expr.resolves (tn pn : List Bytes) : Expr → Bool
  | .ident _ => true
  | .sel _ _ => true
  | .conv t _ e => t.resolves tn pn && e.resolves tn pn

mutual
def Stmt.resolves (tn pn : List Bytes) : Stmt → Bool
  | .var _ t => t.resolves tn pn
  | .set l r => l.resolves tn pn && r.resolves tn pn
  | .args _ as => as.all (Expr.resolves tn pn)
  | .closure p r b => p.resolves tn pn && r.resolves tn pn && Stmt.resolvesList tn pn b
  | .caseBlock _ b => Stmt.resolvesList tn pn b
  | _ => true
def Stmt.resolvesList (tn pn : List Bytes) : List Stmt → Bool
  | [] => true
  | s :: r => s.resolves tn pn && Stmt.resolvesList tn pn r
end

def Decl.resolves (tn pn : List Bytes) : Decl → Bool
  | .type _ t => t.resolves tn pn
  | .alias _ t => t.resolves tn pn
  | .iface _ ms => ms.all fun m => m.params.resolves tn pn && m.results.resolves tn pn
  | .func f => f.params.resolves tn pn && f.results.resolves tn pn && Stmt.resolvesList tn pn f.body

def namesResolve (f : GoFile) : Bool := f.decls.all (Decl.resolves f.typeNames f.importNames)

/-! ## methodsOk -/

def GoFile.methodsOn (f : GoFile) (ty : Bytes) : List Bytes :=
  f.funcs.filterMap fun g => match g.recv with
    | some r => if r.ty = ty then some g.name else none
    | none => none

def GoFile.receiverTypes (f : GoFile) : List Bytes :=
  f.funcs.filterMap fun g => g.recv.map (·.ty)

/-- does the struct embed `varlink.Call` -/
def embedsCall : GoTy → Bool
  | .struct fs => fs.types.any fun t => t.beq (.qual (str "varlink") (str "Call"))
  | _ => false

mutual
/-- names `f` of the calls `x.f(…"lit"…)` where `x` is one of `vars` -/
def Stmt.calledOn (vars : List Bytes) : Stmt → List Bytes
  | .strArg x f _ => if vars.contains x then [f] else []
  | .closure _ _ b => Stmt.calledOnList vars b
  | .caseBlock _ b => Stmt.calledOnList vars b
  | _ => []
def Stmt.calledOnList (vars : List Bytes) : List Stmt → List Bytes
  | [] => []
  | s :: r => s.calledOn vars ++ Stmt.calledOnList vars r
end

/-- parameter / receiver names of `g` whose type is `T` or `*T` -/
def Func.varsOfType (g : Func) (ty : Bytes) : List Bytes :=
  (match g.recv with | some r => if r.ty = ty then [r.name] else [] | none => [])
  ++ (g.params.names.zip g.params.types).filterMap fun (n, t) =>
      if t.beq (.name ty) || t.beq (.ptr (.name ty)) then some n else none

/-- methods called (with a string argument) through a value of type `ty` anywhere in the file -/
def GoFile.calledThrough (f : GoFile) (ty : Bytes) : List Bytes :=
  (f.funcs.map fun g => Stmt.calledOnList (g.varsOfType ty) g.body).flatten

def receiverOk (f : GoFile) (ty : Bytes) : Bool :=
  match lookupType f.decls ty with
  | none => false                                   -- not a declared (non-interface) type
  | some (.ptr _) => false                          -- invalid receiver type
  | some t =>
    let ms := f.methodsOn ty
    distinct ms && ms.all validName
    && (match t with | .struct fs => ms.all (fun m => !fs.fieldNames.contains m) | _ => true)
    && (if embedsCall t then ms.all (fun m => !(f.calledThrough ty).contains m) else true)

def methodsOk (f : GoFile) : Bool := f.receiverTypes.all (receiverOk f)

/-! ## scopesOk -/

def defineOk (declared ns : List Bytes) : Bool :=
  ns.all paramNameOk && distinct ns && ns.any (fun n => !declared.contains n && n != [underscore])

/-- `declared`: names declared so far in the current block -/
def scopeStmts (declared : List Bytes) : List Stmt → Bool
  | [] => true
  | s :: r =>
    match s with
    | .var n _ => validName n && !declared.contains n && scopeStmts (n :: declared) r
    | .define ns => defineOk declared ns && scopeStmts (ns ++ declared) r
    | .closure p rs b =>
      distinct (p.paramNames ++ rs.paramNames) && scopeStmts (p.paramNames ++ rs.paramNames) b
      && scopeStmts declared r
    | .caseBlock _ b => scopeStmts [] b && scopeStmts declared r
    | _ => scopeStmts declared r

def Func.signatureNames (g : Func) : List Bytes :=
  (match g.recv with | some r => if r.name.isEmpty then [] else [r.name] | none => [])
  ++ g.params.paramNames ++ g.results.paramNames

def Func.scopeOk (g : Func) : Bool :=
  distinct g.signatureNames && scopeStmts g.signatureNames g.body

def scopesOk (f : GoFile) : Bool := f.funcs.all Func.scopeOk

/-! ## typedOk -/

abbrev Env := List (Bytes × GoTy)

/-- type of names introduced by `:=` (the right-hand sides are fixed text, not part of the view); a value no
    description type translates to -/
def unknownTy : GoTy := .qual [] []

def GoFields.toEnv : GoFields → Env
  | .nil => []
  | .cons n t _ r => if n.isEmpty then r.toEnv else (n, t) :: r.toEnv

def envLookup (k : Bytes) : Env → Option GoTy
  | [] => none
  | (n, t) :: r => if n = k then some t else envLookup k r

/-- the fields a selector can reach: a struct type, or a declared name / pointer to a declared name whose
    declaration is a struct type -/
def structFieldsOf (decls : List Decl) : GoTy → Option GoFields
  | .struct fs => some fs
  | .name n => match lookupType decls n with | some (.struct fs) => some fs | _ => none
  | .ptr (.name n) => match lookupType decls n with | some (.struct fs) => some fs | _ => none
  | _ => none

def fieldType (k : Bytes) : GoFields → Option GoTy
  | .nil => none
  | .cons n t _ r => if (if n.isEmpty then embeddedName t else n) = k then some t else fieldType k r

def isPtrTy : GoTy → Bool
  | .ptr _ => true
  | _ => false

def typeOf (decls : List Decl) (env : Env) : Expr → Option GoTy
  | .ident n => match envLookup n env with
    | some t => if t.beq unknownTy then none else some t
    | none => none
  | .sel x f =>
    match envLookup x env with
    | some t => match structFieldsOf decls t with
      | some fs => fieldType f fs
      | none => none
    | none => none
  | .conv ty paren e =>
    match typeOf decls env e with
    | some te => if GoTy.beqNoTags ty te && (!isPtrTy ty || paren) then some ty else none
    | none => none

def argsOk (decls : List Decl) (env : Env) : List Expr → List GoTy → Bool
  | [], [] => true
  | a :: as, p :: ps => (match typeOf decls env a with | some t => t.beq p | none => false) && argsOk decls env as ps
  | _, _ => false

/-- `s.I.M(ctx, VarlinkCall{call}, as…)`: `s` is a (pointer to a) struct embedding interface `I`, which
    declares `M`; the arguments from the third on have the types of M's parameters from the third on -/
def dispatchCallOk (decls : List Decl) (env : Env) (path : List Bytes) (as : List Expr) : Bool :=
  match path with
  | [s, i, m] =>
    match envLookup s env with
    | some ts =>
      match structFieldsOf decls ts with
      | some fs =>
        match fieldType i fs with
        | some (.name i') =>
          i' == i &&
          (match lookupIface decls i with
           | some ms =>
             match ms.find? (fun im => im.name == m) with
             | some im => argsOk decls env as (im.params.types.drop 2)
             | none => false
           | none => false)
        | _ => false
      | none => false
    | none => false
  | _ => false

/-- an assignment needs identical types on both sides -/
def assignable : Option GoTy → Option GoTy → Bool
  | some a, some b => a.beq b
  | _, _ => false

def typedStmts (decls : List Decl) (env : Env) : List Stmt → Bool
  | [] => true
  | s :: r =>
    match s with
    | .var n t => typedStmts decls ((n, t) :: env) r
    | .define ns => typedStmts decls (ns.map (fun n => (n, unknownTy)) ++ env) r
    | .set l rhs => assignable (typeOf decls env l) (typeOf decls env rhs) && typedStmts decls env r
    | .args path as => dispatchCallOk decls env path as && typedStmts decls env r
    | .use x f => (typeOf decls env (.sel x f)).isSome && typedStmts decls env r
    | .closure p rs b => typedStmts decls (p.toEnv ++ rs.toEnv ++ env) b && typedStmts decls env r
    | .caseBlock _ b => typedStmts decls env b && typedStmts decls env r
    | _ => typedStmts decls env r

def Func.env (g : Func) : Env :=
  (match g.recv with
   | some r => [(r.name, if r.pointer then GoTy.ptr (.name r.ty) else .name r.ty)]
   | none => [])
  ++ g.params.toEnv ++ g.results.toEnv

def typedOk (f : GoFile) : Bool := f.funcs.all fun g => typedStmts f.decls g.env g.body

/-! ## noCycleOk -/

mutual
/-- the type names `ty` contains without indirection (through struct fields only; pointer, slice, map,
    function and package-qualified types are indirections) -/
def GoTy.directNames : GoTy → List Bytes
  | .name n => [n]
  | .struct fs => fs.directNames
  | _ => []
def GoFields.directNames : GoFields → List Bytes
  | .nil => []
  | .cons _ t _ r => t.directNames ++ r.directNames
end

/-- one step: the names directly contained in the declarations of `ns` -/
def expandNames (decls : List Decl) (ns : List Bytes) : List Bytes :=
  ((ns.map fun n => match lookupType decls n with | some t => t.directNames | none => []).flatten).eraseDups

/-- is `target` among the names reachable from `ns` in at most `fuel` expansion steps -/
def reachesName (decls : List Decl) (target : Bytes) : Nat → List Bytes → Bool
  | 0, ns => ns.contains target
  | fuel + 1, ns => ns.contains target || reachesName decls target fuel (expandNames decls ns)

mutual
/-- every type name a type mentions, at any depth -/
def GoTy.allNames : GoTy → List Bytes
  | .name n => [n]
  | .qual _ _ => []
  | .ptr t => t.allNames
  | .slice t => t.allNames
  | .map t => t.allNames
  | .struct fs => fs.allNames
  | .func p r => p.allNames ++ r.allNames
def GoFields.allNames : GoFields → List Bytes
  | .nil => []
  | .cons _ t _ r => t.allNames ++ r.allNames
end

/-- the right-hand side of an alias declaration `type n = T` -/
def lookupAliasDecl (decls : List Decl) (n : Bytes) : Option GoTy :=
  match decls with
  | [] => none
  | .alias m t :: r => if m = n then some t else lookupAliasDecl r n
  | _ :: r => lookupAliasDecl r n

def expandAliasNames (decls : List Decl) (ns : List Bytes) : List Bytes :=
  ((ns.map fun n => match lookupAliasDecl decls n with | some t => t.allNames | none => []).flatten).eraseDups

/-- Go rejects an alias declaration that refers to itself through alias declarations only, whatever
    indirection lies between (`type P = *P`, `type N = *struct{ Next N }`); a defined type on the way is fine -/
def reachesAliasName (decls : List Decl) (target : Bytes) : Nat → List Bytes → Bool
  | 0, ns => ns.contains target
  | fuel + 1, ns => ns.contains target || reachesAliasName decls target fuel (expandAliasNames decls ns)

def noCycleOk (f : GoFile) : Bool :=
  f.decls.all fun d => match d with
    | .type n t => !reachesName f.decls n f.decls.length t.directNames
    | .alias n t => !reachesName f.decls n f.decls.length t.directNames
        && !reachesAliasName f.decls n f.decls.length t.allNames
    | _ => true

/-! ## the conjunction -/

def checks : List (String × (GoFile → Bool)) :=
  [("package-name", pkgOk), ("unused-import", importsOk), ("top-level-names", topLevelOk),
   ("struct-or-parameter-names", typesOk), ("unresolved-name", namesResolve), ("method-set", methodsOk),
   ("scope", scopesOk), ("assignment-types", typedOk), ("recursive-type", noCycleOk)]

def wellFormed (f : GoFile) : Bool :=
  pkgOk f && importsOk f && topLevelOk f && typesOk f && namesResolve f && methodsOk f && scopesOk f
  && typedOk f && noCycleOk f

/-- name of the first failing sub-check -/
def firstFailure (f : GoFile) : Option String :=
  (checks.find? (fun c => !c.2 f)).map (·.1)

end Varlink.Gen
