/-
  Structured view of the Go file the interface generator emits: the fragment of Go's abstract syntax that
  matters for the input-dependent obligations of C07 (names, scopes, struct fields, method sets, the
  assignments and conversions between tagged and untagged types, referenced type and package names,
  string constants). `Varlink/Gen/View.lean` builds it from a description along the same walk as
  `Generator.lean` builds the text; `harness/gensummary.go` extracts the same view from the REAL output with
  go/parser, and every correspondence run compares the two renderings (`Driver/CmdsGen.lean`).
-/
import Varlink.Basic
namespace Varlink.Gen
open Varlink

mutual
/-- Go types of the fragment -/
inductive GoTy where
  | name (n : Bytes)               -- predeclared or declared in this file: bool, int64, string, error, T, …
  | qual (pkg n : Bytes)           -- json.RawMessage, context.Context, varlink.Call, …
  | ptr (t : GoTy)
  | slice (t : GoTy)
  | map (t : GoTy)                 -- map[string]t
  | struct (fs : GoFields)
  | func (params results : GoFields)
/-- struct fields and parameter lists: name (`[]` = embedded field / unnamed parameter), type, tag (`[]` = none) -/
inductive GoFields where
  | nil
  | cons (name : Bytes) (ty : GoTy) (tag : Bytes) (rest : GoFields)
end

instance : Inhabited GoTy := ⟨.name []⟩
instance : Inhabited GoFields := ⟨.nil⟩

/-- expressions on either side of the emitted assignments -/
inductive Expr where
  | ident (n : Bytes)
  | sel (x f : Bytes)                          -- x.f
  | conv (ty : GoTy) (paren : Bool) (e : Expr) -- T(e)  /  (T)(e)
  deriving Inhabited

/-- the statements of a function body that the view keeps, in source order -/
inductive Stmt where
  | var (n : Bytes) (ty : GoTy)                -- var n T
  | define (ns : List Bytes)                   -- a, b := …
  | set (lhs rhs : Expr)                       -- lhs = rhs   (rhs an identifier, selector or conversion)
  | args (path : List Bytes) (as : List Expr)  -- a.b.c(ctx, VarlinkCall{call}, as…): call through a three-part selector
  | use (x f : Bytes)                          -- x.f passed to fmt.Sprintf
  | strArg (x f : Bytes) (lit : Bytes)         -- x.f(…, "lit", …)
  | retString (v : Bytes)                      -- return <constant string expression with value v>
  | closure (params results : GoFields) (body : List Stmt)   -- function literal: new scope
  | caseBlock (label : Option Bytes) (body : List Stmt)      -- case "label": / default: — new scope
  deriving Inhabited

structure Recv where
  name : Bytes
  pointer : Bool
  ty : Bytes
  deriving Inhabited

structure Func where
  recv : Option Recv
  name : Bytes
  params : GoFields
  results : GoFields
  body : List Stmt
  pkgUses : List Bytes       -- imported package names the declaration refers to, sorted, without duplicates
  deriving Inhabited

structure IfaceMethod where
  name : Bytes
  params : GoFields
  results : GoFields
  deriving Inhabited

inductive Decl where
  | type (name : Bytes) (ty : GoTy)
  | alias (name : Bytes) (ty : GoTy)           -- type name = ty
  | iface (name : Bytes) (methods : List IfaceMethod)
  | func (f : Func)
  deriving Inhabited

structure GoFile where
  pkg : Bytes
  imports : List Bytes       -- import paths in source order
  decls : List Decl
  deriving Inhabited

def GoFields.names : GoFields → List Bytes
  | .nil => []
  | .cons n _ _ r => n :: r.names

def GoFields.append : GoFields → GoFields → GoFields
  | .nil, b => b
  | .cons n t g r, b => .cons n t g (r.append b)

def GoFields.length : GoFields → Nat
  | .nil => 0
  | .cons _ _ _ r => r.length + 1

def GoFields.lookup (k : Bytes) : GoFields → Option GoTy
  | .nil => none
  | .cons n t _ r => if n = k then some t else r.lookup k

def GoFields.types : GoFields → List GoTy
  | .nil => []
  | .cons _ t _ r => t :: r.types

/-- one parameter / untagged field -/
def param (n : Bytes) (t : GoTy) : GoFields := .cons n t [] .nil

mutual
/-- identical types (struct tags count) -/
def GoTy.beq : GoTy → GoTy → Bool
  | .name a, .name b => a == b
  | .qual p a, .qual q b => p == q && a == b
  | .ptr a, .ptr b => GoTy.beq a b
  | .slice a, .slice b => GoTy.beq a b
  | .map a, .map b => GoTy.beq a b
  | .struct a, .struct b => GoFields.beq a b
  | .func p r, .func p' r' => GoFields.beq p p' && GoFields.beq r r'
  | _, _ => false
def GoFields.beq : GoFields → GoFields → Bool
  | .nil, .nil => true
  | .cons n t g r, .cons n' t' g' r' => n == n' && GoTy.beq t t' && g == g' && GoFields.beq r r'
  | _, _ => false
end

mutual
/-- identical ignoring struct tags, at every depth (Go's rule for conversions) -/
def GoTy.beqNoTags : GoTy → GoTy → Bool
  | .name a, .name b => a == b
  | .qual p a, .qual q b => p == q && a == b
  | .ptr a, .ptr b => GoTy.beqNoTags a b
  | .slice a, .slice b => GoTy.beqNoTags a b
  | .map a, .map b => GoTy.beqNoTags a b
  | .struct a, .struct b => GoFields.beqNoTags a b
  | .func p r, .func p' r' => GoFields.beqNoTags p p' && GoFields.beqNoTags r r'
  | _, _ => false
def GoFields.beqNoTags : GoFields → GoFields → Bool
  | .nil, .nil => true
  | .cons n t _ r, .cons n' t' _ r' => n == n' && GoTy.beqNoTags t t' && GoFields.beqNoTags r r'
  | _, _ => false
end

/-! ## package names referred to -/

mutual
def GoTy.quals : GoTy → List Bytes
  | .name _ => []
  | .qual p _ => [p]
  | .ptr t => t.quals
  | .slice t => t.quals
  | .map t => t.quals
  | .struct fs => fs.quals
  | .func p r => p.quals ++ r.quals
def GoFields.quals : GoFields → List Bytes
  | .nil => []
  | .cons _ t _ r => t.quals ++ r.quals
end

def Expr.quals : Expr → List Bytes
  | .ident _ => []
  | .sel _ _ => []
  | .conv t _ e => t.quals ++ e.quals

mutual
def Stmt.quals : Stmt → List Bytes
  | .var _ t => t.quals
  | .define _ => []
  | .set l r => l.quals ++ r.quals
  | .args _ as => (as.map Expr.quals).flatten
  | .use _ _ => []
  | .strArg _ _ _ => []
  | .retString _ => []
  | .closure p r b => p.quals ++ r.quals ++ Stmt.qualsList b
  | .caseBlock _ b => Stmt.qualsList b
def Stmt.qualsList : List Stmt → List Bytes
  | [] => []
  | s :: r => s.quals ++ Stmt.qualsList r
end

end Varlink.Gen
