/-
  Value of the Go constant string expressions the generator emits for `VarlinkGetName` and
  `VarlinkGetDescription` (main.go:512-522): raw string literals `` `…` `` and interpreted string literals
  `"…"` joined by ` + `.

  Go semantics modelled (language spec, "String literals"): a raw string literal's value is the text between
  the back quotes with all carriage returns discarded, no escapes; an interpreted literal's value is the
  text between the double quotes with backslash escapes interpreted (only `\r \n \t \\ \"` are accepted here,
  a raw newline inside is illegal). Anything else makes `evalStringExpr` return `none`.
-/
import Varlink.Gen.Generator
namespace Varlink.Gen
open Varlink

inductive LitState where
  | raw       -- inside `…`
  | interp    -- inside "…"
  | esc       -- after a backslash inside "…"
  | after     -- after a closing quote
  | plus1     -- after ` `
  | plus2     -- after ` +`
  | plus3     -- after ` + `
  deriving DecidableEq

def dquote : UInt8 := 34
def backslash : UInt8 := 92
def space : UInt8 := 32
def plusSign : UInt8 := 43

def evalLit : LitState → Bytes → Option Bytes
  | .after, [] => some []
  | _, [] => none
  | .raw, c :: r =>
    if c = backtick then evalLit .after r
    else if c = cr then evalLit .raw r
    else (evalLit .raw r).map (c :: ·)
  | .interp, c :: r =>
    if c = dquote then evalLit .after r
    else if c = backslash then evalLit .esc r
    else if c = nl then none
    else (evalLit .interp r).map (c :: ·)
  | .esc, c :: r =>
    if c = 114 then (evalLit .interp r).map (cr :: ·)            -- \r
    else if c = 110 then (evalLit .interp r).map (nl :: ·)       -- \n
    else if c = 116 then (evalLit .interp r).map (tab :: ·)      -- \t
    else if c = backslash then (evalLit .interp r).map (backslash :: ·)
    else if c = dquote then (evalLit .interp r).map (dquote :: ·)
    else none
  | .after, c :: r => if c = space then evalLit .plus1 r else none
  | .plus1, c :: r => if c = plusSign then evalLit .plus2 r else none
  | .plus2, c :: r => if c = space then evalLit .plus3 r else none
  | .plus3, c :: r =>
    if c = backtick then evalLit .raw r
    else if c = dquote then evalLit .interp r
    else none

/-- value of `lit ( " + " lit )*` -/
def evalStringExpr : Bytes → Option Bytes
  | [] => none
  | c :: r =>
    if c = backtick then evalLit .raw r
    else if c = dquote then evalLit .interp r
    else none

end Varlink.Gen
