/-
  Model of the interface generator: /repo/cmd/varlink-go-interface-generator/main.go,
  functions `writeType`, `writeDocString`, `generateTemplate` — a line-by-line transliteration that
  produces the exact text handed to `format.Source`: the header (`head`: generated-code line, interface
  documentation, package clause, import block) followed by the declarations (`b`), which the Go code
  generates first while recording in `b.usesJSON` / `b.usesFmt` which packages they refer to.

  Input is the tree `idl.New` returns (`Varlink.Idl.Idl`); `generateTemplate` itself first trims trailing
  newlines of the description and parses (`generateTemplate` below takes the parser as a parameter).

  Crashes. The Go code dereferences `field.Type` of every field it walks; a field without a type
  (`TypeField{Type: nil}`, the entries of an enum) makes it panic with a nil-pointer dereference. All
  functions return `Option Bytes`, `none` = that panic; `genText` turns it into `Outcome.crash`.
  `go/format` is not modelled: the correspondence run formats the model's text with the real `go/format`.
-/
import Varlink.Idl.Syntax
import Varlink.Gen.Strings
namespace Varlink.Gen
open Varlink Varlink.Idl

inductive Outcome (α : Type) where
  | ok (a : α)
  | crash            -- nil-pointer dereference in the generator
  deriving Inhabited, DecidableEq

def Outcome.ofOption {α} : Option α → Outcome α
  | some a => .ok a
  | none => .crash

/-- `t.Fields` of a Go `*idl.Type`: only struct and enum kinds carry fields -/
def tyFields : Ty → Fields
  | .struct fs => fs
  | .enum fs => fs
  | _ => .nil

/-- the three arms of `switch field.Type.Kind` used for every copied field -/
inductive ConvKind where
  | conv        -- TypeStruct, TypeArray, TypeMap:  T(x)
  | convParen   -- TypeMaybe:                       (T)(x)
  | plain       -- default:                         x
  deriving DecidableEq, Repr

def convKind : Ty → ConvKind
  | .struct _ => .conv
  | .array _ => .conv
  | .map _ => .conv
  | .maybe _ => .convParen
  | _ => .plain

/-! ## `writeType` (main.go:25-85)

  The text. The side effect `b.usesJSON = true` of the `TypeObject` case is `tyUsesObject` below. -/

mutual
/-- `writeType(b, t, json, ident)` for `t != nil`; returns what is appended to the buffer -/
def writeType : Ty → Bool → Nat → Option Bytes
  | .bool, _, _ => some (str "bool")
  | .int, _, _ => some (str "int64")
  | .float, _, _ => some (str "float64")
  | .string, _, _ => some (str "string")
  | .enum _, _, _ => some (str "string")
  | .object, _, _ => some (str "json.RawMessage")
  | .array t, j, i => (writeType t j i).map (str "[]" ++ ·)
  | .map t, j, i => (writeType t j i).map (str "map[string]" ++ ·)
  | .maybe t, j, i => (writeType t j i).map (str "*" ++ ·)
  | .named n, _, _ => some n
  | .struct .nil, _, _ => some (str "struct{}")
  | .struct fs, j, i => (writeFields fs j i).map (fun b => str "struct {\n" ++ b ++ tabs i ++ str "}")
/-- the `for _, field := range t.Fields` loop of the struct case -/
def writeFields : Fields → Bool → Nat → Option Bytes
  | .nil, _, _ => some []
  | .bare _ _, _, _ => none          -- writeType(b, nil, …): `t.Kind` on a nil pointer
  | .typed n t r, j, i =>
    match writeType t j (i + 1), writeFields r j i with
    | some a, some b =>
      some (tabs (i + 1) ++ title n ++ str " " ++ a
        ++ (if j then str " `json:\"" ++ n ++ (if t.isMaybe then str ",omitempty" else []) ++ str "\"`" else [])
        ++ str "\n" ++ b)
    | _, _ => none
end

mutual
/-- does a completed call `writeType(b, t, …)` pass through the `TypeObject` case, i.e. set `b.usesJSON`
    (a field without type makes the call panic before it returns: `writeFields … = none`) -/
def tyUsesObject : Ty → Bool
  | .object => true
  | .maybe t => tyUsesObject t
  | .array t => tyUsesObject t
  | .map t => tyUsesObject t
  | .struct fs => fsUsesObject fs
  | _ => false
def fsUsesObject : Fields → Bool
  | .nil => false
  | .typed _ t r => tyUsesObject t || fsUsesObject r
  | .bare _ r => fsUsesObject r
end

/-- `writeDocString` (main.go:115-123) -/
def writeDocString (s : Bytes) : Bytes :=
  if s.isEmpty then [] else str "// " ++ replaceByte nl (str "\n// ") s ++ str "\n"

/-- main.go:133: the interface name in lower case without dots and dashes -/
def pkgBase (name : Bytes) : Bytes := toLower (replaceByte dash [] (replaceByte dot [] name))

/-- package name (main.go:133-138): a Go keyword, `main` or `documentation` (`reservedPkgNames`) gets a
    trailing underscore -/
def pkgName (name : Bytes) : Bytes :=
  let p := pkgBase name
  if goKeywords.contains p || reservedPkgNames.contains p then p ++ str "_" else p

/-! ## loops over a field list -/

/-- concatenate `f name type` over the fields; a field without type makes the Go code crash -/
def eachField (f : Bytes → Ty → Option Bytes) : Fields → Option Bytes
  | .nil => some []
  | .bare _ _ => none
  | .typed n t r =>
    match f n t, eachField f r with
    | some a, some b => some (a ++ b)
    | _, _ => none

/-- same with a separator written before every field but the first (`if i > 0 { ", " }`) -/
def eachFieldSep (sep : Bytes) (f : Bytes → Ty → Option Bytes) (first : Bool) : Fields → Option Bytes
  | .nil => some []
  | .bare _ _ => none
  | .typed n t r =>
    match f n t, eachFieldSep sep f false r with
    | some a, some b => some ((if first then [] else sep) ++ a ++ b)
    | _, _ => none

/-- loops that only read `f.Name` (main.go:171-184): never crash -/
def eachName (f : Bytes → Bool → Bytes) : Fields → Bytes
  | .nil => []
  | .bare n r => f n r.isNil ++ eachName f r
  | .typed n _ r => f n r.isNil ++ eachName f r

def concatOpt {α} (f : α → Option Bytes) : List α → Option Bytes
  | [] => some []
  | a :: r =>
    match f a, concatOpt f r with
    | some x, some y => some (x ++ y)
    | _, _ => none

/-- `, <name><suffix> <type>` parameter lists -/
def paramList (suffix : Bytes) (ind : Nat) (fs : Fields) : Option Bytes :=
  eachField (fun n t => (writeType t false ind).map (fun ty => str ", " ++ n ++ suffix ++ str " " ++ ty)) fs

/-- `<name>_out_ <type>, ` result lists -/
def resultList (ind : Nat) (fs : Fields) : Option Bytes :=
  eachField (fun n t => (writeType t false ind).map (fun ty => n ++ str "_out_ " ++ ty ++ str ", ")) fs

/-- `<type>, ` result type lists -/
def resultTypes (ind : Nat) (fs : Fields) : Option Bytes :=
  eachField (fun _ t => (writeType t false ind).map (fun ty => ty ++ str ", ")) fs

/-- copy of the parameters into the tagged struct (main.go:264-279, 342-357, 438-453, 475-490):
    `\t<dst>.<Field> = <conversion>(<name><suffix>)\n` -/
def copyIn (dst suffix : Bytes) (fs : Fields) : Option Bytes :=
  eachField (fun n t =>
    match convKind t with
    | .conv => (writeType t true 1).map (fun ty =>
        str "\t" ++ dst ++ str "." ++ title n ++ str " = " ++ ty ++ str "(" ++ n ++ suffix ++ str ")\n")
    | .convParen => (writeType t true 1).map (fun ty =>
        str "\t" ++ dst ++ str "." ++ title n ++ str " = (" ++ ty ++ str ")(" ++ n ++ suffix ++ str ")\n")
    | .plain => some (str "\t" ++ dst ++ str "." ++ title n ++ str " = " ++ n ++ suffix ++ str "\n")) fs

/-- copy of the decoded reply into the named results (main.go:306-321, 385-400) -/
def copyOut (fs : Fields) : Option Bytes :=
  eachField (fun n t =>
    match convKind t with
    | .conv => (writeType t false 2).map (fun ty =>
        str "\t\t" ++ n ++ str "_out_ = " ++ ty ++ str "(out." ++ title n ++ str ")\n")
    | .convParen => (writeType t false 2).map (fun ty =>
        str "\t\t" ++ n ++ str "_out_ = (" ++ ty ++ str ")(out." ++ title n ++ str ")\n")
    | .plain => some (str "\t\t" ++ n ++ str "_out_ = out." ++ title n ++ str "\n")) fs

/-- arguments of the dispatcher's call (main.go:528-543) -/
def dispatchArgs (fs : Fields) : Option Bytes :=
  eachField (fun n t =>
    match convKind t with
    | .conv => (writeType t false 2).map (fun ty => str ", " ++ ty ++ str "(in." ++ title n ++ str ")")
    | .convParen => (writeType t false 2).map (fun ty => str ", (" ++ ty ++ str ")(in." ++ title n ++ str ")")
    | .plain => some (str ", in." ++ title n)) fs

/-! ## the sections of `generateTemplate`, in the order of the source -/

/-- the alias with this name that the loop `for _, a := range midl.Aliases { if a.Name == … { next = a.Type } }`
    ends with: the LAST one (names are unique in parsed descriptions) -/
def lookupAliasLast : List Member → Bytes → Option Ty
  | [], _ => none
  | .alias m _ ty :: r, n =>
    match lookupAliasLast r n with
    | some t => some t
    | none => if m = n then some ty else none
  | _ :: r, n => lookupAliasLast r n

/-- `resolvesToObject` (main.go:87-113): is the type `object`, possibly behind optionals and named types; `k`
    iterations are left -/
def resolvesToObjectF (aliases : List Member) : Nat → Ty → Bool
  | 0, _ => false
  | _ + 1, .object => true
  | k + 1, .maybe e => resolvesToObjectF aliases k e
  | k + 1, .named n =>
    match lookupAliasLast aliases n with
    | some ty => resolvesToObjectF aliases k ty
    | none => false
  | _ + 1, _ => false

/-- `for depth := 0; depth <= 2*len(midl.Aliases)+2; depth++`: `2n+3` iterations -/
def resolvesToObject (t : Idl) (ty : Ty) : Bool :=
  resolvesToObjectF t.aliases (2 * t.aliases.length + 3) ty

/-- main.go:152-161: only aliases that resolve to object are Go type aliases (`type A = B`), because a defined
    type would lose json.RawMessage's MarshalJSON/UnmarshalJSON; everything else stays a defined type, which may
    be recursive -/
def aliasDecl (t : Idl) : Member → Option Bytes
  | .alias n d ty => (writeType ty true 0).map (fun x =>
      writeDocString d ++ str "type " ++ n ++ str " " ++ (if resolvesToObject t ty then str "= " else []) ++ x
      ++ str "\n\n")
  | _ => some []

/-- `e.Type` after main.go:140-145 (a missing type is an empty struct) -/
def errTy (ty : Option Ty) : Ty := ty.getD (.struct .nil)

/-- main.go:163-189 -/
def errorDecl (iface : Bytes) : Member → Option Bytes
  | .error n d oty =>
    let ty := errTy oty
    let fs := tyFields ty
    (writeType ty true 0).map (fun t =>
      writeDocString d ++ str "type " ++ n ++ str " " ++ t
      ++ str "\nfunc (e " ++ n ++ str ") Error() string {\n"
      ++ str "\ts := \"" ++ iface ++ str "." ++ n ++ str "\"\n"
      ++ (if !fs.isNil then
            str "\ts += fmt.Sprintf(\"("
            ++ eachName (fun f last => title f ++ str ": %v" ++ (if last then [] else str ", ")) fs
            ++ str ")\", "
            ++ eachName (fun f last => str "e." ++ title f ++ (if last then [] else str ", ")) fs
            ++ str ")\n"
          else [])
      ++ str "\treturn s"
      ++ str "}\n\n")
  | _ => some []

/-- main.go:194-207 -/
def dispatchErrorCase (iface : Bytes) : Member → Bytes
  | .error n _ _ =>
    str "\t\tcase \"" ++ iface ++ str "." ++ n ++ str "\":\n"
    ++ str "\t\t\terrorRawParameters := e.Parameters.(*json.RawMessage)\n"
    ++ str "\t\t\tif errorRawParameters == nil {\n"
    ++ str "\t\t\t\treturn e\n"
    ++ str "\t\t\t}\n"
    ++ str "\t\t\tvar param " ++ n ++ str "\n"
    ++ str "\t\t\terr := json.Unmarshal(*errorRawParameters, &param)\n"
    ++ str "\t\t\tif err != nil {\n"
    ++ str "\t\t\t\treturn e\n"
    ++ str "\t\t\t}\n"
    ++ str "\t\t\treturn &param\n"
  | _ => []

/-- main.go:191-211 -/
def dispatchErrorFunc (iface : Bytes) (errors : List Member) : Bytes :=
  str "func Dispatch_Error(err error) error {\n"
  ++ str "\tif e, ok := err.(*varlink.Error); ok {\n"
  ++ str "\t\tswitch e.Name {\n"
  ++ (errors.map (dispatchErrorCase iface)).flatten
  ++ str "\t\t}\n"
  ++ str "\t}\n"
  ++ str "\treturn err\n"
  ++ str "}\n\n"

/-- `var in <tagged struct>` + copies, or nothing (main.go:260-283 / 338-361), ending in the
    `receive, err := c.<callee>(ctx, "<iface>.<m>", in|nil<tail>` line -/
def sendPrologue (iface name callee tail : Bytes) (inTy : Ty) : Option Bytes :=
  let fs := tyFields inTy
  if !fs.isNil then
    match writeType inTy true 1, copyIn (str "in") (str "_in_") fs with
    | some t, some c =>
      some (str "\tvar in " ++ t ++ str "\n" ++ c
        ++ str "\treceive, err := c." ++ callee ++ str "(ctx, \"" ++ iface ++ str "." ++ name ++ str "\", in" ++ tail)
    | _, _ => none
  else
    some (str "\treceive, err := c." ++ callee ++ str "(ctx, \"" ++ iface ++ str "." ++ name ++ str "\", nil" ++ tail)

/-- `var out <tagged struct>` + receive, or receive into nil (main.go:294-301 / 373-380) -/
def receiveBody (lhs : Bytes) (outTy : Ty) : Option Bytes :=
  if !(tyFields outTy).isNil then
    (writeType outTy true 2).map (fun t =>
      str "\t\tvar out " ++ t ++ str "\n" ++ str "\t\t" ++ lhs ++ str " = receive(ctx, &out)\n")
  else some (str "\t\t" ++ lhs ++ str " = receive(ctx, nil)\n")

/-- main.go:215-404, one method -/
def methodClient (iface : Bytes) : Member → Option Bytes
  | .method n d inTy outTy =>
    let ins := tyFields inTy
    let outs := tyFields outTy
    match paramList (str "_in_") 1 ins, resultList 1 outs, resultTypes 1 outs,
          sendPrologue iface n (str "Send") (str ", flags)\n") inTy, resultList 3 outs,
          receiveBody (str "flags, err") outTy, copyOut outs,
          sendPrologue iface n (str "Upgrade") (str ")\n") inTy,
          receiveBody (str "flags, conn, err") outTy with
    | some params, some results1, some resultTys, some sendPro, some results3, some recvSend,
      some copies, some upPro, some recvUp =>
      some (writeDocString d
        ++ str "type " ++ n ++ str "_methods struct{}\n"
        ++ str "func " ++ n ++ str "() " ++ n ++ str "_methods { return " ++ n ++ str "_methods{} }\n\n"
        -- Call
        ++ str "func (m " ++ n ++ str "_methods) Call(ctx context.Context, c *varlink.Connection"
        ++ params ++ str ") (" ++ results1 ++ str "err_ error) {\n"
        ++ str "receive, err_ := m.Send(ctx, c, 0"
        ++ eachName (fun f _ => str ", " ++ f ++ str "_in_ ") ins
        ++ str ")\n"
        ++ str "if err_ != nil {\n\treturn\n}\n"
        ++ str "\t"
        ++ eachName (fun f _ => f ++ str "_out_ " ++ str ", ") outs
        ++ str "_, err_ = receive(ctx)\n"
        ++ str "\treturn\n}\n\n"
        -- Send
        ++ str "func (m " ++ n ++ str "_methods) Send(ctx context.Context, c *varlink.Connection, flags uint64"
        ++ params ++ str ") (func(ctx context.Context) (" ++ resultTys ++ str "uint64, error), error) {\n"
        ++ sendPro
        ++ str "\tif err != nil {\n\t\treturn nil, err\n\t}\n"
        ++ str "\treturn func(context.Context) (" ++ results3 ++ str "flags uint64, err error) {\n"
        ++ recvSend
        ++ str "\t\tif err != nil {\n\t\t\terr = Dispatch_Error(err)\n\t\t\treturn\n\t\t}\n"
        ++ copies
        ++ str "\t\treturn\n\t}, nil\n"
        ++ str "}\n\n"
        -- Upgrade
        ++ str "func (m " ++ n ++ str "_methods) Upgrade(ctx context.Context, c *varlink.Connection"
        ++ params ++ str ") (func(ctx context.Context) (" ++ results1
        ++ str "flags uint64, conn varlink.ReadWriterContext, err_ error), error) {\n"
        ++ upPro
        ++ str "if err != nil {\n\treturn nil, err\n}\n"
        ++ str "\t"
        ++ str "\treturn func(context.Context) (" ++ results3
        ++ str "flags uint64, conn varlink.ReadWriterContext, err error) {\n"
        ++ recvUp
        ++ str "\t\tif err != nil {\n\t\t\terr = Dispatch_Error(err)\n\t\t\treturn\n\t\t}\n"
        ++ copies
        ++ str "\t\treturn\n\t}, nil\n"
        ++ str "}\n\n")
    | _, _, _, _, _, _, _, _, _ => none
  | _ => some []

/-- main.go:409-416, one line of the service interface -/
def ifaceMethod : Member → Option Bytes
  | .method n _ inTy _ =>
    (paramList (str "_") 1 (tyFields inTy)).map (fun ps =>
      str "\t" ++ n ++ str "(ctx context.Context, c VarlinkCall" ++ ps ++ str ") error\n")
  | _ => some []

/-- `func (c *VarlinkCall) Reply<X>(ctx context.Context, <name>_ <type>, …` -/
def replyParams (fs : Fields) : Option Bytes :=
  eachFieldSep (str ", ") (fun n t => (writeType t false 1).map (fun ty => n ++ str "_ " ++ ty)) true fs

/-- main.go:425-457 -/
def errorReply (iface : Bytes) : Member → Option Bytes
  | .error n d oty =>
    let fs := tyFields (errTy oty)
    match replyParams fs, copyIn (str "out") (str "_") fs with
    | some ps, some c =>
      some (writeDocString d
        ++ str "func (c *VarlinkCall) Reply" ++ n ++ str "(ctx context.Context, " ++ ps ++ str ") error {\n"
        ++ str "\tvar out " ++ n ++ str "\n"
        ++ c
        ++ str "\treturn c.ReplyError(ctx, \"" ++ iface ++ str "." ++ n ++ str "\", &out)\n"
        ++ str "}\n\n")
    | _, _ => none
  | _ => some []

/-- main.go:461-496 -/
def methodReply : Member → Option Bytes
  | .method n _ _ outTy =>
    let fs := tyFields outTy
    match replyParams fs with
    | some ps =>
      let head := str "func (c *VarlinkCall) Reply" ++ n ++ str "(ctx context.Context, " ++ ps ++ str ") error {\n"
      if !fs.isNil then
        match writeType outTy true 1, copyIn (str "out") (str "_") fs with
        | some t, some c =>
          some (head ++ str "\tvar out " ++ t ++ str "\n" ++ c ++ str "\treturn c.Reply(ctx, &out)\n" ++ str "}\n\n")
        | _, _ => none
      else some (head ++ str "\treturn c.Reply(ctx, nil)\n" ++ str "}\n\n")
    | none => none
  | _ => some []

/-- main.go:500-510 -/
def dummyImpl (iface : Bytes) : Member → Option Bytes
  | .method n d inTy _ =>
    (paramList (str "_") 1 (tyFields inTy)).map (fun ps =>
      writeDocString d
      ++ str "func (s *VarlinkInterface) " ++ n ++ str "(ctx context.Context, c VarlinkCall" ++ ps
      ++ str ") error {\n"
      ++ str "\treturn c.ReplyMethodNotImplemented(ctx, \"" ++ iface ++ str "." ++ n ++ str "\")\n"
      ++ str "}\n\n")
  | _ => some []

/-- main.go:516-550 -/
def dispatchCase (pkg : Bytes) : Member → Option Bytes
  | .method n _ inTy _ =>
    let fs := tyFields inTy
    if !fs.isNil then
      match writeType inTy true 2, dispatchArgs fs with
      | some t, some args =>
        some (str "\tcase \"" ++ n ++ str "\":\n"
          ++ str "\t\tvar in " ++ t ++ str "\n"
          ++ str "\t\terr := call.GetParameters(&in)\n"
          ++ str "\t\tif err != nil {\n"
          ++ str "\t\t\treturn call.ReplyInvalidParameter(ctx, \"parameters\")\n"
          ++ str "\t\t}\n"
          ++ str "\t\treturn s." ++ pkg ++ str "Interface." ++ n ++ str "(ctx, VarlinkCall{call}"
          ++ args ++ str ")\n"
          ++ str "\n")
      | _, _ => none
    else
      some (str "\tcase \"" ++ n ++ str "\":\n"
        ++ str "\t\treturn s." ++ pkg ++ str "Interface." ++ n ++ str "(ctx, VarlinkCall{call})\n"
        ++ str "\n")
  | _ => some []

/-- the raw-string splice of the description (main.go:565-566) -/
def quoteDescription (d : Bytes) : Bytes :=
  replaceByte cr (str "` + \"\\r\" + `") (replaceByte backtick (str "` + \"`\" + `") d)

/-- the expression after `return ` in `VarlinkGetName` (main.go:559) -/
def nameLiteral (name : Bytes) : Bytes := str "`" ++ name ++ str "`"

/-- the expression after `return ` in `VarlinkGetDescription` (main.go:565-568) -/
def descLiteral (description : Bytes) : Bytes := str "`" ++ quoteDescription description ++ str "\n`"

/-- main.go:556-559, up to the returned expression -/
def tailHead : Bytes :=
  str "// Generated varlink interface name\n\n"
  ++ str "func (s *VarlinkInterface) VarlinkGetName() string {\n"
  ++ str "\treturn "

/-- main.go:559-568, between the two returned expressions -/
def tailMid : Bytes :=
  str "\n" ++ str "}\n\n"
  ++ str "// Generated varlink interface description\n\n"
  ++ str "func (s *VarlinkInterface) VarlinkGetDescription() string {\n"
  ++ str "\treturn "

/-- main.go:568-578 -/
def tailEnd (pkg : Bytes) : Bytes :=
  str "\n}\n\n"
  ++ str "// Generated service interface\n\n"
  ++ str "type VarlinkInterface struct {\n"
  ++ str "\t" ++ pkg ++ str "Interface\n"
  ++ str "}\n\n"
  ++ str "func VarlinkNew(m " ++ pkg ++ str "Interface) *VarlinkInterface {\n"
  ++ str "\treturn &VarlinkInterface{m}\n"
  ++ str "}\n"

/-- main.go:556-578: `VarlinkGetName` returns `nameLiteral`, `VarlinkGetDescription` returns `descLiteral` -/
def tailText (pkg name description : Bytes) : Bytes :=
  tailHead ++ nameLiteral name ++ tailMid ++ descLiteral description ++ tailEnd pkg

/-- the buffer `b` at main.go:580 (written from main.go:149 on): the declarations, generated before the header -/
def bodyText (t : Idl) : Option Bytes :=
  let pkg := pkgName t.name
  match concatOpt (aliasDecl t) t.aliases, concatOpt (errorDecl t.name) t.errors,
        concatOpt (methodClient t.name) t.methods, concatOpt ifaceMethod t.methods,
        concatOpt (errorReply t.name) t.errors, concatOpt methodReply t.methods,
        concatOpt (dummyImpl t.name) t.methods, concatOpt (dispatchCase pkg) t.methods with
  | some aliases, some errors, some clients, some ifaceMethods, some errorReplies, some methodReplies,
    some dummies, some cases =>
    some (str "// Generated type declarations\n\n"
      ++ aliases
      ++ errors
      ++ dispatchErrorFunc t.name t.errors
      ++ str "// Generated client method calls\n\n"
      ++ clients
      ++ str "// Generated service interface with all methods\n\n"
      ++ str "type " ++ pkg ++ str "Interface interface {\n"
      ++ ifaceMethods
      ++ str "}\n\n"
      ++ str "// Generated service object with all methods\n\n"
      ++ str "type VarlinkCall struct{ varlink.Call }\n\n"
      ++ str "// Generated reply methods for all varlink errors\n\n"
      ++ errorReplies
      ++ str "// Generated reply methods for all varlink methods\n\n"
      ++ methodReplies
      ++ str "// Generated dummy implementations for all varlink methods\n\n"
      ++ dummies
      ++ str "// Generated method call dispatcher\n\n"
      ++ str "func (s *VarlinkInterface) VarlinkDispatch(ctx context.Context, call varlink.Call, methodname string) error {\n"
      ++ str "\tswitch methodname {\n"
      ++ cases
      ++ str "\tdefault:\n"
      ++ str "\t\treturn call.ReplyMethodNotFound(ctx, methodname)\n"
      ++ str "\t}\n"
      ++ str "}\n\n"
      ++ tailText pkg t.name t.description)
  | _, _, _, _, _, _, _, _ => none

/-! ## the imports: what the declarations were recorded to use

  `b.usesJSON` is set by `writeType` in the `TypeObject` case and once per error by the `Dispatch_Error` loop;
  `b.usesFmt` by the `Error()` method of an error with parameters. `writeType` is called on the whole type of
  every alias and error and on the types of the input and output fields of every method (and on `m.In` / `m.Out`
  themselves only when they have fields), so for a description whose declarations were generated without a
  panic the two flags are the following functions of the tree. -/

def memberUsesJson : Member → Bool
  | .alias _ _ ty => tyUsesObject ty
  | .method _ _ i o => fsUsesObject (tyFields i) || fsUsesObject (tyFields o)
  | .error _ _ _ => true

/-- `b.usesJSON` at main.go:582 -/
def usesJson (t : Idl) : Bool := t.members.any memberUsesJson

def memberUsesFmt : Member → Bool
  | .error _ _ oty => !(tyFields (errTy oty)).isNil
  | _ => false

/-- `b.usesFmt` at main.go:585 -/
def usesFmt (t : Idl) : Bool := t.members.any memberUsesFmt

/-- the import list (main.go:580-587): `varlink` and `context` are used by the fixed part of every file -/
def importList (t : Idl) : List Bytes :=
  [str "\"github.com/varlink/go/varlink\"", str "\"context\""]
  ++ (if usesJson t then [str "\"encoding/json\""] else [])
  ++ (if usesFmt t then [str "\"fmt\""] else [])

/-- the buffer `head` (main.go:589-593): generated-code line, interface documentation, package clause,
    import block. Documentation and names are only copied; nothing is searched or replaced in them. -/
def headText (t : Idl) : Bytes :=
  str "// Code generated by github.com/varlink/go/cmd/varlink-go-interface-generator, DO NOT EDIT.\n\n"
  ++ writeDocString t.doc
  ++ str "package " ++ pkgName t.name ++ str "\n\n"
  ++ str "import (\n" ++ join (str "\n\t") (importList t) ++ str "\n)\n\n"

/-- the argument of `format.Source` (main.go:595): `append(head.Bytes(), b.Bytes()...)` -/
def genTextO (t : Idl) : Option Bytes := (bodyText t).map (headText t ++ ·)

def genText (t : Idl) : Outcome Bytes := Outcome.ofOption (genTextO t)

/-- result of `generateTemplate(description)` up to `format.Source` -/
inductive TemplateResult where
  | parseError
  | crash
  | text (pkgname : Bytes) (src : Bytes)

/-- `generateTemplate` (main.go:125-131, then the above); `parse` is `idl.New` -/
def generateTemplate (parse : Bytes → Option Idl) (description : Bytes) : TemplateResult :=
  match parse (trimRightNL description) with
  | none => .parseError
  | some t =>
    match genTextO t with
    | none => .crash
    | some s => .text (pkgName t.name) s

end Varlink.Gen
