/-
  `Domain : Idl → Bool` — the domain of property C07 made decidable, as a predicate on the tree `idl.New`
  returns:

    what the parser guarantees for every tree it returns (checked on every real tree by the correspondence run)
      nameShapes       interface name starts with a letter and consists of letters, digits, `.`, `-`;
                       member names are `[A-Z][A-Za-z0-9]*`; field names are `[a-z][A-Za-z0-9_]*`
      uniqueMembers    member names pairwise distinct
      homogeneous      a field list is all typed (struct) or all bare (enum, non-empty)
      hasMethod        at least one method
    the property's own restrictions
      refsResolve      every type reference names a `type` member
      fieldsDistinct   field names of every struct pairwise distinct
      ioStructs        method input and output are structs; an error's type is a struct or absent
      noReserved       no member named like an identifier the generated file itself declares or relies on:
                       `VarlinkCall`, `VarlinkInterface`, `VarlinkNew` (any member); `VarlinkDispatch`,
                       `VarlinkGetName`, `VarlinkGetDescription` (methods); `Error`, `MethodNotImplemented`
                       (methods and errors: `Reply<X>` would shadow the `varlink.Call` method the file calls);
                       no top-level error field named `error` (its Go name `Error` clashes with the method)
      noDirectRecursion  no `type` member contains itself without indirection (`type T (a: T)`, `type T T`,
                       `type A (b: B)` + `type B (a: A)`): such a type has no values and Go rejects the
                       declaration; cycles through `?`, `[]`, `[string]` stay inside the domain
                       (coordinator decision: explicit exclusion)
    an explicit assumption
      cleanText        description and documentation are valid UTF-8 without NUL and without a byte order
                       mark (they are copied into Go comments and a raw string literal; go/format rejects the
                       file otherwise)

  No further condition: the four defects that used to be excluded here as `KnownDefectFree` (package name a
  Go keyword or `main`, imports chosen by substring tests, `@IMPORTS@` inside the interface documentation)
  have been repaired in the generator (30ae85f, 764942c, 2a8a008) and their guards removed.
-/
import Varlink.Gen.View
import Varlink.Gen.Check
namespace Varlink.Gen
open Varlink Varlink.Idl

/-! ## text -/

inductive U8State where
  | start | c1 | c2 | c3 | e0 | ed | f0 | f4
  deriving DecidableEq

def inRange (lo hi c : UInt8) : Bool := lo ≤ c && c ≤ hi

/-- valid UTF-8 (Go's `utf8.Valid`) without NUL -/
def utf8From : U8State → Bytes → Bool
  | s, [] => s == .start
  | .start, c :: r =>
    if c == 0 then false
    else if c < 0x80 then utf8From .start r
    else if inRange 0xC2 0xDF c then utf8From .c1 r
    else if c == 0xE0 then utf8From .e0 r
    else if c == 0xED then utf8From .ed r
    else if inRange 0xE1 0xEF c then utf8From .c2 r
    else if c == 0xF0 then utf8From .f0 r
    else if inRange 0xF1 0xF3 c then utf8From .c3 r
    else if c == 0xF4 then utf8From .f4 r
    else false
  | .c1, c :: r => inRange 0x80 0xBF c && utf8From .start r
  | .c2, c :: r => inRange 0x80 0xBF c && utf8From .c1 r
  | .c3, c :: r => inRange 0x80 0xBF c && utf8From .c2 r
  | .e0, c :: r => inRange 0xA0 0xBF c && utf8From .c1 r
  | .ed, c :: r => inRange 0x80 0x9F c && utf8From .c1 r
  | .f0, c :: r => inRange 0x90 0xBF c && utf8From .c2 r
  | .f4, c :: r => inRange 0x80 0x8F c && utf8From .c2 r

def cleanBytes (s : Bytes) : Bool := utf8From .start s && !contains [0xEF, 0xBB, 0xBF] s

def cleanText (t : Idl) : Bool :=
  cleanBytes t.description && cleanBytes t.doc && t.members.all (fun m => cleanBytes m.doc)

/-! ## what the parser guarantees -/

def isAlnum (c : UInt8) : Bool := isLetter c || isDigit c

def ifaceNameShape : Bytes → Bool
  | [] => false
  | c :: r => isLetter c && r.all (fun c => isAlnum c || c == dot || c == dash)

def memberNameShape : Bytes → Bool
  | [] => false
  | c :: r => isUpper c && r.all isAlnum

def fieldNameShape : Bytes → Bool
  | [] => false
  | c :: r => isLower c && r.all (fun c => isAlnum c || c == underscore)

mutual
def tyNamesOk : Ty → Bool
  | .maybe t => tyNamesOk t
  | .array t => tyNamesOk t
  | .map t => tyNamesOk t
  | .struct fs => fsNamesOk fs
  | .enum fs => fsNamesOk fs
  | _ => true
def fsNamesOk : Fields → Bool
  | .nil => true
  | .typed n t r => fieldNameShape n && tyNamesOk t && fsNamesOk r
  | .bare n r => fieldNameShape n && fsNamesOk r
end

def nameShapes (t : Idl) : Bool :=
  ifaceNameShape t.name
  && t.members.all (fun m => memberNameShape m.name && m.types.all tyNamesOk)

def hasMethod (t : Idl) : Bool := !t.methods.isEmpty

/-! ## the property's restrictions -/

def aliasNames (t : Idl) : List Bytes := t.aliases.map Member.name

mutual
def tyRefsIn (names : List Bytes) : Ty → Bool
  | .named n => names.contains n
  | .maybe t => tyRefsIn names t
  | .array t => tyRefsIn names t
  | .map t => tyRefsIn names t
  | .struct fs => fsRefsIn names fs
  | _ => true
def fsRefsIn (names : List Bytes) : Fields → Bool
  | .nil => true
  | .typed _ t r => tyRefsIn names t && fsRefsIn names r
  | .bare _ r => fsRefsIn names r
end

def refsResolve (t : Idl) : Bool := t.members.all fun m => m.types.all (tyRefsIn (aliasNames t))

mutual
def tyFieldsDistinct : Ty → Bool
  | .maybe t => tyFieldsDistinct t
  | .array t => tyFieldsDistinct t
  | .map t => tyFieldsDistinct t
  | .struct fs => distinct fs.names && fsFieldsDistinct fs
  | _ => true
def fsFieldsDistinct : Fields → Bool
  | .nil => true
  | .typed _ t r => tyFieldsDistinct t && fsFieldsDistinct r
  | .bare _ r => fsFieldsDistinct r
end

def fieldsDistinct (t : Idl) : Bool := t.members.all fun m => m.types.all tyFieldsDistinct

def tyIsStruct : Ty → Bool
  | .struct _ => true
  | _ => false

def memberIoStructs : Member → Bool
  | .method _ _ i o => tyIsStruct i && tyIsStruct o
  | .error _ _ (some ty) => tyIsStruct ty
  | _ => true

def ioStructs (t : Idl) : Bool := t.members.all memberIoStructs

def reservedAny : List Bytes := ["VarlinkCall", "VarlinkInterface", "VarlinkNew"].map str
def reservedMethod : List Bytes := ["VarlinkDispatch", "VarlinkGetName", "VarlinkGetDescription"].map str
def reservedReply : List Bytes := ["Error", "MethodNotImplemented"].map str

def memberNotReserved : Member → Bool
  | .alias n _ _ => !reservedAny.contains n
  | .method n _ _ _ => !reservedAny.contains n && !reservedMethod.contains n && !reservedReply.contains n
  | .error n _ oty =>
    !reservedAny.contains n && !reservedReply.contains n && !(tyFields (errTy oty)).names.contains (str "error")

def noReserved (t : Idl) : Bool := t.members.all memberNotReserved

mutual
/-- the alias names a type contains without indirection -/
def tyDirectRefs : Ty → List Bytes
  | .named n => [n]
  | .struct fs => fsDirectRefs fs
  | _ => []
def fsDirectRefs : Fields → List Bytes
  | .nil => []
  | .typed _ t r => tyDirectRefs t ++ fsDirectRefs r
  | .bare _ r => fsDirectRefs r
end

def lookupAlias (ms : List Member) (n : Bytes) : Option Ty :=
  match ms with
  | [] => none
  | .alias m _ ty :: r => if m = n then some ty else lookupAlias r n
  | _ :: r => lookupAlias r n

def expandRefs (ms : List Member) (ns : List Bytes) : List Bytes :=
  ((ns.map fun n => match lookupAlias ms n with | some ty => tyDirectRefs ty | none => []).flatten).eraseDups

def reachesAlias (ms : List Member) (target : Bytes) : Nat → List Bytes → Bool
  | 0, ns => ns.contains target
  | fuel + 1, ns => ns.contains target || reachesAlias ms target fuel (expandRefs ms ns)

def noDirectRecursion (t : Idl) : Bool :=
  t.members.all fun m => match m with
    | .alias n _ ty => !reachesAlias t.members n t.members.length (tyDirectRefs ty)
    | _ => true

/-! ## the domain -/

def Domain (t : Idl) : Bool :=
  nameShapes t && t.uniqueMemberNames && t.homogeneous && hasMethod t
  && refsResolve t && fieldsDistinct t && ioStructs t && noReserved t && noDirectRecursion t
  && cleanText t

def domainChecks : List (String × (Idl → Bool)) :=
  [("name-shapes", nameShapes), ("unique-members", Idl.uniqueMemberNames), ("homogeneous", Idl.homogeneous),
   ("has-method", hasMethod), ("refs-resolve", refsResolve), ("fields-distinct", fieldsDistinct),
   ("io-structs", ioStructs), ("reserved-name", noReserved), ("direct-recursion", noDirectRecursion),
   ("clean-text", cleanText)]

/-- name of the first domain condition that fails -/
def outsideBecause (t : Idl) : Option String := (domainChecks.find? (fun c => !c.2 t)).map (·.1)

end Varlink.Gen
