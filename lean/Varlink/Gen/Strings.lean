/-
  The few functions of Go's `strings` package that the interface generator
  (/repo/cmd/varlink-go-interface-generator/main.go) uses, as small structural recursions over bytes.

  `strings.ToLower` and `strings.Title` are Unicode aware in Go; the models below are exact for ASCII
  input (the only input the generator applies them to: interface names and field names, which the
  parser restricts to ASCII letters, digits, `.`, `-`, `_`). Bytes ≥ 0x80 are passed through.
-/
import Varlink.Basic
namespace Varlink.Gen
open Varlink

def nl : UInt8 := 10
def cr : UInt8 := 13
def backtick : UInt8 := 96
def tab : UInt8 := 9
def dash : UInt8 := 45
def underscore : UInt8 := 95

/-- `strings.HasPrefix(s, p)` -/
def hasPrefix : Bytes → Bytes → Bool
  | _, [] => true
  | [], _ :: _ => false
  | a :: s, b :: p => a == b && hasPrefix s p

/-- `strings.Contains(s, sub)` -/
def contains (sub : Bytes) : Bytes → Bool
  | [] => sub.isEmpty
  | a :: s => hasPrefix (a :: s) sub || contains sub s

/-- `strings.Replace(s, string(c), new, -1)` for a one-byte `old` -/
def replaceByte (c : UInt8) (new : Bytes) : Bytes → Bytes
  | [] => []
  | a :: s => if a = c then new ++ replaceByte c new s else a :: replaceByte c new s

def isUpper (c : UInt8) : Bool := 65 ≤ c && c ≤ 90
def isLower (c : UInt8) : Bool := 97 ≤ c && c ≤ 122
def isDigit (c : UInt8) : Bool := 48 ≤ c && c ≤ 57
def isLetter (c : UInt8) : Bool := isUpper c || isLower c

def lowerByte (c : UInt8) : UInt8 := if isUpper c then c + 32 else c
def upperByte (c : UInt8) : UInt8 := if isLower c then c - 32 else c

/-- `strings.ToLower` (ASCII) -/
def toLower (s : Bytes) : Bytes := s.map lowerByte

/-- `isSeparator` of strings.Title for ASCII: letters, digits and underscore are not separators;
    bytes ≥ 0x80 are treated as non-separators that are not changed. -/
def isSeparator (c : UInt8) : Bool :=
  !(isLetter c || isDigit c || c == underscore || c ≥ 128)

/-- `strings.Title` (ASCII): upper-case every letter that starts a word; `prev` is the previous byte
    (Go starts with `prev = ' '`). -/
def titleFrom (prev : UInt8) : Bytes → Bytes
  | [] => []
  | c :: s => (if isSeparator prev then upperByte c else c) :: titleFrom c s

def title (s : Bytes) : Bytes := titleFrom 32 s

/-- drop trailing `\n` of a reversed string -/
def dropNLs : Bytes → Bytes
  | [] => []
  | c :: s => if c = nl then dropNLs s else c :: s

/-- `strings.TrimRight(s, "\n")` -/
def trimRightNL (s : Bytes) : Bytes := (dropNLs s.reverse).reverse

/-- `strings.Join(l, sep)` -/
def join (sep : Bytes) : List Bytes → Bytes
  | [] => []
  | [a] => a
  | a :: b :: r => a ++ sep ++ join sep (b :: r)

/-- the 25 keywords of Go: `token.IsKeyword(s)` is `goKeywords.contains s` -/
def goKeywords : List Bytes :=
  ["break", "default", "func", "interface", "select", "case", "defer", "go", "map", "struct", "chan", "else",
   "goto", "package", "switch", "const", "fallthrough", "if", "range", "type", "continue", "for", "import",
   "return", "var"].map str

/-- package names that are no keywords and still unusable for the emitted file: a `package main` cannot be
    imported (and does not build without `func main`), and go/build IGNORES every file whose package clause is
    `package documentation` (the name reserved for doc-only files): a directory that holds nothing else
    fails with "build constraints exclude all Go files" -/
def reservedPkgNames : List Bytes := [str "main", str "documentation"]

/-- `n` tab characters -/
def tabs : Nat → Bytes
  | 0 => []
  | n + 1 => tab :: tabs n

end Varlink.Gen
