/-
  Model of address handling: `Service.parseAddress`, `Service.Bind`, `Service.setListener`
  (service.go) and the parsing half of `NewConnection` (connection.go).

  Go strings are byte strings. `strings.SplitN(s, ":", 2)` is `splitFirst colon`.
  `net.Listen` / `net.Dial` and the file system are the environment: a parameter of the model.
-/
import Varlink.Basic
namespace Varlink

def protoUnix : Bytes := str "unix"
def protoTcp : Bytes := str "tcp"

/-- everything before the first `;` (`strings.SplitN(addr, ";", 2)[0]`) -/
def stripParams (addr : Bytes) : Bytes :=
  match splitFirst semi addr with
  | some (a, _) => a
  | none => addr

inductive ParseErr where
  | noProtocol        -- no ':' in the string ("Unknown protocol")
  | unknownProtocol   -- protocol other than unix / tcp
  | emptyUnixPath     -- "unix:" / "unix:;x" ("Invalid address")
  deriving DecidableEq, Repr

/-- the two fields `parseAddress` writes -/
structure AddrFields where
  protocol : Bytes := []
  address : Bytes := []
  deriving DecidableEq, Repr

/-- `parseAddress`: new field values (the fields are written *before* the protocol is validated, as in
    the code) and the error, if any. -/
def parseAddress (f : AddrFields) (a : Bytes) : AddrFields × Option ParseErr :=
  match splitFirst colon a with
  | none => (f, some .noProtocol)
  | some (proto, rest) =>
    let f' : AddrFields := { protocol := proto, address := stripParams rest }
    if proto = protoUnix then
      if f'.address = [] then (f', some .emptyUnixPath) else (f', none)
    else if proto = protoTcp then (f', none)
    else (f', some .unknownProtocol)

/-- what `setListener` asks of the operating system, or a Go panic (`s.address[0]` on an empty string) -/
inductive ListenReq where
  | panic
  | listen (proto addr : Bytes) (removeFirst unlinkOnClose : Bool)
  deriving DecidableEq, Repr

/-- `setListener` when no socket was inherited: the stale-file removal and unlink-on-close apply to
    filesystem unix sockets only (`address[0] != '@'`); indexing an empty address panics. -/
def listenRequest (f : AddrFields) : ListenReq :=
  if f.protocol = protoUnix then
    match f.address with
    | [] => .panic
    | c :: _ => .listen f.protocol f.address (c ≠ at') (c ≠ at')
  else .listen f.protocol f.address false false

inductive BindResult where
  | refusedRunning
  | refusedParse (e : ParseErr)
  | panic
  /-- the address was accepted; whether a listener exists afterwards is up to `net.Listen` -/
  | attempt (proto addr : Bytes) (removeFirst unlinkOnClose : Bool)
  deriving DecidableEq, Repr

structure BindState where
  running : Bool := false
  fields : AddrFields := {}
  deriving DecidableEq, Repr

/-- `Bind` (no inherited socket): the state afterwards (only the two address fields can change here; the
    listener itself is installed by the environment when the attempt succeeds) and the result. -/
def bind (σ : BindState) (a : Bytes) : BindState × BindResult :=
  if σ.running then (σ, .refusedRunning)
  else
    match parseAddress σ.fields a with
    | (f', some e) => ({ σ with fields := f' }, .refusedParse e)
    | (f', none) =>
      match listenRequest f' with
      | .panic => ({ σ with fields := f' }, .panic)
      | .listen p ad rm ul => ({ σ with fields := f' }, .attempt p ad rm ul)

/-- the endpoint a client dials for the same string: `NewConnection` splits exactly the same way but
    validates nothing (`net.Dial` rejects unknown networks) -/
def clientEndpoint (a : Bytes) : Option (Bytes × Bytes) :=
  match splitFirst colon a with
  | none => none
  | some (proto, rest) => some (proto, stripParams rest)

/-- the reference reading of a valid address: protocol, then everything up to the first ';' -/
def endpointOf (a : Bytes) : Option (Bytes × Bytes) :=
  match splitFirst colon a with
  | none => none
  | some (proto, rest) => some (proto, rest.takeWhile (· ≠ semi))

/-- Go's `net` maps a leading '@' of a unix address to the abstract namespace -/
def isAbstract (addr : Bytes) : Bool :=
  match addr with
  | c :: _ => c = at'
  | [] => false

end Varlink
