/-
  Harness protocol: a handler script travels inside the call's `parameters` object so that the
  real dispatcher (Go harness) and the model see the same script.

    {"id": "...", "acts": [["c", true], ["r"], ["r", <json>], ["rb"], ["e", "name"], ["e", "name", <json>],
                            ["eb", "name"], ["s", "i"|"m"|"n"|"p", "arg"]], "fail": true}

  Decoding rules are mirrored one to one by `decodeScript` in harness/script.go; anything that
  does not fit yields the empty script.
-/
import Varlink.Service
namespace Varlink

/-- last member with exactly this key (Go: `map[string]json.RawMessage`, last duplicate wins) -/
def JMembers.lookupLast (key : Bytes) : JMembers → Option JVal
  | .nil => none
  | .cons k v t =>
    match JMembers.lookupLast key t with
    | some w => some w
    | none => if k = key then some v else none

def decodeAct : JVal → Option Act
  | .arr (.cons (.str tag) args) =>
    if tag = str "c" then
      match args with
      | .cons (.bool b) .nil => some (.setContinues b)
      | _ => none
    else if tag = str "r" then
      match args with
      | .nil => some (.reply .absent)
      | .cons v .nil => some (.reply (.val v))
      | _ => none
    else if tag = str "rb" then
      match args with
      | .nil => some (.reply .bad)
      | _ => none
    else if tag = str "e" then
      match args with
      | .cons (.str n) .nil => some (.replyError n .absent)
      | .cons (.str n) (.cons v .nil) => some (.replyError n (.val v))
      | _ => none
    else if tag = str "eb" then
      match args with
      | .cons (.str n) .nil => some (.replyError n .bad)
      | _ => none
    else if tag = str "s" then
      match args with
      | .cons (.str k) (.cons (.str a) .nil) =>
        if k = str "i" then some (.replyStd (.interfaceNotFound a))
        else if k = str "m" then some (.replyStd (.methodNotFound a))
        else if k = str "n" then some (.replyStd (.methodNotImplemented a))
        else if k = str "p" then some (.replyStd (.invalidParameter a))
        else none
      | _ => none
    else none
  | _ => none

def decodeActs : JList → Option (List Act)
  | .nil => some []
  | .cons v t =>
    match decodeAct v, decodeActs t with
    | some a, some as => some (a :: as)
    | _, _ => none

def decodeScript (params : Option JVal) : Script :=
  match params with
  | some (.obj ms) =>
    let fail := match JMembers.lookupLast (str "fail") ms with
      | some (.bool b) => some b
      | none => some false
      | _ => none
    let acts := match JMembers.lookupLast (str "acts") ms with
      | some (.arr xs) => decodeActs xs
      | none => some []
      | _ => none
    match fail, acts with
    | some f, some as => { acts := as, returnsError := f }
    | _, _ => {}
  | _ => {}

/-- the behaviour of the harness dispatchers -/
def scriptedBehaviour : Behaviour := fun _ _ c => decodeScript c.params

end Varlink
