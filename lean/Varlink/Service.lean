/-
  Model of the service side of varlink/go: call decoding (`serviceCall`), method routing
  (`HandleMessage`), the reply API of `Call` (`Reply`, `ReplyError`, the four standard error
  helpers, `sendMessage`), the built-in org.varlink.service interface and the per-connection loop
  (`handleConnection`).
-/
import Varlink.Json
namespace Varlink

def orgVarlinkService : Bytes := str "org.varlink.service"

/-! ## Routing (service.go `HandleMessage`, lines 93-111) -/

inductive Route where
  | invalidMethod
  | builtin (m : Bytes)
  | notFound (i : Bytes)
  | user (i m : Bytes)
  deriving DecidableEq, Repr

/-- `regs` are the interface names registered by the user (org.varlink.service is tested first,
    exactly as the code does). -/
def route (regs : List Bytes) (m : Bytes) : Route :=
  match lastIndexOf dot m with
  | none => .invalidMethod
  | some 0 => .invalidMethod
  | some (r + 1) =>
    let i := m.take (r + 1)
    let n := m.drop (r + 2)
    if i = orgVarlinkService then .builtin n
    else if regs.contains i then .user i n
    else .notFound i

/-! ## Calls, replies, handler scripts -/

structure CallIn where
  method : Bytes := []
  params : Option JVal := none
  more : Bool := false
  oneway : Bool := false
  upgrade : Bool := false

/-- what a handler passes as `parameters interface{}` -/
inductive Payload where
  | absent                 -- nil
  | val (v : JVal)         -- an encodable value
  | bad                    -- a value `json.Marshal` rejects

structure ReplyFrame where
  params : Option JVal := none
  continues : Bool := false
  error : Bytes := []

inductive StdErr where
  | interfaceNotFound (i : Bytes)
  | methodNotFound (m : Bytes)
  | methodNotImplemented (m : Bytes)
  | invalidParameter (p : Bytes)

/-- one use of the `Call` API by a handler -/
inductive Act where
  | setContinues (b : Bool)
  | reply (p : Payload)
  | replyError (name : Bytes) (p : Payload)
  | replyStd (e : StdErr)

/-- what the API call returned to the handler -/
inductive ActResult where
  | done               -- (setContinues) no return value
  | sent               -- nil, a frame was written
  | suppressed         -- nil, oneway call: nothing written
  | refusedContinues   -- error: call did not set more
  | refusedName        -- error: invalid error name
  | refusedReserved    -- error: org.varlink.service errors are refused
  | encodeError        -- json.Marshal failed, nothing written
  deriving DecidableEq, Repr

def ActResult.isErr : ActResult → Bool
  | .refusedContinues | .refusedName | .refusedReserved | .encodeError => true
  | _ => false

def strObj (k v : Bytes) : JVal := .obj (.cons k (.str v) .nil)

def StdErr.name : StdErr → Bytes
  | .interfaceNotFound _ => str "org.varlink.service.InterfaceNotFound"
  | .methodNotFound _ => str "org.varlink.service.MethodNotFound"
  | .methodNotImplemented _ => str "org.varlink.service.MethodNotImplemented"
  | .invalidParameter _ => str "org.varlink.service.InvalidParameter"

def StdErr.params : StdErr → JVal
  | .interfaceNotFound i => strObj (str "interface") i
  | .methodNotFound m => strObj (str "method") m
  | .methodNotImplemented m => strObj (str "method") m
  | .invalidParameter p => strObj (str "parameter") p

/-- `sendMessage`: oneway first, then marshal, then write. -/
def sendMessage (c : CallIn) (p : Payload) (continues : Bool) (err : Bytes) :
    List ReplyFrame × ActResult :=
  if c.oneway then ([], .suppressed)
  else match p with
    | .bad => ([], .encodeError)
    | .absent => ([{ params := none, continues := continues, error := err }], .sent)
    | .val v => ([{ params := some v, continues := continues, error := err }], .sent)

/-- One API call: new value of `Call.Continues`, frames written, value returned to the handler. -/
def Call.step (c : CallIn) (continues : Bool) : Act → Bool × List ReplyFrame × ActResult
  | .setContinues b => (b, [], .done)
  | .reply p =>
    if !continues then (continues, sendMessage c p false [])
    else if !c.more then (continues, [], .refusedContinues)
    else (continues, sendMessage c p true [])
  | .replyError name p =>
    match lastIndexOf dot name with
    | none => (continues, [], .refusedName)
    | some 0 => (continues, [], .refusedName)
    | some (r + 1) =>
      if name.take (r + 1) = orgVarlinkService then (continues, [], .refusedReserved)
      else (continues, sendMessage c p false name)
  | .replyStd e => (continues, sendMessage c (.val e.params) false e.name)

/-- run a handler script; `Call.Continues` starts false -/
def runActs (c : CallIn) : Bool → List Act → List ReplyFrame × List ActResult
  | _, [] => ([], [])
  | k, a :: as =>
    let (k', fs, r) := Call.step c k a
    let (fs', rs) := runActs c k' as
    (fs ++ fs', r :: rs)

structure Script where
  acts : List Act := []
  returnsError : Bool := false

/-! ## Decoding a request frame into `serviceCall` (json.Unmarshal) -/

inductive FieldUpd where
  | ok (c : CallIn)
  | typeError

def setBool (v : JVal) (old : Bool) : Option Bool :=
  match v with
  | .bool b => some b
  | .null => some old
  | _ => none

/-- apply one JSON object member to the struct being decoded; `none` = UnmarshalTypeError -/
def applyMember (c : CallIn) (k : Bytes) (v : JVal) : Option CallIn :=
  if keyMatches (str "method") k then
    match v with
    | .str s => some { c with method := s }
    | .null => some c
    | _ => none
  else if keyMatches (str "parameters") k then
    match v with
    | .null => some { c with params := none }
    | v => some { c with params := some v }
  else if keyMatches (str "more") k then (setBool v c.more).map fun b => { c with more := b }
  else if keyMatches (str "oneway") k then (setBool v c.oneway).map fun b => { c with oneway := b }
  else if keyMatches (str "upgrade") k then (setBool v c.upgrade).map fun b => { c with upgrade := b }
  else some c

/-- Go keeps decoding after a type error and reports the first one at the end; the call is
    rejected either way, so the model only tracks "some member had the wrong type". -/
def applyMembers (c : CallIn) : JMembers → Option CallIn
  | .nil => some c
  | .cons k v t =>
    match applyMember c k v with
    | some c' => applyMembers c' t
    | none => none

def decodeCall (frame : Bytes) : Option CallIn :=
  match parseDoc frame with
  | none => none
  | some .null => some {}
  | some (.obj ms) => applyMembers {} ms
  | some _ => none

/-! ## Built-in interface -/

structure Registry where
  vendor : Bytes := []
  product : Bytes := []
  version : Bytes := []
  url : Bytes := []
  /-- user-registered interfaces in registration order (name, description) -/
  ifaces : List (Bytes × Bytes) := []

def orgVarlinkServiceDescription : Bytes := str "# The Varlink Service Interface is provided by every varlink service. It
# describes the service and the interfaces it implements.
interface org.varlink.service

# Get a list of all the interfaces a service provides and information
# about the implementation.
method GetInfo() -> (
  vendor: string,
  product: string,
  version: string,
  url: string,
  interfaces: []string
)

# Get the description of an interface that is implemented by this service.
method GetInterfaceDescription(interface: string) -> (description: string)

# The requested interface was not found.
error InterfaceNotFound (interface: string)

# The requested method was not found
error MethodNotFound (method: string)

# The interface defines the requested method, but the service does not
# implement it.
error MethodNotImplemented (method: string)

# One of the passed parameters is invalid.
error InvalidParameter (parameter: string)"

def Registry.names (r : Registry) : List Bytes := orgVarlinkService :: r.ifaces.map (·.1)

def lookupDesc (name : Bytes) : List (Bytes × Bytes) → Option Bytes
  | [] => none
  | (n, d) :: t => if n = name then some d else lookupDesc name t

def Registry.description (r : Registry) (name : Bytes) : Option Bytes :=
  if name = orgVarlinkService then some orgVarlinkServiceDescription else lookupDesc name r.ifaces

/-- `omitempty` string member -/
def optStr (k v : Bytes) (rest : JMembers) : JMembers :=
  if v.isEmpty then rest else .cons k (.str v) rest

def getInfoReply (r : Registry) : JVal :=
  .obj (optStr (str "vendor") r.vendor (optStr (str "product") r.product
    (optStr (str "version") r.version (optStr (str "url") r.url
      (.cons (str "interfaces") (.arr (JList.ofList (r.names.map JVal.str))) .nil)))))

/-- the `interface` parameter of GetInterfaceDescription: `none` = parameters absent or not decodable
    into `struct{Interface string}` -/
def decodeInterfaceParam : Option JVal → Option Bytes
  | none => none
  | some .null => some []
  | some (.obj ms) =>
    let rec go (cur : Bytes) : JMembers → Option Bytes
      | .nil => some cur
      | .cons k v t =>
        if keyMatches (str "interface") k then
          match v with
          | .str s => go s t
          | .null => go cur t
          | _ => none
        else go cur t
    go [] ms
  | some _ => none

def builtinScript (r : Registry) (c : CallIn) (m : Bytes) : Script :=
  if m = str "GetInfo" then { acts := [.reply (.val (getInfoReply r))] }
  else if m = str "GetInterfaceDescription" then
    match decodeInterfaceParam c.params with
    | none => { acts := [.replyStd (.invalidParameter (str "parameters"))] }
    | some name =>
      if name.isEmpty then { acts := [.replyStd (.invalidParameter (str "interface"))] }
      else match r.description name with
        | none => { acts := [.replyStd (.invalidParameter (str "interface"))] }
        | some d =>
          { acts := [.reply (.val (.obj (optStr (str "description") d .nil)))] }
  else { acts := [.replyStd (.methodNotFound m)] }

/-! ## HandleMessage and the connection loop -/

/-- user behaviour: what the dispatcher of interface `i` does for method `m` on this call -/
abbrev Behaviour := Bytes → Bytes → CallIn → Script

structure CallOutcome where
  route : Route
  frames : List ReplyFrame
  results : List ActResult
  /-- handler (or built-in path) returned a non-nil error: connection ends -/
  failed : Bool

/-- The built-in paths return whatever the reply helper returned. -/
def scriptFails (s : Script) (results : List ActResult) (builtin : Bool) : Bool :=
  if builtin then results.any ActResult.isErr else s.returnsError

def handleCall (reg : Registry) (beh : Behaviour) (c : CallIn) : CallOutcome :=
  let rt := route (reg.ifaces.map (·.1)) c.method
  match rt with
  | .invalidMethod =>
    let s : Script := { acts := [.replyStd (.invalidParameter (str "method"))] }
    let (fs, rs) := runActs c false s.acts
    { route := rt, frames := fs, results := rs, failed := scriptFails s rs true }
  | .builtin m =>
    let s := builtinScript reg c m
    let (fs, rs) := runActs c false s.acts
    { route := rt, frames := fs, results := rs, failed := scriptFails s rs true }
  | .notFound i =>
    let s : Script := { acts := [.replyStd (.interfaceNotFound i)] }
    let (fs, rs) := runActs c false s.acts
    { route := rt, frames := fs, results := rs, failed := scriptFails s rs true }
  | .user i m =>
    let s := beh i m c
    let (fs, rs) := runActs c false s.acts
    { route := rt, frames := fs, results := rs, failed := s.returnsError }

inductive ConnEnd where
  | eof            -- input exhausted (peer closed / incomplete tail)
  | badFrame       -- a frame did not decode: closed without reply
  | handlerError   -- a handler returned an error: closed
  deriving DecidableEq, Repr

structure ConnTrace where
  frames : List ReplyFrame := []
  /-- one entry per *user* dispatcher invocation: interface, method, results returned to it -/
  dispatched : List (Bytes × Bytes × List ActResult) := []
  handled : Nat := 0            -- number of request frames decoded and answered
  ending : ConnEnd := .eof

def dispatchEntry (o : CallOutcome) : List (Bytes × Bytes × List ActResult) :=
  match o.route with
  | .user i m => [(i, m, o.results)]
  | _ => []

/-- `handleConnection`: frames are the NUL-terminated messages with the NUL stripped. -/
def connLoop (reg : Registry) (beh : Behaviour) : List Bytes → ConnTrace
  | [] => {}
  | f :: fs =>
    match decodeCall f with
    | none => { ending := .badFrame }
    | some c =>
      let o := handleCall reg beh c
      if o.failed then
        { frames := o.frames, dispatched := dispatchEntry o, handled := 1, ending := .handlerError }
      else
        let t := connLoop reg beh fs
        { frames := o.frames ++ t.frames, dispatched := dispatchEntry o ++ t.dispatched,
          handled := t.handled + 1, ending := t.ending }



/-! ## Wire form of replies (json.Marshal of `serviceReply`) -/

/-- `serviceReply` with its `omitempty` tags: parameters (nil interface omitted), continues, error -/
def replyObj (f : ReplyFrame) : JVal :=
  let tail : JMembers :=
    (if f.continues then JMembers.cons (str "continues") (.bool true) else id)
      (if f.error.isEmpty then JMembers.nil else JMembers.cons (str "error") (.str f.error) .nil)
  .obj (match f.params with
        | some v => .cons (str "parameters") v tail
        | none => tail)

/-- the bytes `sendMessage` writes for one reply -/
def wireReply (f : ReplyFrame) : Bytes := render (replyObj f) ++ [0]

/-! ## Small-step view of a connection, and several connections under a schedule -/

structure ConnState where
  pending : List Bytes := []
  frames : List ReplyFrame := []
  dispatched : List (Bytes × Bytes × List ActResult) := []
  handled : Nat := 0
  closed : Option ConnEnd := none

/-- one iteration of the `handleConnection` loop -/
def connStep (reg : Registry) (beh : Behaviour) (s : ConnState) : ConnState :=
  match s.closed with
  | some _ => s
  | none =>
    match s.pending with
    | [] => { s with closed := some .eof }
    | f :: fs =>
      match decodeCall f with
      | none => { s with pending := fs, closed := some .badFrame }
      | some c =>
        let o := handleCall reg beh c
        { pending := fs, frames := s.frames ++ o.frames, dispatched := s.dispatched ++ dispatchEntry o,
          handled := s.handled + 1, closed := if o.failed then some .handlerError else none }

def connSteps (reg : Registry) (beh : Behaviour) : Nat → ConnState → ConnState
  | 0, s => s
  | n + 1, s => connSteps reg beh n (connStep reg beh s)

/-- a system of connections indexed by `Nat`; the schedule says whose loop iteration runs next.
    The registry is shared and read-only: no step changes it. -/
def runSchedule (reg : Registry) (beh : Behaviour) (σ : Nat → ConnState) : List Nat → (Nat → ConnState)
  | [] => σ
  | i :: rest =>
    runSchedule reg beh (fun j => if j = i then connStep reg beh (σ j) else σ j) rest

end Varlink
