/-
  Model of service identity and registration (service.go `NewService`, `RegisterInterface`, the parts of
  `Listen`/`Shutdown`/`teardown` that switch `running`, `getInfo`, `getInterfaceDescription`) and of the
  client helpers that read them back (`Connection.GetInfo`, `Connection.GetInterfaceDescription`,
  `Resolver.GetInfo`).
-/
import Varlink.Service
import Varlink.Client
namespace Varlink

structure RegState where
  reg : Registry := {}
  running : Bool := false
  /-- accepted connections still being handled (`conncounter`) -/
  conns : Nat := 0

inductive RegOp where
  | register (name desc : Bytes)
  | listenStarts          -- `running = true`
  | connOpens             -- accept: `conncounter++` (only while running)
  | connCloses            -- handler exit: `conncounter--`
  | shutdownCompletes     -- Shutdown / teardown: `running = false`

inductive RegResult where
  | ok | refusedDuplicate | refusedRunning | noop
  deriving DecidableEq, Repr

def isRegistered (s : RegState) (name : Bytes) : Bool :=
  name = orgVarlinkService || (s.reg.ifaces.map (·.1)).contains name

/-- `RegisterInterface`: duplicate test first, then the running/serving test, then three appends -/
def RegState.step (s : RegState) : RegOp → RegState × RegResult
  | .register name desc =>
    if isRegistered s name then (s, .refusedDuplicate)
    else if s.running || s.conns > 0 then (s, .refusedRunning)
    else ({ s with reg := { s.reg with ifaces := s.reg.ifaces ++ [(name, desc)] } }, .ok)
  | .listenStarts => ({ s with running := true }, .noop)
  | .connOpens => (if s.running then { s with conns := s.conns + 1 } else s, .noop)
  | .connCloses => ({ s with conns := s.conns - 1 }, .noop)
  | .shutdownCompletes => ({ s with running := false }, .noop)

def RegState.run (s : RegState) : List RegOp → RegState
  | [] => s
  | op :: ops => ((s.step op).1).run ops

def RegState.init (vendor product version url : Bytes) : RegState :=
  { reg := { vendor, product, version, url, ifaces := [] } }

/-- the registrations of a history that were accepted, in order -/
def acceptedRegs (s : RegState) : List RegOp → List (Bytes × Bytes)
  | [] => []
  | op :: ops =>
    match op, (s.step op).2 with
    | .register n d, .ok => (n, d) :: acceptedRegs (s.step op).1 ops
    | _, _ => acceptedRegs (s.step op).1 ops

/-! ## client helpers: decoding the replies -/

structure Info where
  vendor : Bytes := []
  product : Bytes := []
  version : Bytes := []
  url : Bytes := []
  interfaces : List Bytes := []
  deriving DecidableEq, Repr

def decodeStrList : JList → Option (List Bytes)
  | .nil => some []
  | .cons (.str s) t => (decodeStrList t).map (s :: ·)
  | .cons .null t => (decodeStrList t).map ([] :: ·)     -- null element = zero value
  | .cons _ _ => none

/-- `json.Unmarshal` of a reply's parameters into the client's `reply` struct of `GetInfo`
    (field match is case-insensitive, last duplicate wins, null leaves the field alone) -/
def decodeInfoMembers (cur : Info) : JMembers → Option Info
  | .nil => some cur
  | .cons k v t =>
    let setStr (upd : Bytes → Info) : Option Info :=
      match v with
      | .str s => decodeInfoMembers (upd s) t
      | .null => decodeInfoMembers cur t
      | _ => none
    if keyMatches (str "vendor") k then setStr (fun s => { cur with vendor := s })
    else if keyMatches (str "product") k then setStr (fun s => { cur with product := s })
    else if keyMatches (str "version") k then setStr (fun s => { cur with version := s })
    else if keyMatches (str "url") k then setStr (fun s => { cur with url := s })
    else if keyMatches (str "interfaces") k then
      match v with
      | .arr xs =>
        match decodeStrList xs with
        | some l => decodeInfoMembers { cur with interfaces := l } t
        | none => none
      | .null => decodeInfoMembers cur t
      | _ => none
    else decodeInfoMembers cur t

def decodeInfo : Option JVal → Option Info
  | none => some {}
  | some .null => some {}
  | some (.obj ms) => decodeInfoMembers {} ms
  | some _ => none

/-- what `Connection.GetInfo` hands back for a service in state `s` (JSON value level; the wire leg is
    the C03 round trip) -/
def clientGetInfo (r : Registry) : Option Info := decodeInfo (some (getInfoReply r))

/-- `Connection.GetInterfaceDescription`: the description, or the error the service replied -/
inductive DescResult where
  | description (d : Bytes)
  | invalidParameter (p : Bytes)
  deriving DecidableEq, Repr

def serviceGetDescription (r : Registry) (name : Bytes) : DescResult :=
  if name.isEmpty then .invalidParameter (str "interface")
  else match r.description name with
    | none => .invalidParameter (str "interface")
    | some d => .description d

/-- the client decodes `{"description": d}` (omitted when empty) into its `reply` struct -/
def clientGetDescription (r : Registry) (name : Bytes) : DescResult :=
  match serviceGetDescription r name with
  | .invalidParameter p => .invalidParameter p
  | .description d =>
    match decodeOneString (str "description") (.obj (optStr (str "description") d .nil)) with
    | some s => .description s
    | none => .invalidParameter (str "undecodable")

end Varlink
