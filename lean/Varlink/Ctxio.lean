/-
  ctxio operations under cancellation and deadlines (C17).

  Part 1 — control: a finite transition system of ONE operation (Read / ReadBytes / Write of
  ctxio/conn.go).  The caller's steps are interpreted from the skeleton regenerated from the source
  (`Extracted.ctxio*Op`: SetDeadline(ctx) · make(chan,1) · go helper · select { ctx.Done: SetDeadline(past) ·
  <-ch · SetDeadline(zero) · return ctx.Err | <-ch: return result }), the helper performs blocking I/O
  calls on the connection, the environment cancels the context, lets its deadline pass, and lets the
  peer deliver data / close.  `honours` = the net.Conn implements deadlines (an I/O call returns a
  timeout error once the armed deadline has passed).

  Part 2 — data: sequences of operations over the `Bufio`/`Net` model of Frame.lean, where a cancelled
  operation discards whatever its helper consumed.
-/
import Varlink.Frame
import Varlink.Extracted.Access
namespace Varlink.Ctxio
open Varlink Varlink.Extracted

/-! ## Part 1 — control -/

/-- deadline armed on the connection (the side the operation uses) -/
inductive Dl where
  | none | future | past
  deriving DecidableEq, Repr

inductive Ctx where
  | live | cancelled | expired
  deriving DecidableEq, Repr

/-- class of the result of one I/O call / of the helper -/
inductive IoRes where
  | ok | eof | timeout | err
  deriving DecidableEq, Repr

/-- what the operation returns to its caller -/
inductive Ret where
  | result (r : IoRes)      -- the helper's result
  | ctxErr (c : Ctx)        -- ctx.Err(): Canceled / DeadlineExceeded
  deriving DecidableEq, Repr

inductive HPc where
  | idle                                   -- goroutine not started
  | ready (called : Bool) (last : IoRes)   -- between I/O calls (`last` = result of the previous one)
  | inIO                                   -- blocked in conn.Read / conn.Write
  | done (r : IoRes)                       -- result sent on the (buffered) channel, goroutine gone
  deriving DecidableEq, Repr

/-- the steps of the regenerated skeleton, classified once (no strings in the transition system) -/
inductive CStep where
  | dlCtx | dlPast | dlZero | dlOther      -- SetRead/WriteDeadline(ctx's deadline | aLongTimeAgo | time.Time{} | ?)
  | exitIfErr | mkchan | spawn | send | recv
  | retCtx | retResult | retOther | use
  deriving DecidableEq, Repr

def compileStep : CxStep → CStep
  | .deadline _ arg => if arg = "ctx" then .dlCtx else if arg = "past" then .dlPast else if arg = "zero" then .dlZero else .dlOther
  | .exitIfErr => .exitIfErr
  | .mkchan _ => .mkchan
  | .spawn => .spawn
  | .send => .send
  | .recv => .recv
  | .ret what => if what = "ctxerr" then .retCtx else if what = "result" then .retResult else .retOther
  | .use _ _ => .use

/-- position of the caller: index into the compiled step list of the phase it is in -/
inductive CPc where
  | pre (i : Nat)          -- before the select
  | select
  | armC (i : Nat)         -- inside `case <-ctx.Done():`
  | armD (i : Nat)         -- inside `case ret := <-ch:` (index 0 = the receive itself, taken by the select)
  | returned (r : Ret)
  deriving DecidableEq, Repr

structure Cfg where
  pre : List CStep
  cancelArm : List CStep
  doneArm : List CStep
  honours : Bool        -- the connection implements deadlines
  hasDeadline : Bool    -- the context carries a deadline
  singleIO : Bool       -- the helper performs exactly one I/O call (Write); reads: any number
  deriving DecidableEq, Repr

structure St where
  cpc : CPc
  hpc : HPc
  dl : Dl
  ctx : Ctx
  deriving DecidableEq, Repr

def init (_cfg : Cfg) : St :=
  { cpc := .pre 0, hpc := .idle, dl := .none, ctx := .live }

inductive Label where
  | tau
  | setDl (v : Dl)          -- SetReadDeadline / SetWriteDeadline, value classified
  | ioCall                  -- helper enters conn.Read / conn.Write
  | ioRet (r : IoRes)       -- … and returns
  | ret (r : Ret)           -- the operation returns
  | cancel | expire         -- environment: context cancelled / its deadline passes
  deriving DecidableEq, Repr

/-- who makes the step: the operation itself (caller or helper: always schedulable), the peer (data
    arrives, peer closes, peer reads), or the context -/
inductive Who where
  | sys | peer | ctx
  deriving DecidableEq, Repr

/-- has the deadline armed on the connection passed? -/
def fired (s : St) : Bool :=
  match s.dl, s.ctx with
  | .past, _ => true
  | .future, .expired => true
  | _, _ => false

/-- the value `SetDeadline(dl)` arms for the context's own deadline -/
def armValue (cfg : Cfg) (s : St) : Dl :=
  match cfg.hasDeadline, s.ctx with
  | true, .expired => .past
  | true, _ => .future
  | false, _ => .none

/-- one step of the caller inside a straight-line phase; `k` builds the pc after the step -/
def phaseStep (cfg : Cfg) (s : St) (step : CStep) (k : CPc) : List (Label × Who × St) :=
  match step with
  | .dlCtx => [(.setDl (armValue cfg s), .sys, { s with cpc := k, dl := armValue cfg s })]
  | .dlPast => [(.setDl .past, .sys, { s with cpc := k, dl := .past })]
  | .dlZero => [(.setDl .none, .sys, { s with cpc := k, dl := .none })]
  | .spawn =>
    (match s.hpc with
     | .idle => [(.tau, .sys, { s with cpc := k, hpc := .ready false .ok })]
     | _ => [])
  | .recv =>
    (match s.hpc with
     | .done _ => [(.tau, .sys, { s with cpc := k })]
     | _ => [])
  | .retCtx => [(.ret (.ctxErr s.ctx), .sys, { s with cpc := .returned (.ctxErr s.ctx) })]
  | .retResult =>
    (match s.hpc with
     | .done x => [(.ret (.result x), .sys, { s with cpc := .returned (.result x) })]
     | _ => [])
  | .retOther => []
  | _ => [(.tau, .sys, { s with cpc := k })]

def callerNext (cfg : Cfg) (s : St) : List (Label × Who × St) :=
  match s.cpc with
  | .pre i =>
    (match cfg.pre[i]? with
     | some st => phaseStep cfg s st (.pre (i + 1))
     | none => [(.tau, .sys, { s with cpc := .select })])
  | .select =>
    (match s.ctx with
     | .live => []
     | _ => [(.tau, .sys, { s with cpc := .armC 0 })]) ++
    (match s.hpc, cfg.doneArm[0]? with
     | .done _, some .recv => [(.tau, .sys, { s with cpc := .armD 1 })]
     | _, _ => [])
  | .armC i =>
    (match cfg.cancelArm[i]? with
     | some st => phaseStep cfg s st (.armC (i + 1))
     | none => [])
  | .armD i =>
    (match cfg.doneArm[i]? with
     | some st => phaseStep cfg s st (.armD (i + 1))
     | none => [])
  | .returned _ => []

def helperNext (cfg : Cfg) (s : St) : List (Label × Who × St) :=
  match s.hpc with
  | .idle => []
  | .ready called last =>
    (match last, cfg.singleIO && called with
     | .ok, false => [(.ioCall, .sys, { s with hpc := .inIO })]
     | _, _ => []) ++
    (match last, cfg.singleIO && !called with
     | .ok, true => []
     | _, _ => [(.tau, .sys, { s with hpc := .done last })])
  | .inIO =>
    [(.ioRet .ok, .peer, { s with hpc := .ready true .ok }),
     (.ioRet .eof, .peer, { s with hpc := .ready true .eof }),
     (.ioRet .err, .peer, { s with hpc := .ready true .err })] ++
    (match fired s && cfg.honours with
     | true => [(.ioRet .timeout, .sys, { s with hpc := .ready true .timeout })]
     | false => [])
  | .done _ => []

def ctxNext (cfg : Cfg) (s : St) : List (Label × Who × St) :=
  match s.ctx with
  | .live =>
    (.cancel, .ctx, { s with ctx := .cancelled }) ::
    (match cfg.hasDeadline with
     | true => [(.expire, .ctx, { s with ctx := .expired })]
     | false => [])
  | _ => []

/-- all transitions of the system -/
def next (cfg : Cfg) (s : St) : List (Label × Who × St) :=
  callerNext cfg s ++ helperNext cfg s ++ ctxNext cfg s

inductive Reach (cfg : Cfg) : St → Prop where
  | init : Reach cfg (init cfg)
  | step {s : St} {x : Label × Who × St} : Reach cfg s → x ∈ next cfg s → Reach cfg x.2.2

/-! explicit reachable set.  Membership tests go through an injective numbering of the states, so that the
    kernel compares numbers instead of structures. -/

def IoRes.code : IoRes → Nat
  | .ok => 0 | .eof => 1 | .timeout => 2 | .err => 3

def Ret.code : Ret → Nat
  | .result r => r.code
  | .ctxErr .live => 4 | .ctxErr .cancelled => 5 | .ctxErr .expired => 6

def CPc.code : CPc → Nat
  | .pre i => 5 * i
  | .select => 1
  | .armC i => 5 * i + 2
  | .armD i => 5 * i + 3
  | .returned r => 5 * r.code + 4

def HPc.code : HPc → Nat
  | .idle => 0
  | .ready false r => 1 + r.code
  | .ready true r => 5 + r.code
  | .inIO => 9
  | .done r => 10 + r.code

def Dl.code : Dl → Nat
  | .none => 0 | .future => 1 | .past => 2

def Ctx.code : Ctx → Nat
  | .live => 0 | .cancelled => 1 | .expired => 2

def St.code (s : St) : Nat :=
  ((s.cpc.code * 16 + s.hpc.code) * 4 + s.dl.code) * 4 + s.ctx.code

/-- set of state numbers as a bit mask -/
def maskOf (set : List St) : Nat := set.foldl (fun m s => m ||| 2 ^ s.code) 0

/-- add the states of the list that are not known yet; returns the new set (mask and states) and the
    states that were new -/
def insertNew (mask : Nat) (acc : List St) : List St → Nat × List St × List St
  | [] => (mask, acc, [])
  | x :: r =>
    if mask.testBit x.code then insertNew mask acc r
    else
      let (m, a, fresh) := insertNew (mask ||| 2 ^ x.code) (x :: acc) r
      (m, a, x :: fresh)

/-- breadth-first, expanding only the states found in the previous round -/
def explore (cfg : Cfg) : Nat → Nat → List St → List St → List St
  | 0, _, acc, _ => acc
  | _, _, acc, [] => acc
  | n + 1, mask, acc, frontier =>
    let (mask', acc', fresh) := insertNew mask acc (frontier.flatMap fun s => (next cfg s).map (·.2.2))
    explore cfg n mask' acc' fresh

def reachSet (cfg : Cfg) : List St := explore cfg 64 (2 ^ (init cfg).code) [init cfg] [init cfg]

/-- the set contains the initial state and every successor of each of its states -/
def closed (cfg : Cfg) (set : List St) : Bool :=
  (maskOf set).testBit (init cfg).code &&
  set.all fun s => (next cfg s).all fun x => (maskOf set).testBit x.2.2.code

def isReturned (s : St) : Bool := match s.cpc with | .returned _ => true | _ => false

def helperGone (s : St) : Bool := match s.hpc with | .done _ => true | _ => false

def sysOf (nx : List (Label × Who × St)) : List St :=
  nx.filterMap fun x => match x.2.1 with | .sys => some x.2.2 | _ => none

def sysNext (cfg : Cfg) (s : St) : List St := sysOf (next cfg s)

/-- bound on the number of further steps of the operation itself (caller + helper) while the peer is
    silent and the context is done -/
def rank (cfg : Cfg) (s : St) : Nat :=
  (match s.cpc with
   | .pre i => (cfg.pre.length - i) + cfg.cancelArm.length + cfg.doneArm.length + 4
   | .select => cfg.cancelArm.length + cfg.doneArm.length + 2
   | .armC i => (cfg.cancelArm.length - i) + 1
   | .armD i => (cfg.doneArm.length - i) + 1
   | .returned _ => 0) +
  (match s.hpc with
   | .idle => 4
   | .ready _ .ok => 3
   | .inIO => 2
   | .ready _ _ => 1
   | .done _ => 0)

def cfgOf (op : CxOp) (honours hasDeadline : Bool) : Cfg :=
  { pre := op.pre.map compileStep, cancelArm := op.cancelArm.map compileStep, doneArm := op.doneArm.map compileStep,
    honours := honours, hasDeadline := hasDeadline, singleIO := op.name = "Write" }

def configsOf (ops : List CxOp) : List Cfg :=
  ops.flatMap fun op => [true, false].flatMap fun h => [true, false].map fun d => cfgOf op h d

/-- the twelve configurations: Read / ReadBytes / Write of the regenerated skeleton × connection
    honours deadlines or not × context with or without deadline -/
def allCfgs : List Cfg := configsOf ctxioOps

def distinctCfgs : List Cfg := allCfgs.eraseDups

/-- what is checked on every reachable state (see VarlinkProofs/Props/C17.lean for the statements);
    `nx` = the transitions of `s` -/
def stateOK (cfg : Cfg) (s : St) (nx : List (Label × Who × St)) : Bool :=
  -- returned ⇒ the helper goroutine has finished and its result was received
  (!isReturned s || helperGone s)
  -- returned with the context's error ⇒ the context is done, the error is the context's, the deadline is reset
  && (match s.cpc with
      | .returned (.ctxErr c) => s.dl = .none && c != .live && c = s.ctx
      | _ => true)
  -- context done, deadlines honoured, not returned ⇒ the operation itself can move
  && (s.ctx = .live || !cfg.honours || isReturned s || !(sysOf nx).isEmpty)
  -- context done ⇒ every step of the operation itself lowers the rank
  && (s.ctx = .live || (sysOf nx).all fun s' => rank cfg s' < rank cfg s)
  && rank cfg s ≤ 24
  -- the operation's own steps do not touch the context
  && ((sysOf nx).all fun s' => s'.ctx = s.ctx)

def stateCheck (cfg : Cfg) (mask : Nat) (s : St) (nx : List (Label × Who × St)) : Bool :=
  (nx.all fun x => mask.testBit x.2.2.code) && stateOK cfg s nx

def verifiedWith (cfg : Cfg) (mask : Nat) (set : List St) : Bool :=
  mask.testBit (init cfg).code && set.all fun s => stateCheck cfg mask s (next cfg s)

def verifiedOn (cfg : Cfg) (set : List St) : Bool := verifiedWith cfg (maskOf set) set

def verified (cfg : Cfg) : Bool := verifiedOn cfg (reachSet cfg)

/-- follow the transitions chosen by index -/
def runPath (cfg : Cfg) : List Nat → St → Option St
  | [], s => some s
  | i :: r, s =>
    match (next cfg s)[i]? with
    | some x => runPath cfg r x.2.2
    | none => none

/-! ### trace acceptance (used by the driver on traces recorded under the real ctxio.Conn) -/

def isTau (l : Label) : Bool := l = .tau || l = .cancel || l = .expire

/-- closure of a state set under unobservable steps -/
def tauClose (cfg : Cfg) : Nat → List St → List St
  | 0, acc => acc
  | n + 1, acc =>
    let (_, acc', fresh) := insertNew (maskOf acc) acc (acc.flatMap fun s => (next cfg s).filterMap fun x => if isTau x.1 then some x.2.2 else none)
    if fresh.isEmpty then acc else tauClose cfg n acc'

def post (cfg : Cfg) (l : Label) (set : List St) : List St :=
  (insertNew 0 [] (set.flatMap fun s => (next cfg s).filterMap fun x => if x.1 = l then some x.2.2 else none)).2.1

/-- states the system can be in after showing exactly the observable labels `tr` -/
def after (cfg : Cfg) : List Label → List St → List St
  | [], set => tauClose cfg 32 set
  | l :: r, set => after cfg r (post cfg l (tauClose cfg 32 set))

/-- the observed trace of one operation is a trace of the system that ends with the operation returned
    and the helper gone -/
def accepts (cfg : Cfg) (tr : List Label) : Bool :=
  (after cfg tr [init cfg]).any fun s => isReturned s && helperGone s

end Varlink.Ctxio

/-! ## Part 2 — data -/
namespace Varlink.Ctxio
open Varlink

/-- how an operation of a sequence went -/
inductive Outcome where
  | live                      -- context stayed live: the helper's result is returned
  | cancelledDone             -- cancelled, but the helper had completed: its result is thrown away
  | cancelledTimeout (j : Nat) -- cancelled while blocked: the helper had read j further segments, all discarded
  | timedOut (j : Nat)        -- the connection's own deadline fired first: the helper's (partial data, timeout
                              -- error) is returned through the `<-ch` arm
  deriving DecidableEq, Repr

inductive Emit where
  | out (bs : Bytes)      -- handed to the caller
  | drop (bs : Bytes)     -- consumed by a cancelled operation and discarded
  deriving DecidableEq, Repr

def Emit.bytes : Emit → Bytes
  | .out b => b
  | .drop b => b

/-- one read operation on the buffered reader (Frame.lean), returning the bytes it consumed -/
def readOp (cap : Nat) (op : ROp) (b : Bufio) (net : Net) : Bytes × Bufio × Net :=
  match op with
  | .frame =>
    match readBytes cap 0 (readFuel b net) [] b net with
    | (.ok bs, b', net') => (bs, b', net')
    | (.eof part, b', net') => (part, b', net')
  | .raw n =>
    match rawRead cap .buffered n b net with
    | (some a, b', net') => (a, b', net')
    | (none, b', net') => ([], b', net')

/-- a helper interrupted by the deadline: `ReadBytes` hands back (and thereby consumes) everything
    buffered plus the segments it had read, the raw `Read` was blocked with an empty buffer and consumed
    nothing -/
def interrupted (op : ROp) (j : Nat) (b : Bufio) (net : Net) : Bytes × Bufio × Net :=
  match op with
  | .frame => (b.buf ++ (net.take j).flatten, { buf := [] }, net.drop j)
  | .raw _ => ([], b, net)

def runSeq (cap : Nat) : List (ROp × Outcome) → Bufio → Net → List Emit × Bufio × Net
  | [], b, net => ([], b, net)
  | (op, o) :: rest, b, net =>
    let (bs, b', net') := match o with
      | .cancelledTimeout j => interrupted op j b net
      | .timedOut j => interrupted op j b net
      | _ => readOp cap op b net
    let (es, b'', net'') := runSeq cap rest b' net'
    ((match o with | .live => Emit.out bs | .timedOut _ => Emit.out bs | _ => Emit.drop bs) :: es, b'', net'')

def outputs : List Emit → List Bytes
  | [] => []
  | .out b :: r => b :: outputs r
  | .drop _ :: r => outputs r

end Varlink.Ctxio
