/-
  Service lifecycle (C14, C15): a labelled transition system at the granularity of the
  synchronisation points of varlink/service.go AS IT IS NOW:

    Bind, setListener, Listen, DoListen, refreshTimeout, handleConnection, Shutdown, teardown,
    isRunning, GetListener, RegisterInterface.

  Any number of API calls (`Listen`, `DoListen`, stand-alone `Bind`), each with its own program
  counter, local `l`, wait group and return value; any number of connections, each with its handler
  thread.  Every label is deterministic (`step : World → Label → Option World`, `none` = the label is
  not enabled / the thread is blocked); all nondeterminism is in the choice of the label.

  Assumptions on package net (the model's view of a listener):
    * `Accept` on a closed listener fails with a non-timeout error; closing a listener wakes a blocked
      `Accept` with that error and resets the connections still waiting in its backlog;
    * `Accept` fails with a timeout error only when a deadline was armed with `SetDeadline`
      and the listener is open;
    * `SetDeadline` on a closed listener fails;  connecting to a closed listener is refused;
    * `listen` on an address fails while an open listener holds that address and succeeds otherwise
      (tcp / abstract unix addresses; a filesystem socket is unlinked first — C19's concern);
    * `Close` of a closed listener fails and changes nothing.
  Core Lean only.

  Granularity: one step of an API call = one synchronisation point of the code.  Since fix a1069ea the start-up of
  Bind (running check + parseAddress + listen + store), of Listen (the same + `running = true` + `l := listener`) and
  of DoListen (listener read + `running = true`) are single critical sections, hence single steps here (pcs
  `bindCheck`, `readLst`): no state of this transition system sits inside one of them.  A call that was spawned and
  sits at its first pc has done nothing yet.

  Transition table (the code as it is NOW; replaces DESIGN.md Appendix C, which describes the code before the
  repairs).  Shared: running, lst (the field), lsnrs (open?, armed?, address), counter, addrF.  Call k: pc, l, cur,
  wg, ret.  All accesses of shared fields are under the mutex except refreshTimeout's read of `s.listener` (★).

  | pc          | code                                                    | effect                                                        |
  |-------------|---------------------------------------------------------|---------------------------------------------------------------|
  | bindCheck   | Bind / Listen, ONE critical section: lock; running? ;   | running ⇒ ret := already-running, RETURN (no teardown, nothing  |
  |             |   parseAddress; listen; listener = l;                   |   written); parse error ⇒ RETURN it; address held by an open    |
  |             |   [Listen: running = true; l := listener;] unlock       |   listener ⇒ protocol/address written, RETURN error (Listen:    |
  |             |                                                         |   before its defer, so NO teardown); else new listener stored;  |
  |             |                                                         |   Bind: RETURN nil; Listen: running := true, → loopCheck        |
  | readLst     | DoListen (defer teardown first), ONE critical section:  | nil ⇒ ret := no-listener, → teardown;                          |
  |             |   lock; l := listener; nil? ; running = true; unlock    |   else l := listener, running := true, → loopCheck             |
  | loopCheck   | isRunning()                                             | false ⇒ ret := nil, → teardown; timeout ≠ 0 ⇒ refresh          |
  | refresh     | refreshTimeout: SetDeadline on the FIELD listener ★     | nil field ⇒ no-op; closed ⇒ ret := err, → teardown; else armed |
  | inAccept    | l.Accept()                                              | conn waiting ∧ open ⇒ gotConn; closed ⇒ errOther; else blocked; |
  |             |                                                         | expiry (label `expire`, needs armed ∧ open) ⇒ errTimeout       |
  | gotConn     | lock; conncounter++; unlock                             | → counted                                                     |
  | counted     | wg.Add(1); go handleConnection                          | → loopCheck                                                   |
  | errTimeout  | lock; read conncounter; unlock                          | 0 ⇒ ret := Timeout, → teardown; else → loopCheck               |
  | errOther    | isRunning()                                             | false ⇒ ret := nil else ret := err; → teardown                 |
  | teardown    | lock; listener ≠ nil ⇒ Close it; listener = nil; running = false; protocol, address = ""; unlock | → waiting |
  | waiting     | wg.Wait()                                               | enabled when wg = 0; → returned                               |
  | handler     | reading ↔ dispatching → closing → conn.Close() → closed → lock; counter--; unlock → decremented → wg.Done() → done |
  | Shutdown    | lock; running = false; listener ≠ nil ⇒ Close it; unlock | one atomic step; error iff that listener was closed already    |
  | Register    | lock; refused iff present ∨ running ∨ conncounter > 0; unlock |                                                          |
-/
namespace Varlink.Life

/-- what a serving / binding call returned (classes of Go `error` values; `panicNil` = nil-pointer
    panic of `l.Accept()` on a nil interface) -/
inductive Ret where
  | nil | timeout | errRunning | errParse | errListen | errNoListener | errAccept | errDeadline | panicNil
  deriving DecidableEq, Repr

inductive Kind where
  | listen | doListen | bind
  deriving DecidableEq, Repr

/-- program counter of an API call: the NEXT synchronisation point it will execute -/
inductive Pc where
  | bindCheck    -- Bind / Listen: the whole critical section  lock; running?; parse; listen; store; [running = true; l := listener]; unlock
  | readLst      -- DoListen: the whole critical section  lock; l := listener; nil ⇒ error (deferred teardown runs); running = true; unlock
  | loopCheck    -- for s.isRunning()
  | refresh      -- refreshTimeout (only when timeout ≠ 0): SetDeadline on the FIELD listener
  | inAccept     -- l.Accept()
  | gotConn      -- Accept returned a connection: lock; conncounter++; unlock
  | counted      -- wg.Add(1); go handleConnection
  | errTimeout   -- Accept returned a timeout error: lock; read conncounter; unlock
  | errOther     -- Accept returned another error: isRunning()
  | teardown     -- deferred: lock; close listener if non-nil; clear fields; unlock
  | waiting      -- deferred: wg.Wait()
  | returned
  deriving DecidableEq, Repr

/-- result of the call's last `Accept` (ghost, for C15) -/
inductive Acc where
  | none | conn | timeout | closed
  deriving DecidableEq, Repr

structure Call where
  kind : Kind
  /-- `timeout != 0` -/
  tmo : Bool
  /-- address argument of Listen/Bind: `none` = does not parse -/
  addr : Option Nat
  pc : Pc
  l : Option Nat := none
  cur : Nat := 0
  wg : Nat := 0
  ret : Option Ret := none
  ctxDone : Bool := false
  lastAcc : Acc := .none
  deriving DecidableEq, Repr

/-- life of a connection, server side -/
inductive Phase where
  | backlog      -- connected, waiting in the listener's backlog
  | refused      -- the listener was closed when the client connected
  | dropped      -- the listener was closed while the connection was in the backlog
  | accepted     -- returned by Accept (owner at `gotConn`)
  | counted      -- conncounter++ done (owner at `counted`)
  | reading      -- handler thread exists, blocked in / about to call ReadBytes
  | dispatching  -- handler got a request frame, HandleMessage running
  | closing      -- handler left its loop, about to conn.Close()
  | closed       -- conn.Close() done; deferred function not yet run
  | decremented  -- lock; conncounter--; unlock done
  | done         -- wg.Done() done
  deriving DecidableEq, Repr

inductive Cli where
  | open | closed | aborted
  deriving DecidableEq, Repr

structure Conn where
  lsn : Nat
  owner : Nat := 0
  phase : Phase
  cli : Cli := .open
  /-- request frames written by the client and not yet read by the handler -/
  reqs : Nat := 0
  /-- replies sent -/
  served : Nat := 0
  deriving DecidableEq, Repr

structure Lsnr where
  addr : Nat
  isOpen : Bool := true
  armed : Bool := false
  closeCalls : Nat := 0
  deadlineCalls : Nat := 0
  deriving DecidableEq, Repr

structure World where
  running : Bool := false
  /-- the field `Service.listener` -/
  lst : Option Nat := none
  /-- `Service.conncounter` (int64) -/
  counter : Int := 0
  /-- `Service.protocol`/`Service.address` ("" = none) -/
  addrF : Option Nat := none
  lsnrs : List Lsnr := []
  calls : List Call := []
  conns : List Conn := []
  /-- a `wg.Done()` was executed on a zero wait group (Go: panic "negative WaitGroup counter") -/
  wgPanic : Bool := false
  deriving DecidableEq, Repr

def init : World := {}

inductive Label where
  /-- a new API call begins (it sits at its first synchronisation point) -/
  | spawn (kind : Kind) (tmo : Bool) (addr : Option Nat)
  /-- API call `k` executes its next synchronisation point (not enabled when blocked) -/
  | call (k : Nat)
  /-- acceptDeadlineExpires: the deadline armed on call `k`'s listener passes while it is in Accept -/
  | expire (k : Nat)
  /-- the handler thread of connection `i` executes its next step (not enabled when blocked) -/
  | handler (i : Nat)
  /-- HandleMessage of connection `i` returns an error -/
  | handlerFails (i : Nat)
  /-- the handler of `i`, blocked in ReadBytes, observes its cancelled context -/
  | ctxEnd (i : Nat)
  | clientConnect (l : Nat)
  | clientCall (i : Nat)
  | clientClose (i : Nat)
  | clientAbort (i : Nat)
  /-- the context passed to API call `k` is cancelled -/
  | ctxCancel (k : Nat)
  | shutdown
  | getListener
  | register
  deriving DecidableEq, Repr

/-! ## helpers -/

def isOpen (w : World) (l : Nat) : Bool :=
  match w.lsnrs[l]? with
  | some x => x.isOpen
  | none => false

def isArmed (w : World) (l : Nat) : Bool :=
  match w.lsnrs[l]? with
  | some x => x.armed
  | none => false

def firstIdx {α} (p : α → Bool) : List α → Option Nat
  | [] => none
  | x :: xs => if p x then some 0 else (firstIdx p xs).map (· + 1)

def waitsOn (l : Nat) (x : Conn) : Bool := x.phase == .backlog && x.lsn == l

def dropIfWaiting (l : Nat) (x : Conn) : Conn :=
  if waitsOn l x then { x with phase := .dropped } else x

/-- `listener.Close()`: a closed listener stays as it is (the call fails); otherwise it is closed and
    the connections in its backlog are reset. Every call is counted. -/
def closeL (w : World) (l : Nat) : World :=
  { w with
    lsnrs := w.lsnrs.modify l (fun x => { x with isOpen := false, closeCalls := x.closeCalls + 1 }),
    conns := w.conns.map (dropIfWaiting l) }

def World.setCall (w : World) (k : Nat) (c : Call) : World := { w with calls := w.calls.set k c }

def World.setPhase (w : World) (i : Nat) (p : Phase) : World :=
  { w with conns := w.conns.modify i (fun x => { x with phase := p }) }

/-- `SetDeadline` on listener `f`: arms the deadline when it succeeds (`ok`); every call is counted -/
def setDeadlineL (w : World) (f : Nat) (ok : Bool) : World :=
  { w with lsnrs := w.lsnrs.modify f (fun x => { x with armed := x.armed || ok, deadlineCalls := x.deadlineCalls + 1 }) }

/-- Accept hands connection `i` to call `k` -/
def takeConn (w : World) (i k : Nat) : World :=
  { w with conns := w.conns.modify i (fun x => { x with phase := .accepted, owner := k }) }

/-- an open listener holds address `a` -/
def addrInUse (w : World) (a : Nat) : Bool := w.lsnrs.any (fun x => x.isOpen && x.addr == a)

def firstPc : Kind → Pc
  | .listen => .bindCheck
  | .bind => .bindCheck
  | .doListen => .readLst

/-! ## API calls: Bind / Listen / DoListen -/

/-- the deferred `teardown()` -/
def teardownShared (w : World) : World :=
  let w1 := match w.lst with
    | some f => closeL w f
    | none => w
  { w1 with lst := none, running := false, addrF := none }

/-- the shared state after a successful `bind` (mutex held throughout): `parseAddress` wrote protocol/address,
    `listen` created listener number `lsnrs.length`, `setListener` stored it in the field -/
def bound (w : World) (a : Nat) : World :=
  { w with addrF := some a, lsnrs := w.lsnrs ++ [{ addr := a }], lst := some w.lsnrs.length }

def stepCall (w : World) (k : Nat) : Option World :=
  match w.calls[k]? with
  | none => none
  | some c =>
    match c.pc with
    | .bindCheck =>
      -- one critical section (s.mutex held from the running check to the store / to `running = true`)
      if w.running then some (w.setCall k { c with pc := .returned, ret := some .errRunning })
      else
        match c.addr with
        | none => some (w.setCall k { c with pc := .returned, ret := some .errParse })
        | some a =>
          if addrInUse w a then
            some (({ w with addrF := some a } : World).setCall k { c with pc := .returned, ret := some .errListen })
          else
            match c.kind with
            | .bind => some ((bound w a).setCall k { c with pc := .returned, l := some w.lsnrs.length, ret := some .nil })
            | _ => some (({ bound w a with running := true } : World).setCall k
                          { c with pc := .loopCheck, l := some w.lsnrs.length })
    | .readLst =>
      -- one critical section: the listener read and `running = true` cannot be separated
      match w.lst with
      | none => some (w.setCall k { c with pc := .teardown, ret := some .errNoListener })
      | some l => some (({ w with running := true } : World).setCall k { c with pc := .loopCheck, l := some l })
    | .loopCheck =>
      if w.running then some (w.setCall k { c with pc := if c.tmo then .refresh else .inAccept })
      else some (w.setCall k { c with pc := .teardown, ret := some .nil })
    | .refresh =>
      match w.lst with
      | none => some (w.setCall k { c with pc := .inAccept })
      | some f =>
        if isOpen w f then some ((setDeadlineL w f true).setCall k { c with pc := .inAccept })
        else some ((setDeadlineL w f false).setCall k { c with pc := .teardown, ret := some .errDeadline })
    | .inAccept =>
      match c.l with
      | none => some (w.setCall k { c with pc := .teardown, ret := some .panicNil })   -- nil-pointer panic: the deferred functions still run
      | some l =>
        if isOpen w l then
          match firstIdx (waitsOn l) w.conns with
          | none => none
          | some i =>
            some ((takeConn w i k).setCall k { c with pc := .gotConn, cur := i, lastAcc := .conn })
        else some (w.setCall k { c with pc := .errOther, lastAcc := .closed })
    | .gotConn =>
      some (({ (w.setPhase c.cur .counted) with counter := w.counter + 1 } : World).setCall k { c with pc := .counted })
    | .counted =>
      some ((w.setPhase c.cur .reading).setCall k { c with pc := .loopCheck, wg := c.wg + 1 })
    | .errTimeout =>
      if w.counter = 0 then some (w.setCall k { c with pc := .teardown, ret := some .timeout })
      else some (w.setCall k { c with pc := .loopCheck })
    | .errOther =>
      if w.running then some (w.setCall k { c with pc := .teardown, ret := some .errAccept })
      else some (w.setCall k { c with pc := .teardown, ret := some .nil })
    | .teardown => some ((teardownShared w).setCall k { c with pc := .waiting })
    | .waiting => if c.wg = 0 then some (w.setCall k { c with pc := .returned }) else none
    | .returned => none

/-- the accept deadline of call `k`'s listener expires while it is blocked in Accept -/
def stepExpire (w : World) (k : Nat) : Option World :=
  match w.calls[k]? with
  | none => none
  | some c =>
    match c.pc, c.l with
    | .inAccept, some l =>
      if isOpen w l && isArmed w l then some (w.setCall k { c with pc := .errTimeout, lastAcc := .timeout })
      else none
    | _, _ => none

/-! ## handler threads -/

def ownerCtxDone (w : World) (x : Conn) : Bool :=
  match w.calls[x.owner]? with
  | some c => c.ctxDone
  | none => false

def World.setConn (w : World) (i : Nat) (x : Conn) : World := { w with conns := w.conns.set i x }

def stepHandler (w : World) (i : Nat) : Option World :=
  match w.conns[i]? with
  | none => none
  | some x =>
    match x.phase with
    | .reading =>
      if x.reqs ≠ 0 then some (w.setConn i { x with phase := .dispatching, reqs := x.reqs - 1 })
      else if x.cli ≠ .open then some (w.setConn i { x with phase := .closing })
      else none
    | .dispatching => some (w.setConn i { x with phase := .reading, served := x.served + 1 })
    | .closing => some (w.setConn i { x with phase := .closed })
    | .closed => some (({ w with counter := w.counter - 1 } : World).setConn i { x with phase := .decremented })
    | .decremented =>
      match w.calls[x.owner]? with
      | none => some (({ w with wgPanic := true } : World).setConn i { x with phase := .done })
      | some c =>
        if c.wg = 0 then some (({ w with wgPanic := true } : World).setConn i { x with phase := .done })
        else some ((w.setCall x.owner { c with wg := c.wg - 1 }).setConn i { x with phase := .done })
    | _ => none

def stepHandlerFails (w : World) (i : Nat) : Option World :=
  match w.conns[i]? with
  | none => none
  | some x => if x.phase = .dispatching then some (w.setConn i { x with phase := .closing }) else none

def stepCtxEnd (w : World) (i : Nat) : Option World :=
  match w.conns[i]? with
  | none => none
  | some x =>
    if x.phase = .reading ∧ ownerCtxDone w x = true then some (w.setConn i { x with phase := .closing })
    else none

/-! ## environment -/

def stepConnect (w : World) (l : Nat) : Option World :=
  if l < w.lsnrs.length then
    some { w with conns := w.conns ++ [{ lsn := l, phase := if isOpen w l then .backlog else .refused }] }
  else none

/-- the client end can still be written to: the connection exists and the server end is not closed -/
def cliWritable (x : Conn) : Bool :=
  x.cli == .open &&
    (x.phase == .backlog || x.phase == .accepted || x.phase == .counted || x.phase == .reading ||
     x.phase == .dispatching || x.phase == .closing)

def stepClientCall (w : World) (i : Nat) : Option World :=
  match w.conns[i]? with
  | none => none
  | some x => if cliWritable x then some (w.setConn i { x with reqs := x.reqs + 1 }) else none

def stepClientEnd (w : World) (i : Nat) (how : Cli) : Option World :=
  match w.conns[i]? with
  | none => none
  | some x =>
    if x.cli = .open ∧ x.phase ≠ .refused then some (w.setConn i { x with cli := how }) else none

def stepCtxCancel (w : World) (k : Nat) : Option World :=
  match w.calls[k]? with
  | none => none
  | some c => some (w.setCall k { c with ctxDone := true })

/-- `Shutdown()`: one critical section -/
def stepShutdown (w : World) : World :=
  let w1 := { w with running := false }
  match w.lst with
  | none => w1
  | some f => closeL w1 f

/-- `Shutdown` returns the error of `listener.Close()`: non-nil iff the listener was closed already -/
def shutdownFails (w : World) : Bool :=
  match w.lst with
  | none => false
  | some f => !isOpen w f

/-- `RegisterInterface` of a new name is refused iff `running || conncounter > 0` -/
def registerRefused (w : World) : Bool := w.running || decide (w.counter > 0)

def step (w : World) : Label → Option World
  | .spawn kind tmo addr => some { w with calls := w.calls ++ [{ kind, tmo, addr, pc := firstPc kind }] }
  | .call k => stepCall w k
  | .expire k => stepExpire w k
  | .handler i => stepHandler w i
  | .handlerFails i => stepHandlerFails w i
  | .ctxEnd i => stepCtxEnd w i
  | .clientConnect l => stepConnect w l
  | .clientCall i => stepClientCall w i
  | .clientClose i => stepClientEnd w i .closed
  | .clientAbort i => stepClientEnd w i .aborted
  | .ctxCancel k => stepCtxCancel w k
  | .shutdown => some (stepShutdown w)
  | .getListener => some w
  | .register => some w

/-- run a list of labels; `none` as soon as one is not enabled -/
def run (w : World) : List Label → Option World
  | [] => some w
  | a :: as =>
    match step w a with
    | some w' => run w' as
    | none => none

/-- reachability restricted to labels the discipline `P` allows in the current state -/
inductive Reach (P : World → Label → Prop) (w0 : World) : World → Prop where
  | refl : Reach P w0 w0
  | step {w w' : World} {a : Label} : Reach P w0 w → P w a → step w a = some w' → Reach P w0 w'

def Always : World → Label → Prop := fun _ _ => True

/-- every state some interleaving of any API use, clients and faults can produce -/
def Reachable (w : World) : Prop := Reach Always init w

/-! ## the old code (before the repairs), kept for regression witnesses -/

/-- `teardown()` as it was before fix 9038523: the listener was not closed -/
def teardownSharedOld (w : World) : World := { w with lst := none, running := false, addrF := none }

/-- a refused `Bind` inside `Listen` before fix 93d57c1: the deferred teardown ran -/
def refusedListenOld (w : World) (k : Nat) : Option World :=
  match w.calls[k]? with
  | none => none
  | some c =>
    if c.pc = .bindCheck ∧ c.kind = .listen ∧ w.running = true then
      some ((teardownSharedOld w).setCall k { c with pc := .waiting, ret := some .errRunning })
    else none

/-! ## deterministic scheduler (used by the driver to replay harness histories): run every thread
    until all of them are blocked or finished -/

def firstEnabled (w : World) : List Label → Option World
  | [] => none
  | a :: as =>
    match step w a with
    | some w' => some w'
    | none => firstEnabled w as

def threadLabels (w : World) : List Label :=
  (List.range w.calls.length).map Label.call ++ (List.range w.conns.length).map Label.ctxEnd ++
    (List.range w.conns.length).map Label.handler

def settle : Nat → World → World
  | 0, w => w
  | n + 1, w =>
    match firstEnabled w (threadLabels w) with
    | some w' => settle n w'
    | none => w

end Varlink.Life
