/-
  Model of the part of `encoding/json` the varlink library relies on.

  * `JVal`    : JSON values; numbers keep their literal text, strings are the *decoded* bytes
                (escapes resolved, invalid UTF-8 replaced by U+FFFD as Go's decoder does).
  * `parse`   : RFC 8259 recogniser + decoder with Go's nesting limit (`json.Valid` + decode).
  * `render`  : canonical compact rendering (what `json.Marshal` emits for the same value,
                escapeHTML on).

  encoding/json itself is *modelled, not verified*; `./check selftest-json` compares this model with
  the real package on generated documents.
-/
import Varlink.Basic
namespace Varlink

mutual
inductive JVal where
  | null
  | bool (b : Bool)
  | num (lit : Bytes)
  | str (s : Bytes)
  | arr (xs : JList)
  | obj (ms : JMembers)
inductive JList where
  | nil
  | cons (v : JVal) (t : JList)
inductive JMembers where
  | nil
  | cons (k : Bytes) (v : JVal) (t : JMembers)
end

mutual
def JVal.beq : JVal → JVal → Bool
  | .null, .null => true
  | .bool a, .bool b => a == b
  | .num a, .num b => a == b
  | .str a, .str b => a == b
  | .arr a, .arr b => JList.beq a b
  | .obj a, .obj b => JMembers.beq a b
  | _, _ => false
def JList.beq : JList → JList → Bool
  | .nil, .nil => true
  | .cons a as, .cons b bs => JVal.beq a b && JList.beq as bs
  | _, _ => false
def JMembers.beq : JMembers → JMembers → Bool
  | .nil, .nil => true
  | .cons k a as, .cons l b bs => k == l && JVal.beq a b && JMembers.beq as bs
  | _, _ => false
end

instance : BEq JVal := ⟨JVal.beq⟩
instance : Inhabited JVal := ⟨.null⟩

def JMembers.toList : JMembers → List (Bytes × JVal)
  | .nil => []
  | .cons k v t => (k, v) :: t.toList

def JList.toList : JList → List JVal
  | .nil => []
  | .cons v t => v :: t.toList

def JMembers.ofList : List (Bytes × JVal) → JMembers
  | [] => .nil
  | (k, v) :: t => .cons k v (JMembers.ofList t)

def JList.ofList : List JVal → JList
  | [] => .nil
  | v :: t => .cons v (JList.ofList t)

/-! ## Lexical helpers -/

def isWs (c : UInt8) : Bool := c = 32 || c = 9 || c = 10 || c = 13
def isDigit (c : UInt8) : Bool := 48 ≤ c && c ≤ 57

def skipWs : Bytes → Bytes
  | [] => []
  | c :: cs => if isWs c then skipWs cs else c :: cs

/-- take a maximal run of digits -/
def takeDigits : Bytes → Bytes × Bytes
  | [] => ([], [])
  | c :: cs => if isDigit c then let (d, r) := takeDigits cs; (c :: d, r) else ([], c :: cs)

/-- RFC 8259 number: `-? (0 | [1-9][0-9]*) (\. [0-9]+)? ([eE] [+-]? [0-9]+)?`.
    Returns literal and rest. -/
def parseNumber (bs : Bytes) : Option (Bytes × Bytes) :=
  let (sign, r0) := match bs with
    | 45 :: r => ([(45 : UInt8)], r)
    | r => ([], r)
  -- integer part
  let intPart : Option (Bytes × Bytes) := match r0 with
    | 48 :: r => some ([48], r)
    | c :: r => if isDigit c then let (d, r') := takeDigits r; some (c :: d, r') else none
    | [] => none
  match intPart with
  | none => none
  | some (ip, r1) =>
    let fracPart : Option (Bytes × Bytes) := match r1 with
      | 46 :: r => (match takeDigits r with
          | ([], _) => none
          | (d, r') => some (46 :: d, r'))
      | r => some ([], r)
    match fracPart with
    | none => none
    | some (fp, r2) =>
      let expPart : Option (Bytes × Bytes) := match r2 with
        | e :: r =>
          if e = 101 || e = 69 then
            let (sg, r') := match r with
              | 43 :: r' => ([(43 : UInt8)], r')
              | 45 :: r' => ([(45 : UInt8)], r')
              | r' => ([], r')
            match takeDigits r' with
            | ([], _) => none
            | (d, r'') => some (e :: sg ++ d, r'')
          else some ([], e :: r)
        | [] => some ([], [])
      match expPart with
      | none => none
      | some (ep, r3) => some (sign ++ ip ++ fp ++ ep, r3)

def hexVal (c : UInt8) : Option Nat :=
  if 48 ≤ c && c ≤ 57 then some (c.toNat - 48)
  else if 97 ≤ c && c ≤ 102 then some (c.toNat - 87)
  else if 65 ≤ c && c ≤ 70 then some (c.toNat - 55)
  else none

def hex4 : Bytes → Option (Nat × Bytes)
  | a :: b :: c :: d :: r =>
    match hexVal a, hexVal b, hexVal c, hexVal d with
    | some a, some b, some c, some d => some (a * 4096 + b * 256 + c * 16 + d, r)
    | _, _, _, _ => none
  | _ => none

/-- UTF-8 encoding of a code point (callers pass scalar values only). -/
def utf8Encode (n : Nat) : Bytes :=
  if n < 0x80 then [n.toUInt8]
  else if n < 0x800 then [(0xC0 + n / 64).toUInt8, (0x80 + n % 64).toUInt8]
  else if n < 0x10000 then
    [(0xE0 + n / 4096).toUInt8, (0x80 + n / 64 % 64).toUInt8, (0x80 + n % 64).toUInt8]
  else
    [(0xF0 + n / 262144).toUInt8, (0x80 + n / 4096 % 64).toUInt8,
     (0x80 + n / 64 % 64).toUInt8, (0x80 + n % 64).toUInt8]

def replacement : Bytes := [0xEF, 0xBF, 0xBD]

def isCont (c : UInt8) : Bool := 0x80 ≤ c && c ≤ 0xBF

/-- Length of the valid UTF-8 sequence at the head (Go's `utf8.DecodeRune`), `none` = invalid
    (Go then consumes exactly one byte and yields U+FFFD). -/
def utf8Len : Bytes → Option Nat
  | [] => none
  | b0 :: r =>
    if b0 < 0x80 then some 1
    else if 0xC2 ≤ b0 && b0 ≤ 0xDF then
      match r with
      | b1 :: _ => if isCont b1 then some 2 else none
      | _ => none
    else if 0xE0 ≤ b0 && b0 ≤ 0xEF then
      match r with
      | b1 :: b2 :: _ =>
        let lo : UInt8 := if b0 = 0xE0 then 0xA0 else 0x80
        let hi : UInt8 := if b0 = 0xED then 0x9F else 0xBF
        if lo ≤ b1 && b1 ≤ hi && isCont b2 then some 3 else none
      | _ => none
    else if 0xF0 ≤ b0 && b0 ≤ 0xF4 then
      match r with
      | b1 :: b2 :: b3 :: _ =>
        let lo : UInt8 := if b0 = 0xF0 then 0x90 else 0x80
        let hi : UInt8 := if b0 = 0xF4 then 0x8F else 0xBF
        if lo ≤ b1 && b1 ≤ hi && isCont b2 && isCont b3 then some 4 else none
      | _ => none
    else none

/-- Body of a JSON string after the opening quote: returns decoded bytes and the rest after the
    closing quote. Fuel = remaining length. -/
def parseStringBody : Nat → Bytes → Option (Bytes × Bytes)
  | 0, _ => none
  | _ + 1, [] => none
  | fuel + 1, c :: cs =>
    if c = 34 then some ([], cs)
    else if c < 32 then none
    else if c = 92 then
      match cs with
      | [] => none
      | e :: r =>
        let simple (b : UInt8) : Option (Bytes × Bytes) :=
          (parseStringBody fuel r).map fun (s, rest) => (b :: s, rest)
        if e = 34 then simple 34
        else if e = 92 then simple 92
        else if e = 47 then simple 47
        else if e = 98 then simple 8
        else if e = 102 then simple 12
        else if e = 110 then simple 10
        else if e = 114 then simple 13
        else if e = 116 then simple 9
        else if e = 117 then
          match hex4 r with
          | none => none
          | some (u, r1) =>
            if 0xD800 ≤ u && u < 0xDC00 then
              -- high surrogate: needs `\uDC00..DFFF` directly after, else U+FFFD (and the
              -- following escape is processed on its own)
              match r1 with
              | 92 :: 117 :: r2 =>
                (match hex4 r2 with
                 | some (l, r3) =>
                   if 0xDC00 ≤ l && l < 0xE000 then
                     (parseStringBody fuel r3).map fun (s, rest) =>
                       (utf8Encode (0x10000 + (u - 0xD800) * 1024 + (l - 0xDC00)) ++ s, rest)
                   else
                     (parseStringBody fuel r1).map fun (s, rest) => (replacement ++ s, rest)
                 | none => none)
              | _ => (parseStringBody fuel r1).map fun (s, rest) => (replacement ++ s, rest)
            else if 0xDC00 ≤ u && u < 0xE000 then
              (parseStringBody fuel r1).map fun (s, rest) => (replacement ++ s, rest)
            else
              (parseStringBody fuel r1).map fun (s, rest) => (utf8Encode u ++ s, rest)
        else none
    else
      match utf8Len (c :: cs) with
      | some n =>
        (parseStringBody fuel ((c :: cs).drop n)).map fun (s, rest) => ((c :: cs).take n ++ s, rest)
      | none =>
        (parseStringBody fuel cs).map fun (s, rest) => (replacement ++ s, rest)

def parseString (bs : Bytes) : Option (Bytes × Bytes) := parseStringBody (bs.length + 1) bs

def maxDepth : Nat := 10000

def matchLit (lit : Bytes) (bs : Bytes) : Option Bytes :=
  if lit.isPrefixOf bs then some (bs.drop lit.length) else none

/-! ## Value parser (fuel-driven, mutual) -/
mutual
/-- one value at the head of the input (leading whitespace already skipped). `d` = current depth. -/
def parseValue : Nat → Nat → Bytes → Option (JVal × Bytes)
  | 0, _, _ => none
  | _ + 1, _, [] => none
  | fuel + 1, d, c :: cs =>
    if c = 123 then            -- '{'
      if d ≥ maxDepth then none else
      match skipWs cs with
      | 125 :: r => some (.obj .nil, r)
      | r => (parseMembers fuel (d + 1) r).map fun (ms, rest) => (.obj ms, rest)
    else if c = 91 then        -- '['
      if d ≥ maxDepth then none else
      match skipWs cs with
      | 93 :: r => some (.arr .nil, r)
      | r => (parseElems fuel (d + 1) r).map fun (xs, rest) => (.arr xs, rest)
    else if c = 34 then
      (parseString cs).map fun (s, rest) => (.str s, rest)
    else if c = 116 then (matchLit [114, 117, 101] cs).map fun r => (.bool true, r)
    else if c = 102 then (matchLit [97, 108, 115, 101] cs).map fun r => (.bool false, r)
    else if c = 110 then (matchLit [117, 108, 108] cs).map fun r => (.null, r)
    else if c = 45 || isDigit c then
      (parseNumber (c :: cs)).map fun (lit, rest) => (.num lit, rest)
    else none
/-- `value (ws , ws value)* ws ]` -/
def parseElems : Nat → Nat → Bytes → Option (JList × Bytes)
  | 0, _, _ => none
  | fuel + 1, d, bs =>
    match parseValue fuel d bs with
    | none => none
    | some (v, r) =>
      match skipWs r with
      | 44 :: r' =>
        (parseElems fuel d (skipWs r')).map fun (xs, rest) => (.cons v xs, rest)
      | 93 :: r' => some (.cons v .nil, r')
      | _ => none
/-- `string ws : ws value (ws , ws string ws : ws value)* ws }` -/
def parseMembers : Nat → Nat → Bytes → Option (JMembers × Bytes)
  | 0, _, _ => none
  | fuel + 1, d, bs =>
    match bs with
    | 34 :: r0 =>
      match parseString r0 with
      | none => none
      | some (k, r1) =>
        match skipWs r1 with
        | 58 :: r2 =>
          match parseValue fuel d (skipWs r2) with
          | none => none
          | some (v, r3) =>
            match skipWs r3 with
            | 44 :: r4 =>
              (parseMembers fuel d (skipWs r4)).map fun (ms, rest) => (.cons k v ms, rest)
            | 125 :: r4 => some (.cons k v .nil, r4)
            | _ => none
        | _ => none
    | _ => none
end

/-- A whole document: optional whitespace, one value, optional whitespace, end of input. -/
def parseDoc (bs : Bytes) : Option JVal :=
  match parseValue (2 * bs.length + 4) 0 (skipWs bs) with
  | some (v, r) => if (skipWs r).isEmpty then some v else none
  | none => none

/-! ## Rendering (json.Marshal, escapeHTML = true) -/

def hexDigit (n : Nat) : UInt8 := if n < 10 then (48 + n).toUInt8 else (87 + n).toUInt8

def u00 (c : UInt8) : Bytes := [92, 117, 48, 48, hexDigit (c.toNat / 16), hexDigit (c.toNat % 16)]

/-- Escape decoded string bytes. Fuel = length. Invalid UTF-8 becomes `�`. -/
def escapeBody : Nat → Bytes → Bytes
  | 0, _ => []
  | _ + 1, [] => []
  | fuel + 1, c :: cs =>
    if c = 34 then 92 :: 34 :: escapeBody fuel cs
    else if c = 92 then 92 :: 92 :: escapeBody fuel cs
    else if c = 8 then 92 :: 98 :: escapeBody fuel cs
    else if c = 12 then 92 :: 102 :: escapeBody fuel cs
    else if c = 10 then 92 :: 110 :: escapeBody fuel cs
    else if c = 13 then 92 :: 114 :: escapeBody fuel cs
    else if c = 9 then 92 :: 116 :: escapeBody fuel cs
    else if c < 32 || c = 60 || c = 62 || c = 38 then u00 c ++ escapeBody fuel cs
    else if c < 0x80 then c :: escapeBody fuel cs
    else
      match utf8Len (c :: cs) with
      | some n =>
        let ch := (c :: cs).take n
        if ch = [0xE2, 0x80, 0xA8] then [92, 117, 50, 48, 50, 56] ++ escapeBody fuel ((c :: cs).drop n)
        else if ch = [0xE2, 0x80, 0xA9] then [92, 117, 50, 48, 50, 57] ++ escapeBody fuel ((c :: cs).drop n)
        else ch ++ escapeBody fuel ((c :: cs).drop n)
      | none => [92, 117, 102, 102, 102, 100] ++ escapeBody fuel cs

def renderString (s : Bytes) : Bytes := 34 :: escapeBody (s.length + 1) s ++ [34]

mutual
def render : JVal → Bytes
  | .null => [110, 117, 108, 108]
  | .bool true => [116, 114, 117, 101]
  | .bool false => [102, 97, 108, 115, 101]
  | .num lit => lit
  | .str s => renderString s
  | .arr xs => 91 :: renderList xs ++ [93]
  | .obj ms => 123 :: renderMembers ms ++ [125]
def renderList : JList → Bytes
  | .nil => []
  | .cons v .nil => render v
  | .cons v t => render v ++ 44 :: renderList t
def renderMembers : JMembers → Bytes
  | .nil => []
  | .cons k v .nil => renderString k ++ 58 :: render v
  | .cons k v t => renderString k ++ 58 :: render v ++ 44 :: renderMembers t
end

/-! ## Struct decoding helpers (json.Unmarshal into tagged structs) -/

/-- Go's key folding for case-insensitive member matching, restricted to what can match the
    ASCII field names used by this library: ASCII letters fold to lower case, U+017F (long s,
    bytes C5 BF) folds to `s`, U+212A (Kelvin sign, E2 84 AA) folds to `k`. -/
def foldKey : Bytes → Bytes
  | [] => []
  | 0xC5 :: 0xBF :: r => 115 :: foldKey r
  | 0xE2 :: 0x84 :: 0xAA :: r => 107 :: foldKey r
  | c :: r => (if 65 ≤ c && c ≤ 90 then c + 32 else c) :: foldKey r

def keyMatches (field key : Bytes) : Bool := foldKey key == foldKey field

end Varlink
