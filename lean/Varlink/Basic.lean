/-
  Basic vocabulary shared by all models.

  Go strings are byte strings; every model works on `List UInt8` (`Bytes`).
  Everything here is structural recursion so that kernel `decide` reduces it.
-/
namespace Varlink

abbrev Bytes := List UInt8

/-- ASCII literal helper (only ever applied to ASCII literals); written so that kernel `decide`
    reduces it. -/
def str (s : String) : Bytes := s.toList.map (fun c => c.toNat.toUInt8)

def dot : UInt8 := 46      -- '.'
def colon : UInt8 := 58    -- ':'
def semi : UInt8 := 59     -- ';'
def at' : UInt8 := 64      -- '@'

/-- Index of the last occurrence of byte `c` (Go: `strings.LastIndex(s, ".")`), `none` = -1. -/
def lastIndexOf (c : UInt8) : Bytes → Option Nat
  | [] => none
  | x :: xs =>
    match lastIndexOf c xs with
    | some i => some (i + 1)
    | none => if x = c then some 0 else none

/-- Index of the first occurrence. -/
def indexOf (c : UInt8) : Bytes → Option Nat
  | [] => none
  | x :: xs => if x = c then some 0 else (indexOf c xs).map (· + 1)

/-- `strings.SplitN(s, sep, 2)` for a one-byte separator: `none` when `sep` does not occur
    (Go then returns the one-element slice `[s]`). -/
def splitFirst (c : UInt8) : Bytes → Option (Bytes × Bytes)
  | [] => none
  | x :: xs =>
    if x = c then some ([], xs)
    else match splitFirst c xs with
      | some (a, b) => some (x :: a, b)
      | none => none

/-- `strings.Split(s, sep)` for a one-byte separator (always at least one element). -/
def splitAll (c : UInt8) : Bytes → List Bytes
  | [] => [[]]
  | x :: xs =>
    if x = c then [] :: splitAll c xs
    else match splitAll c xs with
      | [] => [[x]]            -- unreachable, kept total
      | p :: ps => (x :: p) :: ps

def dotFree (s : Bytes) : Bool := !s.contains dot

/-- `a ++ "." ++ b`. -/
def joinDot (a b : Bytes) : Bytes := a ++ dot :: b

end Varlink
