/-
  Well-formedness predicates for `JVal` (decidable, executable) under which the JSON model
  round-trips: `parseDoc (render v) = some v` (proved in `VarlinkProofs/Lemmas/Json.lean`).

  * `numLitOk lit` : `lit` is exactly one RFC 8259 number literal.
  * `utf8Ok s`     : `s` is valid UTF-8 (sanitising it changes nothing).
  * `JVal.numsOk`  : every `num` literal in the value is `numLitOk` (enough for
                     `parseDoc (render v) = some v.sanitize`).
  * `JVal.wf`      : `numsOk` and every string value / object key is `utf8Ok`.
  * `JVal.depth`   : nesting of arrays/objects (a scalar has depth 0, `[]` has depth 1).
  * `JVal.fuel`    : fuel that is enough for `parseValue` to read `render v` back.
  * `numStop rest` : `rest` cannot continue a number literal (empty, or its first byte is none of
                     `0-9 . e E`).
-/
import Varlink.Json
import Varlink.Canon
namespace Varlink

def numLitOk (lit : Bytes) : Bool := parseNumber lit == some (lit, [])

def utf8Ok (s : Bytes) : Bool := sanitize s == s

def numStop : Bytes → Bool
  | [] => true
  | c :: _ => !(isDigit c || c = 46 || c = 101 || c = 69)

mutual
def JVal.numsOk : JVal → Bool
  | .num lit => numLitOk lit
  | .arr xs => JList.numsOk xs
  | .obj ms => JMembers.numsOk ms
  | _ => true
def JList.numsOk : JList → Bool
  | .nil => true
  | .cons v t => JVal.numsOk v && JList.numsOk t
def JMembers.numsOk : JMembers → Bool
  | .nil => true
  | .cons _ v t => JVal.numsOk v && JMembers.numsOk t
end

mutual
def JVal.wf : JVal → Bool
  | .num lit => numLitOk lit
  | .str s => utf8Ok s
  | .arr xs => JList.wf xs
  | .obj ms => JMembers.wf ms
  | _ => true
def JList.wf : JList → Bool
  | .nil => true
  | .cons v t => JVal.wf v && JList.wf t
def JMembers.wf : JMembers → Bool
  | .nil => true
  | .cons k v t => utf8Ok k && JVal.wf v && JMembers.wf t
end

mutual
def JVal.depth : JVal → Nat
  | .arr xs => 1 + JList.depth xs
  | .obj ms => 1 + JMembers.depth ms
  | _ => 0
def JList.depth : JList → Nat
  | .nil => 0
  | .cons v t => max (JVal.depth v) (JList.depth t)
def JMembers.depth : JMembers → Nat
  | .nil => 0
  | .cons _ v t => max (JVal.depth v) (JMembers.depth t)
end

/- Fuel sufficient for `parseValue` on `render v` (one unit per value / element / member). -/
mutual
def JVal.fuel : JVal → Nat
  | .arr xs => 1 + JList.fuel xs
  | .obj ms => 1 + JMembers.fuel ms
  | _ => 1
def JList.fuel : JList → Nat
  | .nil => 0
  | .cons v t => 1 + JVal.fuel v + JList.fuel t
def JMembers.fuel : JMembers → Nat
  | .nil => 0
  | .cons _ v t => 1 + JVal.fuel v + JMembers.fuel t
end

end Varlink
