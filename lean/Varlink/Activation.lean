/-
  Model of `activationListener` (socketactivation.go): which inherited descriptor is selected.
-/
import Varlink.Basic
namespace Varlink

/-- `strconv.Atoi` on decimal text: optional sign, at least one digit, digits only.
    Underscores are not accepted (base 10 given explicitly). Range: int64. -/
def digitsVal : Nat → Bytes → Option Nat
  | acc, [] => some acc
  | acc, c :: cs => if 48 ≤ c && c ≤ 57 then digitsVal (acc * 10 + (c.toNat - 48)) cs else none

def atoi (s : Bytes) : Option Int :=
  match s with
  | [] => none
  | 43 :: r => if r.isEmpty then none else
      (digitsVal 0 r).bind fun n => if n ≤ 9223372036854775807 then some (n : Int) else none
  | 45 :: r => if r.isEmpty then none else
      (digitsVal 0 r).bind fun n => if n ≤ 9223372036854775808 then some (-(n : Int)) else none
  | r => (digitsVal 0 r).bind fun n => if n ≤ 9223372036854775807 then some (n : Int) else none

structure ActEnv where
  listenPid : Option Bytes        -- `none` = unset (Getenv gives "")
  listenFds : Option Bytes
  listenFdNames : Option Bytes    -- LookupEnv distinguishes unset from empty

def firstIndex (x : Bytes) : List Bytes → Option Nat
  | [] => none
  | y :: ys => if y = x then some 0 else (firstIndex x ys).map (· + 1)

/-- descriptor chosen by `activationListener`, before `net.FileListener` is tried -/
def selectFd (env : ActEnv) (pid : Int) : Option Nat :=
  match atoi (env.listenPid.getD []) with
  | none => none
  | some p =>
    if p ≠ pid then none else
    match atoi (env.listenFds.getD []) with
    | none => none
    | some n =>
      if n < 1 then none
      else if n > 1 then
        match env.listenFdNames with
        | none => none
        | some names =>
          let ns := splitAll colon names
          if (ns.length : Int) ≠ n then none
          else (firstIndex (str "varlink") ns).map (3 + ·)
      else some 3

inductive FdKind where
  | listeningSocket | other
  deriving DecidableEq, Repr

/-- `some fd` = serve on inherited descriptor `fd`; `none` = bind the address argument -/
def activation (env : ActEnv) (pid : Int) (kind : Nat → FdKind) : Option Nat :=
  match selectFd env pid with
  | some fd => if kind fd = .listeningSocket then some fd else none
  | none => none

end Varlink
