/-
  Model of what the GENERATED code (cmd/varlink-go-interface-generator) does at run time (property C08):

    * `Val`            values of the Go types the generator emits for description types
    * `encodeF`        `json.Marshal` of a value of the TAGGED struct types (field names from the description,
                       `omitempty` on fields written `?T`, nil slice / nil map / nil pointer ↔ `null`)
    * `encodeGoF`      `json.Marshal` of the UNTAGGED types (Go field names, no omitempty): how the harness records
                       the arguments an implementation received and the values a client stub returned
    * `decodeF`        `json.Unmarshal` into the tagged struct types
    * `hasTypeF`       which values inhabit a description type
    * client stub (`stubCall`), dispatcher (`dispatch`), reply and error helpers (`replyAct`, `errorAct`),
      client-side `Dispatch_Error` (`clientError`), on top of `Varlink/Service.lean` and `Varlink/Client.lean`.

  All recursive functions take a fuel argument that decreases at every step in the same way in `encodeF`,
  `decodeF` and `hasTypeF` (aliases may be recursive through `?`, `[]`, `[string]`), so that the round-trip
  theorem is a plain induction on the fuel; `VarlinkProofs/Props/C08.lean` also proves that more fuel never
  changes a result.

  Modelling decisions (each compared with the real code on every run of the `stub` stream):
    * floats are carried as their JSON literal (Go's shortest round-trip formatting is not modelled);
    * duplicate object keys in incoming parameters are not modelled (generated clients never send them);
    * a present optional whose content encodes as `null` (nil slice, nil map, `object` null, nested nil) is
      indistinguishable from an absent one on the wire: such values are not `hasTypeF`.
-/
import Varlink.Client
import Varlink.Idl.Syntax
import Varlink.Gen.Domain
namespace Varlink.Stub
open Varlink Varlink.Idl

mutual
inductive Val where
  | bool (b : Bool)
  | int (i : Int)
  | float (lit : Bytes)
  | str (s : Bytes)            -- string and enum (the Go type of an enum is `string`)
  | obj (j : JVal)             -- json.RawMessage, as the JSON value it holds
  | none                       -- nil pointer
  | some (v : Val)
  | nilList
  | list (vs : ValList)
  | nilMap
  | map (ms : ValMap)          -- keys sorted, pairwise distinct
  | struct (fs : ValList)      -- field values in declaration order
inductive ValList where
  | nil
  | cons (v : Val) (r : ValList)
inductive ValMap where
  | nil
  | cons (k : Bytes) (v : Val) (r : ValMap)
end

instance : Inhabited Val := ⟨.none⟩

mutual
def Val.beq : Val → Val → Bool
  | .bool a, .bool b => a == b
  | .int a, .int b => a == b
  | .float a, .float b => a == b
  | .str a, .str b => a == b
  | .obj a, .obj b => JVal.beq a b
  | .none, .none => true
  | .some a, .some b => Val.beq a b
  | .nilList, .nilList => true
  | .list a, .list b => ValList.beq a b
  | .nilMap, .nilMap => true
  | .map a, .map b => ValMap.beq a b
  | .struct a, .struct b => ValList.beq a b
  | _, _ => false
def ValList.beq : ValList → ValList → Bool
  | .nil, .nil => true
  | .cons a r, .cons b s => Val.beq a b && ValList.beq r s
  | _, _ => false
def ValMap.beq : ValMap → ValMap → Bool
  | .nil, .nil => true
  | .cons k a r, .cons l b s => k == l && Val.beq a b && ValMap.beq r s
  | _, _ => false
end

abbrev Aliases := List (Bytes × Ty)

def aliasesOf (t : Idl) : Aliases :=
  t.members.filterMap fun m => match m with | .alias n _ ty => some (n, ty) | _ => none

def lookupAlias (al : Aliases) (n : Bytes) : Option Ty :=
  match al with
  | [] => none
  | (m, ty) :: r => if m = n then some ty else lookupAlias r n

/-! ## numbers -/

def digitsRev : Nat → Nat → Bytes
  | 0, _ => []
  | fuel + 1, n => if n < 10 then [(48 + n).toUInt8] else (48 + n % 10).toUInt8 :: digitsRev fuel (n / 10)

/-- decimal rendering of a natural number -/
def natLit (n : Nat) : Bytes := (digitsRev (n + 1) n).reverse

/-- `strconv.FormatInt(i, 10)` -/
def intLit (i : Int) : Bytes :=
  match i with
  | .ofNat n => natLit n
  | .negSucc n => 45 :: natLit (n + 1)

def inInt64 (i : Int) : Bool := decide (-9223372036854775808 ≤ i) && decide (i ≤ 9223372036854775807)

def digitsVal : Bytes → Nat → Option Nat
  | [], acc => some acc
  | c :: r, acc => if 48 ≤ c && c ≤ 57 then digitsVal r (acc * 10 + (c.toNat - 48)) else none

/-- a non-empty run of decimal digits -/
def parseNat (r : Bytes) : Option Nat := if r.isEmpty then none else digitsVal r 0

def checkInt64 (i : Int) : Option Int := if inInt64 i then some i else none

/-- `strconv.ParseInt(lit, 10, 64)` on a JSON number literal: digits only, optional minus, in range -/
def parseInt64 (lit : Bytes) : Option Int :=
  match lit with
  | [] => none
  | c :: r =>
    if c = 45 then (parseNat r).bind fun n => checkInt64 (- (n : Int))
    else (parseNat (c :: r)).bind fun n => checkInt64 (n : Int)

/-- decimal mantissa and exponent of a JSON number literal: the value is `m * 10^e` (sign dropped) -/
def litMantExp (lit : Bytes) : Option (Nat × Int) :=
  let body := match lit with | 45 :: r => r | r => r
  let (ip, r1) := takeDigits body
  let (fp, r2) := match r1 with
    | 46 :: r => takeDigits r
    | r => ([], r)
  let ex : Option Int := match r2 with
    | [] => some 0
    | _ :: 43 :: r => (digitsVal r 0).map fun n => (n : Int)
    | _ :: 45 :: r => (digitsVal r 0).map fun n => - (n : Int)
    | _ :: r => (digitsVal r 0).map fun n => (n : Int)
  match digitsVal (ip ++ fp) 0, ex with
  | some m, some e => some (m, e - fp.length)
  | _, _ => none

/-- `strconv.ParseFloat(lit, 64)` reports a range error: the value rounds to infinity, i.e. is at least
    `2^1024 - 2^970` (half an ulp above the largest finite float64) -/
def floatOverflows (lit : Bytes) : Bool :=
  match litMantExp lit with
  | none => false
  | some (m, e) =>
    if m = 0 then false
    else
      let digits := (natLit m).length
      if e + digits > 400 then true
      else if e + digits < 300 then false
      else
        let thr : Nat := 2 ^ 1024 - 2 ^ 970
        if e ≥ 0 then decide (m * 10 ^ e.toNat ≥ thr) else decide (m ≥ thr * 10 ^ (-e).toNat)

/-! ## encoding -/

/-- does the JSON encoding of the value equal `null` -/
def Val.encodesNull : Val → Bool
  | .none => true
  | .nilList => true
  | .nilMap => true
  | .obj .null => true
  | _ => false

mutual
/-- `json.Marshal` of a value of the tagged Go type for `ty`; `none` = the value does not have the type -/
def encodeF (al : Aliases) : Nat → Ty → Val → Option JVal
  | 0, _, _ => none
  | _ + 1, .bool, .bool b => some (.bool b)
  | _ + 1, .int, .int i => if inInt64 i then some (.num (intLit i)) else none
  | _ + 1, .float, .float lit => some (.num lit)
  | _ + 1, .string, .str s => some (.str s)
  | _ + 1, .enum _, .str s => some (.str s)
  | _ + 1, .object, .obj j => some j
  | _ + 1, .maybe _, .none => some .null
  | f + 1, .maybe t, .some v => encodeF al f t v
  | _ + 1, .array _, .nilList => some .null
  | f + 1, .array t, .list vs => (encodeListF al f t vs).map .arr
  | _ + 1, .map _, .nilMap => some .null
  | f + 1, .map t, .map ms => (encodeMapF al f t ms).map .obj
  | f + 1, .struct fs, .struct vs => (encodeFieldsF al f fs vs).map .obj
  | f + 1, .named n, v => match lookupAlias al n with
    | some ty => encodeF al f ty v
    | none => none
  | _ + 1, _, _ => none
def encodeListF (al : Aliases) : Nat → Ty → ValList → Option JList
  | 0, _, _ => none
  | _ + 1, _, .nil => some .nil
  | f + 1, t, .cons v r =>
    match encodeF al f t v, encodeListF al f t r with
    | some a, some b => some (.cons a b)
    | _, _ => none
def encodeMapF (al : Aliases) : Nat → Ty → ValMap → Option JMembers
  | 0, _, _ => none
  | _ + 1, _, .nil => some .nil
  | f + 1, t, .cons k v r =>
    match encodeF al f t v, encodeMapF al f t r with
    | some a, some b => some (.cons k a b)
    | _, _ => none
/-- fields of a tagged struct: name from the description, `omitempty` when the field is written `?T` -/
def encodeFieldsF (al : Aliases) : Nat → Fields → ValList → Option JMembers
  | 0, _, _ => none
  | _ + 1, .nil, .nil => some .nil
  | f + 1, .typed n t r, .cons v vs =>
    match encodeF al f t v, encodeFieldsF al f r vs with
    | some a, some b => if t.isMaybe && v.beq .none then some b else some (.cons n a b)
    | _, _ => none
  | _ + 1, _, _ => none
end

mutual
/-- `json.Marshal` of a value of the UNTAGGED Go type (Go field names, nothing omitted) -/
def encodeGoF (al : Aliases) : Nat → Ty → Val → Option JVal
  | 0, _, _ => none
  | _ + 1, .bool, .bool b => some (.bool b)
  | _ + 1, .int, .int i => if inInt64 i then some (.num (intLit i)) else none
  | _ + 1, .float, .float lit => some (.num lit)
  | _ + 1, .string, .str s => some (.str s)
  | _ + 1, .enum _, .str s => some (.str s)
  | _ + 1, .object, .obj j => some j
  | _ + 1, .maybe _, .none => some .null
  | f + 1, .maybe t, .some v => encodeGoF al f t v
  | _ + 1, .array _, .nilList => some .null
  | f + 1, .array t, .list vs => (encodeGoListF al f t vs).map .arr
  | _ + 1, .map _, .nilMap => some .null
  | f + 1, .map t, .map ms => (encodeGoMapF al f t ms).map .obj
  | f + 1, .struct fs, .struct vs => (encodeGoFieldsF al f fs vs).map .obj
  -- a named type is declared with the TAGGED struct type: its values marshal with the description's names
  | f + 1, .named n, v => match lookupAlias al n with
    | some ty => encodeF al f ty v
    | none => none
  | _ + 1, _, _ => none
def encodeGoListF (al : Aliases) : Nat → Ty → ValList → Option JList
  | 0, _, _ => none
  | _ + 1, _, .nil => some .nil
  | f + 1, t, .cons v r =>
    match encodeGoF al f t v, encodeGoListF al f t r with
    | some a, some b => some (.cons a b)
    | _, _ => none
def encodeGoMapF (al : Aliases) : Nat → Ty → ValMap → Option JMembers
  | 0, _, _ => none
  | _ + 1, _, .nil => some .nil
  | f + 1, t, .cons k v r =>
    match encodeGoF al f t v, encodeGoMapF al f t r with
    | some a, some b => some (.cons k a b)
    | _, _ => none
def encodeGoFieldsF (al : Aliases) : Nat → Fields → ValList → Option JMembers
  | 0, _, _ => none
  | _ + 1, .nil, .nil => some .nil
  | f + 1, .typed n t r, .cons v vs =>
    match encodeGoF al f t v, encodeGoFieldsF al f r vs with
    | some a, some b => some (.cons (Gen.title n) a b)
    | _, _ => none
  | _ + 1, _, _ => none
end

/-! ## zero values, decoding -/

mutual
/-- the zero value of the Go type -/
def zeroF (al : Aliases) : Nat → Ty → Option Val
  | 0, _ => none
  | _ + 1, .bool => some (.bool false)
  | _ + 1, .int => some (.int 0)
  | _ + 1, .float => some (.float [48])
  | _ + 1, .string => some (.str [])
  | _ + 1, .enum _ => some (.str [])
  | _ + 1, .object => some (.obj .null)
  | _ + 1, .maybe _ => some .none
  | _ + 1, .array _ => some .nilList
  | _ + 1, .map _ => some .nilMap
  | f + 1, .struct fs => (zeroFieldsF al f fs).map .struct
  | f + 1, .named n => match lookupAlias al n with
    | some ty => zeroF al f ty
    | none => none
def zeroFieldsF (al : Aliases) : Nat → Fields → Option ValList
  | 0, _ => none
  | _ + 1, .nil => some .nil
  | f + 1, .typed _ t r =>
    match zeroF al f t, zeroFieldsF al f r with
    | some a, some b => some (.cons a b)
    | _, _ => none
  | _ + 1, .bare _ _ => none
end

/-- the struct field an incoming object key is assigned to: the field with exactly that name if there is one,
    otherwise the first field whose name matches case-insensitively (Go's `encoding/json`) -/
def fieldTarget (names : List Bytes) (k : Bytes) : Option Bytes :=
  if names.contains k then some k else names.find? (fun n => keyMatches n k)

/-- the member a struct field is filled from (duplicate keys are not modelled: the first one counts) -/
def findMember (names : List Bytes) (name : Bytes) : JMembers → Option JVal
  | .nil => none
  | .cons k v r => if fieldTarget names k = some name then some v else findMember names name r

/-- insert into a key-sorted association list, replacing an equal key -/
def ValMap.insert (k : Bytes) (v : Val) : ValMap → ValMap
  | .nil => .cons k v .nil
  | .cons k' v' r =>
    if k = k' then .cons k v r
    else if decide (k < k') then .cons k v (.cons k' v' r)
    else .cons k' v' (ValMap.insert k v r)

mutual
/-- `json.Unmarshal` of a JSON value into (a zero value of) the tagged Go type; `none` = error -/
def decodeF (al : Aliases) : Nat → Ty → JVal → Option Val
  | 0, _, _ => none
  | _ + 1, .bool, .bool b => some (.bool b)
  | _ + 1, .bool, .null => some (.bool false)
  | _ + 1, .int, .num lit => (parseInt64 lit).map .int
  | _ + 1, .int, .null => some (.int 0)
  | _ + 1, .float, .num lit => if floatOverflows lit then none else some (.float lit)
  | _ + 1, .float, .null => some (.float [48])
  | _ + 1, .string, .str s => some (.str s)
  | _ + 1, .string, .null => some (.str [])
  | _ + 1, .enum _, .str s => some (.str s)
  | _ + 1, .enum _, .null => some (.str [])
  | _ + 1, .object, j => some (.obj j)
  | _ + 1, .maybe _, .null => some .none
  | f + 1, .maybe t, j => (decodeF al f t j).map .some
  | _ + 1, .array _, .null => some .nilList
  | f + 1, .array t, .arr xs => (decodeListF al f t xs).map .list
  | _ + 1, .map _, .null => some .nilMap
  | f + 1, .map t, .obj ms => (decodeMapF al f t ms).map .map
  | f + 1, .struct fs, .null => (zeroFieldsF al f fs).map .struct
  | f + 1, .struct fs, .obj ms => (decodeFieldsF al f fs.names fs ms).map .struct
  | f + 1, .named n, j => match lookupAlias al n with
    | some ty => decodeF al f ty j
    | none => none
  | _ + 1, _, _ => none
def decodeListF (al : Aliases) : Nat → Ty → JList → Option ValList
  | 0, _, _ => none
  | _ + 1, _, .nil => some .nil
  | f + 1, t, .cons j r =>
    match decodeF al f t j, decodeListF al f t r with
    | some a, some b => some (.cons a b)
    | _, _ => none
def decodeMapF (al : Aliases) : Nat → Ty → JMembers → Option ValMap
  | 0, _, _ => none
  | _ + 1, _, .nil => some .nil
  | f + 1, t, .cons k j r =>
    match decodeF al f t j, decodeMapF al f t r with
    | some a, some b => some (ValMap.insert k a b)
    | _, _ => none
/-- every field from the member that is assigned to it, the zero value when there is none;
    `names` are the names of all fields of the struct -/
def decodeFieldsF (al : Aliases) : Nat → List Bytes → Fields → JMembers → Option ValList
  | 0, _, _, _ => none
  | _ + 1, _, .nil, _ => some .nil
  | f + 1, names, .typed n t r, ms =>
    match (match findMember names n ms with
           | some j => decodeF al f t j
           | none => zeroF al f t),
          decodeFieldsF al f names r ms with
    | some a, some b => some (.cons a b)
    | _, _ => none
  | _ + 1, _, .bare _ _, _ => none
end

/-! ## typing -/

def ValMap.keys : ValMap → List Bytes
  | .nil => []
  | .cons k _ r => k :: r.keys

def sortedKeys : List Bytes → Bool
  | [] => true
  | [_] => true
  | a :: b :: r => decide (a < b) && sortedKeys (b :: r)

def validString (s : Bytes) : Bool := Gen.utf8From .start s || s.isEmpty

/-- is `lit` a JSON number literal (RFC 8259) -/
def isNumberLit (lit : Bytes) : Bool :=
  match parseNumber lit with
  | some (l, []) => l == lit
  | _ => false

mutual
/-- the value inhabits the Go type generated for `ty` (and survives a JSON round trip) -/
def hasTypeF (al : Aliases) : Nat → Ty → Val → Bool
  | 0, _, _ => false
  | _ + 1, .bool, .bool _ => true
  | _ + 1, .int, .int i => inInt64 i
  | _ + 1, .float, .float lit => isNumberLit lit && !floatOverflows lit
  | _ + 1, .string, .str s => validString s
  | _ + 1, .enum _, .str s => validString s
  | _ + 1, .object, .obj _ => true
  | _ + 1, .maybe _, .none => true
  | f + 1, .maybe t, .some v => !v.encodesNull && hasTypeF al f t v
  | _ + 1, .array _, .nilList => true
  | f + 1, .array t, .list vs => hasTypeListF al f t vs
  | _ + 1, .map _, .nilMap => true
  | f + 1, .map t, .map ms => sortedKeys ms.keys && ms.keys.all validString && hasTypeMapF al f t ms
  | f + 1, .struct fs, .struct vs => hasTypeFieldsF al f fs vs
  | f + 1, .named n, v => match lookupAlias al n with
    | some ty => hasTypeF al f ty v
    | none => false
  | _ + 1, _, _ => false
def hasTypeListF (al : Aliases) : Nat → Ty → ValList → Bool
  | 0, _, _ => false
  | _ + 1, _, .nil => true
  | f + 1, t, .cons v r => hasTypeF al f t v && hasTypeListF al f t r
def hasTypeMapF (al : Aliases) : Nat → Ty → ValMap → Bool
  | 0, _, _ => false
  | _ + 1, _, .nil => true
  | f + 1, t, .cons _ v r => hasTypeF al f t v && hasTypeMapF al f t r
def hasTypeFieldsF (al : Aliases) : Nat → Fields → ValList → Bool
  | 0, _, _ => false
  | _ + 1, .nil, .nil => true
  | f + 1, .typed _ t r, .cons v vs => hasTypeF al f t v && hasTypeFieldsF al f r vs
  | _ + 1, _, _ => false
end

/-- fuel used by the compiled driver -/
def bigFuel : Nat := 100000

/-! ## the generated code -/

/-- a method of the description -/
structure MethodSig where
  name : Bytes
  ins : Fields
  outs : Fields

def findMethod (t : Idl) (name : Bytes) : Option MethodSig :=
  t.members.findSome? fun m => match m with
    | .method n _ i o => if n = name then some ⟨n, Gen.tyFields i, Gen.tyFields o⟩ else none
    | _ => none

def findError (t : Idl) (name : Bytes) : Option Fields :=
  t.members.findSome? fun m => match m with
    | .error n _ oty => if n = name then some (Gen.tyFields (Gen.errTy oty)) else none
    | _ => none

/-- `parameters` argument the generated code passes for a field list: `nil` when there are no fields,
    otherwise the tagged struct -/
def payloadOf (al : Aliases) (fuel : Nat) (fs : Fields) (vs : ValList) : Payload :=
  if fs.isNil then .absent
  else match encodeF al fuel (.struct fs) (.struct vs) with
    | some j => .val j
    | none => .bad

/-- **client stub** `<M>().Send(ctx, c, flags, args…)`: what `Connection.Send` is asked to send -/
def stubCall (t : Idl) (fuel : Nat) (m : MethodSig) (args : ValList) (fl : Flags) : SendRes :=
  send (joinDot t.name m.name) (payloadOf (aliasesOf t) fuel m.ins args) fl

/-- **reply helper** `Reply<M>(ctx, outs…)` -/
def replyAct (t : Idl) (fuel : Nat) (m : MethodSig) (outs : ValList) : Act :=
  .reply (payloadOf (aliasesOf t) fuel m.outs outs)

/-- **error helper** `Reply<E>(ctx, fields…)`: always passes `&out`, also for an error without fields -/
def errorAct (t : Idl) (fuel : Nat) (e : Bytes) (fs : Fields) (vs : ValList) : Act :=
  .replyError (joinDot t.name e)
    (match encodeF (aliasesOf t) fuel (.struct fs) (.struct vs) with
     | some j => .val j
     | none => .bad)

/-- what the generated `VarlinkDispatch` does with a call to method `m` of this interface -/
inductive Dispatched where
  | notFound                       -- `default:` → ReplyMethodNotFound(methodname)
  | invalidParameters              -- GetParameters failed → ReplyInvalidParameter("parameters")
  | deliver (m : MethodSig) (args : ValList)

def dispatch (t : Idl) (fuel : Nat) (method : Bytes) (c : CallIn) : Dispatched :=
  match findMethod t method with
  | none => .notFound
  | some m =>
    if m.ins.isNil then .deliver m .nil
    else match c.params with
      | none => .invalidParameters                    -- "empty parameters"
      | some j =>
        match decodeF (aliasesOf t) fuel (.struct m.ins) j with
        | some (.struct vs) => .deliver m vs
        | _ => .invalidParameters

/-- the dispatcher as a `Behaviour` of the service model: `impl` is the user's implementation (`none` = method not
    overridden: the generated dummy answers MethodNotImplemented) -/
def behaviour (t : Idl) (fuel : Nat) (impl : MethodSig → ValList → CallIn → Option Script) : Behaviour :=
  fun _ method c =>
    match dispatch t fuel method c with
    | .notFound => { acts := [.replyStd (.methodNotFound method)] }
    | .invalidParameters => { acts := [.replyStd (.invalidParameter (str "parameters"))] }
    | .deliver m args =>
      match impl m args c with
      | some s => s
      | none => { acts := [.replyStd (.methodNotImplemented (joinDot t.name m.name))] }

/-- what the client stub returns after `receive` -/
inductive StubResult where
  | values (outs : ValList) (continues : Bool)
  | typedError (e : Bytes) (fields : ValList)        -- the generated error type `*E`
  | stdError (e : StdErr)
  | otherError (name : Bytes) (params : Option JVal) -- `*varlink.Error`
  | failed                                           -- transport / decoding failure of the reply frame

/-- generated `Dispatch_Error` on top of `DispatchError` -/
def clientError (t : Idl) (fuel : Nat) (name : Bytes) (params : Option JVal) : StubResult :=
  match dispatchError name params with
  | .stdError e => .stdError e
  | _ =>
    match lastIndexOf dot name with
    | some (r + 1) =>
      if name.take (r + 1) = t.name then
        match findError t (name.drop (r + 2)), params with
        | some fs, some j =>
          match decodeF (aliasesOf t) fuel (.struct fs) j with
          | some (.struct vs) => .typedError (name.drop (r + 2)) vs
          | _ => .otherError name params
        | _, _ => .otherError name params
      else .otherError name params
    | _ => .otherError name params

/-- the receive closure of the generated `Send`, given what `Connection.Send`'s receive made of the frame:
    decode the parameters into the tagged `out` struct (`json.Unmarshal` errors are ignored there: the struct
    keeps its zero value) -/
def stubResult (t : Idl) (fuel : Nat) (m : MethodSig) : RecvResult → StubResult
  | .reply params continues =>
    if m.outs.isNil then .values .nil continues
    else
      let zero := match zeroF (aliasesOf t) fuel (.struct m.outs) with
        | some (.struct vs) => vs
        | _ => .nil
      match params with
      | none => .values zero continues
      | some j =>
        match decodeF (aliasesOf t) fuel (.struct m.outs) j with
        | some (.struct vs) => .values vs continues
        | _ => .values zero continues
  | .remoteError name params => clientError t fuel name params
  | .stdError e => .stdError e
  | _ => .failed

def stubReceive (t : Idl) (fuel : Nat) (m : MethodSig) (frame : Bytes) : StubResult :=
  stubResult t fuel m (receiveFrame frame)

end Varlink.Stub
