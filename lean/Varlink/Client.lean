/-
  Model of the client side (`connection.go`): `Send` (flag checks, the call frame) and the
  `receive` closure (`ReadBytes`, decoding of the reply struct, `DispatchError`).
-/
import Varlink.Service
import Varlink.Frame
namespace Varlink

/-- bit values of the exported flag constants (pinned against the source by the extractor) -/
def flagMore : Nat := 1
def flagOneway : Nat := 2
def flagContinues : Nat := 4
def flagUpgrade : Nat := 8

structure Flags where
  more : Bool
  oneway : Bool
  continues : Bool
  upgrade : Bool
  deriving DecidableEq, Repr

def Flags.ofNat (n : Nat) : Flags :=
  { more := n % 2 = 1, oneway := n / 2 % 2 = 1, continues := n / 4 % 2 = 1, upgrade := n / 8 % 2 = 1 }

inductive SendRes where
  | refusedOneway          -- more together with oneway
  | refusedMore            -- more together with upgrade
  | encodeError
  | written (frame : JVal) -- the JSON object put on the wire (followed by one NUL)

def boolMember (k : Bytes) (b : Bool) (rest : JMembers) : JMembers :=
  if b then .cons k (.bool true) rest else rest

/-- the `call` struct of `Send` as `json.Marshal` renders it -/
def callObj (method : Bytes) (p : Option JVal) (more oneway upgrade : Bool) : JVal :=
  let tail := boolMember (str "more") more (boolMember (str "oneway") oneway
    (boolMember (str "upgrade") upgrade .nil))
  .obj (.cons (str "method") (.str method)
    (match p with
     | none => tail
     | some v => .cons (str "parameters") v tail))

def send (method : Bytes) (p : Payload) (f : Flags) : SendRes :=
  if f.more && f.oneway then .refusedOneway
  else if f.more && f.upgrade then .refusedMore
  else match p with
    | .bad => .encodeError
    | .absent => .written (callObj method none f.more f.oneway f.upgrade)
    | .val v => .written (callObj method (some v) f.more f.oneway f.upgrade)

/-- `Connection.Call`: `Send` with no flags and a POINTER to its `parameters` argument — `c.Send(ctx, method,
    &parameters, 0)` —, so that a nil argument is not omitted but written as `"parameters":null` -/
def callWrapper (method : Bytes) (p : Payload) : SendRes :=
  match p with
  | .bad => .encodeError
  | .absent => .written (callObj method (some .null) false false false)
  | .val v => .written (callObj method (some v) false false false)

structure ReplyIn where
  params : Option JVal := none
  continues : Bool := false
  error : Bytes := []

def applyReplyMember (r : ReplyIn) (k : Bytes) (v : JVal) : Option ReplyIn :=
  if keyMatches (str "parameters") k then
    match v with
    | .null => some { r with params := none }
    | v => some { r with params := some v }
  else if keyMatches (str "continues") k then
    (setBool v r.continues).map fun b => { r with continues := b }
  else if keyMatches (str "error") k then
    match v with
    | .str s => some { r with error := s }
    | .null => some r
    | _ => none
  else some r

def applyReplyMembers (r : ReplyIn) : JMembers → Option ReplyIn
  | .nil => some r
  | .cons k v t =>
    match applyReplyMember r k v with
    | some r' => applyReplyMembers r' t
    | none => none

def decodeReply (frame : Bytes) : Option ReplyIn :=
  match parseDoc frame with
  | none => none
  | some .null => some {}
  | some (.obj ms) => applyReplyMembers {} ms
  | some _ => none

/-- decode `{"<key>": string}` the way `json.Unmarshal` fills a one-string-field struct;
    `none` = unmarshal error -/
def decodeOneString (key : Bytes) : JVal → Option Bytes
  | .null => some []
  | .obj ms =>
    let rec go (cur : Bytes) : JMembers → Option Bytes
      | .nil => some cur
      | .cons k v t =>
        if keyMatches key k then
          match v with
          | .str s => go s t
          | .null => go cur t
          | _ => none
        else go cur t
    go [] ms
  | _ => none

inductive RecvResult where
  | unexpectedEOF
  | decodeError
  | remoteError (name : Bytes) (params : Option JVal)
  | stdError (e : StdErr)
  | reply (params : Option JVal) (continues : Bool)

/-- `DispatchError` -/
def dispatchError (name : Bytes) (params : Option JVal) : RecvResult :=
  let typed (key : Bytes) (mk : Bytes → StdErr) : RecvResult :=
    match params with
    | none => .stdError (mk [])
    | some v =>
      match decodeOneString key v with
      | some s => .stdError (mk s)
      | none => .remoteError name params
  if name = str "org.varlink.service.InterfaceNotFound" then typed (str "interface") .interfaceNotFound
  else if name = str "org.varlink.service.MethodNotFound" then typed (str "method") .methodNotFound
  else if name = str "org.varlink.service.MethodNotImplemented" then typed (str "method") .methodNotImplemented
  else if name = str "org.varlink.service.InvalidParameter" then typed (str "parameter") .invalidParameter
  else .remoteError name params

def receiveFrame (frame : Bytes) : RecvResult :=
  match decodeReply frame with
  | none => .decodeError
  | some r =>
    if r.error ≠ [] then dispatchError r.error r.params
    else .reply r.params r.continues

/-- one `receive()` on the connection's reader -/
def receive (cap : Nat) (b : Bufio) (net : Net) : RecvResult × Bufio × Net :=
  match readBytes cap 0 (readFuel b net) [] b net with
  | (.ok bs, b', net') => (receiveFrame bs.dropLast, b', net')
  | (.eof _, b', net') => (.unexpectedEOF, b', net')

/-- `k` successive `receive()` calls on one connection -/
def receiveN (cap : Nat) : Nat → Bufio → Net → List RecvResult
  | 0, _, _ => []
  | k + 1, b, net =>
    let (r, b', net') := receive cap b net
    r :: receiveN cap k b' net'

end Varlink
