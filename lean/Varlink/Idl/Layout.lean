/-
  Layouts (DESIGN.md Appendix B, property C05): syntax trees decorated with the layout material between their
  tokens, their rendering to text, the tree and the documentation they denote.

  A *gap* is a list of atoms: space, tab, CR, LF and `#text⏎` comments (`text` without LF). A layouted tree
  carries one gap at every place where the grammar allows layout between two tokens; there is no gap inside a
  type-prefix chain (`?`, `[]`, `[string]` are glued to their operand). `render` writes the text, `erase` forgets
  the layout.

  Documentation: `gapDoc` carries the pair (the current line is blank so far, the block of whole-line comments
  directly above the current line) across a gap; a token makes the line non-blank and leaves the block alone.
  `gapPend lc g` is the block behind a gap `g` that follows a token, `….pend` carries it across a type, a field
  list, a member. The documentation of a member is the block in front of its keyword — the comment lines directly
  above the line on which the keyword stands. When the gap in front of the member contains a line break (the member
  starts on a new line) this is `docOf` of that gap alone, whatever stands before it.
-/
import Varlink.Idl.Syntax
import Varlink.Idl.Parser
import Varlink.Idl.Printer
namespace Varlink.Idl
open Varlink

/-! ## gaps -/

inductive Atom where
  | sp | tab | cr | nl
  | comment (text : Bytes)        -- `#` text LF
  deriving DecidableEq

def Atom.render : Atom → Bytes
  | .sp => [32]
  | .tab => [9]
  | .cr => [13]
  | .nl => [10]
  | .comment t => 35 :: (t ++ [10])

/-- a comment's text contains no line feed -/
def Atom.wf : Atom → Bool
  | .comment t => t.all (fun c => c != 10)
  | _ => true

/-- the atom ends a line -/
def Atom.isBreak : Atom → Bool
  | .nl => true
  | .comment _ => true
  | _ => false

def Atom.isBlank : Atom → Bool
  | .sp => true
  | .tab => true
  | .cr => true
  | _ => false

abbrev Gap := List Atom

/-- the text of a gap, in front of `tl` -/
def renderGap : Gap → Bytes → Bytes
  | [], tl => tl
  | a :: g, tl => a.render ++ renderGap g tl

def Gap.wf (g : Gap) : Bool := g.all Atom.wf
/-- the gap contains a line break -/
def Gap.hasBreak (g : Gap) : Bool := g.any Atom.isBreak
/-- only spaces, tabs and CR: no line break -/
def Gap.blank (g : Gap) : Bool := g.all Atom.isBlank

/-! ## documentation -/

def dropLastCR : Bytes → Bytes
  | [] => []
  | [c] => if c = 13 then [] else [c]
  | c :: r => c :: dropLastCR r

/-- the text a comment contributes to the documentation: one optional leading space and a trailing CR removed -/
def docLine (t : Bytes) : Bytes :=
  match t with
  | 32 :: r => dropLastCR r
  | _ => dropLastCR t

/-- documentation state `(the current line is blank so far, pending documentation)` across one atom -/
def docStep : Bool × Bytes → Atom → Bool × Bytes
  | st, .sp => st
  | st, .tab => st
  | st, .cr => st
  | _, .nl => (true, [])
  | (true, lc), .comment t => (true, (if lc.length > 0 then lc ++ [10] else lc) ++ docLine t)
  | (false, _), .comment _ => (true, [])

def gapDoc (st : Bool × Bytes) (g : Gap) : Bool × Bytes := g.foldl docStep st

/-- the pending documentation behind the gap `g`, when `g` follows a token and `lc` was pending at that token -/
def gapPend (lc : Bytes) (g : Gap) : Bytes := (gapDoc (false, lc) g).2

/-- the documentation of a member that starts on a new line, in front of which the gap `g` stands: the block of
    comment lines at the end of `g` (`gapPend_break`: nothing in front of `g` matters) -/
def docOf (g : Gap) : Bytes := gapPend [] g

/-- the documentation of the interface: the gap at the start of the file -/
def docOfStart (g : Gap) : Bytes := (gapDoc (true, []) g).2

/-! ## layouted trees -/

mutual
inductive LTy where
  | bool | int | float | string | object
  | named (n : Bytes)
  | maybe (t : LTy)
  | array (t : LTy)
  | map (t : LTy)
  | unit (g : Gap)                                     -- `(` g `)`
  | struct (fs : LFields)                              -- `(` fields
  | enum (g1 : Gap) (name : Bytes) (g4 : Gap) (rest : List (Gap × Bytes × Gap))   -- `(` g1 name g4 {`,` g1 name g4} `)`
inductive LFields where
  /-- g1 name g2 `:` g3 type g4 `)` -/
  | last (g1 : Gap) (name : Bytes) (g2 g3 : Gap) (t : LTy) (g4 : Gap)
  /-- g1 name g2 `:` g3 type g4 `,` rest -/
  | cons (g1 : Gap) (name : Bytes) (g2 g3 : Gap) (t : LTy) (g4 : Gap) (rest : LFields)
end

/-- the names of an enum behind the first: {`,` g1 name g4} `)` -/
def renderNames : List (Gap × Bytes × Gap) → Bytes → Bytes
  | [], tl => 41 :: tl
  | (g1, n, g4) :: r, tl => 44 :: renderGap g1 (n ++ renderGap g4 (renderNames r tl))

mutual
def LTy.render : LTy → Bytes → Bytes
  | .bool, tl => tBool ++ tl
  | .int, tl => tInt ++ tl
  | .float, tl => tFloat ++ tl
  | .string, tl => tString ++ tl
  | .object, tl => tObject ++ tl
  | .named n, tl => n ++ tl
  | .maybe t, tl => 63 :: t.render tl
  | .array t, tl => tArray ++ t.render tl
  | .map t, tl => tMap ++ t.render tl
  | .unit g, tl => 40 :: renderGap g (41 :: tl)
  | .struct fs, tl => 40 :: fs.render tl
  | .enum g1 n g4 r, tl => 40 :: renderGap g1 (n ++ renderGap g4 (renderNames r tl))
def LFields.render : LFields → Bytes → Bytes
  | .last g1 n g2 g3 t g4, tl =>
    renderGap g1 (n ++ renderGap g2 (58 :: renderGap g3 (t.render (renderGap g4 (41 :: tl)))))
  | .cons g1 n g2 g3 t g4 r, tl =>
    renderGap g1 (n ++ renderGap g2 (58 :: renderGap g3 (t.render (renderGap g4 (44 :: r.render tl)))))
end

def eraseNames : List (Gap × Bytes × Gap) → Fields
  | [] => .nil
  | (_, n, _) :: r => .bare n (eraseNames r)

mutual
def LTy.erase : LTy → Ty
  | .bool => .bool
  | .int => .int
  | .float => .float
  | .string => .string
  | .object => .object
  | .named n => .named n
  | .maybe t => .maybe t.erase
  | .array t => .array t.erase
  | .map t => .map t.erase
  | .unit _ => .struct .nil
  | .struct fs => .struct fs.erase
  | .enum _ n _ r => .enum (.bare n (eraseNames r))
def LFields.erase : LFields → Fields
  | .last _ n _ _ t _ => .typed n t.erase .nil
  | .cons _ n _ _ t _ r => .typed n t.erase r.erase
end

/-- the pending documentation behind the names of an enum after the first -/
def namesPend : List (Gap × Bytes × Gap) → Bytes → Bytes
  | [], lc => lc
  | (g1, _, g4) :: r, lc => namesPend r (gapPend (gapPend lc g1) g4)

mutual
/-- the pending documentation behind a type: every gap inside it may hold line breaks and comment lines -/
def LTy.pend : LTy → Bytes → Bytes
  | .maybe t, lc => t.pend lc
  | .array t, lc => t.pend lc
  | .map t, lc => t.pend lc
  | .unit g, lc => gapPend lc g
  | .struct fs, lc => fs.pend lc
  | .enum g1 _ g4 r, lc => namesPend r (gapPend (gapPend lc g1) g4)
  | .bool, lc => lc
  | .int, lc => lc
  | .float, lc => lc
  | .string, lc => lc
  | .object, lc => lc
  | .named _, lc => lc
def LFields.pend : LFields → Bytes → Bytes
  | .last g1 _ g2 g3 t g4, lc => gapPend (t.pend (gapPend (gapPend (gapPend lc g1) g2) g3)) g4
  | .cons g1 _ g2 g3 t g4 r, lc => r.pend (gapPend (t.pend (gapPend (gapPend (gapPend lc g1) g2) g3)) g4)
end

inductive LMember where
  /-- `type` g1 name g4 type -/
  | alias (g1 : Gap) (name : Bytes) (g4 : Gap) (t : LTy)
  /-- `method` g1 name g4 input g5 `->` g5' output -/
  | method (g1 : Gap) (name : Bytes) (g4 : Gap) (i : LTy) (g5 g5' : Gap) (o : LTy)
  /-- `error` g1 name -/
  | errorBare (g1 : Gap) (name : Bytes)
  /-- `error` g1 name g6 type -/
  | error (g1 : Gap) (name : Bytes) (g6 : Gap) (t : LTy)

def LMember.render : LMember → Bytes → Bytes
  | .alias g1 n g4 t, tl => tType ++ renderGap g1 (n ++ renderGap g4 (t.render tl))
  | .method g1 n g4 i g5 g5' o, tl =>
    tMethod ++ renderGap g1 (n ++ renderGap g4 (i.render (renderGap g5 (tArrow ++ renderGap g5' (o.render tl)))))
  | .errorBare g1 n, tl => tError ++ renderGap g1 (n ++ tl)
  | .error g1 n g6 t, tl => tError ++ renderGap g1 (n ++ renderGap g6 (t.render tl))

/-- the member a layouted member denotes, given its documentation -/
def LMember.erase (doc : Bytes) : LMember → Member
  | .alias _ n _ t => .alias n doc t.erase
  | .method _ n _ i _ _ o => .method n doc i.erase o.erase
  | .errorBare _ n => .error n doc none
  | .error _ n _ t => .error n doc (some t.erase)

/-- the pending documentation behind a member whose keyword was read with `lc` pending -/
def LMember.pend : LMember → Bytes → Bytes
  | .alias g1 _ g4 t, lc => t.pend (gapPend (gapPend lc g1) g4)
  | .method g1 _ g4 i g5 g5' o, lc => o.pend (gapPend (gapPend (i.pend (gapPend (gapPend lc g1) g4)) g5) g5')
  | .errorBare g1 _, lc => gapPend lc g1
  | .error g1 _ g6 t, lc => t.pend (gapPend (gapPend lc g1) g6)

def LMember.name : LMember → Bytes
  | .alias _ n _ _ => n
  | .method _ n _ _ _ _ _ => n
  | .errorBare _ n => n
  | .error _ n _ _ => n

def LMember.isMethod : LMember → Bool
  | .method .. => true
  | _ => false

/-- a layouted description: `g0` `interface` `ig1` name, then every member behind its gap, the gap at the end and
    possibly a last comment without line feed -/
structure LIdl where
  g0 : Gap
  ig1 : Gap
  name : Bytes
  members : List (Gap × LMember)
  gEnd : Gap
  finalComment : Option Bytes

def renderMembers : List (Gap × LMember) → Bytes → Bytes
  | [], tl => tl
  | (g, m) :: r, tl => renderGap g (m.render (renderMembers r tl))

def renderFinal : Option Bytes → Bytes
  | none => []
  | some t => 35 :: t

/-- the text of a layouted description -/
def LIdl.render (L : LIdl) : Bytes :=
  renderGap L.g0 (tInterface ++ renderGap L.ig1 (L.name ++ renderMembers L.members (renderGap L.gEnd (renderFinal L.finalComment))))

/-- the documentation of each member, `lc` being pending behind the token in front of the first gap: the block of
    comment lines directly above the line of the member's keyword -/
def memberDocs : Bytes → List (Gap × LMember) → List Bytes
  | _, [] => []
  | lc, (g, m) :: r => gapPend lc g :: memberDocs (m.pend (gapPend lc g)) r

/-- the members a list of layouted members denotes, each with its documentation -/
def membersTree : Bytes → List (Gap × LMember) → List Member
  | _, [] => []
  | lc, (g, m) :: r => m.erase (gapPend lc g) :: membersTree (m.pend (gapPend lc g)) r

/-- what is pending behind the interface name: the block above `interface` carried across the gap behind the keyword -/
def LIdl.startPend (L : LIdl) : Bytes := gapPend (docOfStart L.g0) L.ig1

/-- the documentation of the members, in source order -/
def LIdl.docs (L : LIdl) : List Bytes := memberDocs L.startPend L.members

/-- the tree it denotes: names, types and order as written, each member documented by the comment block above it,
    the description retained verbatim -/
def LIdl.tree (L : LIdl) : Idl :=
  { name := L.name
    doc := docOfStart L.g0
    description := L.render
    members := membersTree L.startPend L.members }

/-! ## the layouts inside the grammar -/

def isTypeNameB : Bytes → Bool
  | [] => false
  | c :: r => isUpper c && r.all isAlnum

def isFieldNameB : Bytes → Bool
  | [] => false
  | c :: r => isLower c && r.all isFieldChar

/-- the interface name is matched in full by one of the two patterns of `readInterfaceName`, at most 255 bytes -/
def isInterfaceNameB (n : Bytes) : Bool :=
  n.length ≤ 255 && n != [] && (matchDn n == n.length || (matchDn n == 0 && matchXdn n == n.length))

/-- the first byte of the rendering is a name byte (then a separator is needed behind a name) -/
def LTy.startsWord : LTy → Bool
  | .bool | .int | .float | .string | .object | .named _ => true
  | _ => false

def LTy.isMaybe : LTy → Bool
  | .maybe _ => true
  | _ => false

def namesFit : List (Gap × Bytes × Gap) → Bool
  | [] => true
  | (g1, n, g4) :: r => g1.wf && isFieldNameB n && g4.wf && namesFit r

mutual
/-- names follow the grammar, no optional of an optional, comments without line feed -/
def LTy.fits : LTy → Bool
  | .named n => isTypeNameB n
  | .maybe t => !t.isMaybe && t.fits
  | .array t => t.fits
  | .map t => t.fits
  | .unit g => g.wf
  | .struct fs => fs.fits
  | .enum g1 n g4 r => g1.wf && isFieldNameB n && g4.wf && namesFit r
  | _ => true
def LFields.fits : LFields → Bool
  | .last g1 n g2 g3 t g4 => g1.wf && isFieldNameB n && g2.wf && g3.wf && t.fits && g4.wf
  | .cons g1 n g2 g3 t g4 r => g1.wf && isFieldNameB n && g2.wf && g3.wf && t.fits && g4.wf && r.fits
end

/-- a gap that separates a name from the type behind it: non-empty if the type starts with a name byte -/
def sepOk (g : Gap) (t : LTy) : Bool := !t.startsWord || !g.isEmpty

/-- the last byte of the rendering is a name byte (then a separator is needed in front of the next keyword) -/
def LTy.endsWord : LTy → Bool
  | .bool | .int | .float | .string | .object | .named _ => true
  | .maybe t => t.endsWord
  | .array t => t.endsWord
  | .map t => t.endsWord
  | _ => false

/-- a parenthesised list: `()`, a struct or an enum -/
def LTy.isList : LTy → Bool
  | .unit _ | .struct _ | .enum .. => true
  | _ => false

def LMember.endsWord : LMember → Bool
  | .alias _ _ _ t => t.endsWord
  | .method _ _ _ _ _ _ o => o.endsWord
  | .errorBare _ _ => true
  | .error _ _ _ t => t.endsWord

def LMember.fits : LMember → Bool
  | .alias g1 n g4 t => g1.wf && !g1.isEmpty && isTypeNameB n && g4.wf && sepOk g4 t && t.fits
  | .method g1 n g4 i g5 g5' o =>
    g1.wf && !g1.isEmpty && isTypeNameB n && g4.wf && sepOk g4 i && i.fits && g5.wf && g5'.wf && o.fits
  | .errorBare g1 n => g1.wf && !g1.isEmpty && isTypeNameB n
  -- the parameters of an error are a parenthesised list (varlink grammar: `error = "error" name struct`), behind
  -- any gap: line breaks and comments included
  | .error g1 n g6 t => g1.wf && !g1.isEmpty && isTypeNameB n && g6.wf && t.isList && t.fits

/-- every member fits; the gap in front of a member is non-empty where the keyword would otherwise merge with the
    word in front of it (`prevWord`: the token in front of the gap ends in a name byte). No line break is
    required: several members may share a line. -/
def membersFit : Bool → List (Gap × LMember) → Bool
  | _, [] => true
  | prevWord, (g, m) :: r => g.wf && (!prevWord || !g.isEmpty) && m.fits && membersFit m.endsWord r

/-- `Fits`: the layouted description is inside the grammar:
    * names follow the grammar, member names are pairwise distinct, there is a method, no `??`, the parameters of
      an error are a parenthesised list;
    * comment texts contain no line feed; gaps are non-empty where two words would merge.
    Every gap may hold any layout: spaces, tabs, CR, line feeds, comments. -/
def LIdl.fits (L : LIdl) : Bool :=
  L.g0.wf && L.ig1.wf && !L.ig1.isEmpty && isInterfaceNameB L.name && membersFit true L.members
    && uniqueNames (L.members.map fun p => p.2.name) && L.members.any (fun p => p.2.isMethod)
    && L.gEnd.wf && (match L.finalComment with | none => true | some t => t.all (fun c => c != 10))

end Varlink.Idl
