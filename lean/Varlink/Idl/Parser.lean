/-
  Model of the varlink interface-description parser: a line-by-line transliteration of
  /repo/varlink/idl/idl.go (`parser.next/backup/advance/peek`, `isBlank`, `readKeyword`,
  `readInterfaceName`, `readFieldName`, `readTypeName`, `readStructType`, `readType`, `readAlias`,
  `readMethod`, `readError`, `readIDL`, `New`).

  State. Go's parser is `{input string; position, lineStart int; lastComment bytes.Buffer}`. The model
  keeps the part of the input from `position` on (`rest`), the numbers `pos`, `len`, `lineStart`, the bytes
  of the current line consumed so far (`line`, most recent first: `input[lineStart:position]` reversed) and
  `lastComment`. `next` returns `none` for Go's `-1` and increments `pos` even at end of input, as Go
  does. `backup()` always directly follows a `next()` in idl.go; the model "backs up" by continuing with
  the state from before that `next` (marked `-- backup`).

  Outcomes. Go panics (slice bounds out of range) are the explicit outcome `.panic`: every slice expression
  `input[a:b]` is guarded as the Go runtime guards it (`a ≤ b ≤ len`), every index `input[i]` by `i < len`.
  Loops and the recursion `readType ↔ readStructType` run on fuel; `.outOfFuel` is an explicit outcome
  (`VarlinkProofs/Props/C09.lean` proves that `New` never produces `.panic` or `.outOfFuel`).
-/
import Varlink.Idl.Syntax
namespace Varlink.Idl
open Varlink

/-- the error sites of idl.go (`fmt.Errorf(…)`) -/
inductive PErr where
  | missingInterfaceKeyword   -- "missing interface keyword"
  | interfaceName             -- "interface name"
  | missingTypeName           -- "missing type name"
  | missingTypeDeclaration    -- "missing type declaration"
  | missingMethodType         -- "missing method type"
  | missingMethodInput        -- "missing method input"
  | missingArrow              -- "missing method '->' operator"
  | missingMethodOutput       -- "missing method output"
  | missingErrorName          -- "missing error name"
  | invalidErrorType          -- "invalid error type"
  | typeAlreadyDefined        -- "type `%s` already defined"
  | methodAlreadyDefined      -- "method `%s` already defined"
  | errorAlreadyDefined       -- "error `%s` already defined"
  | unknownKeyword            -- "unknown keyword '%s'"
  | noMethods                 -- "no methods defined"
  deriving DecidableEq, Repr, Inhabited

inductive Out (α : Type) where
  | ok (a : α)
  | err (e : PErr)
  | panic
  | outOfFuel
  deriving Inhabited

@[inline] def Out.bind {α β} (x : Out α) (f : α → Out β) : Out β :=
  match x with
  | .ok a => f a
  | .err e => .err e
  | .panic => .panic
  | .outOfFuel => .outOfFuel

instance : Monad Out where
  pure := .ok
  bind := Out.bind

/-- 0 ok, 1 err, 2 panic, 3 out of fuel -/
def Out.tag {α} : Out α → Nat
  | .ok _ => 0 | .err _ => 1 | .panic => 2 | .outOfFuel => 3

/-- the error site, if the outcome is an error -/
def Out.errOf {α} : Out α → Option PErr
  | .err e => some e
  | _ => none

structure St where
  rest : Bytes          -- input[position:]   (empty once position ≥ len)
  pos : Nat             -- p.position
  len : Nat             -- len(p.input)
  lineStart : Nat       -- p.lineStart
  line : Bytes          -- input[lineStart:position], most recent byte first
  lastComment : Bytes   -- p.lastComment
  deriving Inhabited

/-- `func (p *parser) next() int` -/
@[inline] def next (s : St) : Option UInt8 × St :=
  match s.rest with
  | [] => (none, { s with pos := s.pos + 1 })
  | c :: r => (some c, { s with rest := r, pos := s.pos + 1, line := c :: s.line })

/-- `func isBlank(s string) bool` -/
def isBlank : Bytes → Bool
  | [] => true
  | c :: r => if c ≠ 32 ∧ c ≠ 9 ∧ c ≠ 13 then false else isBlank r

/-- the scanning loops `for { c := p.next(); if !(c in class) { p.backup(); break } }`; at end of input
    `next` returns -1, which is in no class. Returns the state after the loop. -/
def scan (p : UInt8 → Bool) : Nat → St → Out St
  | 0, _ => .outOfFuel
  | f + 1, s =>
    match next s with
    | (some c, s1) => if p c then scan p f s1 else .ok s   -- backup
    | (none, _) => .ok s                                   -- backup

/-- Go's `p.input[a:b]` bounds check -/
@[inline] def sliceOk (a b len : Nat) : Bool := a ≤ b && b ≤ len

/-- the bytes between two states of the same parse: `input[a.pos : b.pos]` (what was consumed) -/
def consumed (a b : St) : Bytes := a.rest.take (b.pos - a.pos)

def isLower (c : UInt8) : Bool := 97 ≤ c && c ≤ 122
def isUpper (c : UInt8) : Bool := 65 ≤ c && c ≤ 90
def isDigitC (c : UInt8) : Bool := 48 ≤ c && c ≤ 57
def isAlpha (c : UInt8) : Bool := isLower c || isUpper c
def isAlnum (c : UInt8) : Bool := isUpper c || isLower c || isDigitC c
def isLowerDigit (c : UInt8) : Bool := isLower c || isDigitC c
def isFieldChar (c : UInt8) : Bool := isUpper c || isLower c || isDigitC c || c = 95
def isNotNl (c : UInt8) : Bool := c ≠ 10

/-- `if p.next() != ' ' { p.backup() }` -/
def skipOneSpace (s : St) : St :=
  match next s with
  | (some c, s1) => if c = 32 then s1 else s    -- backup
  | (none, _) => s                              -- backup

/-- `end := p.position; if end > start && p.input[end-1] == '\r' { end-- }`
    (`s2` is the state at `start`, `s3` the state behind the comment text) -/
def commentEnd (s2 s3 : St) : Nat :=
  if s3.pos > s2.pos && s3.line.head? = some 13 then s3.pos - 1 else s3.pos

/-- `if p.next() != '\n' { p.backup() } else { p.lineStart = p.position }` -/
def closeComment (s4 : St) : Out St :=
  match next s4 with
  | (some c, s5) => if c = 10 then .ok { s5 with lineStart := s5.pos, line := [] } else .ok s4
  | (none, _) => .ok s4

/-- the `'#'` branch of `advance` for a comment on a line of its own, from `if p.lastComment.Len() > 0` to the
    end of the branch -/
def appendDoc (s2 s3 : St) : Out St :=
  -- p.input[end-1] is evaluated only if end > start
  if s3.pos > s2.pos && !(s3.pos - 1 < s3.len) then .panic else
  -- p.input[start:end]
  if !(sliceOk s2.pos (commentEnd s2 s3) s3.len) then .panic else
  -- if p.lastComment.Len() > 0 { p.lastComment.WriteByte('\n') }; p.lastComment.WriteString(p.input[start:end])
  closeComment { s3 with
    lastComment := (if s3.lastComment.length > 0 then s3.lastComment ++ [10] else s3.lastComment)
      ++ s2.rest.take (commentEnd s2 s3 - s2.pos) }

/-- the `'#'` branch of `advance`; `s` is the state before the `#`, `s1` the state behind it. Returns the state
    with which the loop continues. -/
def comment (s s1 : St) : Out St :=
  -- ownLine := isBlank(p.input[p.lineStart : p.position-1])
  if !(sliceOk s1.lineStart (s1.pos - 1) s1.len) then .panic else
  -- if p.next() != ' ' { p.backup() }; start := p.position
  -- for { c := p.next(); if c < 0 || c == '\n' { p.backup(); break } }
  match scan isNotNl ((skipOneSpace s1).len + 1) (skipOneSpace s1) with
  | .ok s3 =>
    if !(isBlank s.line) then .ok s3              -- if !ownLine { continue }
    else appendDoc (skipOneSpace s1) s3
  | .err e => .err e
  | .panic => .panic
  | .outOfFuel => .outOfFuel

/-- `func (p *parser) advance() bool` — the loop; the caller computes the result `p.position < len(p.input)`
    from the returned state (`St.more`). -/
def advanceLoop : Nat → St → Out St
  | 0, _ => .outOfFuel
  | f + 1, s =>
    match next s with
    | (none, _) => .ok s                                -- backup; break
    | (some c, s1) =>
      if c = 10 then                                    -- '\n'
        advanceLoop f { s1 with lineStart := s1.pos, line := [], lastComment := [] }
      else if c = 32 || c = 9 || c = 13 then            -- ' ', '\t', '\r'
        advanceLoop f s1
      else if c = 35 then                               -- '#'
        match comment s s1 with
        | .ok s2 => advanceLoop f s2
        | .err e => .err e
        | .panic => .panic
        | .outOfFuel => .outOfFuel
      else .ok s                                        -- backup; break

def advance (s : St) : Out St := advanceLoop (s.len + 1) s

/-- the value `advance` returns: `p.position < len(p.input)` -/
@[inline] def St.more (s : St) : Bool := s.pos < s.len

/-- the loop of `func (p *parser) peek() int`: `for i := p.position; i < len(p.input); i++ { char := p.input[i]; … }`
    over `input[position:]`; the index is in range by the loop condition, so there is no panic outcome, and the
    recursion is structural in the remaining input, so there is no fuel. `comment` is the local flag. -/
def peekLoop : Bool → Bytes → Option UInt8
  | _, [] => none                                         -- return -1
  | comment, c :: r =>
    if c = 10 then peekLoop false r                       -- '\n': comment = false
    else if comment || c = 32 || c = 9 || c = 13 then peekLoop comment r   -- ignore
    else if c = 35 then peekLoop true r                   -- '#': comment = true
    else some c                                           -- return int(char)

/-- `func (p *parser) peek() int`: the next byte that is neither whitespace nor part of a comment (`none` = -1);
    the parser state is not touched -/
@[inline] def peek (s : St) : Option UInt8 := peekLoop false s.rest

/-- `return p.input[start:p.position]` -/
@[inline] def sliceFrom (start : St) (s : St) : Out (Bytes × St) :=
  if sliceOk start.pos s.pos s.len then .ok (consumed start s, s) else .panic

/-- `func (p *parser) readKeyword() string` -/
def readKeyword (s : St) : Out (Bytes × St) := do
  let s1 ← scan isLower (s.len + 1) s
  sliceFrom s s1

/-! ### readInterfaceName: the two regular expressions

  `^[a-zA-Z]+(\.[a-zA-Z0-9]+([-][a-zA-Z0-9]+)*)+` and `^xn--[a-z0-9]+(\.[a-z0-9]+([-][a-z0-9]+)*)+`
  under Go's leftmost-first semantics. For expressions of the shape `H+ ( \. N+ ( - N+ )* )+` with `.`, `-`
  outside the classes the greedy run is deterministic: `H+` must take the maximal run (a shorter one is followed
  by a byte of `H`, not by `.`), every `N+` takes the maximal run, an iteration `\. N+` / `- N+` is entered iff
  its separator is followed by a byte of `N`, and the match ends at the last position where a `N+` run had
  at least one byte. `dnScan` is that run as an automaton which remembers the last accepting length; the
  harness stream `idlname` compares it with package `regexp`. -/

inductive DnState where
  | head0     -- nothing read yet, a byte of H is required
  | head      -- inside the leading `H+`
  | sep       -- directly behind `.` or `-`, a byte of N is required
  | label     -- inside a `N+` run (accepting)

/-- `dnScan H N st cur best bs`: `cur` bytes were read so far, `best` is the length of the longest accepted prefix -/
def dnScan (H N : UInt8 → Bool) : DnState → Nat → Nat → Bytes → Nat
  | _, _, best, [] => best
  | .head0, cur, best, c :: r => if H c then dnScan H N .head (cur + 1) best r else best
  | .head, cur, best, c :: r =>
    if H c then dnScan H N .head (cur + 1) best r
    else if c = 46 then dnScan H N .sep (cur + 1) best r
    else best
  | .sep, cur, _best, c :: r => if N c then dnScan H N .label (cur + 1) (cur + 1) r else _best
  | .label, cur, best, c :: r =>
    if N c then dnScan H N .label (cur + 1) (cur + 1) r
    else if c = 46 || c = 45 then dnScan H N .sep (cur + 1) best r
    else best

/-- length of `dnrx.FindString(bs)` (0 = no match) -/
def matchDn (bs : Bytes) : Nat := dnScan isAlpha isAlnum .head0 0 0 bs

/-- length of `xdnrx.FindString(bs)` (0 = no match) -/
def matchXdn : Bytes → Nat
  | 120 :: 110 :: 45 :: 45 :: r =>       -- "xn--"
    match dnScan isLowerDigit isLowerDigit .head0 0 0 r with
    | 0 => 0
    | n + 1 => n + 5
  | _ => 0

/-- `p.position += len(name)` -/
def skipN (n : Nat) (s : St) : St :=
  { s with rest := s.rest.drop n, pos := s.pos + n, line := (s.rest.take n).reverse ++ s.line }

/-- `func (p *parser) readInterfaceName() string` -/
def readInterfaceName (s : St) : Out (Bytes × St) :=
  -- p.input[start:]
  if !(s.pos ≤ s.len) then .panic else
  let n := matchDn s.rest
  if n ≠ 0 then
    if n > 255 then .ok ([], s) else .ok (s.rest.take n, skipN n s)
  else
    let m := matchXdn s.rest
    if m ≠ 0 then
      if m > 255 then .ok ([], s) else .ok (s.rest.take m, skipN m s)
    else .ok ([], s)

/-- `func (p *parser) readFieldName() string` -/
def readFieldName (s : St) : Out (Bytes × St) :=
  match next s with
  | (some c, s1) =>
    if !(isLower c) then .ok ([], s)     -- backup
    else do
      let s2 ← scan isFieldChar (s1.len + 1) s1
      sliceFrom s s2
  | (none, _) => .ok ([], s)             -- backup

/-- `func (p *parser) readTypeName() string` -/
def readTypeName (s : St) : Out (Bytes × St) :=
  match next s with
  | (some c, s1) =>
    if !(isUpper c) then .ok ([], s)     -- backup
    else do
      let s2 ← scan isAlnum (s1.len + 1) s1
      sliceFrom s s2
  | (none, _) => .ok ([], s)             -- backup

/-- Go's `t.Kind` of the `Type` under construction in `readStructType` -/
inductive SKind where
  | struct | enum
  deriving DecidableEq

def kwString : Bytes := [115, 116, 114, 105, 110, 103]        -- "string"
def kwBool : Bytes := [98, 111, 111, 108]                     -- "bool"
def kwInt : Bytes := [105, 110, 116]                          -- "int"
def kwFloat : Bytes := [102, 108, 111, 97, 116]               -- "float"
def kwObject : Bytes := [111, 98, 106, 101, 99, 116]          -- "object"
def kwInterface : Bytes := [105, 110, 116, 101, 114, 102, 97, 99, 101]   -- "interface"
def kwType : Bytes := [116, 121, 112, 101]                    -- "type"
def kwMethod : Bytes := [109, 101, 116, 104, 111, 100]        -- "method"
def kwError : Bytes := [101, 114, 114, 111, 114]              -- "error"

/-- the `Type` a finished field list denotes: `Kind` with `Fields` in source order
    (`acc` holds the fields most recent first) -/
def mkFieldList (kind : SKind) (acc : Fields) : Ty :=
  match kind with
  | .struct => .struct acc.reverse
  | .enum => .enum acc.reverse

/-
  `readType` returns `*Type` (nil = failure) and leaves the position wherever it got to. Hence
  `Out (Option Ty × St)`.
-/
mutual
/-- `func (p *parser) readType() *Type` -/
def readType : Nat → St → Out (Option Ty × St)
  | 0, _ => .outOfFuel
  | f + 1, s => do
    let (c, s1) := next s
    if c = some 63 then                        -- case '?'
      let (e, s2) ← readType f s1
      match e with
      | none => .ok (none, s2)
      | some e =>
        if e.isMaybe then .ok (none, s2)       -- if e.Kind == TypeMaybe { return nil }
        else .ok (some (.maybe e), s2)
    else if c = some 91 then                   -- case '['
      let (kw, s2) ← readKeyword s1
      if !(kw = kwString || kw = []) then .ok (none, s2) else   -- default: return nil
      let (c3, s3) := next s2
      if c3 ≠ some 93 then .ok (none, s3) else                  -- if p.next() != ']' { return nil }
      let (e, s4) ← readType f s3
      match e with
      | none => .ok (none, s4)
      | some e => .ok (some (if kw = [] then .array e else .map e), s4)
    else                                       -- default: p.backup()
      let (kw, s1) ← readKeyword s
      if kw ≠ [] then
        if kw = kwBool then .ok (some .bool, s1)
        else if kw = kwInt then .ok (some .int, s1)
        else if kw = kwFloat then .ok (some .float, s1)
        else if kw = kwString then .ok (some .string, s1)
        else if kw = kwObject then .ok (some .object, s1)
        else .ok (none, s1)                    -- t stays nil
      else
        let (name, s2) ← readTypeName s1
        if name ≠ [] then .ok (some (.named name), s2)
        else readStructType f s2

/-- `func (p *parser) readStructType() *Type` -/
def readStructType : Nat → St → Out (Option Ty × St)
  | 0, _ => .outOfFuel
  | f + 1, s => do
    let (c, s1) := next s
    if c ≠ some 40 then .ok (none, s) else     -- '(' ; else p.backup(); return nil
    let s2 ← advance s1
    let (c3, s3) := next s2
    if c3 = some 41 then .ok (some (.struct .nil), s3)   -- ')': the empty struct
    else structLoop f s2 .struct .nil          -- p.backup(); for { … }

/-- the `for` loop of `readStructType`; `kind` is `t.Kind`, `acc` is `t.Fields` most recent first -/
def structLoop : Nat → St → SKind → Fields → Out (Option Ty × St)
  | 0, _, _, _ => .outOfFuel
  | f + 1, s, kind, acc => do
    let s1 ← advance s
    let (name, s2) ← readFieldName s1
    if name = [] then .ok (none, s2) else
    let s3 ← advance s2
    let (c4, s4) := next s3
    if c4 = some 58 then                       -- ':'
      if kind = .enum then .ok (none, s4) else
      let s5 ← advance s4
      let (t, s6) ← readType f s5
      match t with
      | none => .ok (none, s6)
      | some t => structTail f s6 kind (.typed name t acc)
    else
      if kind ≠ .enum && !acc.isNil then .ok (none, s4)
      else structTail f s3 .enum (.bare name acc)          -- t.Kind = TypeEnum; p.backup()

/-- end of one loop iteration: `p.advance(); char = p.next(); if char != ',' { break }`, then
    `if char != ')' { return nil }; return t` -/
def structTail : Nat → St → SKind → Fields → Out (Option Ty × St)
  | 0, _, _, _ => .outOfFuel
  | f + 1, s, kind, acc => do
    let s1 ← advance s
    let (c2, s2) := next s1
    if c2 = some 44 then structLoop f s2 kind acc          -- ','
    else if c2 = some 41 then .ok (some (mkFieldList kind acc), s2)   -- ')'
    else .ok (none, s2)
end

/-- fuel handed to `readType` by the member readers: linear in the input length -/
@[inline] def typeFuel (s : St) : Nat := 4 * s.len + 8

/-- `func (p *parser) readAlias(idl *IDL) (*Alias, error)` -/
def readAlias (s : St) : Out (Member × St) := do
  let doc := s.lastComment
  let s1 ← advance s
  let (name, s2) ← readTypeName s1
  if name = [] then .err .missingTypeName else
  let s3 ← advance s2
  let (t, s4) ← readType (typeFuel s3) s3
  match t with
  | none => .err .missingTypeDeclaration
  | some t => .ok (.alias name doc t, s4)

/-- `func (p *parser) readMethod(idl *IDL) (*Method, error)` -/
def readMethod (s : St) : Out (Member × St) := do
  let doc := s.lastComment
  let s1 ← advance s
  let (name, s2) ← readTypeName s1
  if name = [] then .err .missingMethodType else
  let s3 ← advance s2
  let (tin, s4) ← readType (typeFuel s3) s3
  match tin with
  | none => .err .missingMethodInput
  | some tin =>
    let s5 ← advance s4
    let (one, s6) := next s5
    let (two, s7) := next s6
    if one ≠ some 45 || two ≠ some 62 then .err .missingArrow else
    let s8 ← advance s7
    let (tout, s9) ← readType (typeFuel s8) s8
    match tout with
    | none => .err .missingMethodOutput
    | some tout => .ok (.method name doc tin tout, s9)

/-- `func (p *parser) readError(idl *IDL) (*Error, error)` -/
def readError (s : St) : Out (Member × St) := do
  let doc := s.lastComment
  let s1 ← advance s
  let (name, s2) ← readTypeName s1
  if name = [] then .err .missingErrorName else
  if peek s2 ≠ some 40 then .ok (.error name doc none, s2) else    -- if p.peek() == '(' { … }; return e, nil
  let s3 ← advance s2
  let (t, s4) ← readType (typeFuel s3) s3
  match t with
  | none => .err .invalidErrorType
  | some t => .ok (.error name doc (some t), s4)

/-- the member loop of `readIDL`; `names` is the key set of the map `members`, `acc` is `idl.Members` most
    recent first -/
def membersLoop : Nat → St → List Bytes → List Member → Out (List Member × St)
  | 0, _, _, _ => .outOfFuel
  | f + 1, s, names, acc => do
    let s1 ← advance s
    if !s1.more then .ok (acc.reverse, s1) else        -- if !p.advance() { break }
    let (kw, s2) ← readKeyword s1
    if kw = kwType then
      let (m, s3) ← readAlias s2
      if names.contains m.name then .err .typeAlreadyDefined
      else membersLoop f s3 (m.name :: names) (m :: acc)
    else if kw = kwMethod then
      let (m, s3) ← readMethod s2
      if names.contains m.name then .err .methodAlreadyDefined
      else membersLoop f s3 (m.name :: names) (m :: acc)
    else if kw = kwError then
      let (m, s3) ← readError s2
      if names.contains m.name then .err .errorAlreadyDefined
      else membersLoop f s3 (m.name :: names) (m :: acc)
    else .err .unknownKeyword

/-- `func (p *parser) readIDL() (*IDL, error)`; `Description` is filled in by `New` -/
def readIDL (s : St) : Out (Idl × St) := do
  let (kw, s1) ← readKeyword s
  if kw ≠ kwInterface then .err .missingInterfaceKeyword else
  let doc := s1.lastComment            -- idl.Doc = p.lastComment.String(), before p.advance()
  let s2 ← advance s1
  let (name, s3) ← readInterfaceName s2
  if name = [] then .err .interfaceName else
  let (members, s4) ← membersLoop (s3.len + 2) s3 [] []
  .ok ({ name := name, doc := doc, description := [], members := members }, s4)

def initSt (input : Bytes) : St :=
  { rest := input, pos := 0, len := input.length, lineStart := 0, line := [], lastComment := [] }

/-- `func New(description string) (*IDL, error)` -/
def New (description : Bytes) : Out Idl := do
  let s ← advance (initSt description)
  let (idl, _) ← readIDL s
  if idl.methods.length = 0 then .err .noMethods else
  .ok { idl with description := description }

end Varlink.Idl
