/-
  Canonical printer of interface descriptions and the "text up to layout" function `strip`
  (DESIGN.md §7 C06, Appendix B).

  * `print t`  : the canonical text of a tree (no documentation): one member per line, one space between
                 tokens, `name: type` fields separated by `, `.
  * `strip s`  : `s` without spaces, tabs, CR, LF and without comments (`#` up to, not including, the end of
                 the line). "Re-printing the tree reproduces the input up to whitespace and comments" (C06)
                 is `strip s = strip (print t)`.
  * `toks t`   : the concatenation of the tokens of `t`; `strip (print t) = toks t`
                 (`VarlinkProofs/Lemmas/IdlPrint.lean`).
-/
import Varlink.Idl.Syntax
namespace Varlink.Idl
open Varlink

/-! ## strip -/

/-- `stripAux inComment s` -/
def stripAux : Bool → Bytes → Bytes
  | _, [] => []
  | true, c :: r => if c = 10 then stripAux false r else stripAux true r
  | false, c :: r =>
    if c = 35 then stripAux true r
    else if c = 32 || c = 9 || c = 13 || c = 10 then stripAux false r
    else c :: stripAux false r

def strip (s : Bytes) : Bytes := stripAux false s

/-! ## tokens -/

def tInterface : Bytes := [105, 110, 116, 101, 114, 102, 97, 99, 101]
def tType : Bytes := [116, 121, 112, 101]
def tMethod : Bytes := [109, 101, 116, 104, 111, 100]
def tError : Bytes := [101, 114, 114, 111, 114]
def tBool : Bytes := [98, 111, 111, 108]
def tInt : Bytes := [105, 110, 116]
def tFloat : Bytes := [102, 108, 111, 97, 116]
def tString : Bytes := [115, 116, 114, 105, 110, 103]
def tObject : Bytes := [111, 98, 106, 101, 99, 116]
def tArrow : Bytes := [45, 62]                        -- "->"
def tArray : Bytes := [91, 93]                        -- "[]"
def tMap : Bytes := [91, 115, 116, 114, 105, 110, 103, 93]   -- "[string]"

/-! ## print

  `sp` is the separator material: `printTy true` puts the canonical single spaces (`a: int, b: int`),
  `printTy false` none (`a:int,b:int`) — the latter is the token concatenation used by `toks`.
  The printers prepend to a tail (`printTy sp t tl = printing of t ++ tl`), so that deeply nested types print
  in linear time. -/

def sep (sp : Bool) (tl : Bytes) : Bytes := if sp then 32 :: tl else tl

mutual
def printTy (sp : Bool) : Ty → Bytes → Bytes
  | .bool, tl => tBool ++ tl
  | .int, tl => tInt ++ tl
  | .float, tl => tFloat ++ tl
  | .string, tl => tString ++ tl
  | .object, tl => tObject ++ tl
  | .named n, tl => n ++ tl
  | .maybe t, tl => 63 :: printTy sp t tl                    -- '?'
  | .array t, tl => tArray ++ printTy sp t tl
  | .map t, tl => tMap ++ printTy sp t tl
  | .struct fs, tl => 40 :: printFields sp fs tl             -- '(' … ')'
  | .enum fs, tl => 40 :: printFields sp fs tl
/-- behind `(`: the fields and the closing parenthesis -/
def printFields (sp : Bool) : Fields → Bytes → Bytes
  | .nil, tl => 41 :: tl
  | .typed n t r, tl => n ++ 58 :: sep sp (printTy sp t (printMore sp r tl))
  | .bare n r, tl => n ++ printMore sp r tl
/-- behind a field: `)` or `,` and the remaining fields -/
def printMore (sp : Bool) : Fields → Bytes → Bytes
  | .nil, tl => 41 :: tl
  | .typed n t r, tl => 44 :: sep sp (n ++ 58 :: sep sp (printTy sp t (printMore sp r tl)))
  | .bare n r, tl => 44 :: sep sp (n ++ printMore sp r tl)
end

def printMember (sp : Bool) : Member → Bytes → Bytes
  | .alias n _ t, tl => tType ++ sep sp (n ++ sep sp (printTy sp t tl))
  | .method n _ i o, tl =>
    tMethod ++ sep sp (n ++ printTy sp i (sep sp (tArrow ++ sep sp (printTy sp o tl))))
  | .error n _ none, tl => tError ++ sep sp (n ++ tl)
  | .error n _ (some t), tl => tError ++ sep sp (n ++ sep sp (printTy sp t tl))

def printMembers (sp : Bool) : List Member → Bytes
  | [] => []
  | m :: r => printMember sp m ((if sp then [10] else []) ++ printMembers sp r)

/-- canonical text -/
def print (t : Idl) : Bytes :=
  tInterface ++ 32 :: (t.name ++ 10 :: 10 :: printMembers true t.members)

/-- the tokens of `t`, concatenated -/
def toks (t : Idl) : Bytes :=
  tInterface ++ (t.name ++ printMembers false t.members)

end Varlink.Idl
