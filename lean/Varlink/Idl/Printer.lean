/-
  Canonical printer of interface descriptions and the "text up to layout" function `strip`
  (DESIGN.md §7 C06, Appendix B).

  * `print t`  : the canonical text of a tree (no documentation): one member per line, one space between
                 tokens, `name: type` fields separated by `, `.
  * `strip s`  : `s` without spaces, tabs, CR, LF and without comments (`#` up to, not including, the end of
                 the line). "Re-printing the tree reproduces the input up to whitespace and comments" (C06)
                 is `strip s = strip (print t)`.
  * `toks t`   : the concatenation of the tokens of `t`; `strip (print t) = toks t`
                 (`VarlinkProofs/Lemmas/IdlPrint.lean`).
-/
import Varlink.Idl.Syntax
namespace Varlink.Idl
open Varlink

/-! ## strip -/

/-- `stripAux inComment s` -/
def stripAux : Bool → Bytes → Bytes
  | _, [] => []
  | true, c :: r => if c = 10 then stripAux false r else stripAux true r
  | false, c :: r =>
    if c = 35 then stripAux true r
    else if c = 32 || c = 9 || c = 13 || c = 10 then stripAux false r
    else c :: stripAux false r

def strip (s : Bytes) : Bytes := stripAux false s

/-! ## tokens -/

def tInterface : Bytes := [105, 110, 116, 101, 114, 102, 97, 99, 101]
def tType : Bytes := [116, 121, 112, 101]
def tMethod : Bytes := [109, 101, 116, 104, 111, 100]
def tError : Bytes := [101, 114, 114, 111, 114]
def tBool : Bytes := [98, 111, 111, 108]
def tInt : Bytes := [105, 110, 116]
def tFloat : Bytes := [102, 108, 111, 97, 116]
def tString : Bytes := [115, 116, 114, 105, 110, 103]
def tObject : Bytes := [111, 98, 106, 101, 99, 116]
def tArrow : Bytes := [45, 62]                        -- "->"
def tArray : Bytes := [91, 93]                        -- "[]"
def tMap : Bytes := [91, 115, 116, 114, 105, 110, 103, 93]   -- "[string]"

/-! ## print

  `sp` is the separator material: `printTy true` puts the canonical single spaces (`a: int, b: int`),
  `printTy false` none (`a:int,b:int`) — the latter is the token concatenation used by `toks`. -/

mutual
def printTy (sp : Bool) : Ty → Bytes
  | .bool => tBool
  | .int => tInt
  | .float => tFloat
  | .string => tString
  | .object => tObject
  | .named n => n
  | .maybe t => 63 :: printTy sp t                    -- '?'
  | .array t => tArray ++ printTy sp t
  | .map t => tMap ++ printTy sp t
  | .struct fs => 40 :: printFields sp fs             -- '(' … ')'
  | .enum fs => 40 :: printFields sp fs
/-- the fields and the closing parenthesis -/
def printFields (sp : Bool) : Fields → Bytes
  | .nil => [41]
  | .typed n t .nil => n ++ 58 :: ((if sp then [32] else []) ++ printTy sp t ++ [41])
  | .bare n .nil => n ++ [41]
  | .typed n t r => n ++ 58 :: ((if sp then [32] else []) ++ printTy sp t ++ 44 :: ((if sp then [32] else []) ++ printFields sp r))
  | .bare n r => n ++ 44 :: ((if sp then [32] else []) ++ printFields sp r)
end

def printMember (sp : Bool) : Member → Bytes
  | .alias n _ t => tType ++ (if sp then [32] else []) ++ n ++ (if sp then [32] else []) ++ printTy sp t
  | .method n _ i o =>
    tMethod ++ (if sp then [32] else []) ++ n ++ printTy sp i ++ (if sp then [32] else []) ++ tArrow
      ++ (if sp then [32] else []) ++ printTy sp o
  | .error n _ none => tError ++ (if sp then [32] else []) ++ n
  | .error n _ (some t) => tError ++ (if sp then [32] else []) ++ n ++ (if sp then [32] else []) ++ printTy sp t

def printMembers (sp : Bool) : List Member → Bytes
  | [] => []
  | m :: r => printMember sp m ++ (if sp then [10] else []) ++ printMembers sp r

/-- canonical text -/
def print (t : Idl) : Bytes :=
  tInterface ++ 32 :: t.name ++ 10 :: 10 :: printMembers true t.members

/-- the tokens of `t`, concatenated -/
def toks (t : Idl) : Bytes :=
  tInterface ++ t.name ++ printMembers false t.members

end Varlink.Idl
