/-
  Syntax trees of varlink interface descriptions — the data `idl.New` returns
  (/repo/varlink/idl/idl.go, types `Type`, `TypeField`, `Alias`, `Method`, `Error`, `IDL`).

  `Ty` mirrors Go's `Type{Kind, ElementType, Alias, Fields}`: the two kinds that carry a field list
  (`TypeStruct`, `TypeEnum`) both carry a `Fields` list whose entries are `typed` (Go: `Type != nil`)
  or `bare` (Go: `Type == nil`), exactly like `[]TypeField`; that a struct has only typed and an enum
  only bare entries is a *property* (`Ty.homogeneous`), not built into the type.
-/
import Varlink.Basic
namespace Varlink.Idl
open Varlink

mutual
inductive Ty where
  | bool | int | float | string | object
  | named (n : Bytes)            -- Kind = TypeAlias, Alias = n
  | maybe (t : Ty)               -- Kind = TypeMaybe, ElementType = t
  | array (t : Ty)               -- Kind = TypeArray
  | map (t : Ty)                 -- Kind = TypeMap
  | struct (fs : Fields)         -- Kind = TypeStruct
  | enum (fs : Fields)           -- Kind = TypeEnum
inductive Fields where
  | nil
  | typed (name : Bytes) (ty : Ty) (rest : Fields)   -- TypeField{Name, Type != nil}
  | bare (name : Bytes) (rest : Fields)              -- TypeField{Name, Type == nil}
end

instance : Inhabited Ty := ⟨.bool⟩
instance : Inhabited Fields := ⟨.nil⟩

mutual
def Ty.beq : Ty → Ty → Bool
  | .bool, .bool => true
  | .int, .int => true
  | .float, .float => true
  | .string, .string => true
  | .object, .object => true
  | .named a, .named b => a == b
  | .maybe a, .maybe b => Ty.beq a b
  | .array a, .array b => Ty.beq a b
  | .map a, .map b => Ty.beq a b
  | .struct a, .struct b => Fields.beq a b
  | .enum a, .enum b => Fields.beq a b
  | _, _ => false
def Fields.beq : Fields → Fields → Bool
  | .nil, .nil => true
  | .typed n t r, .typed n' t' r' => n == n' && Ty.beq t t' && Fields.beq r r'
  | .bare n r, .bare n' r' => n == n' && Fields.beq r r'
  | _, _ => false
end

instance : BEq Ty := ⟨Ty.beq⟩
instance : BEq Fields := ⟨Fields.beq⟩

/-- `append(fields, …)` of a whole list -/
def Fields.append : Fields → Fields → Fields
  | .nil, b => b
  | .typed n t r, b => .typed n t (Fields.append r b)
  | .bare n r, b => .bare n (Fields.append r b)

/-- reverse-append (the parser model accumulates the fields of a list back to front) -/
def Fields.revAppend : Fields → Fields → Fields
  | .nil, acc => acc
  | .typed n t r, acc => Fields.revAppend r (.typed n t acc)
  | .bare n r, acc => Fields.revAppend r (.bare n acc)

def Fields.reverse (f : Fields) : Fields := Fields.revAppend f .nil

def Fields.length : Fields → Nat
  | .nil => 0
  | .typed _ _ r => r.length + 1
  | .bare _ r => r.length + 1

def Fields.isNil : Fields → Bool
  | .nil => true
  | _ => false

/-- all entries carry a type -/
def Fields.allTyped : Fields → Bool
  | .nil => true
  | .typed _ _ r => r.allTyped
  | .bare _ _ => false

/-- no entry carries a type -/
def Fields.allBare : Fields → Bool
  | .nil => true
  | .typed _ _ _ => false
  | .bare _ r => r.allBare

def Fields.names : Fields → List Bytes
  | .nil => []
  | .typed n _ r => n :: r.names
  | .bare n r => n :: r.names

/- number of type nodes (used for the non-triviality feature) -/
mutual
def Ty.size : Ty → Nat
  | .maybe t => t.size + 1
  | .array t => t.size + 1
  | .map t => t.size + 1
  | .struct fs => fs.size + 1
  | .enum fs => fs.size + 1
  | _ => 1
def Fields.size : Fields → Nat
  | .nil => 0
  | .typed _ t r => t.size + r.size
  | .bare _ r => r.size
end

/- "a parenthesised list is either all typed fields or all bare enum names" (C06), everywhere in the type;
    an enum has at least one name (Go can only produce `TypeEnum` from a first bare name). -/
mutual
def Ty.homogeneous : Ty → Bool
  | .maybe t => t.homogeneous
  | .array t => t.homogeneous
  | .map t => t.homogeneous
  | .struct fs => fs.allTyped && fs.homogeneous
  | .enum fs => fs.allBare && !fs.isNil
  | _ => true
def Fields.homogeneous : Fields → Bool
  | .nil => true
  | .typed _ t r => t.homogeneous && r.homogeneous
  | .bare _ r => r.homogeneous
end

/- "an optional never directly wraps an optional" (C06), everywhere in the type -/
mutual
def Ty.noMaybeMaybe : Ty → Bool
  | .maybe (.maybe _) => false
  | .maybe t => t.noMaybeMaybe
  | .array t => t.noMaybeMaybe
  | .map t => t.noMaybeMaybe
  | .struct fs => fs.noMaybeMaybe
  | .enum fs => fs.noMaybeMaybe
  | _ => true
def Fields.noMaybeMaybe : Fields → Bool
  | .nil => true
  | .typed _ t r => t.noMaybeMaybe && r.noMaybeMaybe
  | .bare _ r => r.noMaybeMaybe
end

def Ty.isMaybe : Ty → Bool
  | .maybe _ => true
  | _ => false

/-- a member of an interface, in Go one of `*Alias`, `*Method`, `*Error` (an error's type is optional) -/
inductive Member where
  | alias (name doc : Bytes) (ty : Ty)
  | method (name doc : Bytes) (inp out : Ty)
  | error (name doc : Bytes) (ty : Option Ty)

instance : Inhabited Member := ⟨.alias [] [] .bool⟩

def Member.name : Member → Bytes
  | .alias n _ _ => n
  | .method n _ _ _ => n
  | .error n _ _ => n

def Member.doc : Member → Bytes
  | .alias _ d _ => d
  | .method _ d _ _ => d
  | .error _ d _ => d

def Member.isMethod : Member → Bool
  | .method .. => true
  | _ => false

def Member.isAlias : Member → Bool
  | .alias .. => true
  | _ => false

def Member.isError : Member → Bool
  | .error .. => true
  | _ => false

def optTyBeq : Option Ty → Option Ty → Bool
  | none, none => true
  | some a, some b => Ty.beq a b
  | _, _ => false

def Member.beq : Member → Member → Bool
  | .alias n d t, .alias n' d' t' => n == n' && d == d' && Ty.beq t t'
  | .method n d i o, .method n' d' i' o' => n == n' && d == d' && Ty.beq i i' && Ty.beq o o'
  | .error n d t, .error n' d' t' => n == n' && d == d' && optTyBeq t t'
  | _, _ => false

instance : BEq Member := ⟨Member.beq⟩

/-- same member up to documentation -/
def Member.beqNoDoc : Member → Member → Bool
  | .alias n _ t, .alias n' _ t' => n == n' && Ty.beq t t'
  | .method n _ i o, .method n' _ i' o' => n == n' && Ty.beq i i' && Ty.beq o o'
  | .error n _ t, .error n' _ t' => n == n' && optTyBeq t t'
  | _, _ => false

def Member.setDoc (d : Bytes) : Member → Member
  | .alias n _ t => .alias n d t
  | .method n _ i o => .method n d i o
  | .error n _ t => .error n d t

def Member.types : Member → List Ty
  | .alias _ _ t => [t]
  | .method _ _ i o => [i, o]
  | .error _ _ (some t) => [t]
  | .error _ _ none => []

/-- Go's `IDL`: `Members` in source order; `Aliases`, `Methods`, `Errors` are the sub-sequences by kind
    (the parser appends every member to `Members` and to the list of its kind in the same step). -/
structure Idl where
  name : Bytes
  doc : Bytes
  description : Bytes
  members : List Member

instance : Inhabited Idl := ⟨⟨[], [], [], []⟩⟩

def Idl.aliases (t : Idl) : List Member := t.members.filter Member.isAlias
def Idl.methods (t : Idl) : List Member := t.members.filter Member.isMethod
def Idl.errors (t : Idl) : List Member := t.members.filter Member.isError

def membersBeq : List Member → List Member → Bool
  | [], [] => true
  | a :: as, b :: bs => Member.beq a b && membersBeq as bs
  | _, _ => false

def Idl.beq (a b : Idl) : Bool :=
  a.name == b.name && a.doc == b.doc && a.description == b.description && membersBeq a.members b.members

instance : BEq Idl := ⟨Idl.beq⟩

/-- member names pairwise distinct -/
def uniqueNames : List Bytes → Bool
  | [] => true
  | n :: r => !r.contains n && uniqueNames r

def Idl.uniqueMemberNames (t : Idl) : Bool := uniqueNames (t.members.map Member.name)

def Idl.noMaybeMaybe (t : Idl) : Bool := t.members.all fun m => m.types.all Ty.noMaybeMaybe
def Idl.homogeneous (t : Idl) : Bool := t.members.all fun m => m.types.all Ty.homogeneous

end Varlink.Idl
