/-
  Data races (C16).

  Part 1 — a small concurrency model: threads are straight-line lists of statements (unprotected
  accesses, critical sections of the one mutex, spawn, join, channel send / receive); an interleaving
  semantics with one mutex (at most one holder), threads that run only once spawned, joins that wait
  for termination and buffered channels whose receive waits for a send.  A *race* is a reachable
  state in which two different threads are both about to perform conflicting accesses (same field,
  at least one write): in an interleaving semantics that is exactly a pair of conflicting accesses
  not ordered by happens-before (program order + unlock→lock + spawn + join + send→receive), because
  two accesses ordered by any of those edges are never enabled together.

  Part 2 — the discipline: every conflicting pair is either under the mutex on both sides or ordered
  statically by a spawn / join / channel edge.  (`VarlinkProofs/Lemmas/Race.lean`: the discipline
  excludes races, for any number of threads and statements.)

  Part 3 — `varlink.Service`: the access table regenerated from service.go by the extractor
  (`Extracted/Access.lean`), the intended concurrent use (`mayOverlap`), the table-level discipline and
  the small transition system of the connection counter that guards the interface tables.

  Part 4 — the goroutine skeleton of the ctxio operations as a program of Part 1.
-/
import Varlink.Extracted.Access
namespace Varlink.Race

abbrev Tid := Nat
abbrev Chan := Nat

inductive Kind where
  | read | write
  deriving DecidableEq, Repr

/-- an access: field and kind -/
abbrev Acc (F : Type) := F × Kind

inductive Stmt (F : Type) where
  | acc (f : F) (k : Kind)              -- access outside any critical section
  | locked (body : List (Acc F))        -- mutex.Lock(); accesses; mutex.Unlock()
  | spawn (t : Tid)                     -- go …: thread t starts
  | join (t : Tid)                      -- wait until thread t has finished (WaitGroup)
  | send (c : Chan)                     -- buffered send, never blocks
  | recv (c : Chan)                     -- blocks until something was sent
  deriving DecidableEq, Repr

abbrev Prog (F : Type) := List (List (Stmt F))

def code {F : Type} (P : Prog F) (t : Tid) : List (Stmt F) := P.getD t []

def tids {F : Type} (P : Prog F) : List Tid := List.range P.length

/-- two accesses conflict: same field, at least one write -/
def conflict {F : Type} [DecidableEq F] (a b : Acc F) : Bool :=
  a.1 = b.1 && (a.2 = .write || b.2 = .write)

/-! ### Semantics -/

structure TSt (F : Type) where
  done : List (Stmt F)              -- statements completed (history)
  rem : List (Stmt F)               -- statements still to run (head = current)
  cs : Option (List (Acc F))        -- inside the head `locked` statement: accesses still to do
  started : Bool

def TSt.finished {F : Type} (ts : TSt F) : Prop := ts.started = true ∧ ts.rem = [] ∧ ts.cs = none

structure St (F : Type) where
  th : Tid → TSt F
  holder : Option Tid
  chan : Chan → Nat

def upd {α : Type} (th : Tid → α) (t : Tid) (v : α) : Tid → α := fun x => if x = t then v else th x

/-- thread t completes its head statement x -/
def TSt.adv {F : Type} (ts : TSt F) (x : Stmt F) (r : List (Stmt F)) : TSt F :=
  { ts with done := ts.done ++ [x], rem := r, cs := none }

def targets {F : Type} : List (Stmt F) → List Tid
  | [] => []
  | .spawn u :: r => u :: targets r
  | _ :: r => targets r

/-- thread ids that some statement spawns -/
def spawnTargets {F : Type} (P : Prog F) : List Tid := P.flatMap targets

def init {F : Type} [DecidableEq F] (P : Prog F) : St F :=
  { th := fun t => { done := [], rem := code P t, cs := none, started := !(spawnTargets P).contains t },
    holder := none,
    chan := fun _ => 0 }

inductive Step {F : Type} (s : St F) (t : Tid) : St F → Prop where
  | acc (f : F) (k : Kind) (r : List (Stmt F))
      (hs : (s.th t).started = true) (hc : (s.th t).cs = none) (hr : (s.th t).rem = .acc f k :: r) :
      Step s t { s with th := upd s.th t ((s.th t).adv (.acc f k) r) }
  | enter (body : List (Acc F)) (r : List (Stmt F))
      (hs : (s.th t).started = true) (hc : (s.th t).cs = none) (hr : (s.th t).rem = .locked body :: r)
      (hh : s.holder = none) :
      Step s t { s with holder := some t, th := upd s.th t { (s.th t) with cs := some body } }
  | inside (a : Acc F) (l : List (Acc F)) (hs : (s.th t).started = true) (hc : (s.th t).cs = some (a :: l)) :
      Step s t { s with th := upd s.th t { (s.th t) with cs := some l } }
  | leave (body : List (Acc F)) (r : List (Stmt F)) (hs : (s.th t).started = true)
      (hc : (s.th t).cs = some []) (hr : (s.th t).rem = .locked body :: r) :
      Step s t { s with holder := none, th := upd s.th t ((s.th t).adv (.locked body) r) }
  | spawn (u : Tid) (r : List (Stmt F))
      (hs : (s.th t).started = true) (hc : (s.th t).cs = none) (hr : (s.th t).rem = .spawn u :: r)
      (hu : (s.th u).started = false) :
      Step s t { s with th := upd (upd s.th t ((s.th t).adv (.spawn u) r)) u { (s.th u) with started := true } }
  | join (u : Tid) (r : List (Stmt F))
      (hs : (s.th t).started = true) (hc : (s.th t).cs = none) (hr : (s.th t).rem = .join u :: r)
      (hf : (s.th u).finished) :
      Step s t { s with th := upd s.th t ((s.th t).adv (.join u) r) }
  | send (c : Chan) (r : List (Stmt F))
      (hs : (s.th t).started = true) (hc : (s.th t).cs = none) (hr : (s.th t).rem = .send c :: r) :
      Step s t { s with chan := upd s.chan c (s.chan c + 1), th := upd s.th t ((s.th t).adv (.send c) r) }
  | recv (c : Chan) (r : List (Stmt F))
      (hs : (s.th t).started = true) (hc : (s.th t).cs = none) (hr : (s.th t).rem = .recv c :: r)
      (hn : s.chan c > 0) :
      Step s t { s with chan := upd s.chan c (s.chan c - 1), th := upd s.th t ((s.th t).adv (.recv c) r) }

inductive Reach {F : Type} [DecidableEq F] (P : Prog F) : St F → Prop where
  | init : Reach P (init P)
  | step {s s' : St F} {t : Tid} : Reach P s → Step s t s' → Reach P s'

/-- the access thread state `ts` is about to perform, and whether it holds the mutex -/
def poised {F : Type} (ts : TSt F) : Option (Acc F × Bool) :=
  if ts.started then
    match ts.cs with
    | some (a :: _) => some (a, true)
    | some [] => none
    | none =>
      match ts.rem with
      | .acc f k :: _ => some ((f, k), false)
      | _ => none
  else none

/-- a data race: two different threads about to perform conflicting accesses -/
def Racy {F : Type} [DecidableEq F] (s : St F) : Prop :=
  ∃ t u a b ha hb, t ≠ u ∧ poised (s.th t) = some (a, ha) ∧ poised (s.th u) = some (b, hb) ∧ conflict a b = true

/-! ### The static discipline -/

/-- an access point of a thread: what is completed before it, the access, whether it is inside a
    critical section, and the remaining code from the current statement on -/
structure Point (F : Type) where
  before : List (Stmt F)
  acc : Acc F
  held : Bool
  after : List (Stmt F)
  deriving DecidableEq

def pointsFrom {F : Type} : List (Stmt F) → List (Stmt F) → List (Point F)
  | _, [] => []
  | b, .acc f k :: r => ⟨b, (f, k), false, .acc f k :: r⟩ :: pointsFrom (b ++ [.acc f k]) r
  | b, .locked body :: r =>
      body.map (fun a => ⟨b, a, true, .locked body :: r⟩) ++ pointsFrom (b ++ [.locked body]) r
  | b, .spawn u :: r => pointsFrom (b ++ [.spawn u]) r
  | b, .join u :: r => pointsFrom (b ++ [.join u]) r
  | b, .send c :: r => pointsFrom (b ++ [.send c]) r
  | b, .recv c :: r => pointsFrom (b ++ [.recv c]) r

def points {F : Type} (l : List (Stmt F)) : List (Point F) := pointsFrom [] l

/-- statement x occurs in the program only in thread o, and there at most once -/
def SoleOcc {F : Type} [DecidableEq F] (P : Prog F) (x : Stmt F) (o : Tid) : Prop :=
  (∀ t ∈ tids P, x ∈ code P t → t = o) ∧ (code P o).count x ≤ 1

instance {F : Type} [DecidableEq F] (P : Prog F) (x : Stmt F) (o : Tid) : Decidable (SoleOcc P x o) := by
  unfold SoleOcc; infer_instance

/-- every thread is spawned at most once, by one statement -/
def WF {F : Type} [DecidableEq F] (P : Prog F) : Prop :=
  ∀ u ∈ spawnTargets P, ∃ o ∈ tids P, SoleOcc P (.spawn u) o

instance {F : Type} [DecidableEq F] (P : Prog F) : Decidable (WF P) := by
  unfold WF; infer_instance

def recvChans {F : Type} : List (Stmt F) → List Chan
  | [] => []
  | .recv c :: r => c :: recvChans r
  | _ :: r => recvChans r

/-- the code of a thread before its `spawn t` -/
def beforeSpawn {F : Type} [DecidableEq F] (l : List (Stmt F)) (t : Tid) : List (Stmt F) :=
  l.takeWhile (fun x => x ≠ .spawn t)

/-- the access at `pt` of thread t is ordered before / after the access at `pu` of thread u by a
    synchronisation edge that can be read off the program text:
    1. t spawns u later (u is not running yet);
    2. t has joined u (u has finished);
    3. t has received on a channel whose only send is still ahead of u's access;
    4. t was spawned by a thread w after w received on such a channel. -/
def Ordered {F : Type} [DecidableEq F] (P : Prog F) (t : Tid) (pt : Point F) (u : Tid) (pu : Point F) : Prop :=
  Stmt.spawn u ∈ pt.after
  ∨ Stmt.join u ∈ pt.before
  ∨ (∃ c ∈ recvChans pt.before, Stmt.send c ∈ pu.after ∧ SoleOcc P (.send c) u)
  ∨ (∃ w ∈ tids P, Stmt.spawn t ∈ code P w ∧
      ∃ c ∈ recvChans (beforeSpawn (code P w) t), Stmt.send c ∈ pu.after ∧ SoleOcc P (.send c) u)

instance {F : Type} [DecidableEq F] (P : Prog F) (t : Tid) (pt : Point F) (u : Tid) (pu : Point F) :
    Decidable (Ordered P t pt u pu) := by
  unfold Ordered; infer_instance

/-- **the discipline**: every pair of conflicting accesses of two different threads is either under
    the mutex on both sides or ordered by spawn / join / channel -/
def Disciplined {F : Type} [DecidableEq F] (P : Prog F) : Prop :=
  ∀ t ∈ tids P, ∀ u ∈ tids P, t ≠ u →
    ∀ pt ∈ points (code P t), ∀ pu ∈ points (code P u), conflict pt.acc pu.acc = true →
      (pt.held = true ∧ pu.held = true) ∨ Ordered P t pt u pu ∨ Ordered P u pu t pt

instance {F : Type} [DecidableEq F] (P : Prog F) : Decidable (Disciplined P) := by
  unfold Disciplined; infer_instance

end Varlink.Race

/-! ## Part 3 — varlink.Service -/
namespace Varlink.Race
open Varlink.Extracted

/-- functions called (transitively, `s.g(...)` in the same goroutine) from the roots, by the extracted
    call edges -/
def callClosure (tbl : List Access) : Nat → List Fn → List Fn
  | 0, fs => fs
  | n + 1, fs =>
    let next := tbl.filterMap fun a =>
      match a.ev with
      | .call g => if fs.contains a.fn && !fs.contains g then some g else none
      | _ => none
    if next.isEmpty then fs else callClosure tbl n (fs ++ next.eraseDups)

/-- the intended use (property C16), by role:
    one serving call at a time (Bind; Listen | DoListen, with everything they call);
    any number of connection handlers (spawned by the serving call);
    any number of Shutdown / GetListener / RegisterInterface calls from other goroutines. -/
def servingRoots : List Fn := [.Bind, .Listen, .DoListen]
def handlerRoots : List Fn := [.handleConnection]
def apiRoots : List Fn := [.Shutdown, .GetListener, .RegisterInterface]

def servingFns (tbl : List Access) : List Fn := callClosure tbl Fn.all.length servingRoots
def handlerFns (tbl : List Access) : List Fn := callClosure tbl Fn.all.length handlerRoots
def apiFns (tbl : List Access) : List Fn := callClosure tbl Fn.all.length apiRoots

/-- functions that run only inside the one serving call -/
def onlyServing (tbl : List Access) (f : Fn) : Bool :=
  (servingFns tbl).contains f && !(handlerFns tbl).contains f && !(apiFns tbl).contains f

/-- may f and g run in two different goroutines at the same time?  Everything may, except two
    functions that both belong to the single serving call. -/
def mayOverlap (tbl : List Access) (f g : Fn) : Bool := !(onlyServing tbl f && onlyServing tbl g)

def accOf (a : Access) : Option (Acc SField) :=
  match a.ev with
  | .read f => some (f, Kind.read)
  | .write f => some (f, Kind.write)
  | _ => none

def isTable (f : SField) : Bool := f = .interfaces || f = .descriptions || f = .names

/-- the pair the lock does not cover: RegisterInterface touches an interface table under the mutex,
    a connection handler reads the same table without it (see `Tables` below for why that is no race) -/
def counterGuarded (tbl : List Access) (a b : Access) : Bool :=
  a.fn = .RegisterInterface && a.lock = .held && (handlerFns tbl).contains b.fn &&
  match accOf a, accOf b with
  | some (fa, _), some (fb, kb) => fa = fb && isTable fa && kb = .read
  | _, _ => false

def accConflict (a b : Access) : Bool :=
  match accOf a, accOf b with
  | some x, some y => conflict x y
  | _, _ => false

def pairOK (tbl : List Access) (a b : Access) : Bool :=
  !accConflict a b || !mayOverlap tbl a.fn b.fn || (a.lock = .held && b.lock = .held)
    || counterGuarded tbl a b || counterGuarded tbl b a

/-- the table-level discipline: conflicting accesses of functions that may run concurrently are both
    under the mutex, or are the counter-guarded table pair -/
def TableDisciplined (tbl : List Access) : Prop := ∀ a ∈ tbl, ∀ b ∈ tbl, pairOK tbl a b = true

instance (tbl : List Access) : Decidable (TableDisciplined tbl) := by
  unfold TableDisciplined; infer_instance

/-- the statements a function contributes to a thread: each access on its own; an access under the
    mutex as a critical section of its own (finer sections only add interleavings) -/
def fnStmts (tbl : List Access) (f : Fn) : List (Stmt SField) :=
  tbl.filterMap fun a =>
    if a.fn = f then
      match accOf a with
      | some x => some (if a.lock = .held then .locked [x] else .acc x.1 x.2)
      | none => none
    else none

/-- Go name starts with a lower-case letter: callable from inside the package only -/
def unexported (f : Fn) : Bool :=
  match f.goName.toList with
  | c :: _ => c.isLower
  | [] => false

/-- **accesses under the caller's mutex**: `f` never touches the mutex itself (`mu` = the functions that do), is
    unexported and never started with `go`, has at least one call site in the table, and every call site is under
    the mutex — in the caller's own walk, or because the caller is such a function in turn (fuel = number of
    functions). Then everything `f` does happens inside a critical section of its caller. -/
def underCallersLock (tbl : List Access) (mu : List Fn) : Nat → Fn → Bool
  | 0, _ => false
  | n + 1, f =>
    let sites := tbl.filter fun a => a.ev = .call f
    !mu.contains f && unexported f && !sites.isEmpty && !(tbl.any fun a => a.ev = .spawn f) &&
    sites.all fun a => a.lock = .held || (a.lock = .free && underCallersLock tbl mu n a.fn)

/-- the table with the lock state each access has at run time: what the per-function walk found, except that
    the accesses of a function which only ever runs under its callers' mutex are held -/
def effective (tbl : List Access) (mu : List Fn) : List Access :=
  tbl.map fun a =>
    if a.lock = .free && underCallersLock tbl mu Fn.all.length a.fn then { a with lock := .held } else a

/-- the mutex is never held across a `go`, and a Service method is called with the mutex held only if it is a
    function that runs under its callers' mutex (`underCallersLock`: it never locks — sync.Mutex is not
    re-entrant — and all its call sites hold the mutex, so the lock state recorded for its accesses is right) -/
def callsUnderLockOK (tbl : List Access) (mu : List Fn) : Bool :=
  (effective tbl mu).all fun a => match a.ev with
    | .call g => a.lock = .free || underCallersLock tbl mu Fn.all.length g
    | .spawn _ => a.lock = .free
    | _ => true

def isSync {F : Type} : Stmt F → Bool
  | .acc .. => false
  | .locked .. => false
  | _ => true

/-- a program that uses the Service as intended: every thread executes, in any order and any number
    of times, statements of functions of the table (plus spawn / join / channel operations), and
    functions executed by two different threads may overlap -/
structure IntendedUse (tbl : List Access) (P : Prog SField) (fns : Tid → List Fn) : Prop where
  stmts : ∀ t x, x ∈ code P t → isSync x = true ∨ ∃ f ∈ fns t, x ∈ fnStmts tbl f
  overlap : ∀ t u, t ≠ u → ∀ f ∈ fns t, ∀ g ∈ fns u, mayOverlap tbl f g = true

/-! ### facts about the code that the counter argument uses (checked on the regenerated table) -/

def eventsOf (tbl : List Access) (f : Fn) : List Access := tbl.filter (fun a => a.fn = f)

/-- every `go s.handleConnection` is immediately preceded by `s.conncounter++` under the mutex -/
def incBeforeSpawn : List Access → Bool
  | a :: b :: r =>
    (match b.ev with
     | .spawn _ => a.ev = .write .conncounter && a.lock = .held
     | _ => true) && incBeforeSpawn (b :: r)
  | [a] => (match a.ev with | .spawn _ => false | _ => true)
  | [] => true

def hasSpawn (l : List Access) : Bool := l.any fun a => match a.ev with | .spawn _ => true | _ => false

/-- in handleConnection nothing follows the (deferred) decrement of the counter: every call that may
    read a table comes before it -/
def decrementLast (l : List Access) : Bool :=
  match l.reverse with
  | a :: _ => a.ev = .write .conncounter && a.lock = .held
  | [] => false

/-- every write of `f` anywhere is under the mutex -/
def writesHeld (tbl : List Access) (f : SField) : Bool :=
  tbl.all fun a => a.ev != .write f || a.lock = .held

/-- the table writes of RegisterInterface come after the reads of running and conncounter, all under
    the mutex without releasing it in between -/
def registerChecksFirst (l : List Access) : Bool :=
  let idx (p : Access → Bool) : Option Nat := l.findIdx? p
  match idx (fun a => a.ev = .read .running), idx (fun a => a.ev = .read .conncounter),
        idx (fun a => match a.ev with | .write f => isTable f | _ => false) with
  | some i, some j, some k => i < k && j < k && l.all (fun a => a.lock = .held)
  | _, _, _ => false

/-! ### The connection counter guards the interface tables -/
namespace Tables

inductive LPc where
  | idle        -- no serving call (before Listen/DoListen, or after it returned)
  | loop        -- in the accept loop (running was set under the mutex)
  | accepted    -- Accept returned a connection; about to lock for conncounter++
  | counted     -- conncounter++ done, mutex released; about to `go handleConnection`
  | draining    -- left the loop: teardown, wg.Wait()
  deriving DecidableEq, Repr

structure S where
  running : Bool
  cc : Nat            -- conncounter
  lpc : LPc
  serving : Nat       -- handlers in their loop: they read the tables without the mutex
  leaving : Nat       -- handlers past their loop, before their deferred conncounter-- (no table reads any more)
  regWriting : Bool   -- a RegisterInterface call holds the mutex, passed the check and writes the tables
  deriving DecidableEq, Repr

def init : S := { running := false, cc := 0, lpc := .idle, serving := 0, leaving := 0, regWriting := false }

/-- transitions; those that need the mutex are enabled only while no RegisterInterface holds it
    (every other critical section touches only mutex-protected state, so it is one atomic step).
    `guardCounter` = the check `|| s.conncounter > 0` is present in RegisterInterface. -/
inductive Step (guardCounter : Bool) : S → S → Prop where
  | listenStart (s : S) : s.lpc = .idle → s.regWriting = false →
      Step guardCounter s { s with running := true, lpc := .loop }
  | accept (s : S) : s.lpc = .loop → Step guardCounter s { s with lpc := .accepted }
  | count (s : S) : s.lpc = .accepted → s.regWriting = false →
      Step guardCounter s { s with cc := s.cc + 1, lpc := .counted }
  | spawn (s : S) : s.lpc = .counted → Step guardCounter s { s with serving := s.serving + 1, lpc := .loop }
  | loopExit (s : S) : s.lpc = .loop → s.regWriting = false →
      Step guardCounter s { s with running := false, lpc := .draining }
  | drained (s : S) : s.lpc = .draining → s.serving + s.leaving = 0 → Step guardCounter s { s with lpc := .idle }
  | shutdown (s : S) : s.regWriting = false → Step guardCounter s { s with running := false }
  | handlerLeave (s : S) : s.serving > 0 →
      Step guardCounter s { s with serving := s.serving - 1, leaving := s.leaving + 1 }
  | handlerDec (s : S) : s.leaving > 0 → s.regWriting = false →
      Step guardCounter s { s with leaving := s.leaving - 1, cc := s.cc - 1 }
  | regEnter (s : S) : s.regWriting = false → s.running = false → (guardCounter = true → s.cc = 0) →
      Step guardCounter s { s with regWriting := true }
  | regExit (s : S) : s.regWriting = true → Step guardCounter s { s with regWriting := false }

inductive Reach (g : Bool) : S → Prop where
  | init : Reach g init
  | step {s s' : S} : Reach g s → Step g s s' → Reach g s'

/-- RegisterInterface is writing a table while a handler may read it -/
def Racy (s : S) : Prop := s.regWriting = true ∧ s.serving > 0

def pending (s : S) : Nat := if s.lpc = .counted then 1 else 0

end Tables
end Varlink.Race

/-! ## Part 4 — the ctxio operations as programs -/
namespace Varlink.Race
open Varlink.Extracted

/-- shared objects of a ctxio.Conn used from one goroutine at a time (the net.Conn itself is safe for
    concurrent use and carries no entry) -/
inductive CxObj where
  | buf       -- the caller's buffer (Read/Write) — owned by the caller outside the call
  | reader    -- the bufio.Reader
  deriving DecidableEq, Repr

def cxObjOf (obj : String) : Option CxObj :=
  if obj = "buf" then some .buf else if obj = "reader" then some .reader else none

/-- a skeleton step as statements of thread programs; `c` = the operation's result channel,
    `h` = the helper's thread id -/
def cxStmt (c : Chan) (h : Tid) : CxStep → List (Stmt CxObj)
  | .use obj _ => match cxObjOf obj with
    | some o => [.acc o .write]
    | none => []
  | .spawn => [.spawn h]
  | .send => [.send c]
  | .recv => [.recv c]
  | _ => []

def cxStmts (c : Chan) (h : Tid) (l : List CxStep) : List (Stmt CxObj) := l.flatMap (cxStmt c h)

/-- which way an operation went -/
inductive Arm where
  | cancelled | completed
  deriving DecidableEq, Repr

/-- steps of the select arm up to its normal return (the `exitIfErr` steps are not exits on a
    connection whose SetDeadline succeeds; see `earlyExitUnjoined`) -/
def armSteps (op : CxOp) : Arm → List CxStep
  | .cancelled => op.cancelArm
  | .completed => op.doneArm

/-- the caller's code for one operation: it owns the buffer before the call and after the return -/
def callerOp (op : CxOp) (a : Arm) (c : Chan) (h : Tid) : List (Stmt CxObj) :=
  [.acc .buf .write] ++ cxStmts c h op.pre ++ cxStmts c h (armSteps op a) ++ [.acc .buf .write, .acc .reader .write]

/-- thread 0 = the goroutine using the connection, performing the operations one after the other;
    thread i+1 = the helper goroutine of operation i (channel i) -/
def cxProgram (ops : List (CxOp × Arm)) : Prog CxObj :=
  let n := ops.length
  ((List.range n).zip ops).flatMap (fun (i, op, a) => callerOp op a i (i + 1))
  :: ((List.range n).zip ops).map (fun (i, op, _) => cxStmts i (i + 1) op.helper)

/-- every exit of the select arm (a `ret`, or an `exitIfErr` not directly behind a SetDeadline call)
    comes after a receive from the helper's channel -/
def armJoined : Bool → List CxStep → Bool
  | _, [] => true
  | _, .recv :: r => armJoined true r
  | joined, .ret _ :: r => joined && armJoined joined r
  | joined, .deadline _ _ :: .exitIfErr :: r => armJoined joined r   -- exit only if SetDeadline itself fails
  | joined, .exitIfErr :: r => joined && armJoined joined r
  | joined, _ :: r => armJoined joined r

/-- the same without the exemption: is there an exit (of any kind) before the receive? -/
def armJoinedStrict : Bool → List CxStep → Bool
  | _, [] => true
  | _, .recv :: r => armJoinedStrict true r
  | joined, .ret _ :: r => joined && armJoinedStrict joined r
  | joined, .exitIfErr :: r => joined && armJoinedStrict joined r
  | joined, _ :: r => armJoinedStrict joined r

/-- the operation spawns exactly one helper, as its last step before the select, after creating a
    buffered channel; the helper sends exactly once, as its last step -/
def skeletonShape (op : CxOp) : Bool :=
  op.pre.count .spawn = 1 && op.pre.getLast? = some .spawn && op.pre.contains (.mkchan 1) &&
  op.helper.count .send = 1 && op.helper.getLast? = some .send &&
  !op.pre.contains .recv && !op.pre.contains .send && !op.helper.contains .recv && !op.helper.contains .spawn &&
  op.otherArms = 0 && op.post.isEmpty

end Varlink.Race
