/-
  What the lifecycle transition system (Varlink/Lifecycle.lean) was written against: the synchronisation
  skeleton of service.go, function by function, in the vocabulary of /verif/extract/lifecycle.go
  (lock / unlock / defer unlock, read|write|inc|dec <field>, call field.listener.<M> (on the FIELD),
  call local.<M> (on a local such as `l`), wg.Add|Done|Wait, go, defer{ … }, calls of other methods,
  control flow with guards reduced to what they read, returns by class).

  HAND-WRITTEN. `VarlinkProofs/Props/C14.lean` proves `Extracted.skeleton = Expected.skeleton` by `decide`,
  so any change of the synchronisation structure of service.go breaks a proof obligation until the model,
  this file and the theorems have been revisited.
-/
namespace Varlink.Expected

def skeleton : List (String × List String) := [
  -- label `shutdown`: one critical section — running := false; listener non-nil ⇒ Close (its error is returned)
  ("Shutdown", [
    "lock", "defer unlock", "write running=false", "if read listener==nil {", "return nil", "}",
    "return read listener,call field.listener.Close"
  ]),
  -- handler thread: reading ↔ dispatching → closing (`conn.Close`) → closed → (deferred) lock; counter--; unlock → decremented → wg.Done → done
  ("handleConnection", [
    "defer{", "lock", "dec conncounter", "unlock", "wg.Done", "}", "defer{", "call cancel", "}", "for  {",
    "conn.ReadBytes", "if err!=nil {", "break", "}", "call HandleMessage", "if err!=nil {", "break", "}",
    "}", "call local.Close"
  ]),
  -- the loop check / the check after an accept error: one locked read of running
  ("isRunning", [
    "lock", "defer unlock", "return read running"
  ]),
  -- pc `teardown`: one critical section — Close the FIELD listener if non-nil; clear listener, running, protocol, address
  ("teardown", [
    "lock", "if read listener!=nil {", "read listener", "call field.listener.Close", "}",
    "write listener=nil", "write running=false", "write protocol=\"\"", "write address=\"\"", "unlock"
  ]),
  -- label `getListener`: locked read of the field
  ("GetListener", [
    "lock", "read listener", "unlock", "return var nil"
  ]),
  -- part of the single step at pc `bindCheck` (activation or net listen; error ⇒ return; then the write of the field),
  -- called with the mutex held by `bind`'s caller
  ("setListener", [
    "call activationListener", "if l==nil {", "if read protocol,read address&& {", "read address",
    "os.Remove", "}", "read protocol", "read address", "call listen", "if err!=nil {", "return var", "}",
    "if read protocol,read address&& {", "call local.SetUnlinkOnClose", "}", "}", "write listener",
    "return nil"
  ]),
  -- pc `refresh`: reads the FIELD listener without the lock; SetDeadline when it has one; error ⇒ return
  ("refreshTimeout", [
    "read listener", "typeswitch {", "case setDeadliner {", "call local.SetDeadline", "if err!=nil {",
    "return var", "}", "}", "}", "return nil"
  ]),
  -- Bind: ONE critical section around `bind` (since fix a1069ea)
  ("Bind", [
    "lock", "defer unlock", "return call bind"
  ]),
  -- pc `bindCheck`, ONE step of the transition system: read of running (refused ⇒ return WITHOUT teardown), parse,
  -- listen, store — all under the caller's lock, so no other thread's step can fall between them
  ("bind", [
    "if read running {", "return errorf", "}", "call parseAddress",
    "if err!=nil {", "return var", "}", "call setListener", "if err!=nil {", "return var", "}", "return nil"
  ]),
  -- pc `bindCheck` for a Listen call: bind, `running = true` and the read of l in ONE critical section = one step
  -- (error ⇒ unlock, return; the deferred teardown is registered only afterwards); then the loop
  ("Listen", [
    "lock", "call bind", "if err!=nil {", "unlock", "return var", "}", "write running=true", "read listener",
    "unlock", "defer{", "call teardown", "wg.Wait", "}", "for call isRunning {", "if timeout!=0 {",
    "call refreshTimeout", "if err!=nil {", "return var", "}", "}", "call local.Accept", "if err!=nil {",
    "if is-timeout {", "lock", "if read conncounter==0 {", "unlock", "return ServiceTimeoutError", "}",
    "unlock", "continue", "}", "if !call isRunning {", "return nil", "}", "return var", "}", "lock",
    "inc conncounter", "unlock", "wg.Add", "go call handleConnection", "}", "return nil"
  ]),
  -- deferred teardown registered first; pc `readLst`: the listener read (nil ⇒ error, teardown runs) and
  -- `running = true` in ONE critical section = one step; then the same loop as Listen
  ("DoListen", [
    "defer{", "call teardown", "wg.Wait", "}", "lock", "read listener", "if l==nil {", "unlock",
    "return errorf", "}", "write running=true", "unlock", "for call isRunning {", "if timeout!=0 {",
    "call refreshTimeout", "if err!=nil {", "return var", "}", "}", "call local.Accept", "if err!=nil {",
    "if is-timeout {", "lock", "if read conncounter==0 {", "unlock", "return ServiceTimeoutError", "}",
    "unlock", "continue", "}", "if !call isRunning {", "return nil", "}", "return var", "}", "lock",
    "inc conncounter", "unlock", "wg.Add", "go call handleConnection", "}", "return nil"
  ]),
  -- label `register`: refused iff present or running or conncounter > 0, all under the lock
  ("RegisterInterface", [
    "lock", "defer unlock", "read interfaces", "if ok {", "return errorf", "}",
    "if read running,read conncounter|| {", "return errorf", "}", "write interfaces", "write descriptions",
    "read names", "write names", "return nil"
  ])
]

/-- operations of a function -/
def ops (f : String) : List String := (skeleton.lookup f).getD []

/-- the accept loop: everything from the `for` on -/
def loopOf (l : List String) : List String := l.dropWhile (fun s => s != "for call isRunning {")

end Varlink.Expected
