/-
  Framing: NUL-delimited messages, the `bufio.Reader` behind `ctxio.Conn.ReadBytes`, and the raw
  `Read` path of an upgraded connection.

  The network is a list of non-empty segments: each underlying `conn.Read(p)` returns the first
  `min(len(segment), len(p))` bytes of the head segment (TCP/unix stream semantics); an exhausted
  list is EOF.  `bufio` is modelled, not verified (validated by `./check selftest-bufio`).
-/
import Varlink.Basic
namespace Varlink

/-- complete frames (NUL stripped) and the incomplete tail -/
def splitOnNul : Bytes → List Bytes × Bytes
  | [] => ([], [])
  | c :: cs =>
    let (fs, tail) := splitOnNul cs
    if c = 0 then
      -- a NUL ends the frame that starts here; what follows is fs/tail
      ([] :: fs, tail)
    else
      match fs with
      | [] => ([], c :: tail)
      | f :: fs' => ((c :: f) :: fs', tail)

/-- split at the first delimiter: bytes before it and bytes after it -/
def cutAt (d : UInt8) : Bytes → Option (Bytes × Bytes)
  | [] => none
  | c :: cs =>
    if c = d then some ([], cs)
    else (cutAt d cs).map fun (a, b) => (c :: a, b)

abbrev Net := List Bytes

/-- one underlying read of at most `room` bytes; `none` = EOF. Empty segments are skipped
    (a `net.Conn` never returns `0, nil`). -/
def netRead (room : Nat) : Net → Option (Bytes × Net)
  | [] => none
  | seg :: rest =>
    if seg.isEmpty then netRead room rest
    else
      let a := seg.take room
      let r := seg.drop room
      some (a, if r.isEmpty then rest else r :: rest)

structure Bufio where
  buf : Bytes := []        -- buffered, not yet consumed
  deriving Repr

inductive ReadRes where
  | ok (bs : Bytes)          -- includes the delimiter
  | eof (partial_ : Bytes)   -- io.EOF with the bytes read so far
  deriving DecidableEq, Repr

/-- `bufio.Reader.ReadBytes(delim)` with buffer capacity `cap`.
    `fuel` bounds the number of loop iterations (each consumes input or ends). -/
def readBytes (cap : Nat) (d : UInt8) : Nat → Bytes → Bufio → Net → ReadRes × Bufio × Net
  | 0, acc, b, net => (.eof acc, b, net)
  | fuel + 1, acc, b, net =>
    match cutAt d b.buf with
    | some (pre, post) => (.ok (acc ++ pre ++ [d]), { buf := post }, net)
    | none =>
      if b.buf.length ≥ cap then
        -- ErrBufferFull: the whole buffer is taken as a fragment
        readBytes cap d fuel (acc ++ b.buf) { buf := [] } net
      else
        match netRead (cap - b.buf.length) net with
        | none => (.eof (acc ++ b.buf), { buf := [] }, [])
        | some (a, net') => readBytes cap d fuel acc { buf := b.buf ++ a } net'

def netSize (net : Net) : Nat := (net.map List.length).sum

/-- enough fuel for any input: every iteration either returns, empties a full buffer (which is
    then refilled), or performs a read that consumes at least one byte -/
def readFuel (b : Bufio) (net : Net) : Nat := 2 * (b.buf.length + netSize net) + net.length + 4

/-- which object the raw `Read` of `ctxio.Conn` reads from (regenerated from the source) -/
inductive ReadPath where
  | buffered      -- `c.reader.Read`
  | direct        -- `c.conn.Read`: bypasses bytes already buffered
  deriving DecidableEq, Repr

/-- raw `Read(p)` with `len p = n > 0`: bytes returned (`none` = EOF) -/
def rawRead (cap : Nat) (path : ReadPath) (n : Nat) (b : Bufio) (net : Net) :
    Option Bytes × Bufio × Net :=
  match path with
  | .direct =>
    match netRead n net with
    | none => (none, b, [])
    | some (a, net') => (some a, b, net')
  | .buffered =>
    if b.buf.isEmpty then
      if n ≥ cap then
        match netRead n net with
        | none => (none, b, [])
        | some (a, net') => (some a, b, net')
      else
        match netRead cap net with
        | none => (none, b, [])
        | some (a, net') => (some (a.take n), { buf := a.drop n }, net')
    else (some (b.buf.take n), { buf := b.buf.drop n }, net)

/-- read every frame until EOF: the frames (NUL stripped) and the unterminated tail -/
def readAll (cap : Nat) : Nat → Bufio → Net → List Bytes × Bytes
  | 0, _, _ => ([], [])
  | fuel + 1, b, net =>
    match readBytes cap 0 (readFuel b net) [] b net with
    | (.ok bs, b', net') =>
      let (fs, tail) := readAll cap fuel b' net'
      (bs.dropLast :: fs, tail)
    | (.eof part, _, _) => ([], part)

end Varlink

namespace Varlink

/-- read primitives of `ctxio.Conn` as used by the library and by handlers of upgraded calls -/
inductive ROp where
  | frame               -- `ReadBytes(ctx, 0)`
  | raw (n : Nat)       -- `Read(ctx, p)` with `len(p) = n`
  deriving DecidableEq, Repr

/-- the bytes each operation handed to its caller (for `ReadBytes` hitting EOF: the partial data
    returned along with the error), and the final state -/
def runOps (cap : Nat) (path : ReadPath) : List ROp → Bufio → Net → List Bytes × Bufio × Net
  | [], b, net => ([], b, net)
  | .frame :: ops, b, net =>
    match readBytes cap 0 (readFuel b net) [] b net with
    | (.ok bs, b', net') =>
      let (outs, b'', net'') := runOps cap path ops b' net'
      (bs :: outs, b'', net'')
    | (.eof part, b', net') =>
      let (outs, b'', net'') := runOps cap path ops b' net'
      (part :: outs, b'', net'')
  | .raw n :: ops, b, net =>
    match rawRead cap path n b net with
    | (some a, b', net') =>
      let (outs, b'', net'') := runOps cap path ops b' net'
      (a :: outs, b'', net'')
    | (none, b', net') =>
      let (outs, b'', net'') := runOps cap path ops b' net'
      ([] :: outs, b'', net'')

end Varlink
