/-
  Canonicalisation used when model values are compared with observed wire data:
  Go strings that are not valid UTF-8 reach the wire with each invalid byte replaced by U+FFFD.
-/
import Varlink.Json
import Varlink.Service
namespace Varlink

def sanitizeUtf8 : Nat → Bytes → Bytes
  | 0, _ => []
  | _ + 1, [] => []
  | fuel + 1, c :: cs =>
    match utf8Len (c :: cs) with
    | some n => (c :: cs).take n ++ sanitizeUtf8 fuel ((c :: cs).drop n)
    | none => replacement ++ sanitizeUtf8 fuel cs

def sanitize (s : Bytes) : Bytes := sanitizeUtf8 (s.length + 1) s

mutual
def JVal.sanitize : JVal → JVal
  | .str s => .str (Varlink.sanitize s)
  | .arr xs => .arr (JList.sanitize xs)
  | .obj ms => .obj (JMembers.sanitize ms)
  | v => v
def JList.sanitize : JList → JList
  | .nil => .nil
  | .cons v t => .cons v.sanitize t.sanitize
def JMembers.sanitize : JMembers → JMembers
  | .nil => .nil
  | .cons k v t => .cons (Varlink.sanitize k) v.sanitize t.sanitize
end

/-- strict reading of a reply frame as the service writes it: an object whose members are among
    `parameters`, `continues`, `error` (exact names, each at most once, correct types). -/
def readReplyFrame (frame : Bytes) : Option ReplyFrame :=
  match parseDoc frame with
  | some (.obj ms) =>
    let rec go (r : ReplyFrame) (seenP seenC seenE : Bool) : JMembers → Option ReplyFrame
      | .nil => some r
      | .cons k v t =>
        if k = str "parameters" then
          if seenP then none else go { r with params := some v } true seenC seenE t
        else if k = str "continues" then
          match v with
          | .bool b => if seenC then none else go { r with continues := b } seenP true seenE t
          | _ => none
        else if k = str "error" then
          match v with
          | .str s => if seenE then none else go { r with error := s } seenP seenC true t
          | _ => none
        else none
    go {} false false false ms
  | _ => none

def optJValBeq : Option JVal → Option JVal → Bool
  | none, none => true
  | some a, some b => a == b
  | _, _ => false

def ReplyFrame.beq (a b : ReplyFrame) : Bool :=
  optJValBeq a.params b.params && a.continues == b.continues && a.error == b.error

def ReplyFrame.sanitize (a : ReplyFrame) : ReplyFrame :=
  { params := a.params.map JVal.sanitize, continues := a.continues, error := Varlink.sanitize a.error }

end Varlink
