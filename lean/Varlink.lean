import Varlink.Basic
import Varlink.Json
import Varlink.Service
import Varlink.Frame
import Varlink.Client
import Varlink.Activation
import Varlink.Script
import Varlink.Canon
