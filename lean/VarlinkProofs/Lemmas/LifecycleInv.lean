/-
  The accounting invariant of the lifecycle transition system and its preservation by every label.
-/
import VarlinkProofs.Lemmas.LifecycleBasic
namespace Varlink.Life

/-- phases in which the connection is included in `conncounter` -/
def inCounter : Phase → Bool
  | .counted | .reading | .dispatching | .closing | .closed => true
  | _ => false

/-- phases in which the connection is included in its owner's wait group -/
def inWg : Phase → Bool
  | .reading | .dispatching | .closing | .closed | .decremented => true
  | _ => false

def cntd (x : Conn) : Bool := inCounter x.phase
def ownedWg (k : Nat) (x : Conn) : Bool := inWg x.phase && x.owner == k

/-- program counters at which the call's wait group is necessarily empty -/
def Pc.quiet : Pc → Bool
  | .bindCheck | .readLst | .returned => true
  | _ => false

structure Inv (w : World) : Prop where
  counterOk : w.counter = cnt cntd w.conns
  wgOk : ∀ (k : Nat) (c : Call), w.calls[k]? = some c → (c.wg : Int) = cnt (ownedWg k) w.conns
  link : ∀ (k : Nat) (c : Call), w.calls[k]? = some c →
      (c.pc = .gotConn → ∃ x : Conn, w.conns[c.cur]? = some x ∧ x.phase = .accepted ∧ x.owner = k) ∧
      (c.pc = .counted → ∃ x : Conn, w.conns[c.cur]? = some x ∧ x.phase = .counted ∧ x.owner = k)
  linkRev : ∀ (i : Nat) (x : Conn), w.conns[i]? = some x →
      (x.phase = .accepted → ∃ c : Call, w.calls[x.owner]? = some c ∧ c.pc = .gotConn ∧ c.cur = i) ∧
      (x.phase = .counted → ∃ c : Call, w.calls[x.owner]? = some c ∧ c.pc = .counted ∧ c.cur = i)
  ownerOk : ∀ (i : Nat) (x : Conn), w.conns[i]? = some x → inWg x.phase = true → x.owner < w.calls.length
  wgZero : ∀ (k : Nat) (c : Call), w.calls[k]? = some c → c.pc.quiet = true → c.wg = 0
  noPanic : w.wgPanic = false

theorem inv_init : Inv init := by
  constructor <;> simp [init, cnt_nil]

/-- the invariant only looks at counter, calls, conns and the panic flag -/
theorem Inv.congr {w w' : World} (h : Inv w) (h1 : w'.counter = w.counter) (h2 : w'.calls = w.calls)
    (h3 : w'.conns = w.conns) (h4 : w'.wgPanic = w.wgPanic) : Inv w' := by
  obtain ⟨a, b, c, d, e, f, g⟩ := h
  constructor
  · rw [h1, h3]; exact a
  · rw [h2, h3]; exact b
  · rw [h2, h3]; exact c
  · rw [h2, h3]; exact d
  · rw [h2, h3]; exact e
  · rw [h2]; exact f
  · rw [h4]; exact g

theorem getElem?_set_eq' {α} {l : List α} {i : Nat} {x a : α} (h : l[i]? = some x) : (l.set i a)[i]? = some a := by
  have : i < l.length := by
    rcases Nat.lt_or_ge i l.length with h' | h'
    · exact h'
    · simp [List.getElem?_eq_none h'] at h
  simp [this]

theorem lt_of_getElem? {α} {l : List α} {i : Nat} {x : α} (h : l[i]? = some x) : i < l.length := by
  rcases Nat.lt_or_ge i l.length with h' | h'
  · exact h'
  · simp [List.getElem?_eq_none h'] at h

theorem setConn_get {w : World} {i : Nat} {x y : Conn} (hi : w.conns[i]? = some x) :
    (w.setConn i y).conns[i]? = some y := getElem?_set_eq' hi

theorem run_one {w w1 : World} {a : Label} (h1 : step w a = some w1) : run w [a] = some w1 := by
  simp only [run, h1]
theorem run_two {w w1 w2 : World} {a b : Label} (h1 : step w a = some w1) (h2 : step w1 b = some w2) :
    run w [a, b] = some w2 := by simp only [run, h1, h2]
theorem run_three {w w1 w2 w3 : World} {a b c : Label} (h1 : step w a = some w1) (h2 : step w1 b = some w2)
    (h3 : step w2 c = some w3) : run w [a, b, c] = some w3 := by simp only [run, h1, h2, h3]

/-- **pure call update**: call `k` changes only itself; it neither enters nor leaves the two program
    counters that hold a connection, and a quiet target has an empty wait group -/
theorem Inv.setCall {w w' : World} (h : Inv w) {k : Nat} {c c' : Call} (hk : w.calls[k]? = some c)
    (hcalls : w'.calls = w.calls.set k c') (h1 : w'.counter = w.counter) (h3 : w'.conns = w.conns)
    (h4 : w'.wgPanic = w.wgPanic) (hwg : c'.wg = c.wg)
    (hpc : (c'.pc = c.pc ∧ c'.cur = c.cur) ∨
           (c.pc ≠ .gotConn ∧ c.pc ≠ .counted ∧ c'.pc ≠ .gotConn ∧ c'.pc ≠ .counted))
    (hq : c'.pc.quiet = true → c.wg = 0) : Inv w' := by
  obtain ⟨a, b, cc, d, e, f, g⟩ := h
  have hlt := lt_of_getElem? hk
  constructor
  · rw [h1, h3]; exact a
  · intro j cj hj
    rw [hcalls, List.getElem?_set] at hj
    rw [h3]
    by_cases hjk : k = j
    · subst hjk
      simp only [hlt, if_true, Option.some.injEq] at hj
      subst hj
      rw [hwg]; exact b k c hk
    · simp only [hjk, if_false] at hj
      exact b j cj hj
  · intro j cj hj
    rw [hcalls, List.getElem?_set] at hj
    rw [h3]
    by_cases hjk : k = j
    · subst hjk
      simp only [hlt, if_true, Option.some.injEq] at hj
      subst hj
      rcases hpc with ⟨hp, hcur⟩ | ⟨_, _, hn1, hn2⟩
      · rw [hp, hcur]; exact cc k c hk
      · exact ⟨fun h => absurd h hn1, fun h => absurd h hn2⟩
    · simp only [hjk, if_false] at hj
      exact cc j cj hj
  · intro i x hx
    rw [h3] at hx
    obtain ⟨d1, d2⟩ := d i x hx
    rw [hcalls]
    constructor
    · intro hph
      obtain ⟨co, hco, hpco, hcur⟩ := d1 hph
      by_cases hjk : k = x.owner
      · rw [← hjk] at hco ⊢
        rw [hk] at hco
        simp only [Option.some.injEq] at hco
        subst hco
        refine ⟨c', getElem?_set_eq' hk, ?_, ?_⟩
        · rcases hpc with ⟨hp, _⟩ | ⟨hn, _, _, _⟩
          · rw [hp]; exact hpco
          · exact absurd hpco hn
        · rcases hpc with ⟨_, hcu⟩ | ⟨hn, _, _, _⟩
          · rw [hcu]; exact hcur
          · exact absurd hpco hn
      · exact ⟨co, (by rw [List.getElem?_set]; simp [hjk, hco]), hpco, hcur⟩
    · intro hph
      obtain ⟨co, hco, hpco, hcur⟩ := d2 hph
      by_cases hjk : k = x.owner
      · rw [← hjk] at hco ⊢
        rw [hk] at hco
        simp only [Option.some.injEq] at hco
        subst hco
        refine ⟨c', getElem?_set_eq' hk, ?_, ?_⟩
        · rcases hpc with ⟨hp, _⟩ | ⟨_, hn, _, _⟩
          · rw [hp]; exact hpco
          · exact absurd hpco hn
        · rcases hpc with ⟨_, hcu⟩ | ⟨_, hn, _, _⟩
          · rw [hcu]; exact hcur
          · exact absurd hpco hn
      · exact ⟨co, (by rw [List.getElem?_set]; simp [hjk, hco]), hpco, hcur⟩
  · intro i x hx hw
    rw [h3] at hx
    rw [hcalls, List.length_set]
    exact e i x hx hw
  · intro j cj hj hqj
    rw [hcalls, List.getElem?_set] at hj
    by_cases hjk : k = j
    · subst hjk
      simp only [hlt, if_true, Option.some.injEq] at hj
      subst hj
      rw [hwg]; exact hq hqj
    · simp only [hjk, if_false] at hj
      exact f j cj hj hqj
  · rw [h4]; exact g


theorem cntd_drop (l : Nat) (x : Conn) : cntd (dropIfWaiting l x) = cntd x := by
  rcases dropIfWaiting_phase l x with h | ⟨h1, h2⟩
  · simp [cntd, h]
  · simp [cntd, h1, h2, inCounter]

theorem ownedWg_drop (k l : Nat) (x : Conn) : ownedWg k (dropIfWaiting l x) = ownedWg k x := by
  rcases dropIfWaiting_phase l x with h | ⟨h1, h2⟩
  · simp [ownedWg, h]
  · simp [ownedWg, h1, h2, inWg]

/-- closing a listener resets its backlog: nothing that is accounted changes -/
theorem Inv.mapDrop {w w' : World} (h : Inv w) (l : Nat) (h1 : w'.counter = w.counter) (h2 : w'.calls = w.calls)
    (h3 : w'.conns = w.conns.map (dropIfWaiting l)) (h4 : w'.wgPanic = w.wgPanic) : Inv w' := by
  obtain ⟨a, b, cc, d, e, f, g⟩ := h
  have key : ∀ (i : Nat) (y : Conn), w'.conns[i]? = some y → ∃ x : Conn, w.conns[i]? = some x ∧ y = dropIfWaiting l x := by
    intro i y hy
    rw [h3, List.getElem?_map] at hy
    cases hx : w.conns[i]? with
    | none => simp [hx] at hy
    | some x => simp only [hx, Option.map_some, Option.some.injEq] at hy; exact ⟨x, rfl, hy.symm⟩
  constructor
  · rw [h1, h3, cnt_map_congr _ _ _ (cntd_drop l)]; exact a
  · intro k c hk
    rw [h2] at hk
    rw [h3, cnt_map_congr _ _ _ (ownedWg_drop k l)]; exact b k c hk
  · intro k c hk
    rw [h2] at hk
    obtain ⟨c1, c2⟩ := cc k c hk
    rw [h3]
    constructor
    · intro hp
      obtain ⟨x, hx, hph, how⟩ := c1 hp
      refine ⟨x, ?_, hph, how⟩
      rw [List.getElem?_map, hx]
      simp [dropIfWaiting, waitsOn, hph]
    · intro hp
      obtain ⟨x, hx, hph, how⟩ := c2 hp
      refine ⟨x, ?_, hph, how⟩
      rw [List.getElem?_map, hx]
      simp [dropIfWaiting, waitsOn, hph]
  · intro i y hy
    obtain ⟨x, hx, rfl⟩ := key i y hy
    obtain ⟨d1, d2⟩ := d i x hx
    rw [h2]
    rcases dropIfWaiting_phase l x with hp | ⟨hp1, hp2⟩
    · simp only [hp, dropIfWaiting_owner]; exact ⟨d1, d2⟩
    · simp [hp2]
  · intro i y hy hw
    obtain ⟨x, hx, rfl⟩ := key i y hy
    rw [h2]
    rcases dropIfWaiting_phase l x with hp | ⟨hp1, hp2⟩
    · rw [hp] at hw; simpa using e i x hx hw
    · simp [hp2, inWg] at hw
  · intro k c hk; rw [h2] at hk; exact f k c hk
  · rw [h4]; exact g

/-- **pure connection update**: connection `i` keeps its owner and its accounting class, and does not
    enter or leave the two phases in which a serving call holds it -/
theorem Inv.setConn {w w' : World} (h : Inv w) {i : Nat} {x x' : Conn} (hi : w.conns[i]? = some x)
    (hconns : w'.conns = w.conns.set i x')
    (h1 : w'.counter = w.counter - (if inCounter x.phase then 1 else 0) + (if inCounter x'.phase then 1 else 0))
    (h2 : w'.calls = w.calls)
    (h4 : w'.wgPanic = w.wgPanic) (how : x'.owner = x.owner) (hw : inWg x'.phase = inWg x.phase)
    (hph : x'.phase = x.phase ∨
           (x.phase ≠ .accepted ∧ x.phase ≠ .counted ∧ x'.phase ≠ .accepted ∧ x'.phase ≠ .counted)) : Inv w' := by
  obtain ⟨a, b, cc, d, e, f, g⟩ := h
  have hlt := lt_of_getElem? hi
  constructor
  · rw [h1, hconns, cnt_set cntd x' hi, a]
    rfl
  · intro k c hk
    rw [h2] at hk
    rw [hconns, cnt_set (ownedWg k) x' hi, b k c hk]
    simp only [ownedWg, hw, how]
    by_cases hh : (inWg x.phase && x.owner == k) = true <;> simp [hh]
  · intro k c hk
    rw [h2] at hk
    obtain ⟨c1, c2⟩ := cc k c hk
    rw [hconns]
    constructor
    · intro hp
      obtain ⟨y, hy, hyp, hyo⟩ := c1 hp
      by_cases hic : i = c.cur
      · subst hic
        rw [hi] at hy; simp only [Option.some.injEq] at hy; subst hy
        refine ⟨x', getElem?_set_eq' hi, ?_, by rw [how]; exact hyo⟩
        rcases hph with hp' | ⟨hn, _, _, _⟩
        · rw [hp']; exact hyp
        · exact absurd hyp hn
      · exact ⟨y, (by rw [List.getElem?_set]; simp [hic, hy]), hyp, hyo⟩
    · intro hp
      obtain ⟨y, hy, hyp, hyo⟩ := c2 hp
      by_cases hic : i = c.cur
      · subst hic
        rw [hi] at hy; simp only [Option.some.injEq] at hy; subst hy
        refine ⟨x', getElem?_set_eq' hi, ?_, by rw [how]; exact hyo⟩
        rcases hph with hp' | ⟨_, hn, _, _⟩
        · rw [hp']; exact hyp
        · exact absurd hyp hn
      · exact ⟨y, (by rw [List.getElem?_set]; simp [hic, hy]), hyp, hyo⟩
  · intro j y hy
    rw [hconns, List.getElem?_set] at hy
    rw [h2]
    by_cases hij : i = j
    · subst hij
      simp only [hlt, if_true, Option.some.injEq] at hy
      subst hy
      obtain ⟨d1, d2⟩ := d i x hi
      rw [how]
      rcases hph with hp' | ⟨_, _, hn1, hn2⟩
      · rw [hp']; exact ⟨d1, d2⟩
      · exact ⟨fun h => absurd h hn1, fun h => absurd h hn2⟩
    · simp only [hij, if_false] at hy
      exact d j y hy
  · intro j y hy hwy
    rw [hconns, List.getElem?_set] at hy
    rw [h2]
    by_cases hij : i = j
    · subst hij
      simp only [hlt, if_true, Option.some.injEq] at hy
      subst hy
      rw [how]; rw [hw] at hwy; exact e i x hi hwy
    · simp only [hij, if_false] at hy
      exact e j y hy hwy
  · intro k c hk; rw [h2] at hk; exact f k c hk
  · rw [h4]; exact g


theorem getElem?_set_ne' {α} {l : List α} {i j : Nat} {a : α} (h : i ≠ j) : (l.set i a)[j]? = l[j]? := by
  rw [List.getElem?_set]; simp [h]

/-- Accept hands the first waiting connection to call `k` -/
theorem Inv.accept {w w' : World} (h : Inv w) {k i : Nat} {c c' : Call} {x : Conn}
    (hk : w.calls[k]? = some c) (hi : w.conns[i]? = some x) (hx : x.phase = .backlog)
    (hpc : c.pc = .inAccept) (hpc' : c'.pc = .gotConn) (hcur : c'.cur = i) (hwg : c'.wg = c.wg)
    (hconns : w'.conns = w.conns.modify i (fun x => { x with phase := .accepted, owner := k }))
    (hcalls : w'.calls = w.calls.set k c') (h1 : w'.counter = w.counter) (h4 : w'.wgPanic = w.wgPanic) :
    Inv w' := by
  obtain ⟨a, b, cc, d, e, f, g⟩ := h
  have hlt := lt_of_getElem? hk
  have hlti := lt_of_getElem? hi
  rw [modify_eq_set _ hi] at hconns
  constructor
  · rw [h1, hconns, cnt_set cntd _ hi, a]; simp [cntd, hx, inCounter]
  · intro j cj hj
    have hcnt : cnt (ownedWg j) w'.conns = cnt (ownedWg j) w.conns := by
      rw [hconns, cnt_set (ownedWg j) _ hi]; simp [ownedWg, hx, inWg]
    rw [hcnt]
    rw [hcalls, List.getElem?_set] at hj
    by_cases hjk : k = j
    · subst hjk
      simp only [hlt, if_true, Option.some.injEq] at hj
      subst hj; rw [hwg]; exact b k c hk
    · simp only [hjk, if_false] at hj; exact b j cj hj
  · intro j cj hj
    rw [hcalls, List.getElem?_set] at hj
    by_cases hjk : k = j
    · subst hjk
      simp only [hlt, if_true, Option.some.injEq] at hj
      subst hj
      refine ⟨fun _ => ⟨_, (by rw [hconns, hcur]; exact getElem?_set_eq' hi), rfl, rfl⟩, fun hp => ?_⟩
      rw [hpc'] at hp; cases hp
    · simp only [hjk, if_false] at hj
      obtain ⟨c1, c2⟩ := cc j cj hj
      have hne : ∀ y : Conn, w.conns[cj.cur]? = some y → y.phase ≠ .backlog → i ≠ cj.cur := by
        intro y hy hyp hic; subst hic; rw [hi] at hy; simp only [Option.some.injEq] at hy; subst hy; exact hyp hx
      constructor
      · intro hp
        obtain ⟨y, hy, hyp, hyo⟩ := c1 hp
        exact ⟨y, by rw [hconns, getElem?_set_ne' (hne y hy (by simp [hyp]))]; exact hy, hyp, hyo⟩
      · intro hp
        obtain ⟨y, hy, hyp, hyo⟩ := c2 hp
        exact ⟨y, by rw [hconns, getElem?_set_ne' (hne y hy (by simp [hyp]))]; exact hy, hyp, hyo⟩
  · intro j y hy
    rw [hconns, List.getElem?_set] at hy
    rw [hcalls]
    by_cases hij : i = j
    · subst hij
      simp only [hlti, if_true, Option.some.injEq] at hy
      subst hy
      refine ⟨fun _ => ⟨c', getElem?_set_eq' hk, hpc', hcur⟩, fun hp => (by cases hp)⟩
    · simp only [hij, if_false] at hy
      obtain ⟨d1, d2⟩ := d j y hy
      constructor
      · intro hp
        obtain ⟨co, hco, hpco, hcu⟩ := d1 hp
        have : k ≠ y.owner := by
          intro hko; rw [← hko, hk] at hco; simp only [Option.some.injEq] at hco; subst hco
          rw [hpc] at hpco; cases hpco
        exact ⟨co, (by rw [getElem?_set_ne' this]; exact hco), hpco, hcu⟩
      · intro hp
        obtain ⟨co, hco, hpco, hcu⟩ := d2 hp
        have : k ≠ y.owner := by
          intro hko; rw [← hko, hk] at hco; simp only [Option.some.injEq] at hco; subst hco
          rw [hpc] at hpco; cases hpco
        exact ⟨co, (by rw [getElem?_set_ne' this]; exact hco), hpco, hcu⟩
  · intro j y hy hwy
    rw [hconns, List.getElem?_set] at hy
    rw [hcalls, List.length_set]
    by_cases hij : i = j
    · subst hij
      simp only [hlti, if_true, Option.some.injEq] at hy
      subst hy; simp [inWg] at hwy
    · simp only [hij, if_false] at hy; exact e j y hy hwy
  · intro j cj hj hqj
    rw [hcalls, List.getElem?_set] at hj
    by_cases hjk : k = j
    · subst hjk
      simp only [hlt, if_true, Option.some.injEq] at hj
      subst hj; rw [hpc'] at hqj; simp [Pc.quiet] at hqj
    · simp only [hjk, if_false] at hj; exact f j cj hj hqj
  · rw [h4]; exact g

/-- a serving call moves the connection it holds to the next phase and itself to the next program
    counter: `gotConn → counted` (counter + 1) and `counted → loopCheck` (wait group + 1, handler starts) -/
theorem Inv.advance {w w' : World} (h : Inv w) {k i : Nat} {c c' : Call} {x : Conn} {p' : Phase}
    (hk : w.calls[k]? = some c) (hi : w.conns[i]? = some x) (hxo : x.owner = k) (hci : c.cur = i)
    (hcase : (c.pc = .gotConn ∧ x.phase = .accepted ∧ p' = .counted ∧ c'.pc = .counted ∧ c'.cur = i ∧
                c'.wg = c.wg ∧ w'.counter = w.counter + 1) ∨
             (c.pc = .counted ∧ x.phase = .counted ∧ p' = .reading ∧ c'.pc = .loopCheck ∧
                c'.wg = c.wg + 1 ∧ w'.counter = w.counter))
    (hconns : w'.conns = w.conns.modify i (fun x => { x with phase := p' }))
    (hcalls : w'.calls = w.calls.set k c') (h4 : w'.wgPanic = w.wgPanic) : Inv w' := by
  obtain ⟨a, b, cc, d, e, f, g⟩ := h
  have hlt := lt_of_getElem? hk
  have hlti := lt_of_getElem? hi
  rw [modify_eq_set _ hi] at hconns
  -- no other call holds connection i
  have hother : ∀ j cj, w.calls[j]? = some cj → k ≠ j → (cj.pc = .gotConn ∨ cj.pc = .counted) → i ≠ cj.cur := by
    intro j cj hj hkj hp hic
    obtain ⟨c1, c2⟩ := cc j cj hj
    rcases hp with hp | hp
    · obtain ⟨y, hy, _, hyo⟩ := c1 hp
      rw [← hic, hi] at hy; simp only [Option.some.injEq] at hy; subst hy; exact hkj (hxo ▸ hyo)
    · obtain ⟨y, hy, _, hyo⟩ := c2 hp
      rw [← hic, hi] at hy; simp only [Option.some.injEq] at hy; subst hy; exact hkj (hxo ▸ hyo)
  constructor
  · rw [hconns, cnt_set cntd _ hi, ← a]
    rcases hcase with ⟨_, hx, hp, _, _, _, hc⟩ | ⟨_, hx, hp, _, _, hc⟩
    · rw [hc]; simp [cntd, hx, hp, inCounter]
    · rw [hc]; simp [cntd, hx, hp, inCounter]
  · intro j cj hj
    rw [hcalls, List.getElem?_set] at hj
    rw [hconns, cnt_set (ownedWg j) _ hi]
    by_cases hjk : k = j
    · subst hjk
      simp only [hlt, if_true, Option.some.injEq] at hj
      subst hj
      have := b k c hk
      rcases hcase with ⟨_, hx, hp, _, _, hw, _⟩ | ⟨_, hx, hp, _, hw, _⟩
      · rw [hw, this]; simp [ownedWg, hx, hp, inWg]
      · rw [hw]; simp only [ownedWg, hx, hp, inWg, hxo]; simp; omega
    · simp only [hjk, if_false] at hj
      rw [b j cj hj]
      have : (x.owner == j) = false := by simp [hxo, hjk]
      simp [ownedWg, this]
  · intro j cj hj
    rw [hcalls, List.getElem?_set] at hj
    by_cases hjk : k = j
    · subst hjk
      simp only [hlt, if_true, Option.some.injEq] at hj
      subst hj
      rcases hcase with ⟨_, hx, hp, hp', hcu, _, _⟩ | ⟨_, hx, hp, hp', _, _⟩
      · refine ⟨fun h => (by rw [hp'] at h; cases h), fun _ => ⟨{ x with phase := p' }, (by rw [hconns, hcu]; exact getElem?_set_eq' hi), hp, hxo⟩⟩
      · exact ⟨fun h => (by rw [hp'] at h; cases h), fun h => (by rw [hp'] at h; cases h)⟩
    · simp only [hjk, if_false] at hj
      obtain ⟨c1, c2⟩ := cc j cj hj
      constructor
      · intro hp
        obtain ⟨y, hy, hyp, hyo⟩ := c1 hp
        exact ⟨y, (by rw [hconns, getElem?_set_ne' (hother j cj hj hjk (Or.inl hp))]; exact hy), hyp, hyo⟩
      · intro hp
        obtain ⟨y, hy, hyp, hyo⟩ := c2 hp
        exact ⟨y, (by rw [hconns, getElem?_set_ne' (hother j cj hj hjk (Or.inr hp))]; exact hy), hyp, hyo⟩
  · intro j y hy
    rw [hconns, List.getElem?_set] at hy
    rw [hcalls]
    by_cases hij : i = j
    · subst hij
      simp only [hlti, if_true, Option.some.injEq] at hy
      subst hy
      rcases hcase with ⟨_, hx, hp, hp', hcu, _, _⟩ | ⟨_, hx, hp, hp', _, _⟩
      · subst hp
        refine ⟨fun h => (by cases h), fun _ => ⟨c', ?_, hp', hcu⟩⟩
        simp only [hxo]; exact getElem?_set_eq' hk
      · subst hp
        exact ⟨fun h => (by cases h), fun h => (by cases h)⟩
    · simp only [hij, if_false] at hy
      obtain ⟨d1, d2⟩ := d j y hy
      have hne : (y.phase = .accepted ∨ y.phase = .counted) → k ≠ y.owner := by
        intro hyp hko
        have : ∃ co, w.calls[y.owner]? = some co ∧ co.cur = j := by
          rcases hyp with hyp | hyp
          · obtain ⟨co, hco, _, hcu⟩ := d1 hyp; exact ⟨co, hco, hcu⟩
          · obtain ⟨co, hco, _, hcu⟩ := d2 hyp; exact ⟨co, hco, hcu⟩
        obtain ⟨co, hco, hcu⟩ := this
        rw [← hko, hk] at hco; simp only [Option.some.injEq] at hco; subst hco
        exact hij (hci ▸ hcu)
      constructor
      · intro hp
        obtain ⟨co, hco, hpco, hcu⟩ := d1 hp
        exact ⟨co, (by rw [getElem?_set_ne' (hne (Or.inl hp))]; exact hco), hpco, hcu⟩
      · intro hp
        obtain ⟨co, hco, hpco, hcu⟩ := d2 hp
        exact ⟨co, (by rw [getElem?_set_ne' (hne (Or.inr hp))]; exact hco), hpco, hcu⟩
  · intro j y hy hwy
    rw [hconns, List.getElem?_set] at hy
    rw [hcalls, List.length_set]
    by_cases hij : i = j
    · subst hij
      simp only [hlti, if_true, Option.some.injEq] at hy
      subst hy; simp only [hxo]; exact hlt
    · simp only [hij, if_false] at hy; exact e j y hy hwy
  · intro j cj hj hqj
    rw [hcalls, List.getElem?_set] at hj
    by_cases hjk : k = j
    · subst hjk
      simp only [hlt, if_true, Option.some.injEq] at hj
      subst hj
      rcases hcase with ⟨_, _, _, hp', _⟩ | ⟨_, _, _, hp', _⟩ <;> (rw [hp'] at hqj; simp [Pc.quiet] at hqj)
    · simp only [hjk, if_false] at hj; exact f j cj hj hqj
  · rw [h4]; exact g


/-- in a state satisfying the invariant, a handler that has decremented the counter finds its owner's
    wait group positive -/
theorem Inv.owner_wg_pos {w : World} (h : Inv w) {i : Nat} {x : Conn} (hi : w.conns[i]? = some x)
    (hw : inWg x.phase = true) : ∃ co, w.calls[x.owner]? = some co ∧ co.wg ≠ 0 := by
  have hlt := h.ownerOk i x hi hw
  have hco : w.calls[x.owner]? = some w.calls[x.owner] := by simp [hlt]
  refine ⟨_, hco, ?_⟩
  have h1 := h.wgOk _ _ hco
  have h2 := cnt_pos_of_mem (ownedWg x.owner) hi (by simp [ownedWg, hw])
  omega

/-- `wg.Done()` of a finished handler -/
theorem Inv.wgDone {w w' : World} (h : Inv w) {i : Nat} {x : Conn} {co : Call}
    (hi : w.conns[i]? = some x) (hx : x.phase = .decremented) (hco : w.calls[x.owner]? = some co)
    (hconns : w'.conns = w.conns.set i { x with phase := .done })
    (hcalls : w'.calls = w.calls.set x.owner { co with wg := co.wg - 1 })
    (h1 : w'.counter = w.counter) (h4 : w'.wgPanic = w.wgPanic) : Inv w' := by
  have hpos : co.wg ≠ 0 := by
    obtain ⟨co', hco', hne⟩ := h.owner_wg_pos hi (by simp [hx, inWg])
    rw [hco] at hco'; simp only [Option.some.injEq] at hco'; subst hco'; exact hne
  obtain ⟨a, b, cc, d, e, f, g⟩ := h
  have hlt := lt_of_getElem? hco
  have hlti := lt_of_getElem? hi
  constructor
  · rw [h1, hconns, cnt_set cntd _ hi, a]; simp [cntd, hx, inCounter]
  · intro j cj hj
    rw [hcalls, List.getElem?_set] at hj
    rw [hconns, cnt_set (ownedWg j) _ hi]
    by_cases hjk : x.owner = j
    · subst hjk
      simp only [hlt, if_true, Option.some.injEq] at hj
      subst hj
      have := b _ co hco
      simp only [ownedWg, hx, inWg, beq_self_eq_true, Bool.and_self, if_true, Bool.false_and]
      simp; omega
    · simp only [hjk, if_false] at hj
      rw [b j cj hj]
      have : (x.owner == j) = false := by simp [hjk]
      simp [ownedWg, this]
  · intro j cj hj
    rw [hcalls, List.getElem?_set] at hj
    have hcur : ∀ (cj : Call), ((cj.pc = .gotConn → ∃ y : Conn, w.conns[cj.cur]? = some y ∧ y.phase = .accepted ∧ y.owner = j) ∧
        (cj.pc = .counted → ∃ y : Conn, w.conns[cj.cur]? = some y ∧ y.phase = .counted ∧ y.owner = j)) →
        ((cj.pc = .gotConn → ∃ y : Conn, w'.conns[cj.cur]? = some y ∧ y.phase = .accepted ∧ y.owner = j) ∧
        (cj.pc = .counted → ∃ y : Conn, w'.conns[cj.cur]? = some y ∧ y.phase = .counted ∧ y.owner = j)) := by
      intro cj ⟨c1, c2⟩
      have hne : ∀ y : Conn, w.conns[cj.cur]? = some y → y.phase ≠ .decremented → i ≠ cj.cur := by
        intro y hy hyp hic; subst hic; rw [hi] at hy; simp only [Option.some.injEq] at hy; subst hy; exact hyp hx
      constructor
      · intro hp
        obtain ⟨y, hy, hyp, hyo⟩ := c1 hp
        exact ⟨y, (by rw [hconns, getElem?_set_ne' (hne y hy (by simp [hyp]))]; exact hy), hyp, hyo⟩
      · intro hp
        obtain ⟨y, hy, hyp, hyo⟩ := c2 hp
        exact ⟨y, (by rw [hconns, getElem?_set_ne' (hne y hy (by simp [hyp]))]; exact hy), hyp, hyo⟩
    by_cases hjk : x.owner = j
    · subst hjk
      simp only [hlt, if_true, Option.some.injEq] at hj
      subst hj
      exact hcur co (cc _ co hco)
    · simp only [hjk, if_false] at hj
      exact hcur cj (cc j cj hj)
  · intro j y hy
    rw [hconns, List.getElem?_set] at hy
    rw [hcalls]
    by_cases hij : i = j
    · subst hij
      simp only [hlti, if_true, Option.some.injEq] at hy
      subst hy
      exact ⟨fun h => (by cases h), fun h => (by cases h)⟩
    · simp only [hij, if_false] at hy
      obtain ⟨d1, d2⟩ := d j y hy
      have lift : ∀ (P : Call → Prop), (∀ c : Call, P c → P { c with wg := c.wg - 1 }) →
          (∃ c, w.calls[y.owner]? = some c ∧ P c) → ∃ c, (w.calls.set x.owner { co with wg := co.wg - 1 })[y.owner]? = some c ∧ P c := by
        intro P hP ⟨c, hc, hpc⟩
        by_cases hko : x.owner = y.owner
        · rw [← hko] at hc ⊢
          rw [hco] at hc; simp only [Option.some.injEq] at hc; subst hc
          exact ⟨_, getElem?_set_eq' hco, hP _ hpc⟩
        · exact ⟨c, (by rw [getElem?_set_ne' hko]; exact hc), hpc⟩
      constructor
      · intro hp
        exact lift (fun c => c.pc = .gotConn ∧ c.cur = j) (fun c h => h) (d1 hp)
      · intro hp
        exact lift (fun c => c.pc = .counted ∧ c.cur = j) (fun c h => h) (d2 hp)
  · intro j y hy hwy
    rw [hconns, List.getElem?_set] at hy
    rw [hcalls, List.length_set]
    by_cases hij : i = j
    · subst hij
      simp only [hlti, if_true, Option.some.injEq] at hy
      subst hy; simp [inWg] at hwy
    · simp only [hij, if_false] at hy; exact e j y hy hwy
  · intro j cj hj hqj
    rw [hcalls, List.getElem?_set] at hj
    by_cases hjk : x.owner = j
    · subst hjk
      simp only [hlt, if_true, Option.some.injEq] at hj
      subst hj
      have := f _ co hco hqj
      simp [this]
    · simp only [hjk, if_false] at hj; exact f j cj hj hqj
  · rw [h4]; exact g

/-- a client connects: the new connection is not accounted anywhere -/
theorem Inv.connect {w w' : World} (h : Inv w) {x : Conn} (hx : x.phase = .backlog ∨ x.phase = .refused)
    (hconns : w'.conns = w.conns ++ [x]) (h1 : w'.counter = w.counter) (h2 : w'.calls = w.calls)
    (h4 : w'.wgPanic = w.wgPanic) : Inv w' := by
  obtain ⟨a, b, cc, d, e, f, g⟩ := h
  have hc : cntd x = false := by rcases hx with h | h <;> simp [cntd, h, inCounter]
  have hw : inWg x.phase = false := by rcases hx with h | h <;> simp [h, inWg]
  have old : ∀ (i : Nat) (y : Conn), w.conns[i]? = some y → w'.conns[i]? = some y := by
    intro i y hy
    rw [hconns, List.getElem?_append_left (lt_of_getElem? hy)]; exact hy
  have new : ∀ (i : Nat) (y : Conn), w'.conns[i]? = some y → w.conns[i]? = some y ∨ y = x := by
    intro i y hy
    rw [hconns, List.getElem?_append] at hy
    split at hy
    · exact Or.inl hy
    · right
      cases hh : i - w.conns.length with
      | zero => simp [hh] at hy; exact hy.symm
      | succ n => simp [hh] at hy
  constructor
  · rw [h1, hconns, cnt_append_single, a]; simp [hc]
  · intro k c hk
    rw [h2] at hk
    rw [hconns, cnt_append_single, b k c hk]; simp [ownedWg, hw]
  · intro k c hk
    rw [h2] at hk
    obtain ⟨c1, c2⟩ := cc k c hk
    exact ⟨fun hp => (by obtain ⟨y, hy, r⟩ := c1 hp; exact ⟨y, old _ _ hy, r⟩),
           fun hp => (by obtain ⟨y, hy, r⟩ := c2 hp; exact ⟨y, old _ _ hy, r⟩)⟩
  · intro i y hy
    rw [h2]
    rcases new i y hy with hy' | rfl
    · exact d i y hy'
    · rcases hx with h | h <;> simp [h]
  · intro i y hy hwy
    rw [h2]
    rcases new i y hy with hy' | rfl
    · exact e i y hy' hwy
    · rw [hw] at hwy; cases hwy
  · intro k c hk; rw [h2] at hk; exact f k c hk
  · rw [h4]; exact g

/-- a new API call begins -/
theorem Inv.spawn {w w' : World} (h : Inv w) {c0 : Call} (hq : c0.pc.quiet = true) (hwg : c0.wg = 0)
    (hcalls : w'.calls = w.calls ++ [c0]) (h1 : w'.counter = w.counter) (h3 : w'.conns = w.conns)
    (h4 : w'.wgPanic = w.wgPanic) : Inv w' := by
  obtain ⟨a, b, cc, d, e, f, g⟩ := h
  have new : ∀ (k : Nat) (c : Call), w'.calls[k]? = some c → w.calls[k]? = some c ∨ (k = w.calls.length ∧ c = c0) := by
    intro k c hk
    rw [hcalls, List.getElem?_append] at hk
    split at hk
    · exact Or.inl hk
    · right
      cases hh : k - w.calls.length with
      | zero => simp [hh] at hk; exact ⟨by omega, hk.symm⟩
      | succ n => simp [hh] at hk
  have old : ∀ (k : Nat) (c : Call), w.calls[k]? = some c → w'.calls[k]? = some c := by
    intro k c hk
    rw [hcalls, List.getElem?_append_left (lt_of_getElem? hk)]; exact hk
  have hpc : c0.pc ≠ .gotConn ∧ c0.pc ≠ .counted := by
    constructor <;> (intro hp; rw [hp] at hq; simp [Pc.quiet] at hq)
  constructor
  · rw [h1, h3]; exact a
  · intro k c hk
    rw [h3]
    rcases new k c hk with hk' | ⟨rfl, rfl⟩
    · exact b k c hk'
    · rw [hwg]
      -- nobody is owned by an index beyond the calls
      have : cnt (ownedWg w.calls.length) w.conns = 0 := by
        have h0 : ∀ l : List Conn, (∀ (i : Nat) (y : Conn), l[i]? = some y → ownedWg w.calls.length y = false) →
            cnt (ownedWg w.calls.length) l = 0 := by
          intro l
          induction l with
          | nil => intro _; rfl
          | cons y ys ih =>
            intro hall
            rw [cnt_cons, ih (fun i z hz => hall (i + 1) z (by simpa using hz)), hall 0 y (by simp)]
            simp
        apply h0
        intro i y hy
        cases hwy : inWg y.phase with
        | false => simp [ownedWg, hwy]
        | true =>
          have := e i y hy hwy
          have : (y.owner == w.calls.length) = false := by simp; omega
          simp [ownedWg, this]
      rw [this]; rfl
  · intro k c hk
    rw [h3]
    rcases new k c hk with hk' | ⟨rfl, rfl⟩
    · exact cc k c hk'
    · exact ⟨fun hp => absurd hp hpc.1, fun hp => absurd hp hpc.2⟩
  · intro i y hy
    rw [h3] at hy
    obtain ⟨d1, d2⟩ := d i y hy
    exact ⟨fun hp => (by obtain ⟨c, hc, r⟩ := d1 hp; exact ⟨c, old _ _ hc, r⟩),
           fun hp => (by obtain ⟨c, hc, r⟩ := d2 hp; exact ⟨c, old _ _ hc, r⟩)⟩
  · intro i y hy hwy
    rw [h3] at hy
    have := e i y hy hwy
    rw [hcalls, List.length_append]; simp; omega
  · intro k c hk hqc
    rcases new k c hk with hk' | ⟨rfl, rfl⟩
    · exact f k c hk' hqc
    · exact hwg
  · rw [h4]; exact g


theorem teardownShared_spec (w : World) :
    (teardownShared w).counter = w.counter ∧ (teardownShared w).calls = w.calls ∧
    (teardownShared w).wgPanic = w.wgPanic ∧
    ((teardownShared w).conns = w.conns ∨ ∃ l, (teardownShared w).conns = w.conns.map (dropIfWaiting l)) := by
  unfold teardownShared
  cases w.lst with
  | none => simp
  | some f => exact ⟨rfl, rfl, rfl, Or.inr ⟨f, rfl⟩⟩

theorem Inv.teardownShared {w : World} (h : Inv w) : Inv (teardownShared w) := by
  obtain ⟨h1, h2, h4, h3 | ⟨l, h3⟩⟩ := teardownShared_spec w
  · exact h.congr h1 h2 h3 h4
  · exact h.mapDrop l h1 h2 h3 h4

theorem stepShutdown_spec (w : World) :
    (stepShutdown w).counter = w.counter ∧ (stepShutdown w).calls = w.calls ∧
    (stepShutdown w).wgPanic = w.wgPanic ∧
    ((stepShutdown w).conns = w.conns ∨ ∃ l, (stepShutdown w).conns = w.conns.map (dropIfWaiting l)) := by
  unfold stepShutdown
  cases w.lst with
  | none => simp
  | some f => exact ⟨rfl, rfl, rfl, Or.inr ⟨f, rfl⟩⟩

theorem Inv.shutdown {w : World} (h : Inv w) : Inv (stepShutdown w) := by
  obtain ⟨h1, h2, h4, h3 | ⟨l, h3⟩⟩ := stepShutdown_spec w
  · exact h.congr h1 h2 h3 h4
  · exact h.mapDrop l h1 h2 h3 h4

theorem inv_stepCall {w w' : World} {k : Nat} (h : Inv w) (hs : stepCall w k = some w') : Inv w' := by
  unfold stepCall at hs
  cases hk : w.calls[k]? with
  | none => simp [hk] at hs
  | some c =>
    simp only [hk] at hs
    have hz := h.wgZero k c hk
    have hl := h.link k c hk
    cases hpc : c.pc <;> simp only [hpc] at hs hz hl
    case bindCheck =>
      have hw0 : c.wg = 0 := by simpa [Pc.quiet] using hz
      split at hs
      · simp only [Option.some.injEq] at hs; subst hs
        exact h.setCall hk rfl rfl rfl rfl rfl (by simp [hpc]) (fun _ => hw0)
      · cases ha : c.addr with
        | none =>
          simp only [ha, Option.some.injEq] at hs; subst hs
          exact h.setCall hk rfl rfl rfl rfl rfl (by simp [hpc]) (fun _ => hw0)
        | some a =>
          simp only [ha] at hs
          split at hs
          · simp only [Option.some.injEq] at hs; subst hs
            exact h.setCall hk rfl rfl rfl rfl rfl (by simp [hpc]) (fun _ => hw0)
          · cases hkd : c.kind <;> simp only [hkd, Option.some.injEq] at hs <;> subst hs
            all_goals exact h.setCall hk rfl rfl rfl rfl rfl (by simp [hpc]) (fun _ => hw0)
    case readLst =>
      have hw0 : c.wg = 0 := by simpa [Pc.quiet] using hz
      cases hlst : w.lst <;> simp only [hlst, Option.some.injEq] at hs <;> subst hs
      all_goals exact h.setCall hk rfl rfl rfl rfl rfl (by simp [hpc]) (fun _ => hw0)
    case loopCheck =>
      split at hs <;> (simp only [Option.some.injEq] at hs; subst hs)
      · exact h.setCall hk rfl rfl rfl rfl rfl (by cases c.tmo <;> simp [hpc]) (by cases c.tmo <;> simp [Pc.quiet])
      · exact h.setCall hk rfl rfl rfl rfl rfl (by simp [hpc]) (by simp [Pc.quiet])
    case refresh =>
      cases hlst : w.lst with
      | none =>
        simp only [hlst, Option.some.injEq] at hs; subst hs
        exact h.setCall hk rfl rfl rfl rfl rfl (by simp [hpc]) (by simp [Pc.quiet])
      | some f =>
        simp only [hlst] at hs
        split at hs <;> (simp only [Option.some.injEq] at hs; subst hs)
        all_goals exact h.setCall hk rfl rfl rfl rfl rfl (by simp [hpc]) (by simp [Pc.quiet])
    case inAccept =>
      cases hcl : c.l with
      | none =>
        simp only [hcl, Option.some.injEq] at hs; subst hs
        exact h.setCall hk rfl rfl rfl rfl rfl (by simp [hpc]) (by simp [Pc.quiet])
      | some l =>
        simp only [hcl] at hs
        split at hs
        · cases hf : firstIdx (waitsOn l) w.conns with
          | none => simp [hf] at hs
          | some i =>
            simp only [hf, Option.some.injEq] at hs; subst hs
            obtain ⟨x, hx, hwx⟩ := firstIdx_some _ hf
            simp only [waitsOn, Bool.and_eq_true, beq_iff_eq] at hwx
            exact h.accept (c' := { c with pc := .gotConn, cur := i, lastAcc := .conn, l := some l }) hk hx hwx.1 hpc rfl rfl rfl rfl rfl rfl rfl
        · simp only [Option.some.injEq] at hs; subst hs
          exact h.setCall hk rfl rfl rfl rfl rfl (by simp [hpc]) (by simp [Pc.quiet])
    case gotConn =>
      simp only [Option.some.injEq] at hs; subst hs
      obtain ⟨x, hx, hxp, hxo⟩ := hl.1 trivial
      exact h.advance (p' := .counted) (c' := { c with pc := .counted }) hk hx hxo rfl (Or.inl ⟨hpc, hxp, rfl, rfl, rfl, rfl, rfl⟩) rfl rfl rfl
    case counted =>
      simp only [Option.some.injEq] at hs; subst hs
      obtain ⟨x, hx, hxp, hxo⟩ := hl.2 trivial
      exact h.advance (p' := .reading) (c' := { c with pc := .loopCheck, wg := c.wg + 1 }) hk hx hxo rfl (Or.inr ⟨hpc, hxp, rfl, rfl, rfl, rfl⟩) rfl rfl rfl
    case errTimeout =>
      split at hs <;> (simp only [Option.some.injEq] at hs; subst hs)
      all_goals exact h.setCall hk rfl rfl rfl rfl rfl (by simp [hpc]) (by simp [Pc.quiet])
    case errOther =>
      split at hs <;> (simp only [Option.some.injEq] at hs; subst hs)
      all_goals exact h.setCall hk rfl rfl rfl rfl rfl (by simp [hpc]) (by simp [Pc.quiet])
    case teardown =>
      simp only [Option.some.injEq] at hs; subst hs
      have ht := h.teardownShared
      have hk' : (teardownShared w).calls[k]? = some c := by rw [(teardownShared_spec w).2.1]; exact hk
      exact ht.setCall hk' rfl rfl rfl rfl rfl (by simp [hpc]) (by simp [Pc.quiet])
    case waiting =>
      split at hs
      · simp only [Option.some.injEq] at hs; subst hs
        rename_i hwg
        exact h.setCall hk rfl rfl rfl rfl rfl (by simp [hpc]) (fun _ => hwg)
      · simp at hs
    case returned => simp at hs


theorem inv_stepHandler {w w' : World} {i : Nat} (h : Inv w) (hs : stepHandler w i = some w') : Inv w' := by
  unfold stepHandler at hs
  cases hi : w.conns[i]? with
  | none => simp [hi] at hs
  | some x =>
    simp only [hi] at hs
    cases hp : x.phase <;> simp only [hp] at hs
    case reading =>
      split at hs
      · simp only [Option.some.injEq] at hs; subst hs
        exact h.setConn hi rfl (by simp [hp, inCounter]) rfl rfl rfl (by simp [hp, inWg]) (by simp [hp])
      · split at hs
        · simp only [Option.some.injEq] at hs; subst hs
          exact h.setConn hi rfl (by simp [hp, inCounter]) rfl rfl rfl (by simp [hp, inWg]) (by simp [hp])
        · simp at hs
    case dispatching =>
      simp only [Option.some.injEq] at hs; subst hs
      exact h.setConn hi rfl (by simp [hp, inCounter]) rfl rfl rfl (by simp [hp, inWg]) (by simp [hp])
    case closing =>
      simp only [Option.some.injEq] at hs; subst hs
      exact h.setConn hi rfl (by simp [hp, inCounter]) rfl rfl rfl (by simp [hp, inWg]) (by simp [hp])
    case closed =>
      simp only [Option.some.injEq] at hs; subst hs
      exact h.setConn hi rfl (by simp [hp, inCounter]) rfl rfl rfl (by simp [hp, inWg]) (by simp [hp])
    case decremented =>
      obtain ⟨co, hco, hne⟩ := h.owner_wg_pos hi (by simp [hp, inWg])
      simp only [hco, hne, if_false, Option.some.injEq] at hs; subst hs
      exact h.wgDone hi hp hco rfl rfl rfl rfl
    all_goals simp at hs

theorem inv_step {w w' : World} {a : Label} (h : Inv w) (hs : step w a = some w') : Inv w' := by
  cases a with
  | spawn kind tmo addr =>
    simp only [step, Option.some.injEq] at hs; subst hs
    exact h.spawn (c0 := { kind, tmo, addr, pc := firstPc kind }) (by cases kind <;> rfl) rfl rfl rfl rfl rfl
  | call k => exact inv_stepCall h hs
  | expire k =>
    simp only [step, stepExpire] at hs
    cases hk : w.calls[k]? with
    | none => simp [hk] at hs
    | some c =>
      simp only [hk] at hs
      split at hs
      · split at hs
        · simp only [Option.some.injEq] at hs; subst hs
          rename_i hpc _ _
          exact h.setCall hk rfl rfl rfl rfl rfl (by simp [hpc]) (by simp [Pc.quiet])
        · simp at hs
      · simp at hs
  | handler i => exact inv_stepHandler h hs
  | handlerFails i =>
    simp only [step, stepHandlerFails] at hs
    cases hi : w.conns[i]? with
    | none => simp [hi] at hs
    | some x =>
      simp only [hi] at hs
      split at hs
      · simp only [Option.some.injEq] at hs; subst hs
        rename_i hp
        exact h.setConn hi rfl (by simp [hp, inCounter]) rfl rfl rfl (by simp [hp, inWg]) (by simp [hp])
      · simp at hs
  | ctxEnd i =>
    simp only [step, stepCtxEnd] at hs
    cases hi : w.conns[i]? with
    | none => simp [hi] at hs
    | some x =>
      simp only [hi] at hs
      split at hs
      · simp only [Option.some.injEq] at hs; subst hs
        rename_i hp
        exact h.setConn hi rfl (by simp [hp.1, inCounter]) rfl rfl rfl (by simp [hp.1, inWg]) (by simp [hp.1])
      · simp at hs
  | clientConnect l =>
    simp only [step, stepConnect] at hs
    split at hs
    · simp only [Option.some.injEq] at hs; subst hs
      exact h.connect (x := { lsn := l, phase := if isOpen w l then .backlog else .refused })
        (by cases isOpen w l <;> simp) rfl rfl rfl rfl
    · simp at hs
  | clientCall i =>
    simp only [step, stepClientCall] at hs
    cases hi : w.conns[i]? with
    | none => simp [hi] at hs
    | some x =>
      simp only [hi] at hs
      split at hs
      · simp only [Option.some.injEq] at hs; subst hs
        exact h.setConn hi rfl (by by_cases hh : inCounter x.phase = true <;> simp [hh]) rfl rfl rfl rfl (Or.inl rfl)
      · simp at hs
  | clientClose i =>
    simp only [step, stepClientEnd] at hs
    cases hi : w.conns[i]? with
    | none => simp [hi] at hs
    | some x =>
      simp only [hi] at hs
      split at hs
      · simp only [Option.some.injEq] at hs; subst hs
        exact h.setConn hi rfl (by by_cases hh : inCounter x.phase = true <;> simp [hh]) rfl rfl rfl rfl (Or.inl rfl)
      · simp at hs
  | clientAbort i =>
    simp only [step, stepClientEnd] at hs
    cases hi : w.conns[i]? with
    | none => simp [hi] at hs
    | some x =>
      simp only [hi] at hs
      split at hs
      · simp only [Option.some.injEq] at hs; subst hs
        exact h.setConn hi rfl (by by_cases hh : inCounter x.phase = true <;> simp [hh]) rfl rfl rfl rfl (Or.inl rfl)
      · simp at hs
  | ctxCancel k =>
    simp only [step, stepCtxCancel] at hs
    cases hk : w.calls[k]? with
    | none => simp [hk] at hs
    | some c =>
      simp only [hk, Option.some.injEq] at hs; subst hs
      exact h.setCall hk rfl rfl rfl rfl rfl (Or.inl ⟨rfl, rfl⟩) (fun hq => h.wgZero k c hk hq)
  | shutdown =>
    simp only [step, Option.some.injEq] at hs; subst hs
    exact h.shutdown
  | getListener => simp only [step, Option.some.injEq] at hs; subst hs; exact h
  | register => simp only [step, Option.some.injEq] at hs; subst hs; exact h

/-- the accounting invariant holds in every reachable state, whatever the discipline -/
theorem inv_reach {P : World → Label → Prop} {w0 w : World} (h0 : Inv w0) (h : Reach P w0 w) : Inv w :=
  Reach.induct Inv h0 (fun _ _ _ _ hi _ hs => inv_step hi hs) h

theorem inv_reachable {w : World} (h : Reachable w) : Inv w := inv_reach inv_init h

end Varlink.Life
