/-
  Lemmas for C16, ctxio part: programs of ANY number of successive ctxio operations obey the discipline.

  1. `Blk` / `blkProg`: a generic family of programs — thread 0 is a concatenation of caller blocks
     `A ; spawn (i+1) ; B ; recv i ; C` (A, B, C plain accesses), thread i+1 is `H ; send i`, and no
     access of `B` conflicts with an access of `H`.  `blkProg_wf`, `blkProg_disciplined`: every such
     program, of any length, is well formed and disciplined.
  2. `CxShape`: the (decidable) shape of one extracted operation skeleton and select arm under which
     `callerOp` / the helper are such a block (`cxProgram_eq_blkProg`).  The shape is checked once,
     by kernel evaluation, for the six (operation, arm) pairs in `Props/C16.lean`.
-/
import Varlink.Race
import VarlinkProofs.Lemmas.Race
namespace Varlink.Race

section Generic
variable {F : Type} [DecidableEq F]
set_option linter.unusedSectionVars false

/-! ### points and splits of the code -/

/-- a point of `l` splits `l` at the statement it belongs to -/
theorem pointsFrom_split {b l : List (Stmt F)} {p : Point F} (h : p ∈ pointsFrom b l) :
    ∃ m x r, p.before = b ++ m ∧ l = m ++ x :: r ∧ p.after = x :: r ∧ PointOf x p := by
  induction l generalizing b with
  | nil => simp [pointsFrom] at h
  | cons y r ih =>
    have next : p ∈ pointsFrom (b ++ [y]) r →
        ∃ m x r', p.before = b ++ m ∧ y :: r = m ++ x :: r' ∧ p.after = x :: r' ∧ PointOf x p := by
      intro h'
      obtain ⟨m, x, r', h1, h2, h3, h4⟩ := ih h'
      exact ⟨y :: m, x, r', by simp [h1], by simp [h2], h3, h4⟩
    cases y with
    | acc f k =>
      simp only [pointsFrom, List.mem_cons] at h
      rcases h with h | h
      · subst h; exact ⟨[], _, r, by simp, by simp, rfl, Or.inl ⟨rfl, rfl⟩⟩
      · exact next h
    | locked body =>
      simp only [pointsFrom, List.mem_append, List.mem_map] at h
      rcases h with ⟨a, ha, h⟩ | h
      · subst h; exact ⟨[], _, r, by simp, by simp, rfl, Or.inr ⟨body, rfl, ha, rfl⟩⟩
      · exact next h
    | spawn u => exact next (by simpa [pointsFrom] using h)
    | join u => exact next (by simpa [pointsFrom] using h)
    | send c => exact next (by simpa [pointsFrom] using h)
    | recv c => exact next (by simpa [pointsFrom] using h)

theorem points_split {l : List (Stmt F)} {p : Point F} (h : p ∈ points l) :
    ∃ x r, l = p.before ++ x :: r ∧ p.after = x :: r ∧ PointOf x p := by
  obtain ⟨m, x, r, h1, h2, h3, h4⟩ := pointsFrom_split h
  simp only [List.nil_append] at h1
  exact ⟨x, r, by rw [h1]; exact h2, h3, h4⟩

/-- two ways of splitting one list at two different elements: one element lies before the other -/
theorem split_cases {α : Type} {m r M1 M2 : List α} {x y : α} (h : m ++ x :: r = M1 ++ y :: M2) (hxy : x ≠ y) :
    (∃ a, M1 = m ++ x :: a ∧ r = a ++ y :: M2) ∨ (∃ c, m = M1 ++ y :: c ∧ M2 = c ++ x :: r) := by
  rcases List.append_eq_append_iff.mp h with ⟨a', h1, h2⟩ | ⟨c', h1, h2⟩
  · cases a' with
    | nil => simp at h2; exact absurd h2.1 hxy
    | cons z a =>
      simp only [List.cons_append, List.cons.injEq] at h2
      left; exact ⟨a, by rw [h1, h2.1], h2.2⟩
  · cases c' with
    | nil => simp at h2; exact absurd h2.1.symm hxy
    | cons z c =>
      simp only [List.cons_append, List.cons.injEq] at h2
      right; exact ⟨c, by rw [h1, h2.1], h2.2⟩

theorem conflict_comm (a b : Acc F) : conflict a b = conflict b a := by
  simp only [conflict]
  rw [Bool.or_comm]
  congr 1
  exact decide_eq_decide.mpr ⟨Eq.symm, Eq.symm⟩

theorem recvChans_append (l1 l2 : List (Stmt F)) : recvChans (l1 ++ l2) = recvChans l1 ++ recvChans l2 := by
  induction l1 with
  | nil => simp [recvChans]
  | cons x r ih => cases x <;> simp [recvChans, ih]

/-! ### block programs -/

/-- one operation: the caller's accesses before the spawn (`A`), between spawn and receive (`B`), after
    the receive (`C`); the helper's accesses (`H`), all before its one send -/
structure Blk (F : Type) where
  A : List (Acc F)
  B : List (Acc F)
  C : List (Acc F)
  H : List (Acc F)

/-- plain (unprotected) accesses as statements -/
def accS (l : List (Acc F)) : List (Stmt F) := l.map fun a => .acc a.1 a.2

def Blk.caller (b : Blk F) (c : Nat) (h : Nat) : List (Stmt F) :=
  accS b.A ++ .spawn h :: (accS b.B ++ .recv c :: accS b.C)

def Blk.helper (b : Blk F) (c : Nat) : List (Stmt F) := accS b.H ++ [.send c]

/-- while the helper may run, the caller touches nothing the helper touches -/
def Blk.ok (b : Blk F) : Prop := ∀ x ∈ b.B, ∀ y ∈ b.H, conflict x y = false

instance (b : Blk F) : Decidable b.ok := by unfold Blk.ok; infer_instance

/-- the caller thread: block k, k+1, … one after the other; block i uses channel i and helper i+1 -/
def callerFrom (k : Nat) : List (Blk F) → List (Stmt F)
  | [] => []
  | b :: r => b.caller k (k + 1) ++ callerFrom (k + 1) r

def helpersFrom (k : Nat) : List (Blk F) → Prog F
  | [] => []
  | b :: r => b.helper k :: helpersFrom (k + 1) r

def blkProg (bs : List (Blk F)) : Prog F := callerFrom 0 bs :: helpersFrom 0 bs

theorem mem_accS {x : Stmt F} {l : List (Acc F)} : x ∈ accS l ↔ ∃ a ∈ l, x = .acc a.1 a.2 := by
  simp only [accS, List.mem_map]
  constructor
  · rintro ⟨a, h1, h2⟩; exact ⟨a, h1, h2.symm⟩
  · rintro ⟨a, h1, h2⟩; exact ⟨a, h1, h2.symm⟩

theorem spawn_not_mem_accS (u : Nat) (l : List (Acc F)) : Stmt.spawn u ∉ accS l := by
  intro h; obtain ⟨a, _, e⟩ := mem_accS.mp h; cases e
theorem send_not_mem_accS (c : Nat) (l : List (Acc F)) : Stmt.send c ∉ accS l := by
  intro h; obtain ⟨a, _, e⟩ := mem_accS.mp h; cases e
theorem recv_not_mem_accS (c : Nat) (l : List (Acc F)) : Stmt.recv c ∉ accS l := by
  intro h; obtain ⟨a, _, e⟩ := mem_accS.mp h; cases e

theorem spawn_mem_caller {b : Blk F} {c : Nat} {h u : Nat} : Stmt.spawn u ∈ b.caller c h ↔ u = h := by
  simp [Blk.caller, spawn_not_mem_accS]
theorem recv_mem_caller (b : Blk F) (c : Nat) (h : Nat) : Stmt.recv c ∈ b.caller c h := by
  simp [Blk.caller]
theorem send_not_mem_caller (b : Blk F) (c c' : Nat) (h : Nat) : Stmt.send c' ∉ b.caller c h := by
  simp [Blk.caller, send_not_mem_accS]
theorem spawn_not_mem_helper (b : Blk F) (c : Nat) (u : Nat) : Stmt.spawn u ∉ b.helper c := by
  simp [Blk.helper, spawn_not_mem_accS]
theorem send_mem_helper {b : Blk F} {c c' : Nat} : Stmt.send c' ∈ b.helper c ↔ c' = c := by
  simp [Blk.helper, send_not_mem_accS]

theorem mem_callerFrom {x : Stmt F} {k : Nat} {bs : List (Blk F)} (h : x ∈ callerFrom k bs) :
    ∃ (j : Nat) (b : Blk F), bs[j]? = some b ∧ x ∈ b.caller (k + j) (k + j + 1) := by
  induction bs generalizing k with
  | nil => simp [callerFrom] at h
  | cons b r ih =>
    simp only [callerFrom, List.mem_append] at h
    rcases h with h | h
    · exact ⟨0, b, by simp, by simpa using h⟩
    · obtain ⟨j, b', h1, h2⟩ := ih h
      refine ⟨j + 1, b', by simpa using h1, ?_⟩
      have e : k + (j + 1) = k + 1 + j := by omega
      rw [e]; exact h2

theorem callerFrom_split {k j : Nat} {bs : List (Blk F)} {b : Blk F} (h : bs[j]? = some b) :
    ∃ pre post, callerFrom k bs = pre ++ b.caller (k + j) (k + j + 1) ++ post := by
  induction bs generalizing k j with
  | nil => simp at h
  | cons b0 r ih =>
    cases j with
    | zero =>
      simp at h; subst h
      exact ⟨[], callerFrom (k + 1) r, by simp [callerFrom]⟩
    | succ j =>
      simp at h
      obtain ⟨pre, post, e⟩ := ih (k := k + 1) h
      refine ⟨b0.caller k (k + 1) ++ pre, post, ?_⟩
      have e' : k + (j + 1) = k + 1 + j := by omega
      rw [callerFrom, e, e']; simp

theorem send_not_mem_callerFrom (c : Nat) (k : Nat) (bs : List (Blk F)) : Stmt.send c ∉ callerFrom k bs := by
  intro h
  obtain ⟨j, b, _, h2⟩ := mem_callerFrom h
  exact send_not_mem_caller _ _ _ _ h2

theorem spawn_mem_callerFrom {u k : Nat} {bs : List (Blk F)} (h : Stmt.spawn u ∈ callerFrom k bs) :
    k < u ∧ u ≤ k + bs.length := by
  obtain ⟨j, b, h1, h2⟩ := mem_callerFrom h
  have := spawn_mem_caller.mp h2
  have hj : j < bs.length := by
    apply Classical.byContradiction; intro hn
    rw [List.getElem?_eq_none (Nat.le_of_not_lt hn)] at h1; cases h1
  omega

theorem count_spawn_callerFrom (u k : Nat) (bs : List (Blk F)) : (callerFrom k bs).count (.spawn u) ≤ 1 := by
  induction bs generalizing k with
  | nil => simp [callerFrom]
  | cons b r ih =>
    rw [callerFrom, List.count_append]
    by_cases hu : u = k + 1
    · have : (callerFrom (k + 1) r).count (.spawn u) = 0 := by
        apply List.count_eq_zero.mpr
        intro h
        have := spawn_mem_callerFrom h
        omega
      rw [this]
      have h1 : (accS b.A).count (Stmt.spawn u) = 0 := List.count_eq_zero.mpr (spawn_not_mem_accS _ _)
      have h2 : (accS b.B).count (Stmt.spawn u) = 0 := List.count_eq_zero.mpr (spawn_not_mem_accS _ _)
      have h3 : (accS b.C).count (Stmt.spawn u) = 0 := List.count_eq_zero.mpr (spawn_not_mem_accS _ _)
      subst hu
      simp [Blk.caller, List.count_append, h1, h2, h3]
    · have : (b.caller k (k + 1)).count (.spawn u) = 0 := by
        apply List.count_eq_zero.mpr
        intro h
        exact hu (spawn_mem_caller.mp h)
      rw [this]
      have := ih (k + 1)
      omega

theorem helpersFrom_length (k : Nat) (bs : List (Blk F)) : (helpersFrom k bs).length = bs.length := by
  induction bs generalizing k with
  | nil => rfl
  | cons b r ih => simp [helpersFrom, ih]

theorem helpersFrom_getElem? (k j : Nat) (bs : List (Blk F)) :
    (helpersFrom k bs)[j]? = bs[j]?.map (fun b => b.helper (k + j)) := by
  induction bs generalizing k j with
  | nil => simp [helpersFrom]
  | cons b r ih =>
    cases j with
    | zero => simp [helpersFrom]
    | succ j =>
      have e : k + (j + 1) = k + 1 + j := by omega
      simp [helpersFrom, ih, e]

theorem code_blkProg_zero (bs : List (Blk F)) : code (blkProg bs) 0 = callerFrom 0 bs := by
  simp [code, blkProg]

theorem code_blkProg_succ (bs : List (Blk F)) (j : Nat) :
    code (blkProg bs) (j + 1) = (bs[j]?.map (fun b => b.helper j)).getD [] := by
  simp [code, blkProg, List.getD, helpersFrom_getElem?]

theorem code_blkProg_helper {bs : List (Blk F)} {j : Nat} {b : Blk F} (h : bs[j]? = some b) :
    code (blkProg bs) (j + 1) = b.helper j := by
  simp [code_blkProg_succ, h]

theorem mem_tids_blkProg {bs : List (Blk F)} {t : Nat} : t ∈ tids (blkProg bs) ↔ t < bs.length + 1 := by
  simp [tids, blkProg, helpersFrom_length]

theorem tid_cases {bs : List (Blk F)} {t : Nat} (h : t ∈ tids (blkProg bs)) :
    t = 0 ∨ ∃ (j : Nat) (b : Blk F), t = j + 1 ∧ bs[j]? = some b := by
  have := mem_tids_blkProg.mp h
  cases t with
  | zero => exact Or.inl rfl
  | succ j =>
    right
    have hj : j < bs.length := by omega
    exact ⟨j, bs[j], rfl, by simp [hj]⟩

theorem no_spawn_in_helpers {bs : List (Blk F)} {u j : Nat} : Stmt.spawn u ∉ code (blkProg bs) (j + 1) := by
  rw [code_blkProg_succ]
  cases h : bs[j]? with
  | none => simp
  | some b => simpa using spawn_not_mem_helper b j u

/-- every block program is well formed: helper i+1 is spawned only by thread 0, once -/
theorem blkProg_wf (bs : List (Blk F)) : WF (blkProg bs) := by
  intro u _
  refine ⟨0, mem_tids_blkProg.mpr (by omega), ?_, ?_⟩
  · intro t _ hm
    cases t with
    | zero => rfl
    | succ j => exact absurd hm no_spawn_in_helpers
  · rw [code_blkProg_zero]; exact count_spawn_callerFrom u 0 bs

/-- the send of helper i occurs only there, once -/
theorem sole_send {bs : List (Blk F)} {i : Nat} {b : Blk F} (h : bs[i]? = some b) :
    SoleOcc (blkProg bs) (.send i) (i + 1) := by
  constructor
  · intro t _ hm
    cases t with
    | zero => rw [code_blkProg_zero] at hm; exact absurd hm (send_not_mem_callerFrom _ _ _)
    | succ j =>
      rw [code_blkProg_succ] at hm
      cases hj : bs[j]? with
      | none => simp [hj] at hm
      | some b' =>
        simp only [hj, Option.map_some, Option.getD_some] at hm
        rw [send_mem_helper.mp hm]
  · rw [code_blkProg_helper h]
    have h1 : (accS b.H).count (Stmt.send i) = 0 := List.count_eq_zero.mpr (send_not_mem_accS _ _)
    simp [Blk.helper, List.count_append, h1]

/-- every point of a helper has the helper's send still ahead, and its access is one of `H` -/
theorem helper_point {b : Blk F} {c : Nat} {p : Point F} (h : p ∈ points (b.helper c)) :
    Stmt.send c ∈ p.after ∧ p.acc ∈ b.H := by
  obtain ⟨x, r, h1, h2, h3⟩ := points_split h
  have hx : x ≠ Stmt.send c := by
    rcases h3 with ⟨e, _⟩ | ⟨body, e, _, _⟩ <;> (rw [e]; intro h; cases h)
  unfold Blk.helper at h1
  rcases split_cases h1.symm hx with ⟨a, e1, e2⟩ | ⟨c', _, e2⟩
  · constructor
    · rw [h2, e2]; simp
    · have hm : x ∈ accS b.H := by rw [e1]; simp
      obtain ⟨a', ha', e⟩ := mem_accS.mp hm
      rcases h3 with ⟨e', _⟩ | ⟨body, e', _, _⟩
      · rw [e'] at e
        have := Stmt.acc.inj e
        rw [show p.acc = a' from Prod.ext this.1 this.2]; exact ha'
      · rw [e'] at e; cases e
  · simp at e2

/-- a point of the caller thread, against block i: the spawn of helper i+1 is still ahead, or the
    receive on channel i is done, or the access is one of the block's `B` accesses -/
theorem caller_point {bs : List (Blk F)} {i : Nat} {b : Blk F} (hb : bs[i]? = some b) {p : Point F}
    (h : p ∈ points (callerFrom 0 bs)) :
    Stmt.spawn (i + 1) ∈ p.after ∨ i ∈ recvChans p.before ∨ p.acc ∈ b.B := by
  obtain ⟨x, r, h1, h2, h3⟩ := points_split h
  obtain ⟨pre, post, e⟩ := callerFrom_split (k := 0) hb
  simp only [Nat.zero_add] at e
  rw [e] at h1
  have hx1 : x ≠ Stmt.spawn (i + 1) := by
    rcases h3 with ⟨e, _⟩ | ⟨body, e, _, _⟩ <;> (rw [e]; intro h; cases h)
  have hx2 : x ≠ Stmt.recv i := by
    rcases h3 with ⟨e, _⟩ | ⟨body, e, _, _⟩ <;> (rw [e]; intro h; cases h)
  have h1' : p.before ++ x :: r =
      (pre ++ accS b.A) ++ Stmt.spawn (i + 1) :: (accS b.B ++ Stmt.recv i :: (accS b.C ++ post)) := by
    rw [← h1]; simp [Blk.caller]
  rcases split_cases h1' hx1 with ⟨a, _, e2⟩ | ⟨m', e1, e2⟩
  · left; rw [h2, e2]; simp
  · right
    rcases split_cases e2.symm hx2 with ⟨a, e3, _⟩ | ⟨c', e3, _⟩
    · right
      have hm : x ∈ accS b.B := by rw [e3]; simp
      obtain ⟨a', ha', e⟩ := mem_accS.mp hm
      rcases h3 with ⟨e', _⟩ | ⟨body, e', _, _⟩
      · rw [e'] at e
        have := Stmt.acc.inj e
        rw [show p.acc = a' from Prod.ext this.1 this.2]; exact ha'
      · rw [e'] at e; cases e
    · left
      rw [mem_recvChans, e1, e3]; simp

/-- helper j+1 is spawned after the caller received on the channel of every earlier block -/
theorem recv_before_later_spawn (bs : List (Blk F)) : ∀ (k i j : Nat), i < j → j < bs.length →
    ∀ (c : Nat) (u : Nat), c = k + i → u = k + j + 1 →
    c ∈ recvChans (beforeSpawn (callerFrom k bs) u) := by
  induction bs with
  | nil => intro k i j _ hj; simp at hj
  | cons b r ih =>
    intro k i j hij hj c u hc hu
    have hns : ∀ x ∈ b.caller k (k + 1), (decide (x ≠ Stmt.spawn u)) = true := by
      intro x hx
      simp only [decide_eq_true_eq]
      intro e; subst e
      have := spawn_mem_caller.mp hx
      omega
    unfold beforeSpawn
    rw [callerFrom, List.takeWhile_append_of_pos hns, recvChans_append, List.mem_append]
    cases i with
    | zero =>
      left
      have hck : c = k := by omega
      rw [hck]
      exact mem_recvChans.mpr (recv_mem_caller b k (k + 1))
    | succ i =>
      right
      cases j with
      | zero => omega
      | succ j =>
        exact ih (k + 1) i j (by omega) (by simpa using hj) c u (by omega) (by omega)

/-- caller against helper i: ordered by the later spawn or by the receive on channel i -/
theorem caller_helper_ordered {bs : List (Blk F)} {i : Nat} {b : Blk F} (hb : bs[i]? = some b) (hok : b.ok)
    {p0 ph : Point F} (h0 : p0 ∈ points (callerFrom 0 bs)) (hh : ph ∈ points (b.helper i))
    (hc : conflict p0.acc ph.acc = true) : Ordered (blkProg bs) 0 p0 (i + 1) ph := by
  obtain ⟨hs, hH⟩ := helper_point hh
  rcases caller_point hb h0 with h | h | h
  · exact Or.inl h
  · exact Or.inr (Or.inr (Or.inl ⟨i, h, hs, sole_send hb⟩))
  · have := hok _ h _ hH
    rw [this] at hc; cases hc

/-- helper i against a later helper j: the later one was spawned after the caller received on channel i -/
theorem helper_helper_ordered {bs : List (Blk F)} {i j : Nat} {bi bj : Blk F} (hij : i < j)
    (hbi : bs[i]? = some bi) (hbj : bs[j]? = some bj) {pi pj : Point F}
    (hpi : pi ∈ points (bi.helper i)) : Ordered (blkProg bs) (j + 1) pj (i + 1) pi := by
  have hj : j < bs.length := by
    apply Classical.byContradiction; intro hn
    rw [List.getElem?_eq_none (Nat.le_of_not_lt hn)] at hbj; cases hbj
  refine Or.inr (Or.inr (Or.inr ⟨0, mem_tids_blkProg.mpr (by omega), ?_, i, ?_, (helper_point hpi).1, sole_send hbi⟩))
  · rw [code_blkProg_zero]
    obtain ⟨pre, post, e⟩ := callerFrom_split (k := 0) hbj
    rw [e]
    simp [Blk.caller]
  · rw [code_blkProg_zero]
    exact recv_before_later_spawn bs 0 i j hij hj i (j + 1) (by omega) (by omega)

/-- **every block program obeys the discipline**, whatever the number of blocks -/
theorem blkProg_disciplined (bs : List (Blk F)) (hok : ∀ b ∈ bs, b.ok) : Disciplined (blkProg bs) := by
  intro t ht u hu htu pt hpt pu hpu hc
  right
  rcases tid_cases ht with rfl | ⟨i, bi, rfl, hbi⟩
  · rcases tid_cases hu with rfl | ⟨j, bj, rfl, hbj⟩
    · exact absurd rfl htu
    · rw [code_blkProg_zero] at hpt
      rw [code_blkProg_helper hbj] at hpu
      exact Or.inl (caller_helper_ordered hbj (hok _ (List.mem_of_getElem? hbj)) hpt hpu hc)
  · rw [code_blkProg_helper hbi] at hpt
    rcases tid_cases hu with rfl | ⟨j, bj, rfl, hbj⟩
    · rw [code_blkProg_zero] at hpu
      rw [conflict_comm] at hc
      exact Or.inr (caller_helper_ordered hbi (hok _ (List.mem_of_getElem? hbi)) hpu hpt hc)
    · rw [code_blkProg_helper hbj] at hpu
      have hne : i ≠ j := fun e => htu (by rw [e])
      rcases Nat.lt_or_gt_of_ne hne with hlt | hgt
      · exact Or.inr (helper_helper_ordered hlt hbi hbj hpt)
      · exact Or.inl (helper_helper_ordered hgt hbj hbi hpu)

end Generic

/-! ### the ctxio operations are blocks -/
open Varlink.Extracted

/-- the access a skeleton step contributes (as in `cxStmt`) -/
def stepAcc : CxStep → Option (Acc CxObj)
  | .use obj _ => (cxObjOf obj).map fun o => (o, Kind.write)
  | _ => none

def cxAccs (l : List CxStep) : List (Acc CxObj) := l.filterMap stepAcc

def isSyncStep : CxStep → Bool
  | .spawn | .send | .recv => true
  | _ => false

/-- no goroutine start and no channel operation among the steps -/
def noSync (l : List CxStep) : Bool := l.all fun s => !isSyncStep s

theorem cxStmts_append (c : Nat) (h : Nat) (l1 l2 : List CxStep) :
    cxStmts c h (l1 ++ l2) = cxStmts c h l1 ++ cxStmts c h l2 := by
  simp [cxStmts]

theorem cxStmts_noSync (c : Nat) (h : Nat) (l : List CxStep) (hl : noSync l = true) :
    cxStmts c h l = accS (cxAccs l) := by
  induction l with
  | nil => rfl
  | cons s r ih =>
    simp only [noSync, List.all_cons, Bool.and_eq_true] at hl
    have ih' := ih (by simpa [noSync] using hl.2)
    have e : cxStmts c h (s :: r) = cxStmt c h s ++ cxStmts c h r := by simp [cxStmts]
    rw [e, ih']
    cases s with
    | use obj m =>
      cases ho : cxObjOf obj <;> simp [cxStmt, ho, cxAccs, stepAcc, accS]
    | spawn => simp [isSyncStep] at hl
    | send => simp [isSyncStep] at hl
    | recv => simp [isSyncStep] at hl
    | deadline a b => simp [cxStmt, cxAccs, List.filterMap_cons, stepAcc, accS]
    | exitIfErr => simp [cxStmt, cxAccs, List.filterMap_cons, stepAcc, accS]
    | mkchan n => simp [cxStmt, cxAccs, List.filterMap_cons, stepAcc, accS]
    | ret w => simp [cxStmt, cxAccs, List.filterMap_cons, stepAcc, accS]

/-- the select arm up to its receive / behind it -/
def armBefore (o : CxOp × Arm) : List CxStep := (armSteps o.1 o.2).takeWhile (fun s => s ≠ .recv)
def armAfter (o : CxOp × Arm) : List CxStep := ((armSteps o.1 o.2).dropWhile (fun s => s ≠ .recv)).drop 1

/-- the block of one operation that went the given way -/
def cxBlk (o : CxOp × Arm) : Blk CxObj :=
  { A := (.buf, .write) :: cxAccs o.1.pre.dropLast,
    B := cxAccs (armBefore o),
    C := cxAccs (armAfter o) ++ [(.buf, .write), (.reader, .write)],
    H := cxAccs o.1.helper.dropLast }

/-- **the shape of an operation that the argument needs**: the caller's steps up to the select end with
    the one `go`, with no channel operation before it; the select arm contains a receive, no other `go`
    or channel operation, and uses, before that receive, no object the helper uses; the helper ends with
    its one send and does nothing else with goroutines or channels.
    (Steps that are no object use — deadlines, `exitIfErr`, returns — are not constrained: `cxStmt` maps
    them to nothing; see `armSteps` for the deadline-error exit.) -/
def CxShape (o : CxOp × Arm) : Prop :=
  o.1.pre = o.1.pre.dropLast ++ [.spawn] ∧ noSync o.1.pre.dropLast = true ∧
  armSteps o.1 o.2 = armBefore o ++ .recv :: armAfter o ∧ noSync (armBefore o) = true ∧ noSync (armAfter o) = true ∧
  o.1.helper = o.1.helper.dropLast ++ [.send] ∧ noSync o.1.helper.dropLast = true ∧
  (cxBlk o).ok

instance (o : CxOp × Arm) : Decidable (CxShape o) := by unfold CxShape; infer_instance

theorem callerOp_eq_block {o : CxOp × Arm} (hs : CxShape o) (c : Nat) (h : Nat) :
    callerOp o.1 o.2 c h = (cxBlk o).caller c h := by
  obtain ⟨h1, h2, h3, h4, h5, _⟩ := hs
  have e1 : cxStmts c h o.1.pre = accS (cxAccs o.1.pre.dropLast) ++ [.spawn h] := by
    have : cxStmts c h (o.1.pre.dropLast ++ [.spawn]) = accS (cxAccs o.1.pre.dropLast) ++ [.spawn h] := by
      rw [cxStmts_append, cxStmts_noSync _ _ _ h2]; simp [cxStmts, cxStmt]
    rw [← h1] at this; exact this
  have e2 : cxStmts c h (armSteps o.1 o.2) = accS (cxAccs (armBefore o)) ++ .recv c :: accS (cxAccs (armAfter o)) := by
    rw [h3, cxStmts_append, cxStmts_noSync _ _ _ h4]
    have : cxStmts c h (.recv :: armAfter o) = .recv c :: cxStmts c h (armAfter o) := by simp [cxStmts, cxStmt]
    rw [this, cxStmts_noSync _ _ _ h5]
  unfold callerOp
  rw [e1, e2]
  simp [Blk.caller, cxBlk, accS]

theorem helper_eq_block {o : CxOp × Arm} (hs : CxShape o) (c : Nat) (h : Nat) :
    cxStmts c h o.1.helper = (cxBlk o).helper c := by
  obtain ⟨_, _, _, _, _, h6, h7, _⟩ := hs
  have : cxStmts c h (o.1.helper.dropLast ++ [.send]) = accS (cxAccs o.1.helper.dropLast) ++ [.send c] := by
    rw [cxStmts_append, cxStmts_noSync _ _ _ h7]; simp [cxStmts, cxStmt]
  rw [← h6] at this
  rw [this]; rfl

theorem cx_caller_zip (k : Nat) (ops : List (CxOp × Arm)) (hs : ∀ o ∈ ops, CxShape o) :
    ((List.range' k ops.length).zip ops).flatMap (fun (i, op, a) => callerOp op a i (i + 1))
      = callerFrom k (ops.map cxBlk) := by
  induction ops generalizing k with
  | nil => simp [callerFrom]
  | cons o r ih =>
    have e := callerOp_eq_block (hs o (List.mem_cons_self ..)) k (k + 1)
    simp only [List.length_cons, List.range'_succ, List.zip_cons_cons, List.flatMap_cons, List.map_cons,
      callerFrom]
    rw [ih (k + 1) (fun o' ho' => hs o' (List.mem_cons_of_mem _ ho')), ← e]

theorem cx_helper_zip (k : Nat) (ops : List (CxOp × Arm)) (hs : ∀ o ∈ ops, CxShape o) :
    ((List.range' k ops.length).zip ops).map (fun (i, op, _) => cxStmts i (i + 1) op.helper)
      = helpersFrom k (ops.map cxBlk) := by
  induction ops generalizing k with
  | nil => simp [helpersFrom]
  | cons o r ih =>
    have e := helper_eq_block (hs o (List.mem_cons_self ..)) k (k + 1)
    simp only [List.length_cons, List.range'_succ, List.zip_cons_cons, List.map_cons, helpersFrom]
    rw [ih (k + 1) (fun o' ho' => hs o' (List.mem_cons_of_mem _ ho')), ← e]

/-- a program of operations of the right shape is a block program -/
theorem cxProgram_eq_blkProg (ops : List (CxOp × Arm)) (hs : ∀ o ∈ ops, CxShape o) :
    cxProgram ops = blkProg (ops.map cxBlk) := by
  unfold cxProgram blkProg
  simp only [List.range_eq_range']
  rw [cx_caller_zip 0 ops hs, cx_helper_zip 0 ops hs]

/-- **programs of any number of operations of the right shape are well formed and disciplined** -/
theorem cxProgram_disciplined (ops : List (CxOp × Arm)) (hs : ∀ o ∈ ops, CxShape o) :
    WF (cxProgram ops) ∧ Disciplined (cxProgram ops) := by
  rw [cxProgram_eq_blkProg ops hs]
  refine ⟨blkProg_wf _, blkProg_disciplined _ ?_⟩
  intro b hb
  obtain ⟨o, ho, rfl⟩ := List.mem_map.mp hb
  exact (hs o ho).2.2.2.2.2.2.2

end Varlink.Race

/-! ### running a schedule (for non-vacuity examples) -/
namespace Varlink.Race
variable {F : Type} [DecidableEq F]
set_option linter.unusedSectionVars false

/-- one step of thread t, computed (plain accesses, spawn, send, receive; `none` = not enabled or another
    kind of statement) -/
def stepFn (s : St F) (t : Nat) : Option (St F) :=
  if (s.th t).started = true ∧ (s.th t).cs = none then
    match (s.th t).rem with
    | .acc f k :: r => some { s with th := upd s.th t ((s.th t).adv (.acc f k) r) }
    | .spawn u :: r =>
      if (s.th u).started = false then
        some { s with th := upd (upd s.th t ((s.th t).adv (.spawn u) r)) u { (s.th u) with started := true } }
      else none
    | .send c :: r =>
      some { s with chan := upd s.chan c (s.chan c + 1), th := upd s.th t ((s.th t).adv (.send c) r) }
    | .recv c :: r =>
      if s.chan c > 0 then
        some { s with chan := upd s.chan c (s.chan c - 1), th := upd s.th t ((s.th t).adv (.recv c) r) }
      else none
    | _ => none
  else none

theorem stepFn_sound {s s' : St F} {t : Nat} (h : stepFn s t = some s') : Step s t s' := by
  unfold stepFn at h
  split at h
  · rename_i hc
    obtain ⟨hs, hcs⟩ := hc
    split at h
    · rename_i f k r hr
      cases h; exact Step.acc f k r hs hcs hr
    · rename_i u r hr
      split at h
      · rename_i hu; cases h; exact Step.spawn u r hs hcs hr hu
      · cases h
    · rename_i c r hr
      cases h; exact Step.send c r hs hcs hr
    · rename_i c r hr
      split at h
      · rename_i hn; cases h; exact Step.recv c r hs hcs hr hn
      · cases h
    · cases h
  · cases h

/-- the threads of the schedule take one step each, in that order -/
def runFrom (s : St F) : List Nat → Option (St F)
  | [] => some s
  | t :: r => (stepFn s t).bind fun s' => runFrom s' r

theorem runFrom_reach {P : Prog F} {s s' : St F} (hr : Reach P s) {sched : List Nat}
    (h : runFrom s sched = some s') : Reach P s' := by
  induction sched generalizing s with
  | nil => simp [runFrom] at h; exact h ▸ hr
  | cons t r ih =>
    simp only [runFrom] at h
    cases hs : stepFn s t with
    | none => simp [hs] at h
    | some s1 =>
      simp only [hs, Option.bind_some] at h
      exact ih (Reach.step hr (stepFn_sound hs)) h

theorem run_reach (P : Prog F) (sched : List Nat) (h : (runFrom (init P) sched).isSome = true) :
    Reach P ((runFrom (init P) sched).get h) :=
  runFrom_reach Reach.init (Option.some_get h).symm

end Varlink.Race
