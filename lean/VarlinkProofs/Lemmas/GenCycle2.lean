/-
  `noCycleOk` for the generator's view, second part: the type declarations of the emitted file, the graph of
  direct containment between them and the graph of alias declarations (used by VarlinkProofs/Props/C07.lean).
-/
import VarlinkProofs.Lemmas.GenCycle
namespace Varlink.Gen
open Varlink Varlink.Idl

/-! ## a declared name identifies its declaration -/

theorem filterMap_nodup_unique {α β} (φ : α → Option β) : ∀ (l : List α), (l.filterMap φ).Nodup →
    ∀ a ∈ l, ∀ b ∈ l, ∀ n, φ a = some n → φ b = some n → a = b
  | [], _, a, ha, _, _, _, _, _ => by simp at ha
  | c :: r, hn, a, ha, b, hb, n, ea, eb => by
    rw [List.filterMap_cons] at hn
    have memr : ∀ x ∈ r, φ x = some n → n ∈ r.filterMap φ := fun x hx e => List.mem_filterMap.mpr ⟨x, hx, e⟩
    cases hc : φ c with
    | none =>
      simp only [hc] at hn
      rcases List.mem_cons.mp ha with rfl | ha'
      · rw [hc] at ea; exact absurd ea (by simp)
      · rcases List.mem_cons.mp hb with rfl | hb'
        · rw [hc] at eb; exact absurd eb (by simp)
        · exact filterMap_nodup_unique φ r hn a ha' b hb' n ea eb
    | some v =>
      simp only [hc, List.nodup_cons] at hn
      rcases List.mem_cons.mp ha with rfl | ha'
      · rcases List.mem_cons.mp hb with rfl | hb'
        · rfl
        · rw [hc] at ea; injection ea with ea; subst ea
          exact absurd (memr b hb' eb) hn.1
      · rcases List.mem_cons.mp hb with rfl | hb'
        · rw [hc] at eb; injection eb with eb; subst eb
          exact absurd (memr a ha' ea) hn.1
        · exact filterMap_nodup_unique φ r hn.2 a ha' b hb' n ea eb

/-! ## alias declarations -/

theorem lookupAliasDecl_mem : ∀ (decls : List Decl) (n : Bytes) (g : GoTy), lookupAliasDecl decls n = some g →
    Decl.alias n g ∈ decls
  | [], _, _, h => by simp [lookupAliasDecl] at h
  | d :: r, n, g, h => by
    cases d with
    | alias m t =>
      simp only [lookupAliasDecl] at h
      split at h
      · rename_i e; injection h with h; subst h; subst e; exact List.mem_cons_self
      · exact List.mem_cons_of_mem _ (lookupAliasDecl_mem r n g h)
    | type m t => simp only [lookupAliasDecl] at h; exact List.mem_cons_of_mem _ (lookupAliasDecl_mem r n g h)
    | iface m ms => simp only [lookupAliasDecl] at h; exact List.mem_cons_of_mem _ (lookupAliasDecl_mem r n g h)
    | func f => simp only [lookupAliasDecl] at h; exact List.mem_cons_of_mem _ (lookupAliasDecl_mem r n g h)

theorem lookupAliasDecl_of_mem : ∀ (decls : List Decl) (n : Bytes) (g : GoTy),
    (decls.filterMap Decl.tyName?).Nodup → Decl.alias n g ∈ decls → lookupAliasDecl decls n = some g
  | [], _, _, _, hd => by simp at hd
  | d' :: r, n, g, hn, hd => by
    rcases List.mem_cons.mp hd with e | hd'
    · subst e; simp [lookupAliasDecl]
    · have hmem : n ∈ r.filterMap Decl.tyName? := List.mem_filterMap.mpr ⟨_, hd', rfl⟩
      cases d' with
      | alias m t =>
        simp only [List.filterMap_cons, Decl.tyName?, List.nodup_cons] at hn
        have : m ≠ n := fun e' => hn.1 (e' ▸ hmem)
        simp only [lookupAliasDecl, this, if_false]
        exact lookupAliasDecl_of_mem r n g hn.2 hd'
      | type m t =>
        simp only [List.filterMap_cons, Decl.tyName?, List.nodup_cons] at hn
        simp only [lookupAliasDecl]
        exact lookupAliasDecl_of_mem r n g hn.2 hd'
      | iface m ms =>
        simp only [List.filterMap_cons, Decl.tyName?] at hn
        simp only [lookupAliasDecl]
        exact lookupAliasDecl_of_mem r n g hn hd'
      | func f =>
        simp only [List.filterMap_cons, Decl.tyName?] at hn
        simp only [lookupAliasDecl]
        exact lookupAliasDecl_of_mem r n g hn hd'

/-! ## `type` members -/

theorem lookupAlias_of_mem : ∀ (ms : List Member) (n d : Bytes) (ty : Ty), (ms.map Member.name).Nodup →
    Member.alias n d ty ∈ ms → lookupAlias ms n = some ty
  | [], _, _, _, _, h => by simp at h
  | m :: r, n, d, ty, hn, h => by
    rw [List.map_cons, List.nodup_cons] at hn
    rcases List.mem_cons.mp h with e | h'
    · subst e; simp [lookupAlias]
    · have hmem : n ∈ r.map Member.name := List.mem_map.mpr ⟨_, h', rfl⟩
      have hne : m.name ≠ n := fun e => hn.1 (e ▸ hmem)
      cases m with
      | alias a d' t =>
        simp only [Member.name] at hne
        simp only [lookupAlias, hne, if_false]
        exact lookupAlias_of_mem r n d ty hn.2 h'
      | method a d' i o => simp only [lookupAlias]; exact lookupAlias_of_mem r n d ty hn.2 h'
      | error a d' o => simp only [lookupAlias]; exact lookupAlias_of_mem r n d ty hn.2 h'

theorem lookupAliasLast_name : ∀ (ms : List Member) (n : Bytes) (ty : Ty), lookupAliasLast ms n = some ty →
    n ∈ ms.map Member.name
  | [], _, _, h => by simp [lookupAliasLast] at h
  | m :: r, n, ty, h => by
    cases m with
    | alias a d t =>
      simp only [lookupAliasLast] at h
      split at h
      · rename_i t' e; simp [lookupAliasLast_name r n t' e]
      · split at h
        · rename_i e; subst e; simp [Member.name]
        · exact absurd h (by simp)
    | method a d i o => simp only [lookupAliasLast] at h; simp [lookupAliasLast_name r n ty h]
    | error a d o => simp only [lookupAliasLast] at h; simp [lookupAliasLast_name r n ty h]

theorem lookupAliasLast_of_mem : ∀ (ms : List Member) (n d : Bytes) (ty : Ty), (ms.map Member.name).Nodup →
    Member.alias n d ty ∈ ms → lookupAliasLast ms n = some ty
  | [], _, _, _, _, h => by simp at h
  | m :: r, n, d, ty, hn, h => by
    rw [List.map_cons, List.nodup_cons] at hn
    rcases List.mem_cons.mp h with e | h'
    · subst e
      simp only [Member.name] at hn
      have : lookupAliasLast r n = none := by
        cases e' : lookupAliasLast r n with
        | none => rfl
        | some t' => exact absurd (lookupAliasLast_name r n t' e') hn.1
      simp [lookupAliasLast, this]
    · have ih := lookupAliasLast_of_mem r n d ty hn.2 h'
      cases m with
      | alias a d' t => simp [lookupAliasLast, ih]
      | method a d' i o => simp only [lookupAliasLast]; exact ih
      | error a d' o => simp only [lookupAliasLast]; exact ih

theorem mem_aliasNames {t : Idl} {x : Bytes} (h : x ∈ aliasNames t) : ∃ d ty, Member.alias x d ty ∈ t.members := by
  obtain ⟨m, hm, rfl⟩ := List.mem_map.mp h
  have hm' := List.mem_filter.mp hm
  cases m with
  | alias n d ty => exact ⟨d, ty, hm'.1⟩
  | method => simp [Member.isAlias] at hm'
  | error => simp [Member.isAlias] at hm'

theorem aliasNames_of_mem {t : Idl} {n d : Bytes} {ty : Ty} (h : Member.alias n d ty ∈ t.members) :
    n ∈ aliasNames t :=
  List.mem_map.mpr ⟨_, List.mem_filter.mpr ⟨h, rfl⟩, rfl⟩

/-! ## names a translated type contains directly -/

def basicNames : List Bytes := [str "bool", str "int64", str "float64", str "string"]

mutual
theorem goTy_directNames : ∀ (t : Ty) (j : Bool) (g : GoTy), goTy t j = some g →
    ∀ y ∈ g.directNames, y ∈ tyDirectRefs t ∨ y ∈ basicNames
  | .bool, _, g, h, y, hy => by
    simp [goTy] at h; subst h; simp [GoTy.directNames] at hy; subst hy; exact Or.inr (by decide)
  | .int, _, g, h, y, hy => by
    simp [goTy] at h; subst h; simp [GoTy.directNames] at hy; subst hy; exact Or.inr (by decide)
  | .float, _, g, h, y, hy => by
    simp [goTy] at h; subst h; simp [GoTy.directNames] at hy; subst hy; exact Or.inr (by decide)
  | .string, _, g, h, y, hy => by
    simp [goTy] at h; subst h; simp [GoTy.directNames] at hy; subst hy; exact Or.inr (by decide)
  | .enum _, _, g, h, y, hy => by
    simp [goTy] at h; subst h; simp [GoTy.directNames] at hy; subst hy; exact Or.inr (by decide)
  | .object, _, g, h, y, hy => by simp [goTy] at h; subst h; simp [GoTy.directNames] at hy
  | .named n, _, g, h, y, hy => by
    simp [goTy] at h; subst h; simp [GoTy.directNames] at hy; subst hy; exact Or.inl (by simp [tyDirectRefs])
  | .maybe t, j, g, h, y, hy => by
    simp only [goTy, Option.map_eq_some_iff] at h
    obtain ⟨a, _, rfl⟩ := h; simp [GoTy.directNames] at hy
  | .array t, j, g, h, y, hy => by
    simp only [goTy, Option.map_eq_some_iff] at h
    obtain ⟨a, _, rfl⟩ := h; simp [GoTy.directNames] at hy
  | .map t, j, g, h, y, hy => by
    simp only [goTy, Option.map_eq_some_iff] at h
    obtain ⟨a, _, rfl⟩ := h; simp [GoTy.directNames] at hy
  | .struct fs, j, g, h, y, hy => by
    simp only [goTy, Option.map_eq_some_iff] at h
    obtain ⟨a, ha, rfl⟩ := h
    simp only [GoTy.directNames] at hy
    simpa [tyDirectRefs] using goFields_directNames fs j a ha y hy
theorem goFields_directNames : ∀ (fs : Fields) (j : Bool) (g : GoFields), goFields fs j = some g →
    ∀ y ∈ g.directNames, y ∈ fsDirectRefs fs ∨ y ∈ basicNames
  | .nil, _, g, h, y, hy => by simp [goFields] at h; subst h; simp [GoFields.directNames] at hy
  | .bare _ _, _, g, h, _, _ => by simp [goFields] at h
  | .typed n t r, j, g, h, y, hy => by
    simp only [goFields] at h
    split at h
    · rename_i a b ha hb
      injection h with h; subst h
      simp only [GoFields.directNames, List.mem_append] at hy
      simp only [fsDirectRefs, List.mem_append]
      rcases hy with hy | hy
      · rcases goTy_directNames t j a ha y hy with h1 | h1
        · exact Or.inl (Or.inl h1)
        · exact Or.inr h1
      · rcases goFields_directNames r j b hb y hy with h1 | h1
        · exact Or.inl (Or.inr h1)
        · exact Or.inr h1
    · exact absurd h (by simp)
end

mutual
theorem tyDirectRefs_sub (names : List Bytes) : ∀ t : Ty, tyRefsIn names t = true → ∀ y ∈ tyDirectRefs t, y ∈ names
  | .named n, h, y, hy => by
    simp only [tyDirectRefs, List.mem_singleton] at hy
    subst hy
    simpa [tyRefsIn] using h
  | .struct fs, h, y, hy => by
    simp only [tyDirectRefs] at hy
    exact fsDirectRefs_sub names fs (by simpa [tyRefsIn] using h) y hy
  | .bool, _, y, hy => by simp [tyDirectRefs] at hy
  | .int, _, y, hy => by simp [tyDirectRefs] at hy
  | .float, _, y, hy => by simp [tyDirectRefs] at hy
  | .string, _, y, hy => by simp [tyDirectRefs] at hy
  | .object, _, y, hy => by simp [tyDirectRefs] at hy
  | .enum _, _, y, hy => by simp [tyDirectRefs] at hy
  | .maybe _, _, y, hy => by simp [tyDirectRefs] at hy
  | .array _, _, y, hy => by simp [tyDirectRefs] at hy
  | .map _, _, y, hy => by simp [tyDirectRefs] at hy
theorem fsDirectRefs_sub (names : List Bytes) : ∀ fs : Fields, fsRefsIn names fs = true →
    ∀ y ∈ fsDirectRefs fs, y ∈ names
  | .nil, _, y, hy => by simp [fsDirectRefs] at hy
  | .bare _ r, h, y, hy => by
    simp only [fsDirectRefs] at hy
    exact fsDirectRefs_sub names r (by simpa [fsRefsIn] using h) y hy
  | .typed _ t r, h, y, hy => by
    simp only [fsRefsIn, Bool.and_eq_true] at h
    simp only [fsDirectRefs, List.mem_append] at hy
    rcases hy with hy | hy
    · exact tyDirectRefs_sub names t h.1 y hy
    · exact fsDirectRefs_sub names r h.2 y hy
end

end Varlink.Gen
