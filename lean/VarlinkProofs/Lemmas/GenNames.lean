/-
  Lemmas about the names the interface generator derives from field names (`strings.Title`, the parameter
  suffixes `_in_`, `_out_`, `_`) and about `distinct` (used by VarlinkProofs/Props/C07.lean).
-/
import VarlinkProofs.Lemmas.Gen
namespace Varlink.Gen
open Varlink Varlink.Idl

/-! ## `distinct` -/

theorem distinct_iff_nodup (l : List Bytes) : distinct l = true ↔ l.Nodup := by
  induction l with
  | nil => simp [distinct]
  | cons a r ih => simp [distinct, ih, List.nodup_cons]

theorem distinct_map_of_injOn {f : Bytes → Bytes} {l : List Bytes}
    (hinj : ∀ a ∈ l, ∀ b ∈ l, f a = f b → a = b) (h : distinct l = true) : distinct (l.map f) = true := by
  rw [distinct_iff_nodup] at h ⊢
  induction l with
  | nil => simp
  | cons a r ih =>
    rw [List.nodup_cons] at h
    rw [List.map_cons, List.nodup_cons]
    refine ⟨?_, ih (fun x hx y hy => hinj x (by simp [hx]) y (by simp [hy])) h.2⟩
    intro hm
    obtain ⟨b, hb, e⟩ := List.mem_map.mp hm
    have := hinj b (by simp [hb]) a (by simp) e
    exact h.1 (this ▸ hb)

theorem distinct_append {a b : List Bytes} (ha : distinct a = true) (hb : distinct b = true)
    (hd : ∀ x ∈ a, x ∉ b) : distinct (a ++ b) = true := by
  rw [distinct_iff_nodup] at *
  exact List.nodup_append.mpr ⟨ha, hb, fun x hx y hy e => hd x hx (e ▸ hy)⟩

/-! ## bytes of names -/

theorem lower_facts : ∀ c : UInt8, isLower c = true →
    (isUpper (upperByte c) = true ∧ isIdentStart c = true ∧ isIdentStart (upperByte c) = true
      ∧ isSeparator c = false ∧ isLower (upperByte c) = false ∧ lowerByte (upperByte c) = c) := by
  apply forall_uint8
  set_option maxRecDepth 20000 in decide

theorem fieldchar_facts : ∀ c : UInt8, (isAlnum c || c == underscore) = true →
    (isIdentChar c = true ∧ isSeparator c = false) := by
  apply forall_uint8
  set_option maxRecDepth 20000 in decide

theorem titleFrom_id (p : UInt8) (s : Bytes) (hp : isSeparator p = false)
    (hs : s.all (fun c => isAlnum c || c == underscore) = true) : titleFrom p s = s := by
  induction s generalizing p with
  | nil => rfl
  | cons c r ih =>
    simp only [List.all_cons, Bool.and_eq_true] at hs
    simp [titleFrom, hp, ih c (fieldchar_facts c hs.1).2 hs.2]

/-- on a field name, `strings.Title` upper-cases the first letter and nothing else -/
theorem title_field (c : UInt8) (r : Bytes) (h : fieldNameShape (c :: r) = true) :
    title (c :: r) = upperByte c :: r := by
  simp only [fieldNameShape, Bool.and_eq_true] at h
  have : isSeparator 32 = true := by decide
  simp [title, titleFrom, this, titleFrom_id c r (lower_facts c h.1).2.2.2.1 h.2]

def headLower : Bytes → Bool
  | c :: _ => isLower c
  | [] => false

theorem keyword_head_lower : ∀ k ∈ goKeywords, ∃ c r, k = c :: r ∧ isLower c = true := by
  have h : goKeywords.all headLower = true := by decide
  intro k hk
  have := List.all_eq_true.mp h k hk
  cases k with
  | nil => simp [headLower] at this
  | cons c r => exact ⟨c, r, rfl, this⟩

theorem keyword_last : ∀ k ∈ goKeywords, k.getLast? ≠ some underscore := by decide

theorem validName_title (n : Bytes) (h : fieldNameShape n = true) : validName (title n) = true := by
  cases n with
  | nil => simp [fieldNameShape] at h
  | cons c r =>
    rw [title_field c r h]
    simp only [fieldNameShape, Bool.and_eq_true] at h
    obtain ⟨hu, _, hs, _, hl, _⟩ := lower_facts c h.1
    simp only [validName, Bool.and_eq_true, Bool.not_eq_true', bne_iff_ne, ne_eq, isGoIdent]
    refine ⟨⟨⟨hs, ?_⟩, ?_⟩, ?_⟩
    · rw [List.all_eq_true] at h ⊢
      intro x hx; exact (fieldchar_facts x (h.2 x hx)).1
    · rw [← Bool.not_eq_true]
      intro hk
      obtain ⟨c', r', e, hc'⟩ := keyword_head_lower _ (List.contains_iff_mem.mp hk)
      injection e with e1 _
      rw [e1] at hl
      rw [hl] at hc'
      exact absurd hc' (by simp)
    · intro e
      injection e with e1 _
      rw [e1] at hu
      revert hu; decide

theorem title_inj (a b : Bytes) (ha : fieldNameShape a = true) (hb : fieldNameShape b = true)
    (e : title a = title b) : a = b := by
  cases a with
  | nil => simp [fieldNameShape] at ha
  | cons c r =>
    cases b with
    | nil => simp [fieldNameShape] at hb
    | cons c' r' =>
      rw [title_field c r ha, title_field c' r' hb] at e
      injection e with e1 e2
      simp only [fieldNameShape, Bool.and_eq_true] at ha hb
      have h1 := (lower_facts c ha.1).2.2.2.2.2
      have h2 := (lower_facts c' hb.1).2.2.2.2.2
      rw [← h1, ← h2, e1, e2]

/-- `<field name><suffix>` is an identifier and no keyword when the suffix is a non-empty run of identifier
    characters ending in an underscore -/
theorem paramNameOk_suffix (n s : Bytes) (h : fieldNameShape n = true) (hs : s.all isIdentChar = true)
    (hl : s.getLast? = some underscore) : paramNameOk (n ++ s) = true := by
  cases n with
  | nil => simp [fieldNameShape] at h
  | cons c r =>
    simp only [fieldNameShape, Bool.and_eq_true] at h
    simp only [paramNameOk, Bool.and_eq_true, Bool.not_eq_true', isGoIdent, List.cons_append]
    refine ⟨⟨(lower_facts c h.1).2.1, ?_⟩, ?_⟩
    · rw [List.all_append, Bool.and_eq_true]
      refine ⟨?_, hs⟩
      rw [List.all_eq_true] at h ⊢
      intro x hx; exact (fieldchar_facts x (h.2 x hx)).1
    · rw [← Bool.not_eq_true]
      intro hk
      have := keyword_last _ (List.contains_iff_mem.mp hk)
      apply this
      have hne : s ≠ [] := by intro e; simp [e] at hl
      rw [← List.cons_append, List.getLast?_append, hl]
      rfl

end Varlink.Gen
