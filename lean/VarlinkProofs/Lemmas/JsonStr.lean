/-
  Strings of the JSON model: `parseString` reads back what `renderString` writes, yielding the
  sanitised bytes (invalid UTF-8 bytes become U+FFFD); for valid UTF-8 that is the string itself.
-/
import Varlink.JsonWF
namespace Varlink

/-! ### hex digits -/

theorem hexVal_hexDigit : ∀ n, n < 16 → hexVal (hexDigit n) = some n := by
  decide

theorem hex4_u00 (c : UInt8) (r : Bytes) :
    hex4 (48 :: 48 :: hexDigit (c.toNat / 16) :: hexDigit (c.toNat % 16) :: r) = some (c.toNat, r) := by
  have h1 : c.toNat / 16 < 16 := by have := c.toNat_lt; omega
  have h2 : c.toNat % 16 < 16 := by omega
  simp only [hex4, hexVal_hexDigit _ h1, hexVal_hexDigit _ h2]
  have : hexVal 48 = some 0 := by decide
  simp only [this]
  simp
  omega

theorem utf8Encode_ascii (c : UInt8) (h : c < 0x80) : utf8Encode c.toNat = [c] := by
  have : c.toNat < 0x80 := by simpa [UInt8.lt_iff_toNat_lt] using h
  simp [utf8Encode, this]

/-! ### single steps of `parseStringBody` -/

theorem psb_quote (pf : Nat) (cs : Bytes) : parseStringBody (pf + 1) (34 :: cs) = some ([], cs) := by
  simp [parseStringBody]

def simpleEsc (e b : UInt8) : Prop :=
  (e = 34 ∧ b = 34) ∨ (e = 92 ∧ b = 92) ∨ (e = 98 ∧ b = 8) ∨ (e = 102 ∧ b = 12) ∨
  (e = 110 ∧ b = 10) ∨ (e = 114 ∧ b = 13) ∨ (e = 116 ∧ b = 9)

theorem psb_simple {e b : UInt8} (h : simpleEsc e b) (pf : Nat) (r : Bytes) :
    parseStringBody (pf + 1) (92 :: e :: r) =
      (parseStringBody pf r).map fun (s, rest) => (b :: s, rest) := by
  rcases h with ⟨rfl, rfl⟩ | ⟨rfl, rfl⟩ | ⟨rfl, rfl⟩ | ⟨rfl, rfl⟩ | ⟨rfl, rfl⟩ | ⟨rfl, rfl⟩ | ⟨rfl, rfl⟩ <;>
    simp [parseStringBody]

theorem psb_u {u : Nat} {r r1 : Bytes} (hh : hex4 r = some (u, r1)) (hu : u < 0xD800 ∨ 0xE000 ≤ u)
    (pf : Nat) :
    parseStringBody (pf + 1) (92 :: 117 :: r) =
      (parseStringBody pf r1).map fun (s, rest) => (utf8Encode u ++ s, rest) := by
  have h1 : ¬ (0xD800 ≤ u ∧ u < 0xDC00) := by omega
  have h2 : ¬ (0xDC00 ≤ u ∧ u < 0xE000) := by omega
  simp [parseStringBody, hh, h1, h2]

/-! ### `utf8Len` looks only at the sequence it accepts -/

theorem utf8Len_spec {bs : Bytes} {n : Nat} (h : utf8Len bs = some n) :
    ∃ ch tl, bs = ch ++ tl ∧ ch.length = n ∧ 1 ≤ n ∧ ∀ X, utf8Len (ch ++ X) = some n := by
  cases bs with
  | nil => simp [utf8Len] at h
  | cons b0 r =>
    simp only [utf8Len] at h
    split at h
    · rename_i h0
      simp at h; subst h
      exact ⟨[b0], r, rfl, rfl, by omega, fun X => by simp [utf8Len, h0]⟩
    · rename_i h0
      split at h
      · rename_i h1
        split at h
        · rename_i b1 r'
          have hn := h
          rw [Option.ite_none_right_eq_some] at hn
          obtain ⟨_, hn⟩ := hn
          simp at hn; subst hn
          refine ⟨[b0, b1], r', rfl, rfl, by omega, fun X => ?_⟩
          simp only [utf8Len, List.cons_append, List.nil_append, h0, h1, if_true, if_false]
          exact h
        · simp at h
      · rename_i h1
        split at h
        · rename_i h2
          split at h
          · rename_i b1 b2 r'
            have hn := h
            rw [Option.ite_none_right_eq_some] at hn
            obtain ⟨_, hn⟩ := hn
            simp at hn; subst hn
            refine ⟨[b0, b1, b2], r', rfl, rfl, by omega, fun X => ?_⟩
            simp only [utf8Len, List.cons_append, List.nil_append, h0, h1, h2, if_true, if_false]
            exact h
          · simp at h
        · rename_i h2
          split at h
          · rename_i h3
            split at h
            · rename_i b1 b2 b3 r'
              have hn := h
              rw [Option.ite_none_right_eq_some] at hn
              obtain ⟨_, hn⟩ := hn
              simp at hn; subst hn
              refine ⟨[b0, b1, b2, b3], r', rfl, rfl, by omega, fun X => ?_⟩
              simp only [utf8Len, List.cons_append, List.nil_append, h0, h1, h2, h3, if_true, if_false]
              exact h
            · simp at h
          · simp at h

theorem utf8Len_ascii {c : UInt8} (cs : Bytes) (h : c < 0x80) : utf8Len (c :: cs) = some 1 := by
  simp [utf8Len, h]

theorem sanitizeUtf8_ascii (f : Nat) {c : UInt8} (cs : Bytes) (h : c < 0x80) :
    sanitizeUtf8 (f + 1) (c :: cs) = c :: sanitizeUtf8 f cs := by
  simp [sanitizeUtf8, utf8Len_ascii cs h]

theorem psb_utf8 {c : UInt8} {cs : Bytes} {n : Nat} (h34 : c ≠ 34) (h32 : ¬ c < 32) (h92 : c ≠ 92)
    (hl : utf8Len (c :: cs) = some n) (pf : Nat) :
    parseStringBody (pf + 1) (c :: cs) =
      (parseStringBody pf ((c :: cs).drop n)).map fun (s, rest) => ((c :: cs).take n ++ s, rest) := by
  simp [parseStringBody, h34, h32, h92, hl]

/-! ### reading back an escaped body -/

theorem hex4_fffd (r : Bytes) : hex4 (102 :: 102 :: 102 :: 100 :: r) = some (0xFFFD, r) := by
  have h1 : hexVal 102 = some 15 := by decide
  have h2 : hexVal 100 = some 13 := by decide
  simp [hex4, h1, h2]

theorem hex4_2028 (r : Bytes) : hex4 (50 :: 48 :: 50 :: 56 :: r) = some (0x2028, r) := by
  have h1 : hexVal 50 = some 2 := by decide
  have h2 : hexVal 48 = some 0 := by decide
  have h3 : hexVal 56 = some 8 := by decide
  simp [hex4, h1, h2, h3]

theorem hex4_2029 (r : Bytes) : hex4 (50 :: 48 :: 50 :: 57 :: r) = some (0x2029, r) := by
  have h1 : hexVal 50 = some 2 := by decide
  have h2 : hexVal 48 = some 0 := by decide
  have h3 : hexVal 57 = some 9 := by decide
  simp [hex4, h1, h2, h3]

theorem utf8Encode_fffd : utf8Encode 0xFFFD = replacement := by decide
theorem utf8Encode_2028 : utf8Encode 0x2028 = [0xE2, 0x80, 0xA8] := by decide
theorem utf8Encode_2029 : utf8Encode 0x2029 = [0xE2, 0x80, 0xA9] := by decide

theorem psb_escapeBody (rest : Bytes) : ∀ (f : Nat) (s : Bytes) (pf : Nat), s.length < f →
    (escapeBody f s).length < pf →
    parseStringBody pf (escapeBody f s ++ 34 :: rest) = some (sanitizeUtf8 f s, rest) := by
  intro f
  induction f with
  | zero => intro s pf hs; omega
  | succ f ih =>
    intro s pf hs hp
    obtain ⟨pf, rfl⟩ : ∃ p, pf = p + 1 := ⟨pf - 1, by omega⟩
    cases s with
    | nil => simp [escapeBody, sanitizeUtf8, psb_quote]
    | cons c cs =>
      have hlen : cs.length < f := by simpa using hs
      -- the two-byte escapes
      have simple : ∀ e, simpleEsc e c → c < 0x80 →
          escapeBody (f + 1) (c :: cs) = 92 :: e :: escapeBody f cs →
          parseStringBody (pf + 1) (escapeBody (f + 1) (c :: cs) ++ 34 :: rest)
            = some (sanitizeUtf8 (f + 1) (c :: cs), rest) := by
        intro e he hc hE
        rw [hE] at hp ⊢
        simp only [List.cons_append]
        rw [psb_simple he, ih cs pf hlen (by simp at hp; omega), sanitizeUtf8_ascii _ _ hc]
        rfl
      by_cases h34 : c = 34
      · subst h34
        exact simple 34 (by simp [simpleEsc]) (by decide) (by simp [escapeBody])
      by_cases h92 : c = 92
      · subst h92
        exact simple 92 (by simp [simpleEsc]) (by decide) (by simp [escapeBody])
      by_cases h8 : c = 8
      · subst h8
        exact simple 98 (by simp [simpleEsc]) (by decide) (by simp [escapeBody])
      by_cases h12 : c = 12
      · subst h12
        exact simple 102 (by simp [simpleEsc]) (by decide) (by simp [escapeBody])
      by_cases h10 : c = 10
      · subst h10
        exact simple 110 (by simp [simpleEsc]) (by decide) (by simp [escapeBody])
      by_cases h13 : c = 13
      · subst h13
        exact simple 114 (by simp [simpleEsc]) (by decide) (by simp [escapeBody])
      by_cases h9 : c = 9
      · subst h9
        exact simple 116 (by simp [simpleEsc]) (by decide) (by simp [escapeBody])
      by_cases hu : (c < 32 || c = 60 || c = 62 || c = 38) = true
      · have hE : escapeBody (f + 1) (c :: cs) = u00 c ++ escapeBody f cs := by
          simp only [escapeBody, h34, h92, h8, h12, h10, h13, h9, hu, if_true, if_false]
        have hc : c < 0x80 := by
          simp only [Bool.or_eq_true, decide_eq_true_eq] at hu
          rcases hu with ((hu | rfl) | rfl) | rfl
          · exact UInt8.lt_trans hu (by decide)
          all_goals decide
        rw [hE] at hp ⊢
        simp only [u00, List.cons_append, List.nil_append] at hp ⊢
        rw [psb_u (hex4_u00 c _) (Or.inl (by have := c.toNat_lt; omega)),
          ih cs pf hlen (by simp at hp; omega), utf8Encode_ascii c hc, sanitizeUtf8_ascii _ _ hc]
        rfl
      have h32 : ¬ c < 32 := by
        intro h; exact hu (by simp [h])
      by_cases h80 : c < 0x80
      · have hE : escapeBody (f + 1) (c :: cs) = c :: escapeBody f cs := by
          simp only [escapeBody, h34, h92, h8, h12, h10, h13, h9, hu, h80, if_true, if_false]
          simp
        rw [hE] at hp ⊢
        simp only [List.cons_append]
        rw [psb_utf8 h34 h32 h92 (utf8Len_ascii _ h80)]
        simp only [List.drop_succ_cons, List.drop_zero, List.take_succ_cons, List.take_zero]
        rw [ih cs pf hlen (by simp at hp; omega), sanitizeUtf8_ascii _ _ h80]
        rfl
      cases hl : utf8Len (c :: cs) with
      | none =>
        have hE : escapeBody (f + 1) (c :: cs) = [92, 117, 102, 102, 102, 100] ++ escapeBody f cs := by
          simp only [escapeBody, h34, h92, h8, h12, h10, h13, h9, hu, h80, hl, if_false]
          simp
        have hS : sanitizeUtf8 (f + 1) (c :: cs) = replacement ++ sanitizeUtf8 f cs := by
          simp [sanitizeUtf8, hl]
        rw [hE] at hp ⊢
        simp only [List.cons_append, List.nil_append] at hp ⊢
        rw [psb_u (hex4_fffd _) (Or.inr (by omega)), ih cs pf hlen (by simp at hp; omega),
          utf8Encode_fffd, hS]
        rfl
      | some n =>
        obtain ⟨ch, tl, hbs, hchl, hn1, hX⟩ := utf8Len_spec hl
        have htake : (c :: cs).take n = ch := by rw [hbs, ← hchl]; simp
        have hdrop : (c :: cs).drop n = tl := by rw [hbs, ← hchl]; simp
        have htl : tl.length < f := by
          have := congrArg List.length hbs
          simp at this; omega
        have hS : sanitizeUtf8 (f + 1) (c :: cs) = ch ++ sanitizeUtf8 f tl := by
          simp only [sanitizeUtf8, hl, htake, hdrop]
        have special : ∀ (u : Nat) (h1 h2 h3 h4 : UInt8),
            hex4 (h1 :: h2 :: h3 :: h4 :: (escapeBody f tl ++ 34 :: rest))
              = some (u, escapeBody f tl ++ 34 :: rest) →
            (u < 0xD800 ∨ 0xE000 ≤ u) → utf8Encode u = ch →
            escapeBody (f + 1) (c :: cs) = [92, 117, h1, h2, h3, h4] ++ escapeBody f tl →
            parseStringBody (pf + 1) (escapeBody (f + 1) (c :: cs) ++ 34 :: rest)
              = some (sanitizeUtf8 (f + 1) (c :: cs), rest) := by
          intro u h1 h2 h3 h4 hh hu' he hE
          rw [hE] at hp ⊢
          simp only [List.cons_append, List.nil_append] at hp ⊢
          rw [psb_u hh hu', ih tl pf htl (by simp at hp; omega), he, hS]
          rfl
        by_cases e1 : ch = [0xE2, 0x80, 0xA8]
        · refine special 0x2028 50 48 50 56 (hex4_2028 _) (Or.inl (by omega)) (by rw [e1, utf8Encode_2028]) ?_
          simp only [escapeBody, h34, h92, h8, h12, h10, h13, h9, hu, h80, hl, htake, hdrop, e1, if_false]
          simp
        by_cases e2 : ch = [0xE2, 0x80, 0xA9]
        · refine special 0x2029 50 48 50 57 (hex4_2029 _) (Or.inl (by omega)) (by rw [e2, utf8Encode_2029]) ?_
          simp only [escapeBody, h34, h92, h8, h12, h10, h13, h9, hu, h80, hl, htake, hdrop, e2, if_false]
          simp
        have hE : escapeBody (f + 1) (c :: cs) = ch ++ escapeBody f tl := by
          simp only [escapeBody, h34, h92, h8, h12, h10, h13, h9, hu, h80, hl, htake, hdrop, e1, e2, if_false]
          simp
        obtain ⟨ch', rfl⟩ : ∃ ch', ch = c :: ch' := by
          cases ch with
          | nil => simp at hchl; omega
          | cons x xs => simp at hbs; exact ⟨xs, by rw [hbs.1]⟩
        rw [hE] at hp ⊢
        have hX' := hX (escapeBody f tl ++ 34 :: rest)
        simp only [List.cons_append, List.append_assoc] at hX' hp ⊢
        rw [psb_utf8 h34 h32 h92 hX']
        have hd : List.drop n (c :: (ch' ++ (escapeBody f tl ++ 34 :: rest))) = escapeBody f tl ++ 34 :: rest := by
          rw [← List.cons_append, ← hchl]; simp
        have ht : List.take n (c :: (ch' ++ (escapeBody f tl ++ 34 :: rest))) = c :: ch' := by
          rw [← List.cons_append, ← hchl]; simp
        rw [hd, ht, ih tl pf htl (by simp at hp; omega), hS]
        rfl

/-- `parseString` reads back the body written by `renderString` (opening quote already consumed):
    it yields the sanitised bytes and stops right after the closing quote. -/
theorem parseString_escapeBody (s rest : Bytes) :
    parseString (escapeBody (s.length + 1) s ++ 34 :: rest) = some (sanitize s, rest) := by
  unfold parseString sanitize
  exact psb_escapeBody rest (s.length + 1) s _ (by omega) (by simp; omega)

theorem sanitize_of_utf8Ok {s : Bytes} (h : utf8Ok s = true) : sanitize s = s := by
  simpa [utf8Ok] using h

theorem parseString_escapeBody_utf8Ok {s : Bytes} (h : utf8Ok s = true) (rest : Bytes) :
    parseString (escapeBody (s.length + 1) s ++ 34 :: rest) = some (s, rest) := by
  rw [parseString_escapeBody, sanitize_of_utf8Ok h]

theorem renderString_append (s rest : Bytes) :
    renderString s ++ rest = 34 :: (escapeBody (s.length + 1) s ++ 34 :: rest) := by
  simp [renderString]

/-! ### no raw control bytes in the output -/

theorem isCont_ge {b : UInt8} (h : isCont b = true) : 0x80 ≤ b := by
  simp [isCont] at h; exact h.1

theorem not_lt_ge {b : UInt8} (h : ¬ b < 0x80) : 0x80 ≤ b := by
  simpa [UInt8.lt_iff_toNat_lt, UInt8.le_iff_toNat_le] using h

/-- every byte of a multi-byte sequence accepted by `utf8Len` is ≥ 0x80 -/
theorem utf8Len_high {b0 : UInt8} {r : Bytes} {n : Nat} (h : utf8Len (b0 :: r) = some n)
    (h0 : ¬ b0 < 0x80) : ∀ x ∈ (b0 :: r).take n, 0x80 ≤ x := by
  have hb0 := not_lt_ge h0
  simp only [utf8Len, h0, if_false] at h
  split at h
  · split at h
    · rename_i b1 r'
      rw [Option.ite_none_right_eq_some] at h
      obtain ⟨hc, hn⟩ := h
      simp at hn; subst hn
      simp only [List.take_succ_cons, List.take_zero, List.mem_cons, List.not_mem_nil, or_false]
      rintro x (rfl | rfl)
      · exact hb0
      · exact isCont_ge hc
    · simp at h
  · split at h
    · split at h
      · rename_i b1 b2 r'
        rw [Option.ite_none_right_eq_some] at h
        obtain ⟨hc, hn⟩ := h
        simp at hn; subst hn
        simp only [Bool.and_eq_true, decide_eq_true_eq] at hc
        obtain ⟨⟨hlo, _⟩, hc2⟩ := hc
        have h1 : 0x80 ≤ b1 := by
          split at hlo
          · exact UInt8.le_trans (by decide) hlo
          · exact hlo
        simp only [List.take_succ_cons, List.take_zero, List.mem_cons, List.not_mem_nil, or_false]
        rintro x (rfl | rfl | rfl)
        · exact hb0
        · exact h1
        · exact isCont_ge hc2
      · simp at h
    · split at h
      · split at h
        · rename_i b1 b2 b3 r'
          rw [Option.ite_none_right_eq_some] at h
          obtain ⟨hc, hn⟩ := h
          simp at hn; subst hn
          simp only [Bool.and_eq_true, decide_eq_true_eq] at hc
          obtain ⟨⟨⟨hlo, _⟩, hc2⟩, hc3⟩ := hc
          have h1 : 0x80 ≤ b1 := by
            split at hlo
            · exact UInt8.le_trans (by decide) hlo
            · exact hlo
          simp only [List.take_succ_cons, List.take_zero, List.mem_cons, List.not_mem_nil, or_false]
          rintro x (rfl | rfl | rfl | rfl)
          · exact hb0
          · exact h1
          · exact isCont_ge hc2
          · exact isCont_ge hc3
        · simp at h
      · simp at h

theorem hexDigit_ge : ∀ n, n < 16 → 32 ≤ hexDigit n := by decide

/-- `escapeBody` never emits a raw control byte (in particular no NUL) -/
theorem escapeBody_ge : ∀ (f : Nat) (s : Bytes), ∀ x ∈ escapeBody f s, 32 ≤ x := by
  intro f
  induction f with
  | zero => intro s x hx; simp [escapeBody] at hx
  | succ f ih =>
    intro s x hx
    cases s with
    | nil => simp [escapeBody] at hx
    | cons c cs =>
      have key : ∀ (pre tl : Bytes), (∀ y ∈ pre, 32 ≤ y) → x ∈ pre ++ escapeBody f tl → 32 ≤ x := by
        intro pre tl hpre hx
        rcases List.mem_append.1 hx with hx | hx
        · exact hpre _ hx
        · exact ih _ _ hx
      rw [escapeBody] at hx
      by_cases h : c = 34
      · rw [if_pos h] at hx; exact key [92, 34] cs (by decide) hx
      rw [if_neg h] at hx; clear h
      by_cases h : c = 92
      · rw [if_pos h] at hx; exact key [92, 92] cs (by decide) hx
      rw [if_neg h] at hx; clear h
      by_cases h : c = 8
      · rw [if_pos h] at hx; exact key [92, 98] cs (by decide) hx
      rw [if_neg h] at hx; clear h
      by_cases h : c = 12
      · rw [if_pos h] at hx; exact key [92, 102] cs (by decide) hx
      rw [if_neg h] at hx; clear h
      by_cases h : c = 10
      · rw [if_pos h] at hx; exact key [92, 110] cs (by decide) hx
      rw [if_neg h] at hx; clear h
      by_cases h : c = 13
      · rw [if_pos h] at hx; exact key [92, 114] cs (by decide) hx
      rw [if_neg h] at hx; clear h
      by_cases h : c = 9
      · rw [if_pos h] at hx; exact key [92, 116] cs (by decide) hx
      rw [if_neg h] at hx; clear h
      by_cases hu : (c < 32 || c = 60 || c = 62 || c = 38) = true
      · rw [if_pos hu] at hx
        refine key (u00 c) cs ?_ hx
        have h1 : c.toNat / 16 < 16 := by have := c.toNat_lt; omega
        have h2 : c.toNat % 16 < 16 := by omega
        have := hexDigit_ge _ h1
        have := hexDigit_ge _ h2
        intro y hy
        simp only [u00, List.mem_cons, List.not_mem_nil, or_false] at hy
        rcases hy with rfl | rfl | rfl | rfl | rfl | rfl <;> first | decide | assumption
      rw [if_neg hu] at hx
      have h32 : 32 ≤ c := by
        simp only [Bool.or_eq_true, decide_eq_true_eq, not_or] at hu
        simpa [UInt8.lt_iff_toNat_lt, UInt8.le_iff_toNat_le] using hu.1.1.1
      by_cases h80 : c < 0x80
      · rw [if_pos h80] at hx
        refine key [c] cs ?_ hx
        simpa using h32
      rw [if_neg h80] at hx
      cases hl : utf8Len (c :: cs) with
      | none =>
        rw [hl] at hx
        exact key [92, 117, 102, 102, 102, 100] cs (by decide) hx
      | some n =>
        rw [hl] at hx
        have hhigh : ∀ y ∈ List.take n (c :: cs), 32 ≤ y := fun y hy =>
          UInt8.le_trans (by decide) (utf8Len_high hl h80 y hy)
        simp only [] at hx
        by_cases e1 : List.take n (c :: cs) = [0xE2, 0x80, 0xA8]
        · rw [if_pos e1] at hx; exact key [92, 117, 50, 48, 50, 56] _ (by decide) hx
        rw [if_neg e1] at hx
        by_cases e2 : List.take n (c :: cs) = [0xE2, 0x80, 0xA9]
        · rw [if_pos e2] at hx; exact key [92, 117, 50, 48, 50, 57] _ (by decide) hx
        rw [if_neg e2] at hx
        exact key _ _ hhigh hx

theorem renderString_ge (s : Bytes) : ∀ x ∈ renderString s, 32 ≤ x := by
  intro x hx
  simp only [renderString, List.mem_cons, List.mem_append, List.not_mem_nil, or_false] at hx
  rcases hx with (rfl | hx) | rfl
  · decide
  · exact escapeBody_ge _ _ _ hx
  · decide

end Varlink
