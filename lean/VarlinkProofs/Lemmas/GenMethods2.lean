/-
  `methodsOk` for the generator's view, second part: the four kinds of receiver types
  (used by VarlinkProofs/Props/C07.lean).
-/
import VarlinkProofs.Lemmas.GenMethods
namespace Varlink.Gen
open Varlink Varlink.Idl

/-- **methodsOk**: every receiver type of the emitted file is a declared struct type whose methods are distinct,
    validly named, differ from its fields, and (for `VarlinkCall`) do not shadow a called `varlink.Call` method -/
theorem methodsOk_genFile (t : Idl) (f : GoFile) (hm : ∀ m ∈ t.members, MemberGood m) (h : MethFacts t)
    (herr : ∀ n d oty, Member.error n d oty ∈ t.members → str "error" ∉ (tyFields (errTy oty)).names)
    (hiface : ifaceNameShape t.name = true)
    (hty : (f.decls.filterMap Decl.tyName?).Nodup) (hf : genFile t = some f) : methodsOk f = true := by
  have hpairs := methodPairs_genFile t f hf
  have hnod := methodPairs_nodup t f h hf
  obtain ⟨_, _, _, _, dEM, dEMm, _, _, _, cE, cMm, _, iE, iMm, hci, _, _, _, pM⟩ :=
    nodup_groups _ _ _ _ _ _ _ _ _ h.names.nodup
  rw [namesMm_eq] at dEMm cMm iMm
  obtain ⟨aliases, errors, clients, ifaceMethods, errorReplies, methodReplies, dummies, cases,
    e1, e2, e3, e5, e6, e7, hd⟩ := decls_genFile hf
  simp only [methodsOk, List.all_eq_true]
  intro ty hrecv
  rw [receiverTypes_eq] at hrecv
  obtain ⟨⟨ty', m0⟩, hp0, rfl⟩ := List.mem_map.mp hrecv
  have hdist := distinct_methodsOn f ty' hnod
  have hcases : ∀ m ∈ f.methodsOn ty', _ := fun m hm' => mem_pairs_cases (hpairs ▸ mem_methodsOn.mp hm')
  rw [hpairs] at hp0
  rcases mem_pairs_cases hp0 with ⟨hE, _⟩ | ⟨hMm, _⟩ | ⟨rfl, _⟩ | ⟨rfl, _⟩
  · -- an error type
    obtain ⟨mem, hmem, rfl⟩ := List.mem_map.mp hE
    have hmem' : mem ∈ t.errors := hmem
    have hmemM := (List.mem_filter.mp hmem).1
    obtain ⟨x, hx, hsub⟩ := concatOptL_mem_ex errorView _ _ e2 mem hmem'
    cases mem with
    | alias => simp [Member.isError] at hmem
    | method => simp [Member.isError] at hmem
    | error n d oty =>
      obtain ⟨fs, e, hg⟩ := (hm _ hmemM).error
      have hno := herr n d oty hmemM
      rw [e] at hno
      simp only [errorView, e, Option.map_eq_some_iff, goTy] at hx
      obtain ⟨g, ⟨gfs, hgfs, rfl⟩, rfl⟩ := hx
      have hdecl : Decl.type n (.struct gfs) ∈ f.decls := by
        rw [hd]; simp [hsub (.type n (.struct gfs)) (by simp)]
      have hl := lookupType_of_decl f.decls _ n _ hty hdecl rfl
      have hms : ∀ m ∈ f.methodsOn n, m = str "Error" := by
        intro m hm'
        rcases hcases m hm' with ⟨_, e'⟩ | ⟨h2, _⟩ | ⟨e', _⟩ | ⟨e', _⟩
        · exact e'
        · exact absurd h2 (dEMm _ hE)
        · exact absurd (e' ▸ hE) cE
        · exact absurd (e' ▸ hE) iE
      refine receiverOk_struct f n gfs hl hdist ?_ ?_ ?_
      · intro m hm'; rw [hms m hm']; decide
      · intro m hm' hfield
        rw [hms m hm'] at hfield
        obtain ⟨_, hfn⟩ := goFields_shapeOk fs true gfs hg.names hg.deep hgfs
        rw [hfn] at hfield
        obtain ⟨a, ha, e'⟩ := List.mem_map.mp hfield
        have hshape := fsNamesOk_names fs hg.names a ha
        have : a = str "error" := title_inj a (str "error") hshape (by decide) (e'.trans (by decide))
        exact hno (by simpa [tyFields] using this ▸ ha)
      · intro he
        simp only [embedsCall] at he
        rw [goFields_ne_call fs true gfs hgfs] at he
        exact absurd he (by simp)
  · -- a `<Method>_methods` type
    obtain ⟨n, hn, rfl⟩ := List.mem_map.mp hMm
    obtain ⟨mem, hmem, rfl⟩ := List.mem_map.mp hn
    have hmem' : mem ∈ t.methods := hmem
    obtain ⟨x, hx, hsub⟩ := concatOptL_mem_ex (methodClientView t.name) _ _ e3 mem hmem'
    cases mem with
    | alias => simp [Member.isMethod] at hmem
    | error => simp [Member.isMethod] at hmem
    | method n d i o =>
      simp only [Member.name] at *
      have hdecl : Decl.type (n ++ str "_methods") (.struct .nil) ∈ f.decls := by
        simp only [methodClientView] at hx
        split at hx
        · injection hx with hx; subst hx
          rw [hd]; simp [hsub (.type (n ++ str "_methods") (.struct .nil)) (by simp)]
        · exact absurd hx (by simp)
      have hl := lookupType_of_decl f.decls _ _ _ hty hdecl rfl
      have hms : ∀ m ∈ f.methodsOn (n ++ str "_methods"), m ∈ [str "Call", str "Send", str "Upgrade"] := by
        intro m hm'
        rcases hcases m hm' with ⟨h1, _⟩ | ⟨_, h2⟩ | ⟨e', _⟩ | ⟨e', _⟩
        · exact absurd hMm (dEMm _ h1)
        · exact h2
        · exact absurd (e' ▸ hMm) cMm
        · exact absurd (e' ▸ hMm) iMm
      refine receiverOk_struct f _ .nil hl hdist ?_ ?_ ?_
      · intro m hm'
        have := hms m hm'
        simp only [List.mem_cons, List.not_mem_nil, or_false] at this
        rcases this with rfl | rfl | rfl <;> decide
      · intro m _ hfield; simp [GoFields.fieldNames] at hfield
      · intro he; simp [embedsCall, GoFields.types] at he
  · -- `VarlinkCall`
    have hdecl : Decl.type (str "VarlinkCall") (.struct (param [] (.qual (str "varlink") (str "Call")))) ∈ f.decls := by
      rw [hd]; simp
    have hl := lookupType_of_decl f.decls _ _ _ hty hdecl rfl
    have hms : ∀ m ∈ f.methodsOn (str "VarlinkCall"),
        ∃ n, (n ∈ namesE t ∨ n ∈ namesM t) ∧ m = str "Reply" ++ n := by
      intro m hm'
      rcases hcases m hm' with ⟨h1, _⟩ | ⟨h2, _⟩ | ⟨_, h3⟩ | ⟨e', _⟩
      · exact absurd h1 cE
      · exact absurd h2 cMm
      · exact h3
      · exact absurd e' hci
    refine receiverOk_struct f _ _ hl hdist ?_ ?_ ?_
    · intro m hm'
      obtain ⟨n, hn, rfl⟩ := hms m hm'
      rcases hn with hn | hn
      · exact validName_reply n (h.names.shapeE n hn)
      · exact validName_reply n (h.names.shapeM n hn)
    · intro m hm' hfield
      obtain ⟨n, _, rfl⟩ := hms m hm'
      have : (param [] (GoTy.qual (str "varlink") (str "Call"))).fieldNames = [str "Call"] := rfl
      rw [this, List.mem_singleton] at hfield
      exact reply_ne_call n hfield
    · intro _ m hm' hcalled
      obtain ⟨n, hn, rfl⟩ := hms m hm'
      obtain ⟨g, hg, hx⟩ := mem_calledThrough hcalled
      rcases funcs_safe t f hf g hg with hs | hv
      · have := reply_safe n (hs _ (calledOnList_sub _ _ _ hx))
        rcases hn with hn | hn
        · exact h.resE n hn this
        · exact (h.resM n hn).2 this
      · rw [hv, calledOnList_nil] at hx
        simp at hx
  · -- `VarlinkInterface`
    have hdecl : Decl.type (str "VarlinkInterface")
        (.struct (param [] (.name (pkgName t.name ++ str "Interface")))) ∈ f.decls := by
      rw [hd]; simp
    have hl := lookupType_of_decl f.decls _ _ _ hty hdecl rfl
    have hms : ∀ m ∈ f.methodsOn (str "VarlinkInterface"), m ∈ namesM t ∨ m ∈ reservedMethod := by
      intro m hm'
      rcases hcases m hm' with ⟨h1, _⟩ | ⟨h2, _⟩ | ⟨e', _⟩ | ⟨_, h4⟩
      · exact absurd h1 iE
      · exact absurd h2 iMm
      · exact absurd e'.symm hci
      · exact h4
    refine receiverOk_struct f _ _ hl hdist ?_ ?_ ?_
    · intro m hm'
      rcases hms m hm' with hn | hn
      · exact validName_member m (h.names.shapeM m hn)
      · have hall : ∀ x ∈ reservedMethod, validName x = true := by decide
        exact hall m hn
    · intro m hm' hfield
      have : (param [] (GoTy.name (pkgName t.name ++ str "Interface"))).fieldNames
          = [pkgName t.name ++ str "Interface"] := rfl
      rw [this, List.mem_singleton] at hfield
      rcases hms m hm' with hn | hn
      · exact pM (hfield ▸ hn)
      · obtain ⟨c, r, e, hc⟩ := pkgIface_facts t.name hiface
        rw [hfield, e] at hn
        have hV : ∀ x ∈ reservedMethod, x.head? = some 86 := by decide
        have := hV _ hn
        simp only [List.head?_cons, Option.some.injEq] at this
        rw [this] at hc
        exact absurd hc (by decide)
    · intro he; simp [embedsCall, param, GoFields.types, GoTy.beq] at he

end Varlink.Gen
