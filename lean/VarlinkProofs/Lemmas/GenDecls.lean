/-
  The type declarations of the emitted file and `lookupType` over them; the groups of package-level names and
  their disjointness (shared by GenMethods.lean and GenCycle.lean; used by VarlinkProofs/Props/C07.lean).
-/
import VarlinkProofs.Lemmas.GenTop2
import VarlinkProofs.Lemmas.GenImports
namespace Varlink.Gen
open Varlink Varlink.Idl

/-! ## type declarations -/

/-- name of a declaration `lookupType` considers: `type n T` and `type n = T` -/
def Decl.tyName? : Decl → Option Bytes
  | .type n _ => some n
  | .alias n _ => some n
  | _ => none

def Decl.tyDecl? : Decl → Option (Bytes × GoTy)
  | .type n t => some (n, t)
  | .alias n t => some (n, t)
  | _ => none

theorem tyDecl_name {d : Decl} {n : Bytes} {g : GoTy} (h : d.tyDecl? = some (n, g)) : d.tyName? = some n := by
  cases d <;> simp [Decl.tyDecl?] at h <;> simp [Decl.tyName?, h.1]

/-- what `lookupType` finds is declared -/
theorem lookupType_mem : ∀ (decls : List Decl) (n : Bytes) (g : GoTy), lookupType decls n = some g →
    ∃ d ∈ decls, d.tyDecl? = some (n, g)
  | [], _, _, h => by simp [lookupType] at h
  | d :: r, n, g, h => by
    cases d with
    | type m t =>
      simp only [lookupType] at h
      split at h
      · rename_i e; injection h with h; subst h; subst e
        exact ⟨_, List.mem_cons_self, rfl⟩
      · obtain ⟨d, hd, e⟩ := lookupType_mem r n g h
        exact ⟨d, List.mem_cons_of_mem _ hd, e⟩
    | alias m t =>
      simp only [lookupType] at h
      split at h
      · rename_i e; injection h with h; subst h; subst e
        exact ⟨_, List.mem_cons_self, rfl⟩
      · obtain ⟨d, hd, e⟩ := lookupType_mem r n g h
        exact ⟨d, List.mem_cons_of_mem _ hd, e⟩
    | iface m ms =>
      simp only [lookupType] at h
      obtain ⟨d, hd, e⟩ := lookupType_mem r n g h
      exact ⟨d, List.mem_cons_of_mem _ hd, e⟩
    | func f =>
      simp only [lookupType] at h
      obtain ⟨d, hd, e⟩ := lookupType_mem r n g h
      exact ⟨d, List.mem_cons_of_mem _ hd, e⟩

/-- no declaration of the name: nothing found -/
theorem lookupType_none : ∀ (decls : List Decl) (n : Bytes), n ∉ decls.filterMap Decl.tyName? →
    lookupType decls n = none := by
  intro decls n h
  cases e : lookupType decls n with
  | none => rfl
  | some g =>
    obtain ⟨d, hd, e'⟩ := lookupType_mem decls n g e
    exact absurd (List.mem_filterMap.mpr ⟨d, hd, tyDecl_name e'⟩) h

/-- with pairwise distinct declared names `lookupType` finds every declaration -/
theorem lookupType_of_decl : ∀ (decls : List Decl) (d : Decl) (n : Bytes) (g : GoTy),
    (decls.filterMap Decl.tyName?).Nodup → d ∈ decls → d.tyDecl? = some (n, g) → lookupType decls n = some g
  | [], _, _, _, _, hd, _ => by simp at hd
  | d' :: r, d, n, g, hn, hd, e => by
    rcases List.mem_cons.mp hd with rfl | hd'
    · cases d <;> simp [Decl.tyDecl?] at e
      · obtain ⟨rfl, rfl⟩ := e; simp [lookupType]
      · obtain ⟨rfl, rfl⟩ := e; simp [lookupType]
    · have hmem : n ∈ r.filterMap Decl.tyName? := List.mem_filterMap.mpr ⟨d, hd', tyDecl_name e⟩
      cases d' with
      | type m t =>
        simp only [List.filterMap_cons, Decl.tyName?, List.nodup_cons] at hn
        have : m ≠ n := fun e' => hn.1 (e' ▸ hmem)
        simp only [lookupType, this, if_false]
        exact lookupType_of_decl r d n g hn.2 hd' e
      | alias m t =>
        simp only [List.filterMap_cons, Decl.tyName?, List.nodup_cons] at hn
        have : m ≠ n := fun e' => hn.1 (e' ▸ hmem)
        simp only [lookupType, this, if_false]
        exact lookupType_of_decl r d n g hn.2 hd' e
      | iface m ms =>
        simp only [List.filterMap_cons, Decl.tyName?] at hn
        simp only [lookupType]
        exact lookupType_of_decl r d n g hn hd' e
      | func f =>
        simp only [List.filterMap_cons, Decl.tyName?] at hn
        simp only [lookupType]
        exact lookupType_of_decl r d n g hn hd' e

/-! ## where a declaration of a block comes from -/

theorem concatOptL_mem_inv {α β} (f : α → Option (List β)) (l : List α) (r : List β)
    (h : concatOptL f l = some r) : ∀ d ∈ r, ∃ a ∈ l, ∃ x, f a = some x ∧ d ∈ x :=
  concatOptL_forall f (fun d => ∃ a ∈ l, ∃ x, f a = some x ∧ d ∈ x) l r
    (fun a ha x hx _ hd => ⟨a, ha, x, hx, hd⟩) h

/-! ## names of the type declarations, in source order -/

def methodTyTop : Member → List Bytes
  | .method n _ _ _ => [n ++ str "_methods"]
  | _ => []

theorem aliasView_tyNames (t : Idl) (m : Member) (l : List Decl) (hl : aliasView t m = some l) :
    l.filterMap Decl.tyName? = aliasTop m := by
  cases m with
  | alias n d ty =>
    simp only [aliasView, Option.map_eq_some_iff] at hl
    obtain ⟨g, _, rfl⟩ := hl
    cases resolvesToObject t ty <;> rfl
  | method => simp [aliasView] at hl; subst hl; rfl
  | error => simp [aliasView] at hl; subst hl; rfl

theorem errorView_tyNames (m : Member) (l : List Decl) (hl : errorView m = some l) :
    l.filterMap Decl.tyName? = errorTop m := by
  cases m with
  | alias => simp [errorView] at hl; subst hl; rfl
  | method => simp [errorView] at hl; subst hl; rfl
  | error n d oty =>
    simp only [errorView, Option.map_eq_some_iff] at hl
    obtain ⟨g, _, rfl⟩ := hl
    rfl

theorem methodClientView_tyNames (iface : Bytes) (m : Member) (l : List Decl)
    (hl : methodClientView iface m = some l) : l.filterMap Decl.tyName? = methodTyTop m := by
  cases m with
  | alias => simp [methodClientView] at hl; subst hl; rfl
  | error => simp [methodClientView] at hl; subst hl; rfl
  | method n d i o =>
    simp only [methodClientView] at hl
    split at hl
    · injection hl with hl; subst hl; rfl
    · exact absurd hl (by simp)

/-- a block without package-level names declares no types -/
theorem tyNames_nil_of_top : ∀ l : List Decl, l.filterMap Decl.topName? = [] → l.filterMap Decl.tyName? = []
  | [], _ => rfl
  | d :: r, h => by
    cases d with
    | type n t => simp [Decl.topName?] at h
    | alias n t => simp [Decl.topName?] at h
    | iface n ms => simp [Decl.topName?] at h
    | func g =>
      have h' : r.filterMap Decl.topName? = [] := by
        rw [List.filterMap_cons] at h
        split at h
        · exact h
        · simp at h
      rw [List.filterMap_cons]
      simp only [Decl.tyName?]
      exact tyNames_nil_of_top r h'

theorem flatten_methodTyTop (ms : List Member) :
    (ms.map methodTyTop).flatten = (ms.filter Member.isMethod).map (fun m => m.name ++ str "_methods") := by
  induction ms with
  | nil => rfl
  | cons m r ih => cases m <;> simp [methodTyTop, List.filter, Member.isMethod, Member.name, ih]

/-- the four groups of member-derived names -/
def namesA (t : Idl) : List Bytes := (t.members.filter Member.isAlias).map Member.name
def namesE (t : Idl) : List Bytes := (t.members.filter Member.isError).map Member.name
def namesM (t : Idl) : List Bytes := (t.members.filter Member.isMethod).map Member.name
def namesMm (t : Idl) : List Bytes := (t.members.filter Member.isMethod).map (fun m => m.name ++ str "_methods")

theorem aliasNames_eq (t : Idl) : aliasNames t = namesA t := rfl

/-- **the declared type names of the emitted file**, in source order -/
theorem tyNames_genFile (t : Idl) (f : GoFile) (hf : genFile t = some f) :
    f.decls.filterMap Decl.tyName? = namesA t ++ namesE t ++ namesMm t
      ++ [str "VarlinkCall", str "VarlinkInterface"] := by
  obtain ⟨body, aliases, errors, clients, ifaceMethods, errorReplies, methodReplies, dummies, cases,
    _, e1, e2, e3, _, e5, e6, e7, _, rfl⟩ := genFile_inv hf
  have a1 := concatOptL_filterMap (aliasView t) Decl.tyName? aliasTop (aliasView_tyNames t) _ _ e1
  have a2 := concatOptL_filterMap errorView Decl.tyName? errorTop errorView_tyNames _ _ e2
  have a3 := concatOptL_filterMap (methodClientView t.name) Decl.tyName? methodTyTop (methodClientView_tyNames _) _ _ e3
  have a5 := tyNames_nil_of_top _
    (concatOptL_filterMap (errorReplyView t.name) Decl.topName? (fun _ => []) (errorReplyView_top _) _ _ e5 |>.trans
      (by induction t.errors with | nil => rfl | cons a r ih => simp))
  have a6 := tyNames_nil_of_top _
    (concatOptL_filterMap methodReplyView Decl.topName? (fun _ => []) methodReplyView_top _ _ e6 |>.trans
      (by induction t.methods with | nil => rfl | cons a r ih => simp))
  have a7 := tyNames_nil_of_top _
    (concatOptL_filterMap (dummyView t.name) Decl.topName? (fun _ => []) (dummyView_top _) _ _ e7 |>.trans
      (by induction t.methods with | nil => rfl | cons a r ih => simp))
  rw [flatten_aliasTop] at a1
  rw [flatten_errorTop] at a2
  rw [flatten_methodTyTop] at a3
  simp only [Idl.aliases, Idl.errors, Idl.methods, List.filter_filter, Bool.and_self] at a1 a2 a3
  simp only [assembleFile, List.filterMap_append, a1, a2, a3, a5, a6, a7, namesA, namesE, namesMm]
  simp [List.filterMap, Decl.tyName?, dispatchErrorView]

/-! ## the groups are pairwise disjoint -/

structure NameFacts (t : Idl) : Prop where
  nodup : (namesA t ++ namesE t ++ [str "Dispatch_Error"] ++ (namesMm t ++ namesM t)
    ++ [pkgName t.name ++ str "Interface", str "VarlinkCall", str "VarlinkInterface", str "VarlinkNew"]).Nodup
  shapeA : ∀ x ∈ namesA t, memberNameShape x = true
  shapeE : ∀ x ∈ namesE t, memberNameShape x = true
  shapeM : ∀ x ∈ namesM t, memberNameShape x = true

theorem nameFacts (t : Idl) (f : GoFile) (h : TopFacts t) (hf : genFile t = some f) : NameFacts t := by
  have htop := topLevelOk_genFile t f h hf
  have htn := topNames_genFile t f hf
  rw [flatten_aliasTop, flatten_errorTop] at htn
  simp only [Idl.aliases, Idl.errors, Idl.methods, List.filter_filter, Bool.and_self] at htn
  have hperm := methodTop_perm (t.members.filter Member.isMethod)
  simp only [List.filter_filter, Bool.and_self] at hperm
  simp only [topLevelOk, Bool.and_eq_true, distinct_iff_nodup] at htop
  have hn := htop.1.2
  rw [htn] at hn
  refine ⟨?_, fun x hx => (memberNames_facts t h _ x hx).1, fun x hx => (memberNames_facts t h _ x hx).1,
    fun x hx => (memberNames_facts t h _ x hx).1⟩
  have p := List.Perm.append_right
    [pkgName t.name ++ str "Interface", str "VarlinkCall", str "VarlinkInterface", str "VarlinkNew"]
    (List.Perm.append_left (namesA t ++ namesE t ++ [str "Dispatch_Error"]) hperm)
  exact (p.nodup_iff).mp hn

/-- the declared type names are pairwise distinct -/
theorem tyNames_nodup (t : Idl) (f : GoFile) (h : TopFacts t) (hf : genFile t = some f) :
    (f.decls.filterMap Decl.tyName?).Nodup := by
  rw [tyNames_genFile t f hf]
  have hn := (nameFacts t f h hf).nodup
  refine List.Nodup.sublist ?_ hn
  refine List.Sublist.append (List.Sublist.append ?_ (List.sublist_append_left _ _)) ?_
  · exact List.sublist_append_left _ _
  · exact List.Sublist.cons _ (List.Sublist.refl _ |>.trans (List.Sublist.cons_cons _ (List.Sublist.cons_cons _ (List.nil_sublist _))))

end Varlink.Gen
