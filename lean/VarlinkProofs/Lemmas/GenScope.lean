/-
  `scopesOk` for the generator's view: parameter names derived from distinct field names never clash with each
  other or with the fixed identifiers of the emitted functions (used by VarlinkProofs/Props/C07.lean).
-/
import VarlinkProofs.Lemmas.GenShape
namespace Varlink.Gen
open Varlink Varlink.Idl

/-! ## suffixes -/

/-- `s` is a suffix of `x` -/
def endsWith (s x : Bytes) : Bool := hasPrefix x.reverse s.reverse

theorem hasPrefix_append_self (p r : Bytes) : hasPrefix (p ++ r) p = true := by
  induction p with
  | nil => cases r <;> rfl
  | cons a p ih => simp [hasPrefix, ih]

theorem hasPrefix_append_of_le : ∀ (p x r : Bytes), p.length ≤ x.length → hasPrefix (x ++ r) p = hasPrefix x p
  | [], x, r, _ => by cases x <;> cases r <;> rfl
  | a :: p, [], r, h => by simp at h
  | a :: p, b :: x, r, h => by
    simp only [List.cons_append, hasPrefix]
    rw [hasPrefix_append_of_le p x r (by simpa using h)]

theorem endsWith_append (a s : Bytes) : endsWith s (a ++ s) = true := by
  simp [endsWith, List.reverse_append, hasPrefix_append_self]

theorem endsWith_append_of_le (s x a : Bytes) (h : s.length ≤ x.length) : endsWith s (a ++ x) = endsWith s x := by
  simp only [endsWith, List.reverse_append]
  exact hasPrefix_append_of_le _ _ _ (by simpa using h)

/-- a name that does not end in the suffix is none of the suffixed names -/
theorem not_mem_suffixed (x s : Bytes) (names : List Bytes) (h : endsWith s x = false) :
    x ∉ names.map (· ++ s) := by
  intro hm
  obtain ⟨n, _, e⟩ := List.mem_map.mp hm
  rw [← e, endsWith_append] at h
  exact absurd h (by simp)

/-- names with suffix `s1` are none of the names with suffix `s2` when `s2` is at most as long as `s1` and no suffix of it -/
theorem suffixed_disjoint (s1 s2 : Bytes) (l1 l2 : List Bytes) (hl : s2.length ≤ s1.length)
    (h : endsWith s2 s1 = false) : ∀ x ∈ l1.map (· ++ s1), x ∉ l2.map (· ++ s2) := by
  intro x hx
  obtain ⟨a, _, rfl⟩ := List.mem_map.mp hx
  apply not_mem_suffixed
  rw [endsWith_append_of_le _ _ _ hl, h]

theorem distinct_suffixed (s : Bytes) (names : List Bytes) (h : distinct names = true) :
    distinct (names.map (· ++ s)) = true :=
  distinct_map_of_injOn (fun a _ b _ e => List.append_cancel_right e) h

theorem distinct_cons_iff (a : Bytes) (l : List Bytes) : distinct (a :: l) = true ↔ a ∉ l ∧ distinct l = true := by
  simp [distinct]

/-! ## scopes -/

/-- statements that declare nothing -/
def Stmt.declaresNothing : Stmt → Bool
  | .set _ _ => true
  | .args _ _ => true
  | .use _ _ => true
  | .strArg _ _ _ => true
  | .retString _ => true
  | _ => false

theorem scopeStmts_skip (d : List Bytes) : ∀ (l rest : List Stmt), l.all Stmt.declaresNothing = true →
    scopeStmts d (l ++ rest) = scopeStmts d rest
  | [], rest, _ => rfl
  | s :: l, rest, h => by
    simp only [List.all_cons, Bool.and_eq_true] at h
    have ih := scopeStmts_skip d l rest h.2
    cases s <;> simp [Stmt.declaresNothing] at h <;> simp [scopeStmts, ih]

theorem scopeStmts_skip_all (d : List Bytes) (l : List Stmt) (h : l.all Stmt.declaresNothing = true) :
    scopeStmts d l = true := by
  have := scopeStmts_skip d l [] h
  simpa [scopeStmts] using this

theorem copyInStmts_declaresNothing (d s : Bytes) : ∀ (fs : Fields) (l : List Stmt),
    copyInStmts d s fs = some l → l.all Stmt.declaresNothing = true
  | .nil, l, h => by simp [copyInStmts] at h; subst h; rfl
  | .bare _ _, l, h => by simp [copyInStmts] at h
  | .typed n t r, l, h => by
    simp only [copyInStmts] at h
    split at h
    · rename_i a b ha hb
      injection h with h; subst h
      simp [Stmt.declaresNothing, copyInStmts_declaresNothing d s r b hb]
    · exact absurd h (by simp)

theorem copyOutStmts_declaresNothing : ∀ (fs : Fields) (l : List Stmt),
    copyOutStmts fs = some l → l.all Stmt.declaresNothing = true
  | .nil, l, h => by simp [copyOutStmts] at h; subst h; rfl
  | .bare _ _, l, h => by simp [copyOutStmts] at h
  | .typed n t r, l, h => by
    simp only [copyOutStmts] at h
    split at h
    · rename_i a b ha hb
      injection h with h; subst h
      simp [Stmt.declaresNothing, copyOutStmts_declaresNothing r b hb]
    · exact absurd h (by simp)

theorem fieldUses_declaresNothing : ∀ fs : Fields, (fieldUses fs).all Stmt.declaresNothing = true
  | .nil => rfl
  | .bare _ r => by simp [fieldUses, Stmt.declaresNothing, fieldUses_declaresNothing r]
  | .typed _ _ r => by simp [fieldUses, Stmt.declaresNothing, fieldUses_declaresNothing r]


theorem scopeOk_func (r : Option Recv) (n : Bytes) (p rs : GoFields) (b : List Stmt) (e : List Bytes) :
    Func.scopeOk (mkFunc r n p rs b e) =
      (distinct ((match r with | some r => if r.name.isEmpty then [] else [r.name] | none => [])
          ++ p.paramNames ++ rs.paramNames)
       && scopeStmts ((match r with | some r => if r.name.isEmpty then [] else [r.name] | none => [])
          ++ p.paramNames ++ rs.paramNames) b) := rfl

theorem paramNames_param (n : Bytes) (t : GoTy) : (param n t).paramNames = if n.isEmpty then [] else [n] := by
  cases h : n.isEmpty <;> simp [param, GoFields.paramNames, h]

theorem paramNames_ctxParam : ctxParam.paramNames = [str "ctx"] := rfl

/-- fixed names `F1`, names with suffix `s1`, names with suffix `s2`, fixed names `F2` -/
def mixed (F1 : List Bytes) (s1 : Bytes) (l1 : List Bytes) (s2 : Bytes) (l2 : List Bytes) (F2 : List Bytes) : List Bytes :=
  F1 ++ l1.map (· ++ s1) ++ l2.map (· ++ s2) ++ F2

/-- the decidable side conditions on the fixed names and the two suffixes -/
def mixedOk (F1 : List Bytes) (s1 s2 : Bytes) (F2 : List Bytes) : Bool :=
  distinct (F1 ++ F2) && (F1 ++ F2).all (fun x => !endsWith s1 x && !endsWith s2 x)
  && decide (s1.length ≤ s2.length) && !endsWith s1 s2

theorem not_mem_mixed (x : Bytes) (F1 : List Bytes) (s1 : Bytes) (l1 : List Bytes) (s2 : Bytes) (l2 : List Bytes)
    (F2 : List Bytes) (h : (!(F1 ++ F2).contains x && !endsWith s1 x && !endsWith s2 x) = true) :
    x ∉ mixed F1 s1 l1 s2 l2 F2 := by
  simp only [Bool.and_eq_true, Bool.not_eq_true', List.contains_eq_mem, decide_eq_false_iff_not, List.mem_append,
    not_or] at h
  simp only [mixed, List.mem_append, not_or]
  exact ⟨⟨⟨h.1.1.1, not_mem_suffixed _ _ _ h.1.2⟩, not_mem_suffixed _ _ _ h.2⟩, h.1.1.2⟩

theorem nodup_mixed (F1 : List Bytes) (s1 : Bytes) (l1 : List Bytes) (s2 : Bytes) (l2 : List Bytes) (F2 : List Bytes)
    (h : mixedOk F1 s1 s2 F2 = true) (h1 : distinct l1 = true) (h2 : distinct l2 = true) :
    distinct (mixed F1 s1 l1 s2 l2 F2) = true := by
  simp only [mixedOk, Bool.and_eq_true, decide_eq_true_eq, Bool.not_eq_true', List.all_eq_true] at h
  obtain ⟨⟨⟨hF, hE⟩, hlen⟩, h12⟩ := h
  have hF' := (distinct_iff_nodup _).mp hF
  have d1 := (distinct_iff_nodup _).mp (distinct_suffixed s1 l1 h1)
  have d2 := (distinct_iff_nodup _).mp (distinct_suffixed s2 l2 h2)
  rw [List.nodup_append] at hF'
  obtain ⟨nF1, nF2, nF12⟩ := hF'
  have e1 : ∀ x ∈ F1 ++ F2, x ∉ l1.map (· ++ s1) := fun x hx =>
    not_mem_suffixed _ _ _ (hE x hx).1
  have e2 : ∀ x ∈ F1 ++ F2, x ∉ l2.map (· ++ s2) := fun x hx =>
    not_mem_suffixed _ _ _ (hE x hx).2
  have e12 : ∀ x ∈ l2.map (· ++ s2), x ∉ l1.map (· ++ s1) := suffixed_disjoint s2 s1 l2 l1 hlen h12
  rw [distinct_iff_nodup, mixed]
  refine List.nodup_append.mpr ⟨List.nodup_append.mpr ⟨List.nodup_append.mpr ⟨nF1, d1, ?_⟩, d2, ?_⟩, nF2, ?_⟩
  · intro a ha b hb e; exact e1 a (by simp [ha]) (e ▸ hb)
  · intro a ha b hb e
    rcases List.mem_append.mp ha with ha | ha
    · exact e2 a (by simp [ha]) (e ▸ hb)
    · exact e12 b hb (e ▸ ha)
  · intro a ha b hb e
    rcases List.mem_append.mp ha with ha | ha
    · rcases List.mem_append.mp ha with ha | ha
      · exact nF12 a ha b hb e
      · exact e1 b (by simp [hb]) (e ▸ ha)
    · exact e2 b (by simp [hb]) (e ▸ ha)

/-- a suffix no emitted name carries: pads `mixed` when only one suffixed list is present -/
def noSuffix : Bytes := str "#unused"

theorem mixed_one (F1 : List Bytes) (s1 : Bytes) (l1 : List Bytes) (F2 : List Bytes) :
    F1 ++ l1.map (· ++ s1) ++ F2 = mixed F1 s1 l1 noSuffix [] F2 := by simp [mixed]

theorem scope_define (d ns : List Bytes) (rest : List Stmt) :
    scopeStmts d (.define ns :: rest) = (defineOk d ns && scopeStmts (ns ++ d) rest) := by simp [scopeStmts]

theorem scope_var (d : List Bytes) (n : Bytes) (t : GoTy) (rest : List Stmt) :
    scopeStmts d (.var n t :: rest) = (validName n && !d.contains n && scopeStmts (n :: d) rest) := by simp [scopeStmts]

theorem scope_closure (d : List Bytes) (p rs : GoFields) (b rest : List Stmt) :
    scopeStmts d (.closure p rs b :: rest) =
      (distinct (p.paramNames ++ rs.paramNames) && scopeStmts (p.paramNames ++ rs.paramNames) b && scopeStmts d rest) := by simp [scopeStmts]

theorem scope_case (d : List Bytes) (l : Option Bytes) (b rest : List Stmt) :
    scopeStmts d (.caseBlock l b :: rest) = (scopeStmts [] b && scopeStmts d rest) := by simp [scopeStmts]

theorem scope_strArg (d : List Bytes) (x f l : Bytes) (rest : List Stmt) :
    scopeStmts d (.strArg x f l :: rest) = scopeStmts d rest := by simp [scopeStmts]

theorem scope_nil (d : List Bytes) : scopeStmts d [] = true := by simp [scopeStmts]

/-- `receive, err := …` declares `receive` when it is not yet declared -/
theorem defineOk_receive (d : List Bytes) (e : Bytes) (he : paramNameOk e = true) (hne : e ≠ str "receive")
    (h : str "receive" ∉ d) : defineOk d [str "receive", e] = true := by
  have h1 : paramNameOk (str "receive") = true := by decide
  have h2 : (str "receive" != [underscore]) = true := by decide
  simp only [defineOk, List.all_cons, List.all_nil, Bool.and_true, h1, he, distinct, Bool.true_and,
    List.any_cons, Bool.and_eq_true, Bool.or_eq_true, Bool.not_eq_true']
  refine ⟨?_, Or.inl ⟨?_, h2⟩⟩
  · simp [Ne.symm hne]
  · simpa using h

/-- the prologue of Send/Upgrade followed by the returned closure -/
theorem sendPrologue_scope (iface n c : Bytes) (fi : Fields) (l rest : List Stmt) (d : List Bytes)
    (hl : sendPrologueView iface n c (.struct fi) = some l)
    (h1 : str "in" ∉ d) (h2 : str "receive" ∉ d) (hrest : ∀ d', scopeStmts d' rest = scopeStmts [] rest) :
    scopeStmts d (l ++ rest) = scopeStmts [] rest := by
  have vin : validName (str "in") = true := by decide
  have ne1 : str "receive" ≠ str "in" := by decide
  have pe : paramNameOk (str "err") = true := by decide
  have ne2 : str "err" ≠ str "receive" := by decide
  simp only [sendPrologueView] at hl
  split at hl
  · split at hl
    · rename_i t cs ht hc
      injection hl with hl; subst hl
      have hs := copyInStmts_declaresNothing _ _ _ cs hc
      have h2' : str "receive" ∉ str "in" :: d := by simp [ne1, h2]
      have h1' : d.contains (str "in") = false := by simpa using h1
      simp only [List.cons_append, List.append_assoc]
      rw [scope_var, scopeStmts_skip _ cs _ hs]
      simp only [List.cons_append, List.nil_append, scope_define, scope_strArg, vin, h1',
        defineOk_receive _ _ pe ne2 h2', Bool.true_and, Bool.not_false]
      exact hrest _
    · exact absurd hl (by simp)
  · injection hl with hl; subst hl
    simp only [List.cons_append, List.nil_append, scope_define, scope_strArg, defineOk_receive _ _ pe ne2 h2,
      Bool.true_and]
    exact hrest _

theorem receive_scope (fo : Fields) (l copies : List Stmt) (d : List Bytes)
    (hl : receiveView (.struct fo) = some l) (hc : copyOutStmts fo = some copies) (h1 : str "out" ∉ d) :
    scopeStmts d (l ++ copies) = true := by
  have vout : validName (str "out") = true := by decide
  have hs := copyOutStmts_declaresNothing _ copies hc
  simp only [receiveView] at hl
  split at hl
  · simp only [Option.map_eq_some_iff] at hl
    obtain ⟨t, _, rfl⟩ := hl
    have h1' : d.contains (str "out") = false := by simpa using h1
    simp only [List.cons_append, List.nil_append, scope_var, vout, h1', scopeStmts_skip_all _ copies hs,
      Bool.true_and, Bool.not_false]
  · injection hl with hl; subst hl
    simpa using scopeStmts_skip_all _ copies hs



def Decl.scopeOk : Decl → Bool
  | .func g => g.scopeOk
  | _ => true

theorem funcs_all (P : Func → Bool) : ∀ ds : List Decl,
    (ds.filterMap Decl.func?).all P = ds.all (fun d => match d with | .func g => P g | _ => true)
  | [] => rfl
  | d :: ds => by
    cases d <;> simp [List.filterMap_cons, Decl.func?, funcs_all P ds]

theorem scopesOk_eq (f : GoFile) : scopesOk f = f.decls.all Decl.scopeOk := by
  unfold scopesOk GoFile.funcs
  rw [funcs_all]
  have : (fun d => match d with | Decl.func g => Func.scopeOk g | _ => true) = Decl.scopeOk := by
    funext d; cases d <;> rfl
  rw [this]

theorem scopeOk_recv (rn : Bytes) (ptr : Bool) (ty n : Bytes) (p rs : GoFields) (b : List Stmt) (e : List Bytes)
    (h : rn.isEmpty = false) :
    Func.scopeOk (mkFunc (some ⟨rn, ptr, ty⟩) n p rs b e) =
      (distinct (rn :: (p.paramNames ++ rs.paramNames)) && scopeStmts (rn :: (p.paramNames ++ rs.paramNames)) b) := by
  simp [Func.scopeOk, Func.signatureNames, mkFunc, h]

theorem scopeOk_norecv (n : Bytes) (p rs : GoFields) (b : List Stmt) (e : List Bytes) :
    Func.scopeOk (mkFunc none n p rs b e) =
      (distinct (p.paramNames ++ rs.paramNames) && scopeStmts (p.paramNames ++ rs.paramNames) b) := by
  simp [Func.scopeOk, Func.signatureNames, mkFunc]

theorem declScope_func (g : Func) : Decl.scopeOk (.func g) = g.scopeOk := rfl
theorem declScope_type (n : Bytes) (t : GoTy) : Decl.scopeOk (.type n t) = true := rfl
theorem declScope_alias (n : Bytes) (t : GoTy) : Decl.scopeOk (.alias n t) = true := rfl
theorem declScope_iface (n : Bytes) (ms : List IfaceMethod) : Decl.scopeOk (.iface n ms) = true := rfl

/-! ## per view -/

theorem aliasView_scope (t : Idl) (m : Member) (l : List Decl) (hl : aliasView t m = some l) : l.all Decl.scopeOk = true := by
  cases m with
  | alias n d ty =>
    simp only [aliasView, Option.map_eq_some_iff] at hl
    obtain ⟨g, _, rfl⟩ := hl
    cases resolvesToObject t ty <;> rfl
  | method => simp [aliasView] at hl; subst hl; rfl
  | error => simp [aliasView] at hl; subst hl; rfl

theorem errorView_scope (m : Member) (l : List Decl) (hl : errorView m = some l) : l.all Decl.scopeOk = true := by
  cases m with
  | alias => simp [errorView] at hl; subst hl; rfl
  | method => simp [errorView] at hl; subst hl; rfl
  | error n d oty =>
    simp only [errorView, Option.map_eq_some_iff] at hl
    obtain ⟨g, _, rfl⟩ := hl
    have h1 : defineOk [str "e"] [str "s"] = true := by decide
    simp only [List.all_cons, List.all_nil, declScope_type, declScope_func, Bool.true_and, Bool.and_true]
    rw [scopeOk_recv _ _ _ _ _ _ _ _ (by decide)]
    simp only [paramNames_param, GoFields.paramNames, List.isEmpty_nil, if_true, List.append_nil, scope_define, h1,
      Bool.true_and, Bool.and_eq_true]
    refine ⟨by decide, ?_⟩
    apply scopeStmts_skip_all
    split
    · simp [Stmt.declaresNothing, fieldUses_declaresNothing]
    · rfl

theorem dispatchErrorView_scope (iface : Bytes) (errors : List Member) :
    Decl.scopeOk (dispatchErrorView iface errors) = true := by
  have hc : ∀ (es : List Member) (d : List Bytes),
      scopeStmts d ((es.map (dispatchErrorCaseView iface)).flatten) = true := by
    intro es d
    induction es with
    | nil => simp [scopeStmts]
    | cons e r ih =>
      cases e with
      | alias => simpa [dispatchErrorCaseView] using ih
      | method => simpa [dispatchErrorCaseView] using ih
      | error n d' oty =>
        have v : validName (str "param") = true := by decide
        have d1 : defineOk [] [str "errorRawParameters"] = true := by decide
        have d2 : defineOk [str "param", str "errorRawParameters"] [str "err"] = true := by decide
        have c1 : ([str "errorRawParameters"].contains (str "param")) = false := by decide
        have ne : str "param" ≠ str "errorRawParameters" := by decide
        simp [dispatchErrorCaseView, scope_case, scope_define, scope_var, scope_nil, v, d1, d2, c1, ih, ne]
  have d0 : defineOk [str "err"] [str "e", str "ok"] = true := by decide
  simp only [dispatchErrorView, declScope_func, scopeOk_norecv, paramNames_param, scope_define, d0, hc]
  decide

theorem callScope (n : Bytes) (fi fo : Fields) (params results : GoFields) (hi : FieldsGood fi) (ho : FieldsGood fo)
    (e1 : paramFields (str "_in_") fi = some params) (e2 : paramFields (str "_out_") fo = some results) :
    Func.scopeOk (mkFunc (some ⟨str "m", false, n ++ str "_methods"⟩) (str "Call")
      ((ctxParam.append (param (str "c") connTy)).append params)
      (results.append (param (str "err_") (tName "error")))
      [.define [str "receive", str "err_"]]) = true := by
  obtain ⟨_, _, p3⟩ := paramFields_spec _ suffix_in fi params hi e1
  obtain ⟨_, _, r3⟩ := paramFields_spec _ suffix_out fo results ho e2
  rw [scopeOk_recv _ _ _ _ _ _ _ _ (by decide)]
  have hsig : str "m" :: ((ctxParam.append (param (str "c") connTy)).append params).paramNames
      ++ (results.append (param (str "err_") (tName "error"))).paramNames
      = mixed [str "m", str "ctx", str "c"] (str "_in_") fi.names (str "_out_") fo.names [str "err_"] := by
    simp (config := {decide := true}) [paramNames_append, paramNames_param, paramNames_ctxParam, p3, r3, mixed]
  have hsig' : str "m" :: (((ctxParam.append (param (str "c") connTy)).append params).paramNames
      ++ (results.append (param (str "err_") (tName "error"))).paramNames)
      = mixed [str "m", str "ctx", str "c"] (str "_in_") fi.names (str "_out_") fo.names [str "err_"] := by
    rw [← hsig]; rfl
  rw [hsig', nodup_mixed _ _ _ _ _ _ (by decide) hi.distinctNames ho.distinctNames, Bool.true_and, scope_define,
    scope_nil, Bool.and_true]
  apply defineOk_receive _ _ (by decide) (by decide)
  exact not_mem_mixed _ _ _ _ _ _ _ (by decide)

/-- the closure returned by Send / Upgrade: results `<out>_out_ …, F2` with `F2` fixed -/
theorem closure_scope (fo : Fields) (results : GoFields) (F2 : GoFields) (F2n : List Bytes) (recv' copies rest : List Stmt)
    (d : List Bytes) (ho : FieldsGood fo) (e2 : paramFields (str "_out_") fo = some results)
    (e6 : receiveView (.struct fo) = some recv') (e7 : copyOutStmts fo = some copies)
    (hF : F2.paramNames = F2n) (hok : mixedOk [] (str "_out_") noSuffix F2n = true)
    (hout : (!([] ++ F2n).contains (str "out") && !endsWith (str "_out_") (str "out") && !endsWith noSuffix (str "out")) = true) :
    scopeStmts d (.closure (param [] ctxTy) (results.append F2) (recv' ++ copies) :: rest) = scopeStmts d rest := by
  obtain ⟨_, _, r3⟩ := paramFields_spec _ suffix_out fo results ho e2
  have hn : (param [] ctxTy).paramNames ++ (results.append F2).paramNames
      = mixed [] (str "_out_") fo.names noSuffix [] F2n := by
    simp [paramNames_append, paramNames_param, r3, hF, mixed]
  rw [scope_closure, hn, nodup_mixed _ _ _ _ _ _ hok ho.distinctNames rfl, Bool.true_and,
    receive_scope fo recv' copies _ e6 e7 (not_mem_mixed _ _ _ _ _ _ _ hout), Bool.true_and]

theorem sendScope (iface n : Bytes) (fi fo : Fields) (params results resultTys : GoFields)
    (sendPro recv' copies : List Stmt) (hi : FieldsGood fi) (ho : FieldsGood fo)
    (e1 : paramFields (str "_in_") fi = some params) (e2 : paramFields (str "_out_") fo = some results)
    (e3 : resultTypeFields fo = some resultTys)
    (e4 : sendPrologueView iface n (str "Send") (.struct fi) = some sendPro)
    (e6 : receiveView (.struct fo) = some recv') (e7 : copyOutStmts fo = some copies) :
    Func.scopeOk (mkFunc (some ⟨str "m", false, n ++ str "_methods"⟩) (str "Send")
      (((ctxParam.append (param (str "c") connTy)).append flagsResult).append params)
      ((param [] (.func ctxParam (resultTys.append ((param [] (tName "uint64")).append errorResult)))).append errorResult)
      (sendPro ++ [.closure (param [] ctxTy) (results.append (flagsResult.append (param (str "err") (tName "error"))))
          (recv' ++ copies)])) = true := by
  obtain ⟨_, _, p3⟩ := paramFields_spec _ suffix_in fi params hi e1
  rw [scopeOk_recv _ _ _ _ _ _ _ _ (by decide)]
  have hsig : str "m" :: ((((ctxParam.append (param (str "c") connTy)).append flagsResult).append params).paramNames
      ++ ((param [] (.func ctxParam (resultTys.append ((param [] (tName "uint64")).append errorResult)))).append
          errorResult).paramNames)
      = mixed [str "m", str "ctx", str "c", str "flags"] (str "_in_") fi.names noSuffix [] [] := by
    have : flagsResult.paramNames = [str "flags"] := rfl
    have : errorResult.paramNames = [] := rfl
    simp (config := {decide := true}) [paramNames_append, paramNames_param, paramNames_ctxParam, p3, mixed, *]
  rw [hsig, nodup_mixed _ _ _ _ _ _ (by decide) hi.distinctNames rfl, Bool.true_and]
  rw [sendPrologue_scope iface n _ fi sendPro _ _ e4 (not_mem_mixed _ _ _ _ _ _ _ (by decide))
    (not_mem_mixed _ _ _ _ _ _ _ (by decide))]
  · rw [closure_scope fo results _ [str "flags", str "err"] recv' copies [] [] ho e2 e6 e7 rfl (by decide) (by decide)]
    exact scope_nil _
  · intro d'
    rw [closure_scope fo results _ [str "flags", str "err"] recv' copies [] d' ho e2 e6 e7 rfl (by decide) (by decide),
      closure_scope fo results _ [str "flags", str "err"] recv' copies [] [] ho e2 e6 e7 rfl (by decide) (by decide), scope_nil, scope_nil]

theorem upgradeScope (iface n : Bytes) (fi fo : Fields) (params results : GoFields)
    (upPro recv' copies : List Stmt) (hi : FieldsGood fi) (ho : FieldsGood fo)
    (e1 : paramFields (str "_in_") fi = some params) (e2 : paramFields (str "_out_") fo = some results)
    (e5 : sendPrologueView iface n (str "Upgrade") (.struct fi) = some upPro)
    (e6 : receiveView (.struct fo) = some recv') (e7 : copyOutStmts fo = some copies) (R : GoTy) :
    Func.scopeOk (mkFunc (some ⟨str "m", false, n ++ str "_methods"⟩) (str "Upgrade")
      ((ctxParam.append (param (str "c") connTy)).append params)
      ((param [] R).append errorResult)
      (upPro ++ [.closure (param [] ctxTy)
          (results.append (flagsResult.append ((param (str "conn") rwcTy).append (param (str "err") (tName "error")))))
          (recv' ++ copies)])) = true := by
  obtain ⟨_, _, p3⟩ := paramFields_spec _ suffix_in fi params hi e1
  rw [scopeOk_recv _ _ _ _ _ _ _ _ (by decide)]
  have hsig : str "m" :: (((ctxParam.append (param (str "c") connTy)).append params).paramNames
      ++ ((param [] R).append errorResult).paramNames)
      = mixed [str "m", str "ctx", str "c"] (str "_in_") fi.names noSuffix [] [] := by
    have : errorResult.paramNames = [] := rfl
    simp (config := {decide := true}) [paramNames_append, paramNames_param, paramNames_ctxParam, p3, mixed, *]
  have hF : (flagsResult.append ((param (str "conn") rwcTy).append (param (str "err") (tName "error")))).paramNames
      = [str "flags", str "conn", str "err"] := by decide
  rw [hsig, nodup_mixed _ _ _ _ _ _ (by decide) hi.distinctNames rfl, Bool.true_and]
  rw [sendPrologue_scope iface n _ fi upPro _ _ e5 (not_mem_mixed _ _ _ _ _ _ _ (by decide))
    (not_mem_mixed _ _ _ _ _ _ _ (by decide))]
  · rw [closure_scope fo results _ _ recv' copies [] [] ho e2 e6 e7 hF (by decide) (by decide)]
    exact scope_nil _
  · intro d'
    rw [closure_scope fo results _ _ recv' copies [] d' ho e2 e6 e7 hF (by decide) (by decide),
      closure_scope fo results _ _ recv' copies [] [] ho e2 e6 e7 hF (by decide) (by decide), scope_nil, scope_nil]

theorem methodClientView_scope (iface : Bytes) (m : Member) (h : MemberGood m) (l : List Decl)
    (hl : methodClientView iface m = some l) : l.all Decl.scopeOk = true := by
  cases m with
  | alias => simp [methodClientView] at hl; subst hl; rfl
  | error => simp [methodClientView] at hl; subst hl; rfl
  | method n d i o =>
    obtain ⟨fi, fo, rfl, rfl, hi, ho⟩ := h.method
    simp only [methodClientView] at hl
    split at hl
    · rename_i params results resultTys sendPro upPro recv' copies e1 e2 e3 e4 e5 e6 e7
      injection hl with hl; subst hl
      simp only [List.all_cons, List.all_nil, declScope_type, declScope_func, Bool.true_and, Bool.and_true,
        Bool.and_eq_true]
      refine ⟨?_, callScope n fi fo params results hi ho e1 e2,
        sendScope iface n fi fo params results resultTys sendPro recv' copies hi ho e1 e2 e3 e4 e6 e7,
        upgradeScope iface n fi fo params results upPro recv' copies hi ho e1 e2 e5 e6 e7 _⟩
      rw [scopeOk_norecv]
      simp [GoFields.paramNames, paramNames_param, distinct, scope_nil]
    · exact absurd hl (by simp)

/-- `Reply<X>`: receiver `c`, parameters `ctx`, `<field>_`; body `var out …` and copies -/
theorem replyScope (n : Bytes) (fs : Fields) (ps : GoFields) (body : List Stmt) (outTy : GoTy) (cs tail : List Stmt)
    (hg : FieldsGood fs) (e1 : paramFields (str "_") fs = some ps)
    (hb : body = .var (str "out") outTy :: cs ++ tail ∨ body = [])
    (hcs : cs.all Stmt.declaresNothing = true) (htail : tail.all Stmt.declaresNothing = true) :
    Func.scopeOk (mkFunc varlinkCallRecv n (ctxParam.append ps) errorResult body) = true := by
  obtain ⟨_, _, p3⟩ := paramFields_spec _ suffix_us fs ps hg e1
  rw [varlinkCallRecv, scopeOk_recv _ _ _ _ _ _ _ _ (by decide)]
  have hsig : str "c" :: ((ctxParam.append ps).paramNames ++ errorResult.paramNames)
      = mixed [str "c", str "ctx"] (str "_") fs.names noSuffix [] [] := by
    have : errorResult.paramNames = [] := rfl
    simp (config := {decide := true}) [paramNames_append, paramNames_ctxParam, p3, mixed, *]
  rw [hsig, nodup_mixed _ _ _ _ _ _ (by decide) hg.distinctNames rfl, Bool.true_and]
  rcases hb with rfl | rfl
  · have vout : validName (str "out") = true := by decide
    have hn : (mixed [str "c", str "ctx"] (str "_") fs.names noSuffix [] []).contains (str "out") = false := by
      simpa using not_mem_mixed (str "out") _ _ _ _ _ _ (by decide)
    rw [List.cons_append, scope_var, vout, hn]
    simp only [Bool.not_false, Bool.true_and]
    apply scopeStmts_skip_all
    simp [List.all_append, hcs, htail]
  · exact scope_nil _

theorem errorReplyView_scope (iface : Bytes) (m : Member) (h : MemberGood m) (l : List Decl)
    (hl : errorReplyView iface m = some l) : l.all Decl.scopeOk = true := by
  cases m with
  | alias => simp [errorReplyView] at hl; subst hl; rfl
  | method => simp [errorReplyView] at hl; subst hl; rfl
  | error n d oty =>
    obtain ⟨fs, e, hg⟩ := h.error
    simp only [errorReplyView, e] at hl
    split at hl
    · rename_i ps c e1 e2
      injection hl with hl; subst hl
      simp only [List.all_cons, List.all_nil, declScope_func, Bool.and_true]
      exact replyScope _ fs ps _ _ c _ hg e1 (Or.inl rfl) (copyInStmts_declaresNothing _ _ _ c e2) (by simp [Stmt.declaresNothing])
    · exact absurd hl (by simp)

theorem methodReplyView_scope (m : Member) (h : MemberGood m) (l : List Decl)
    (hl : methodReplyView m = some l) : l.all Decl.scopeOk = true := by
  cases m with
  | alias => simp [methodReplyView] at hl; subst hl; rfl
  | error => simp [methodReplyView] at hl; subst hl; rfl
  | method n d i o =>
    obtain ⟨fi, fo, rfl, rfl, hi, ho⟩ := h.method
    simp only [methodReplyView] at hl
    split at hl
    · rename_i ps e1
      split at hl
      · split at hl
        · rename_i t c e2 e3
          injection hl with hl; subst hl
          simp only [List.all_cons, List.all_nil, declScope_func, Bool.and_true]
          exact replyScope _ fo ps _ t c [] ho e1 (Or.inl (by simp))
            (copyInStmts_declaresNothing _ _ _ c e3) rfl
        · exact absurd hl (by simp)
      · injection hl with hl; subst hl
        simp only [List.all_cons, List.all_nil, declScope_func, Bool.and_true]
        exact replyScope _ fo ps _ (.name []) [] [] ho e1 (Or.inr rfl) rfl rfl
    · exact absurd hl (by simp)

theorem dummyView_scope (iface : Bytes) (m : Member) (h : MemberGood m) (l : List Decl)
    (hl : dummyView iface m = some l) : l.all Decl.scopeOk = true := by
  cases m with
  | alias => simp [dummyView] at hl; subst hl; rfl
  | error => simp [dummyView] at hl; subst hl; rfl
  | method n d i o =>
    obtain ⟨fi, fo, rfl, rfl, hi, ho⟩ := h.method
    simp only [dummyView, Option.map_eq_some_iff] at hl
    obtain ⟨ps, hps, rfl⟩ := hl
    obtain ⟨_, _, p3⟩ := paramFields_spec _ suffix_us fi ps hi hps
    simp only [List.all_cons, List.all_nil, declScope_func, Bool.and_true]
    rw [varlinkIfaceRecv, scopeOk_recv _ _ _ _ _ _ _ _ (by decide)]
    have hsig : str "s" :: ((callParams.append ps).paramNames ++ errorResult.paramNames)
        = mixed [str "s", str "ctx", str "c"] (str "_") fi.names noSuffix [] [] := by
      have : errorResult.paramNames = [] := rfl
      have : callParams.paramNames = [str "ctx", str "c"] := rfl
      simp (config := {decide := true}) [paramNames_append, p3, mixed, *]
    rw [hsig, nodup_mixed _ _ _ _ _ _ (by decide) hi.distinctNames rfl, Bool.true_and, scope_strArg, scope_nil]

theorem dispatchCaseView_scope (pkg : Bytes) (m : Member) (l : List Stmt) (rest : List Stmt) (d : List Bytes)
    (hl : dispatchCaseView pkg m = some l) : scopeStmts d (l ++ rest) = scopeStmts d rest := by
  have vin : validName (str "in") = true := by decide
  have d1 : defineOk [str "in"] [str "err"] = true := by decide
  cases m with
  | alias => simp [dispatchCaseView] at hl; subst hl; rfl
  | error => simp [dispatchCaseView] at hl; subst hl; rfl
  | method n d' i o =>
    simp only [dispatchCaseView] at hl
    split at hl
    · split at hl
      · rename_i t as e1 e2
        injection hl with hl; subst hl
        simp [scope_case, scope_var, scope_define, scope_strArg, scope_nil, vin, d1, scopeStmts]
      · exact absurd hl (by simp)
    · injection hl with hl; subst hl
      simp [scope_case, scope_nil, scopeStmts]

theorem dispatchCases_scope (pkg : Bytes) : ∀ (ms : List Member) (cases rest : List Stmt) (d : List Bytes),
    concatOptL (dispatchCaseView pkg) ms = some cases → scopeStmts d (cases ++ rest) = scopeStmts d rest
  | [], cases, rest, d, h => by simp [concatOptL] at h; subst h; rfl
  | m :: ms, cases, rest, d, h => by
    simp only [concatOptL] at h
    split at h
    · rename_i x y hx hy
      injection h with h; subst h
      rw [List.append_assoc, dispatchCaseView_scope pkg m x _ d hx, dispatchCases_scope pkg ms y rest d hy]
    · exact absurd h (by simp)

/-- **scopesOk**: in every emitted function receiver, parameters, results and locals are pairwise distinct -/
theorem scopesOk_genFile (t : Idl) (f : GoFile) (hm : ∀ m ∈ t.members, MemberGood m) (hf : genFile t = some f) :
    scopesOk f = true := by
  obtain ⟨body, aliases, errors, clients, ifaceMethods, errorReplies, methodReplies, dummies, cases,
    _, e1, e2, e3, e4, e5, e6, e7, e8, rfl⟩ := genFile_inv hf
  have sub : ∀ (p : Member → Bool), ∀ m ∈ t.members.filter p, MemberGood m :=
    fun p m hm' => hm m (List.mem_filter.mp hm').1
  have a1 := concatOptL_all (aliasView t) Decl.scopeOk _ _ (fun m _ x hx => aliasView_scope t m x hx) e1
  have a2 := concatOptL_all errorView Decl.scopeOk _ _ (fun m _ x hx => errorView_scope m x hx) e2
  have a3 := concatOptL_all (methodClientView t.name) Decl.scopeOk _ _
    (fun m hm' x hx => methodClientView_scope _ m (sub _ m hm') x hx) e3
  have a5 := concatOptL_all (errorReplyView t.name) Decl.scopeOk _ _
    (fun m hm' x hx => errorReplyView_scope _ m (sub _ m hm') x hx) e5
  have a6 := concatOptL_all methodReplyView Decl.scopeOk _ _
    (fun m hm' x hx => methodReplyView_scope m (sub _ m hm') x hx) e6
  have a7 := concatOptL_all (dummyView t.name) Decl.scopeOk _ _
    (fun m hm' x hx => dummyView_scope _ m (sub _ m hm') x hx) e7
  have a8 := dispatchCases_scope (pkgName t.name) t.methods cases [.caseBlock none []]
    [str "s", str "ctx", str "call", str "methodname"] e8
  rw [scopesOk_eq]
  simp only [assembleFile, List.all_append, List.all_cons, List.all_nil, Bool.and_true, a1, a2, a3, a5, a6, a7,
    dispatchErrorView_scope, declScope_type, declScope_iface, declScope_func, Bool.true_and]
  simp only [varlinkIfaceRecv]
  rw [scopeOk_recv _ _ _ _ _ _ _ _ (by decide), scopeOk_recv _ _ _ _ _ _ _ _ (by decide),
    scopeOk_recv _ _ _ _ _ _ _ _ (by decide), scopeOk_norecv]
  have hs : str "s" :: ((ctxParam.append ((param (str "call") (GoTy.qual (str "varlink") (str "Call"))).append
      (param (str "methodname") (tName "string")))).paramNames ++ errorResult.paramNames)
      = [str "s", str "ctx", str "call", str "methodname"] := by decide
  rw [hs, a8]
  simp (config := {decide := true}) [scope_case, scope_nil, scopeStmts, paramNames_param, GoFields.paramNames, distinct]


end Varlink.Gen
