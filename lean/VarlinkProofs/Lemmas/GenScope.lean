/-
  `scopesOk` for the generator's view: parameter names derived from distinct field names never clash with each
  other or with the fixed identifiers of the emitted functions (used by VarlinkProofs/Props/C07.lean).
-/
import VarlinkProofs.Lemmas.GenShape
namespace Varlink.Gen
open Varlink Varlink.Idl

/-! ## suffixes -/

/-- `s` is a suffix of `x` -/
def endsWith (s x : Bytes) : Bool := hasPrefix x.reverse s.reverse

theorem hasPrefix_append_self (p r : Bytes) : hasPrefix (p ++ r) p = true := by
  induction p with
  | nil => cases r <;> rfl
  | cons a p ih => simp [hasPrefix, ih]

theorem hasPrefix_append_of_le : ∀ (p x r : Bytes), p.length ≤ x.length → hasPrefix (x ++ r) p = hasPrefix x p
  | [], x, r, _ => by cases x <;> cases r <;> rfl
  | a :: p, [], r, h => by simp at h
  | a :: p, b :: x, r, h => by
    simp only [List.cons_append, hasPrefix]
    rw [hasPrefix_append_of_le p x r (by simpa using h)]

theorem endsWith_append (a s : Bytes) : endsWith s (a ++ s) = true := by
  simp [endsWith, List.reverse_append, hasPrefix_append_self]

theorem endsWith_append_of_le (s x a : Bytes) (h : s.length ≤ x.length) : endsWith s (a ++ x) = endsWith s x := by
  simp only [endsWith, List.reverse_append]
  exact hasPrefix_append_of_le _ _ _ (by simpa using h)

/-- a name that does not end in the suffix is none of the suffixed names -/
theorem not_mem_suffixed (x s : Bytes) (names : List Bytes) (h : endsWith s x = false) :
    x ∉ names.map (· ++ s) := by
  intro hm
  obtain ⟨n, _, e⟩ := List.mem_map.mp hm
  rw [← e, endsWith_append] at h
  exact absurd h (by simp)

/-- names with suffix `s1` are none of the names with suffix `s2` when `s2` is at most as long as `s1` and no suffix of it -/
theorem suffixed_disjoint (s1 s2 : Bytes) (l1 l2 : List Bytes) (hl : s2.length ≤ s1.length)
    (h : endsWith s2 s1 = false) : ∀ x ∈ l1.map (· ++ s1), x ∉ l2.map (· ++ s2) := by
  intro x hx
  obtain ⟨a, _, rfl⟩ := List.mem_map.mp hx
  apply not_mem_suffixed
  rw [endsWith_append_of_le _ _ _ hl, h]

theorem distinct_suffixed (s : Bytes) (names : List Bytes) (h : distinct names = true) :
    distinct (names.map (· ++ s)) = true :=
  distinct_map_of_injOn (fun a _ b _ e => List.append_cancel_right e) h

theorem distinct_cons_iff (a : Bytes) (l : List Bytes) : distinct (a :: l) = true ↔ a ∉ l ∧ distinct l = true := by
  simp [distinct]

/-! ## scopes -/

/-- statements that declare nothing -/
def Stmt.declaresNothing : Stmt → Bool
  | .set _ _ => true
  | .args _ _ => true
  | .use _ _ => true
  | .strArg _ _ _ => true
  | .retString _ => true
  | _ => false

theorem scopeStmts_skip (d : List Bytes) : ∀ (l rest : List Stmt), l.all Stmt.declaresNothing = true →
    scopeStmts d (l ++ rest) = scopeStmts d rest
  | [], rest, _ => rfl
  | s :: l, rest, h => by
    simp only [List.all_cons, Bool.and_eq_true] at h
    have ih := scopeStmts_skip d l rest h.2
    cases s <;> simp [Stmt.declaresNothing] at h <;> simp [scopeStmts, ih]

theorem scopeStmts_skip_all (d : List Bytes) (l : List Stmt) (h : l.all Stmt.declaresNothing = true) :
    scopeStmts d l = true := by
  have := scopeStmts_skip d l [] h
  simpa [scopeStmts] using this

theorem copyInStmts_declaresNothing (d s : Bytes) : ∀ (fs : Fields) (l : List Stmt),
    copyInStmts d s fs = some l → l.all Stmt.declaresNothing = true
  | .nil, l, h => by simp [copyInStmts] at h; subst h; rfl
  | .bare _ _, l, h => by simp [copyInStmts] at h
  | .typed n t r, l, h => by
    simp only [copyInStmts] at h
    split at h
    · rename_i a b ha hb
      injection h with h; subst h
      simp [Stmt.declaresNothing, copyInStmts_declaresNothing d s r b hb]
    · exact absurd h (by simp)

theorem copyOutStmts_declaresNothing : ∀ (fs : Fields) (l : List Stmt),
    copyOutStmts fs = some l → l.all Stmt.declaresNothing = true
  | .nil, l, h => by simp [copyOutStmts] at h; subst h; rfl
  | .bare _ _, l, h => by simp [copyOutStmts] at h
  | .typed n t r, l, h => by
    simp only [copyOutStmts] at h
    split at h
    · rename_i a b ha hb
      injection h with h; subst h
      simp [Stmt.declaresNothing, copyOutStmts_declaresNothing r b hb]
    · exact absurd h (by simp)

theorem fieldUses_declaresNothing : ∀ fs : Fields, (fieldUses fs).all Stmt.declaresNothing = true
  | .nil => rfl
  | .bare _ r => by simp [fieldUses, Stmt.declaresNothing, fieldUses_declaresNothing r]
  | .typed _ _ r => by simp [fieldUses, Stmt.declaresNothing, fieldUses_declaresNothing r]


theorem scopeOk_func (r : Option Recv) (n : Bytes) (p rs : GoFields) (b : List Stmt) (e : List Bytes) :
    Func.scopeOk (mkFunc r n p rs b e) =
      (distinct ((match r with | some r => if r.name.isEmpty then [] else [r.name] | none => [])
          ++ p.paramNames ++ rs.paramNames)
       && scopeStmts ((match r with | some r => if r.name.isEmpty then [] else [r.name] | none => [])
          ++ p.paramNames ++ rs.paramNames) b) := rfl

theorem paramNames_param (n : Bytes) (t : GoTy) : (param n t).paramNames = if n.isEmpty then [] else [n] := by
  cases h : n.isEmpty <;> simp [param, GoFields.paramNames, h]

theorem paramNames_ctxParam : ctxParam.paramNames = [str "ctx"] := rfl

/-- fixed names `F1`, names with suffix `s1`, names with suffix `s2`, fixed names `F2` -/
def mixed (F1 : List Bytes) (s1 : Bytes) (l1 : List Bytes) (s2 : Bytes) (l2 : List Bytes) (F2 : List Bytes) : List Bytes :=
  F1 ++ l1.map (· ++ s1) ++ l2.map (· ++ s2) ++ F2

/-- the decidable side conditions on the fixed names and the two suffixes -/
def mixedOk (F1 : List Bytes) (s1 s2 : Bytes) (F2 : List Bytes) : Bool :=
  distinct (F1 ++ F2) && (F1 ++ F2).all (fun x => !endsWith s1 x && !endsWith s2 x)
  && decide (s1.length ≤ s2.length) && !endsWith s1 s2

theorem not_mem_mixed (x : Bytes) (F1 : List Bytes) (s1 : Bytes) (l1 : List Bytes) (s2 : Bytes) (l2 : List Bytes)
    (F2 : List Bytes) (h : (!(F1 ++ F2).contains x && !endsWith s1 x && !endsWith s2 x) = true) :
    x ∉ mixed F1 s1 l1 s2 l2 F2 := by
  simp only [Bool.and_eq_true, Bool.not_eq_true', List.contains_eq_mem, decide_eq_false_iff_not, List.mem_append,
    not_or] at h
  simp only [mixed, List.mem_append, not_or]
  exact ⟨⟨⟨h.1.1.1, not_mem_suffixed _ _ _ h.1.2⟩, not_mem_suffixed _ _ _ h.2⟩, h.1.1.2⟩

theorem nodup_mixed (F1 : List Bytes) (s1 : Bytes) (l1 : List Bytes) (s2 : Bytes) (l2 : List Bytes) (F2 : List Bytes)
    (h : mixedOk F1 s1 s2 F2 = true) (h1 : distinct l1 = true) (h2 : distinct l2 = true) :
    distinct (mixed F1 s1 l1 s2 l2 F2) = true := by
  simp only [mixedOk, Bool.and_eq_true, decide_eq_true_eq, Bool.not_eq_true', List.all_eq_true] at h
  obtain ⟨⟨⟨hF, hE⟩, hlen⟩, h12⟩ := h
  have hF' := (distinct_iff_nodup _).mp hF
  have d1 := (distinct_iff_nodup _).mp (distinct_suffixed s1 l1 h1)
  have d2 := (distinct_iff_nodup _).mp (distinct_suffixed s2 l2 h2)
  rw [List.nodup_append] at hF'
  obtain ⟨nF1, nF2, nF12⟩ := hF'
  have e1 : ∀ x ∈ F1 ++ F2, x ∉ l1.map (· ++ s1) := fun x hx =>
    not_mem_suffixed _ _ _ (hE x hx).1
  have e2 : ∀ x ∈ F1 ++ F2, x ∉ l2.map (· ++ s2) := fun x hx =>
    not_mem_suffixed _ _ _ (hE x hx).2
  have e12 : ∀ x ∈ l2.map (· ++ s2), x ∉ l1.map (· ++ s1) := suffixed_disjoint s2 s1 l2 l1 hlen h12
  rw [distinct_iff_nodup, mixed]
  refine List.nodup_append.mpr ⟨List.nodup_append.mpr ⟨List.nodup_append.mpr ⟨nF1, d1, ?_⟩, d2, ?_⟩, nF2, ?_⟩
  · intro a ha b hb e; exact e1 a (by simp [ha]) (e ▸ hb)
  · intro a ha b hb e
    rcases List.mem_append.mp ha with ha | ha
    · exact e2 a (by simp [ha]) (e ▸ hb)
    · exact e12 b hb (e ▸ ha)
  · intro a ha b hb e
    rcases List.mem_append.mp ha with ha | ha
    · rcases List.mem_append.mp ha with ha | ha
      · exact nF12 a ha b hb e
      · exact e1 b (by simp [hb]) (e ▸ ha)
    · exact e2 b (by simp [hb]) (e ▸ ha)

/-- a suffix no emitted name carries: pads `mixed` when only one suffixed list is present -/
def noSuffix : Bytes := str "#unused"

theorem mixed_one (F1 : List Bytes) (s1 : Bytes) (l1 : List Bytes) (F2 : List Bytes) :
    F1 ++ l1.map (· ++ s1) ++ F2 = mixed F1 s1 l1 noSuffix [] F2 := by simp [mixed]

theorem scope_define (d ns : List Bytes) (rest : List Stmt) :
    scopeStmts d (.define ns :: rest) = (defineOk d ns && scopeStmts (ns ++ d) rest) := by simp [scopeStmts]

theorem scope_var (d : List Bytes) (n : Bytes) (t : GoTy) (rest : List Stmt) :
    scopeStmts d (.var n t :: rest) = (validName n && !d.contains n && scopeStmts (n :: d) rest) := by simp [scopeStmts]

theorem scope_closure (d : List Bytes) (p rs : GoFields) (b rest : List Stmt) :
    scopeStmts d (.closure p rs b :: rest) =
      (distinct (p.paramNames ++ rs.paramNames) && scopeStmts (p.paramNames ++ rs.paramNames) b && scopeStmts d rest) := by simp [scopeStmts]

theorem scope_case (d : List Bytes) (l : Option Bytes) (b rest : List Stmt) :
    scopeStmts d (.caseBlock l b :: rest) = (scopeStmts [] b && scopeStmts d rest) := by simp [scopeStmts]

theorem scope_strArg (d : List Bytes) (x f l : Bytes) (rest : List Stmt) :
    scopeStmts d (.strArg x f l :: rest) = scopeStmts d rest := by simp [scopeStmts]

theorem scope_nil (d : List Bytes) : scopeStmts d [] = true := by simp [scopeStmts]

/-- `receive, err := …` declares `receive` when it is not yet declared -/
theorem defineOk_receive (d : List Bytes) (e : Bytes) (he : paramNameOk e = true) (hne : e ≠ str "receive")
    (h : str "receive" ∉ d) : defineOk d [str "receive", e] = true := by
  have h1 : paramNameOk (str "receive") = true := by decide
  have h2 : (str "receive" != [underscore]) = true := by decide
  simp only [defineOk, List.all_cons, List.all_nil, Bool.and_true, h1, he, distinct, Bool.true_and,
    List.any_cons, Bool.and_eq_true, Bool.or_eq_true, Bool.not_eq_true']
  refine ⟨?_, Or.inl ⟨?_, h2⟩⟩
  · simp [Ne.symm hne]
  · simpa using h

/-- the prologue of Send/Upgrade followed by the returned closure -/
theorem sendPrologue_scope (iface n c : Bytes) (fi : Fields) (l rest : List Stmt) (d : List Bytes)
    (hl : sendPrologueView iface n c (.struct fi) = some l)
    (h1 : str "in" ∉ d) (h2 : str "receive" ∉ d) (hrest : ∀ d', scopeStmts d' rest = scopeStmts [] rest) :
    scopeStmts d (l ++ rest) = scopeStmts [] rest := by
  have vin : validName (str "in") = true := by decide
  have ne1 : str "receive" ≠ str "in" := by decide
  have pe : paramNameOk (str "err") = true := by decide
  have ne2 : str "err" ≠ str "receive" := by decide
  simp only [sendPrologueView] at hl
  split at hl
  · split at hl
    · rename_i t cs ht hc
      injection hl with hl; subst hl
      have hs := copyInStmts_declaresNothing _ _ _ cs hc
      have h2' : str "receive" ∉ str "in" :: d := by simp [ne1, h2]
      have h1' : d.contains (str "in") = false := by simpa using h1
      simp only [List.cons_append, List.append_assoc]
      rw [scope_var, scopeStmts_skip _ cs _ hs]
      simp only [List.cons_append, List.nil_append, scope_define, scope_strArg, vin, h1',
        defineOk_receive _ _ pe ne2 h2', Bool.true_and, Bool.not_false]
      exact hrest _
    · exact absurd hl (by simp)
  · injection hl with hl; subst hl
    simp only [List.cons_append, List.nil_append, scope_define, scope_strArg, defineOk_receive _ _ pe ne2 h2,
      Bool.true_and]
    exact hrest _

theorem receive_scope (fo : Fields) (l copies : List Stmt) (d : List Bytes)
    (hl : receiveView (.struct fo) = some l) (hc : copyOutStmts fo = some copies) (h1 : str "out" ∉ d) :
    scopeStmts d (l ++ copies) = true := by
  have vout : validName (str "out") = true := by decide
  have hs := copyOutStmts_declaresNothing _ copies hc
  simp only [receiveView] at hl
  split at hl
  · simp only [Option.map_eq_some_iff] at hl
    obtain ⟨t, _, rfl⟩ := hl
    have h1' : d.contains (str "out") = false := by simpa using h1
    simp only [List.cons_append, List.nil_append, scope_var, vout, h1', scopeStmts_skip_all _ copies hs,
      Bool.true_and, Bool.not_false]
  · injection hl with hl; subst hl
    simpa using scopeStmts_skip_all _ copies hs


end Varlink.Gen
