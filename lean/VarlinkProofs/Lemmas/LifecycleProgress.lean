/-
  Bounded progress of a serving call whose listener is closed: under ANY interleaving with other
  threads and the environment, every own step is enabled and decreases a measure, so after at most
  `dist pc ≤ 7` own steps the call has run its teardown and waits for its handlers.
-/
import VarlinkProofs.Lemmas.LifecycleMono
namespace Varlink.Life

/-- program counters of the accept loop and the teardown -/
def loopish : Pc → Bool
  | .loopCheck | .refresh | .inAccept | .gotConn | .counted | .errTimeout | .errOther | .teardown => true
  | _ => false

/-- own steps still needed to reach `waiting` when the listener is closed (worst case) -/
def dist : Pc → Nat
  | .gotConn => 7
  | .counted => 6
  | .errTimeout => 6
  | .loopCheck => 5
  | .refresh => 4
  | .inAccept => 3
  | .errOther => 2
  | .teardown => 1
  | _ => 0

theorem setCall_get {w : World} {k : Nat} {c c' : Call} (hk : w.calls[k]? = some c) :
    (w.setCall k c').calls[k]? = some c' := getElem?_set_eq' hk

/-- with a closed listener the call's next step is enabled, keeps `l`, and decreases the measure -/
theorem own_step_closed {w : World} {k l : Nat} {c : Call} (hk : w.calls[k]? = some c) (hl : c.l = some l)
    (hc : Closed w l) (hp : loopish c.pc = true) :
    ∃ w' c', step w (.call k) = some w' ∧ w'.calls[k]? = some c' ∧ c'.l = c.l ∧ c'.kind = c.kind ∧
      dist c'.pc < dist c.pc ∧ (loopish c'.pc = true ∨ c'.pc = .waiting) := by
  have ho := isOpen_false_of_closed hc
  simp only [step, stepCall, hk]
  cases hpc : c.pc <;> simp only [hpc, loopish] at hp ⊢ <;> try (exact Bool.noConfusion hp)
  case loopCheck =>
    by_cases hr : w.running = true
    · simp only [hr, if_true]
      exact ⟨_, _, rfl, setCall_get hk, rfl, rfl, by cases c.tmo <;> simp [dist], by cases c.tmo <;> simp⟩
    · simp only [hr]
      exact ⟨_, _, rfl, setCall_get hk, rfl, rfl, by simp [dist], by simp⟩
  case refresh =>
    cases hlst : w.lst with
    | none => exact ⟨_, _, rfl, setCall_get hk, rfl, rfl, by simp [dist], by simp⟩
    | some f =>
      simp only []
      by_cases hof : isOpen w f = true
      · simp only [hof, if_true]
        exact ⟨_, _, rfl, setCall_get (w := setDeadlineL w f true) hk, rfl, rfl, by simp [dist], by simp⟩
      · simp only [hof]
        exact ⟨_, _, rfl, setCall_get (w := setDeadlineL w f false) hk, rfl, rfl, by simp [dist], by simp⟩
  case inAccept =>
    simp only [hl, ho]
    exact ⟨_, _, rfl, setCall_get hk, rfl, rfl, by simp [dist], by simp⟩
  case gotConn =>
    exact ⟨_, _, rfl, setCall_get (w := { (w.setPhase c.cur .counted) with counter := w.counter + 1 }) hk, rfl, rfl,
      by simp [dist], by simp⟩
  case counted =>
    exact ⟨_, _, rfl, setCall_get (w := w.setPhase c.cur .reading) hk, rfl, rfl, by simp [dist], by simp⟩
  case errTimeout =>
    by_cases h0 : w.counter = 0
    · simp only [h0, if_true]
      exact ⟨_, _, rfl, setCall_get hk, rfl, rfl, by simp [dist], by simp⟩
    · simp only [h0]
      exact ⟨_, _, rfl, setCall_get hk, rfl, rfl, by simp [dist], by simp⟩
  case errOther =>
    by_cases hr : w.running = true
    · simp only [hr, if_true]
      exact ⟨_, _, rfl, setCall_get hk, rfl, rfl, by simp [dist], by simp⟩
    · simp only [hr]
      exact ⟨_, _, rfl, setCall_get hk, rfl, rfl, by simp [dist], by simp⟩
  case teardown =>
    refine ⟨_, _, rfl, setCall_get (w := teardownShared w) (c := c) ?_, rfl, rfl, by simp [dist], by simp⟩
    rw [teardownShared_calls]; exact hk

/-- the deadline of a closed listener cannot expire -/
theorem no_expiry_on_closed {w : World} {k l : Nat} {c : Call} (hk : w.calls[k]? = some c) (hl : c.l = some l)
    (hc : Closed w l) : step w (.expire k) = none := by
  have ho := isOpen_false_of_closed hc
  simp only [step, stepExpire, hk, hl]
  cases c.pc <;> simp [ho]

/-- the control state of a call: everything except wait group and context flag -/
def sameControl (c c' : Call) : Prop :=
  c'.pc = c.pc ∧ c'.l = c.l ∧ c'.ret = c.ret ∧ c'.kind = c.kind ∧ c'.tmo = c.tmo ∧ c'.lastAcc = c.lastAcc ∧
    c'.cur = c.cur ∧ c'.addr = c.addr

/-- how the list of calls can change in one step -/
theorem calls_shape {w w' : World} {a : Label} (h : Rel w a w') :
    w'.calls = w.calls ∨
    (∃ j cj, (a = .call j ∨ a = .expire j) ∧ w'.calls = w.calls.set j cj) ∨
    (∃ j c0 cj, w.calls[j]? = some c0 ∧ w'.calls = w.calls.set j cj ∧ sameControl c0 cj) ∨
    (∃ c0, w'.calls = w.calls ++ [c0]) := by
  cases h
  case spawn => exact Or.inr (Or.inr (Or.inr ⟨_, rfl⟩))
  case teardown k c hk hpc =>
    exact Or.inr (Or.inl ⟨k, { c with pc := .waiting }, Or.inl rfl, by simp only [setCall_calls, teardownShared_calls]⟩)
  case shutdown => exact Or.inl (stepShutdown_calls w)
  case wgDone i x co hi hp hco hwg =>
    exact Or.inr (Or.inr (Or.inl ⟨_, co, _, hco, rfl, rfl, rfl, rfl, rfl, rfl, rfl, rfl, rfl⟩))
  case ctxCancel k c hk =>
    exact Or.inr (Or.inr (Or.inl ⟨_, c, _, hk, rfl, rfl, rfl, rfl, rfl, rfl, rfl, rfl, rfl⟩))
  all_goals first
    | exact Or.inl rfl
    | exact Or.inr (Or.inl ⟨_, _, Or.inl rfl, rfl⟩)
    | exact Or.inr (Or.inl ⟨_, _, Or.inr rfl, rfl⟩)

/-- steps of other threads and of the environment leave the call's control state alone -/
theorem other_step {w w' : World} {a : Label} {k : Nat} {c : Call} (h : Rel w a w') (hk : w.calls[k]? = some c)
    (h1 : a ≠ .call k) (h2 : a ≠ .expire k) :
    ∃ c', w'.calls[k]? = some c' ∧ sameControl c c' := by
  have self : sameControl c c := ⟨rfl, rfl, rfl, rfl, rfl, rfl, rfl, rfl⟩
  rcases calls_shape h with he | ⟨j, cj, ha, he⟩ | ⟨j, c0, cj, hj, he, hs⟩ | ⟨c0, he⟩
  · exact ⟨c, by rw [he]; exact hk, self⟩
  · have hjk : j ≠ k := by
      rintro rfl
      rcases ha with ha | ha
      · exact h1 ha
      · exact h2 ha
    exact ⟨c, by rw [he, getElem?_set_ne' hjk]; exact hk, self⟩
  · by_cases hjk : j = k
    · subst hjk
      rw [hk] at hj; simp only [Option.some.injEq] at hj; subst hj
      exact ⟨cj, by rw [he]; exact getElem?_set_eq' hk, hs⟩
    · exact ⟨c, by rw [he, getElem?_set_ne' hjk]; exact hk, self⟩
  · exact ⟨c, by rw [he, List.getElem?_append_left (lt_of_getElem? hk)]; exact hk, self⟩

/-- **bounded progress**: call `k` is in its loop or at its teardown and its listener is closed. Then along ANY run
    (any interleaving of any labels) the call either still has `dist pc` minus its own steps to go, or it has
    reached `waiting`/`returned`; so `dist pc ≤ 7` own steps suffice, and its own step is never blocked before. -/
theorem closed_listener_progress :
    ∀ (ls : List Label) {w w' : World} {k l : Nat} {c : Call}, w.calls[k]? = some c → c.l = some l → Closed w l →
      loopish c.pc = true → run w ls = some w' →
      ∃ c', w'.calls[k]? = some c' ∧ c'.l = c.l ∧ c'.kind = c.kind ∧
        ((loopish c'.pc = true ∧ dist c'.pc + ls.count (.call k) ≤ dist c.pc) ∨ c'.pc = .waiting ∨ c'.pc = .returned) := by
  intro ls
  induction ls with
  | nil =>
    intro w w' k l c hk hl hc hp hrun
    simp only [run, Option.some.injEq] at hrun; subst hrun
    exact ⟨c, hk, rfl, rfl, Or.inl ⟨hp, by simp⟩⟩
  | cons a as ih =>
    intro w w' k l c hk hl hc hp hrun
    simp only [run] at hrun
    cases hs : step w a with
    | none => simp [hs] at hrun
    | some w1 =>
      simp only [hs] at hrun
      have hc1 : Closed w1 l := closed_step hs hc
      by_cases ha : a = .call k
      · subst ha
        obtain ⟨w1', c1, hs', hk1, hl1, hkd1, hd, hnext⟩ := own_step_closed hk hl hc hp
        rw [hs] at hs'; simp only [Option.some.injEq] at hs'; subst hs'
        rcases hnext with hp1 | hw
        · obtain ⟨c', hk', hl', hkd', hres⟩ := ih hk1 (hl1 ▸ hl) hc1 hp1 hrun
          refine ⟨c', hk', by rw [hl', hl1], by rw [hkd', hkd1], ?_⟩
          rcases hres with ⟨hp', hle⟩ | h' | h'
          · left; refine ⟨hp', ?_⟩
            simp only [List.count_cons_self]; omega
          · exact Or.inr (Or.inl h')
          · exact Or.inr (Or.inr h')
        · -- reached `waiting`: from here only `waiting → returned`
          have stay : ∀ (bs : List Label) {v v' : World} {d : Call}, v.calls[k]? = some d →
              (d.pc = .waiting ∨ d.pc = .returned) → run v bs = some v' →
              ∃ d', v'.calls[k]? = some d' ∧ d'.l = d.l ∧ d'.kind = d.kind ∧ (d'.pc = .waiting ∨ d'.pc = .returned) := by
            intro bs
            induction bs with
            | nil =>
              intro v v' d hd hpd hr
              simp only [run, Option.some.injEq] at hr; subst hr; exact ⟨d, hd, rfl, rfl, hpd⟩
            | cons b bs ihb =>
              intro v v' d hd hpd hr
              simp only [run] at hr
              cases hsb : step v b with
              | none => simp [hsb] at hr
              | some v1 =>
                simp only [hsb] at hr
                by_cases hb : b = .call k
                · subst hb
                  simp only [step, stepCall, hd] at hsb
                  rcases hpd with hpd | hpd
                  · simp only [hpd] at hsb
                    split at hsb
                    · simp only [Option.some.injEq] at hsb; subst hsb
                      obtain ⟨d', h1, h2, h3, h4⟩ := ihb (setCall_get hd) (Or.inr rfl) hr
                      exact ⟨d', h1, h2, h3, h4⟩
                    · cases hsb
                  · simp [hpd] at hsb
                · by_cases hb2 : b = .expire k
                  · subst hb2
                    simp only [step, stepExpire, hd] at hsb
                    rcases hpd with hpd | hpd <;> simp [hpd] at hsb
                  · obtain ⟨d1, hd1, hsame⟩ := other_step (rel_of_step hsb) hd hb hb2
                    obtain ⟨d', h1, h2, h3, h4⟩ := ihb hd1 (by rw [hsame.1]; exact hpd) hr
                    exact ⟨d', h1, by rw [h2, hsame.2.1], by rw [h3, hsame.2.2.2.1], h4⟩
          obtain ⟨c', hk', hl', hkd', hres⟩ := stay as hk1 (Or.inl hw) hrun
          exact ⟨c', hk', by rw [hl', hl1], by rw [hkd', hkd1], Or.inr hres⟩
      · by_cases ha2 : a = .expire k
        · subst ha2
          rw [no_expiry_on_closed hk hl hc] at hs; cases hs
        · obtain ⟨c1, hk1, hsame⟩ := other_step (rel_of_step hs) hk ha ha2
          obtain ⟨c', hk', hl', hkd', hres⟩ :=
            ih hk1 (by rw [hsame.2.1]; exact hl) hc1 (by rw [hsame.1]; exact hp) hrun
          refine ⟨c', hk', by rw [hl', hsame.2.1], by rw [hkd', hsame.2.2.2.1], ?_⟩
          rcases hres with ⟨hp', hle⟩ | h' | h'
          · left; refine ⟨hp', ?_⟩
            rw [List.count_cons_of_ne ha]
            rw [hsame.1] at hle; exact hle
          · exact Or.inr (Or.inl h')
          · exact Or.inr (Or.inr h')

end Varlink.Life
