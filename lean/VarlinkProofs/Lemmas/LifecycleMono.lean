/-
  What never goes back: a closed listener stays closed (and keeps its address), a refused connection
  stays refused, connections keep their listener, new connections only come from `clientConnect`.
-/
import VarlinkProofs.Lemmas.LifecycleRel
import VarlinkProofs.Lemmas.LifecycleInv
namespace Varlink.Life

/-- listener `l` exists and is closed -/
def Closed (w : World) (l : Nat) : Prop := ∃ x, w.lsnrs[l]? = some x ∧ x.isOpen = false

theorem isOpen_false_of_closed {w : World} {l : Nat} (h : Closed w l) : isOpen w l = false := by
  obtain ⟨x, hx, ho⟩ := h
  simp [isOpen, hx, ho]

theorem closed_of_isOpen_false {w : World} {l : Nat} (hl : l < w.lsnrs.length) (h : isOpen w l = false) : Closed w l := by
  have : w.lsnrs[l]? = some w.lsnrs[l] := by simp [hl]
  refine ⟨_, this, ?_⟩
  simpa [isOpen, this] using h

theorem lsnr_modify_mono {ls : List Lsnr} {l f : Nat} {x : Lsnr} (g : Lsnr → Lsnr) (hx : ls[l]? = some x)
    (hg : ∀ y, (g y).addr = y.addr ∧ ((g y).isOpen = true → y.isOpen = true) ∧ (y.armed = true → (g y).armed = true)) :
    ∃ x', (ls.modify f g)[l]? = some x' ∧ x'.addr = x.addr ∧ (x'.isOpen = true → x.isOpen = true) ∧
      (x.armed = true → x'.armed = true) := by
  rw [List.getElem?_modify, hx]
  by_cases hfl : f = l
  · simp only [hfl, if_true]
    exact ⟨g x, rfl, hg x⟩
  · simp only [hfl, if_false]
    exact ⟨x, rfl, rfl, id, id⟩

/-- every listener keeps its index and address; it can only go from open to closed and from unarmed to armed -/
theorem lsnr_mono {w w' : World} {a : Label} (h : Rel w a w') {l : Nat} {x : Lsnr} (hx : w.lsnrs[l]? = some x) :
    ∃ x', w'.lsnrs[l]? = some x' ∧ x'.addr = x.addr ∧ (x'.isOpen = true → x.isOpen = true) ∧
      (x.armed = true → x'.armed = true) := by
  cases h
  all_goals first
    | exact ⟨x, by simpa using hx, rfl, id, id⟩
    | skip
  case bindOk =>
    refine ⟨x, ?_, rfl, id, id⟩
    simp only [setCall_lsnrs, bound_lsnrs]
    rw [List.getElem?_append_left (lt_of_getElem? hx)]; exact hx
  case listenOk =>
    refine ⟨x, ?_, rfl, id, id⟩
    simp only [setCall_lsnrs, bound_lsnrs]
    rw [List.getElem?_append_left (lt_of_getElem? hx)]; exact hx
  case refreshOk => exact lsnr_modify_mono _ hx (fun y => ⟨rfl, id, by simp⟩)
  case refreshClosed => exact lsnr_modify_mono _ hx (fun y => ⟨rfl, id, by simp⟩)
  case teardown =>
    simp only [setCall_lsnrs, teardownShared]
    cases w.lst with
    | none => exact ⟨x, hx, rfl, id, id⟩
    | some f => exact lsnr_modify_mono _ hx (fun y => ⟨rfl, by simp, id⟩)
  case shutdown =>
    simp only [stepShutdown]
    cases w.lst with
    | none => exact ⟨x, hx, rfl, id, id⟩
    | some f => exact lsnr_modify_mono _ hx (fun y => ⟨rfl, by simp, id⟩)

/-- **a closed listener is never open again** -/
theorem closed_step {w w' : World} {a : Label} (h : step w a = some w') {l : Nat} (hc : Closed w l) : Closed w' l := by
  obtain ⟨x, hx, ho⟩ := hc
  obtain ⟨x', hx', _, hopen, _⟩ := lsnr_mono (rel_of_step h) hx
  refine ⟨x', hx', ?_⟩
  cases hh : x'.isOpen with
  | false => rfl
  | true => rw [hopen hh] at ho; cases ho

theorem closed_reach {P : World → Label → Prop} {w w' : World} (h : Reach P w w') {l : Nat} (hc : Closed w l) :
    Closed w' l :=
  Reach.induct (fun w => Closed w l) hc (fun _ _ _ _ hi _ hs => closed_step hs hi) h

theorem conn_set_mono {cs : List Conn} {i j : Nat} {x x0 y : Conn} (hx : cs[i]? = some x) (hj : cs[j]? = some x0)
    (hl : y.lsn = x0.lsn) (hr : x0.phase = .refused → y.phase = .refused) :
    ∃ x', (cs.set j y)[i]? = some x' ∧ x'.lsn = x.lsn ∧ (x.phase = .refused → x'.phase = .refused) := by
  by_cases hji : j = i
  · subst hji
    rw [hj] at hx; simp only [Option.some.injEq] at hx; subst hx
    exact ⟨y, getElem?_set_eq' hj, hl, hr⟩
  · exact ⟨x, by rw [getElem?_set_ne' hji]; exact hx, rfl, id⟩

theorem conn_map_drop_mono {cs : List Conn} {i l : Nat} {x : Conn} (hx : cs[i]? = some x) :
    ∃ x', (cs.map (dropIfWaiting l))[i]? = some x' ∧ x'.lsn = x.lsn ∧ (x.phase = .refused → x'.phase = .refused) := by
  refine ⟨dropIfWaiting l x, by simp [hx], by simp, ?_⟩
  intro hp
  rcases dropIfWaiting_phase l x with h | ⟨h, _⟩
  · rw [h]; exact hp
  · rw [hp] at h; cases h

/-- every connection keeps its index and listener, and a refused connection stays refused -/
theorem conn_mono {w w' : World} {a : Label} (h : Rel w a w') (hinv : Inv w) {i : Nat} {x : Conn}
    (hx : w.conns[i]? = some x) :
    ∃ x', w'.conns[i]? = some x' ∧ x'.lsn = x.lsn ∧ (x.phase = .refused → x'.phase = .refused) := by
  cases h
  all_goals first
    | exact ⟨x, by simpa using hx, rfl, id⟩
    | skip
  case acceptConn k c l j hk hpc hl ho hf =>
    obtain ⟨x0, hx0, hw⟩ := firstIdx_some _ hf
    simp only [waitsOn, Bool.and_eq_true, beq_iff_eq] at hw
    simp only [setCall_conns, takeConn, modify_eq_set _ hx0]
    exact conn_set_mono hx hx0 rfl (fun hp => by rw [hw.1] at hp; cases hp)
  case count k c hk hpc =>
    obtain ⟨x0, hx0, hp0, _⟩ := (hinv.link k c hk).1 hpc
    simp only [setCall_conns, World.setPhase, modify_eq_set _ hx0]
    exact conn_set_mono hx hx0 rfl (fun hp => by rw [hp0] at hp; cases hp)
  case startHandler k c hk hpc =>
    obtain ⟨x0, hx0, hp0, _⟩ := (hinv.link k c hk).2 hpc
    simp only [setCall_conns, World.setPhase, modify_eq_set _ hx0]
    exact conn_set_mono hx hx0 rfl (fun hp => by rw [hp0] at hp; cases hp)
  case teardown =>
    simp only [setCall_conns, teardownShared]
    cases w.lst with
    | none => exact ⟨x, hx, rfl, id⟩
    | some f => exact conn_map_drop_mono hx
  case shutdown =>
    simp only [stepShutdown]
    cases w.lst with
    | none => exact ⟨x, hx, rfl, id⟩
    | some f => exact conn_map_drop_mono hx
  case readReq j x0 hi hp hr => exact conn_set_mono hx hi rfl (fun h => by rw [hp] at h; cases h)
  case readEof j x0 hi hp hr hc => exact conn_set_mono hx hi rfl (fun h => by rw [hp] at h; cases h)
  case reply j x0 hi hp => exact conn_set_mono hx hi rfl (fun h => by rw [hp] at h; cases h)
  case connClose j x0 hi hp => exact conn_set_mono hx hi rfl (fun h => by rw [hp] at h; cases h)
  case decrement j x0 hi hp => exact conn_set_mono hx hi rfl (fun h => by rw [hp] at h; cases h)
  case wgDone j x0 co hi hp hco hwg => exact conn_set_mono hx hi rfl (fun h => by rw [hp] at h; cases h)
  case wgPanic j x0 hi hp hbad => exact conn_set_mono hx hi rfl (fun h => by rw [hp] at h; cases h)
  case handlerFails j x0 hi hp => exact conn_set_mono hx hi rfl (fun h => by rw [hp] at h; cases h)
  case ctxEnd j x0 hi hp hc => exact conn_set_mono hx hi rfl (fun h => by rw [hp] at h; cases h)
  case connect l hl =>
    exact ⟨x, by simp only []; rw [List.getElem?_append_left (lt_of_getElem? hx)]; exact hx, rfl, id⟩
  case clientCall j x0 hi hw => exact conn_set_mono hx hi rfl id
  case clientClose j x0 hi hc hp => exact conn_set_mono hx hi rfl id
  case clientAbort j x0 hi hc hp => exact conn_set_mono hx hi rfl id

/-- a connection that did not exist before the step was made by `clientConnect`: it is refused iff the
    listener was closed at that moment -/
theorem conn_new {w w' : World} {a : Label} (h : Rel w a w') {i : Nat} {x' : Conn}
    (hn : w.conns[i]? = none) (hx : w'.conns[i]? = some x') :
    a = .clientConnect x'.lsn ∧ x'.phase = (if isOpen w x'.lsn then .backlog else .refused) := by
  have hlen : w.conns.length ≤ i := by
    rcases Nat.lt_or_ge i w.conns.length with h' | h'
    · simp [h'] at hn
    · exact h'
  have absurd_len : ∀ cs : List Conn, cs.length = w.conns.length → cs[i]? = some x' → False := by
    intro cs hl hc
    have := lt_of_getElem? hc
    omega
  cases h
  case connect l hl =>
    simp only [] at hx
    rw [List.getElem?_append_right hlen] at hx
    cases hh : i - w.conns.length with
    | zero =>
      simp only [hh, List.getElem?_cons_zero, Option.some.injEq] at hx
      subst hx; exact ⟨rfl, rfl⟩
    | succ n => simp [hh] at hx
  case teardown =>
    exfalso
    simp only [setCall_conns, teardownShared] at hx
    cases hl : w.lst with
    | none => simp only [hl] at hx; exact absurd_len _ rfl hx
    | some f => simp only [hl, closeL_conns] at hx; exact absurd_len _ (by simp) hx
  case shutdown =>
    exfalso
    simp only [stepShutdown] at hx
    cases hl : w.lst with
    | none => simp only [hl] at hx; exact absurd_len _ rfl hx
    | some f => simp only [hl, closeL_conns] at hx; exact absurd_len _ (by simp) hx
  all_goals
    exfalso
    first
      | exact absurd_len _ rfl hx
      | (refine absurd_len _ ?_ hx; simp [takeConn, World.setPhase])

/-! ### listener indices stay valid -/

structure Valid (w : World) : Prop where
  lst : ∀ l, w.lst = some l → l < w.lsnrs.length
  call : ∀ (k : Nat) (c : Call) (l : Nat), w.calls[k]? = some c → c.l = some l → l < w.lsnrs.length

theorem valid_set' {calls : List Call} {n0 n : Nat} {k : Nat} {c' : Call} (hn : n0 ≤ n)
    (hv : ∀ (j : Nat) (cj : Call) (l : Nat), calls[j]? = some cj → cj.l = some l → l < n0)
    (hc : ∀ l, c'.l = some l → l < n) :
    ∀ (j : Nat) (cj : Call) (l : Nat), (calls.set k c')[j]? = some cj → cj.l = some l → l < n := by
  intro j cj l hj hl
  rw [List.getElem?_set] at hj
  by_cases hkj : k = j
  · simp only [hkj, if_true] at hj
    split at hj
    · simp only [Option.some.injEq] at hj; subst hj; exact hc l hl
    · cases hj
  · simp only [hkj, if_false] at hj
    have := hv j cj l hj hl; omega

theorem valid_set {w : World} {n : Nat} {k : Nat} {c' : Call} (hn : w.lsnrs.length ≤ n)
    (hv : Valid w) (hc : ∀ l, c'.l = some l → l < n) :
    ∀ (j : Nat) (cj : Call) (l : Nat), (w.calls.set k c')[j]? = some cj → cj.l = some l → l < n :=
  valid_set' hn hv.call hc

@[simp] theorem teardownShared_lsnrs_length (w : World) : (teardownShared w).lsnrs.length = w.lsnrs.length := by
  unfold teardownShared; cases w.lst <;> simp [closeL]
@[simp] theorem teardownShared_lst (w : World) : (teardownShared w).lst = none := rfl
@[simp] theorem teardownShared_running (w : World) : (teardownShared w).running = false := rfl
@[simp] theorem teardownShared_addrF (w : World) : (teardownShared w).addrF = none := rfl
@[simp] theorem teardownShared_calls (w : World) : (teardownShared w).calls = w.calls := by
  unfold teardownShared; cases w.lst <;> rfl
@[simp] theorem teardownShared_counter (w : World) : (teardownShared w).counter = w.counter := by
  unfold teardownShared; cases w.lst <;> rfl
@[simp] theorem stepShutdown_lsnrs_length (w : World) : (stepShutdown w).lsnrs.length = w.lsnrs.length := by
  unfold stepShutdown; cases w.lst <;> simp [closeL]
@[simp] theorem stepShutdown_lst (w : World) : (stepShutdown w).lst = w.lst := by
  unfold stepShutdown; cases w.lst <;> rfl
@[simp] theorem stepShutdown_running (w : World) : (stepShutdown w).running = false := by
  unfold stepShutdown; cases w.lst <;> rfl
@[simp] theorem stepShutdown_calls (w : World) : (stepShutdown w).calls = w.calls := by
  unfold stepShutdown; cases w.lst <;> rfl
@[simp] theorem stepShutdown_counter (w : World) : (stepShutdown w).counter = w.counter := by
  unfold stepShutdown; cases w.lst <;> rfl
@[simp] theorem stepShutdown_addrF (w : World) : (stepShutdown w).addrF = w.addrF := by
  unfold stepShutdown; cases w.lst <;> rfl
@[simp] theorem stepShutdown_conns_length (w : World) : (stepShutdown w).conns.length = w.conns.length := by
  unfold stepShutdown; cases w.lst <;> simp [closeL]
@[simp] theorem setDeadlineL_lsnrs_length (w : World) (f : Nat) (b : Bool) : (setDeadlineL w f b).lsnrs.length = w.lsnrs.length := by
  simp [setDeadlineL]

theorem valid_step {w w' : World} {a : Label} (h : Rel w a w') (hv : Valid w) : Valid w' := by
  cases h
  all_goals first
    | exact ⟨hv.lst, hv.call⟩
    | (rename_i k c hk _ _ _ ; exact ⟨hv.lst, valid_set (w := w) (Nat.le_refl _) hv (fun l hl => hv.call _ _ l hk hl)⟩)
    | (rename_i k c hk _ _ ; exact ⟨hv.lst, valid_set (w := w) (Nat.le_refl _) hv (fun l hl => hv.call _ _ l hk hl)⟩)
    | (rename_i k c hk _ ; exact ⟨hv.lst, valid_set (w := w) (Nat.le_refl _) hv (fun l hl => hv.call _ _ l hk hl)⟩)
    | (rename_i k c hk ; exact ⟨hv.lst, valid_set (w := w) (Nat.le_refl _) hv (fun l hl => hv.call _ _ l hk hl)⟩)
    | skip
  case spawn kind tmo addr =>
    refine ⟨hv.lst, ?_⟩
    intro k c l hk hl
    simp only [] at hk
    rw [List.getElem?_append] at hk
    split at hk
    · exact hv.call k c l hk hl
    · cases hh : k - w.calls.length with
      | zero => simp only [hh, List.getElem?_cons_zero, Option.some.injEq] at hk; subst hk; cases hl
      | succ n => simp [hh] at hk
  case bindBusy k c a hk hpc hr ha hu =>
    exact ⟨hv.lst, valid_set (w := w) (Nat.le_refl _) hv (fun l hl => hv.call _ _ l hk hl)⟩
  case bindOk k c a hk hpc hr ha hu hkd =>
    refine ⟨fun l hl => ?_, ?_⟩
    · simp only [setCall_lst, bound_lst, Option.some.injEq] at hl; subst hl; simp
    · simp only [setCall_calls, setCall_lsnrs, bound_calls, bound_lsnrs]
      exact valid_set (w := w) (by simp) hv (fun l hl => by simp only [Option.some.injEq] at hl; subst hl; simp)
  case listenOk k c a hk hpc hr ha hu hkd =>
    refine ⟨fun l hl => ?_, ?_⟩
    · simp only [setCall_lst, bound_lst, Option.some.injEq] at hl; subst hl; simp
    · simp only [setCall_calls, setCall_lsnrs, bound_calls, bound_lsnrs]
      exact valid_set (w := w) (by simp) hv (fun l hl => by simp only [Option.some.injEq] at hl; subst hl; simp)
  case readSome k c l hk hpc hl =>
    exact ⟨hv.lst, valid_set (w := w) (Nat.le_refl _) hv (fun l' hl' => by
      simp only [Option.some.injEq] at hl'; subst hl'; exact hv.lst _ hl)⟩
  case refreshOk k c f hk hpc hl ho =>
    exact ⟨fun l hl' => by simpa using hv.lst l hl', by
      simp only [setCall_calls, setCall_lsnrs, setDeadlineL_calls]
      exact valid_set (w := w) (by simp) hv (fun l hl' => by simpa using hv.call _ _ l hk hl')⟩
  case refreshClosed k c f hk hpc hl ho =>
    exact ⟨fun l hl' => by simpa using hv.lst l hl', by
      simp only [setCall_calls, setCall_lsnrs, setDeadlineL_calls]
      exact valid_set (w := w) (by simp) hv (fun l hl' => by simpa using hv.call _ _ l hk hl')⟩
  case acceptConn k c l i hk hpc hl ho hf =>
    exact ⟨hv.lst, valid_set (w := w) (Nat.le_refl _) hv (fun l hl => hv.call _ _ l hk hl)⟩
  case teardown k c hk hpc =>
    refine ⟨fun l hl => by simp at hl, ?_⟩
    simp only [setCall_calls, setCall_lsnrs, teardownShared_calls]
    exact valid_set (w := w) (by simp) hv (fun l hl' => by simpa using hv.call _ _ l hk hl')
  case expire k c l hk hpc hl ho harm =>
    exact ⟨hv.lst, valid_set (w := w) (Nat.le_refl _) hv (fun l hl => hv.call _ _ l hk hl)⟩
  case shutdown =>
    refine ⟨fun l hl => by simpa using hv.lst l (by simpa using hl), ?_⟩
    intro k c l hk hl
    simp only [stepShutdown_calls] at hk
    simpa using hv.call k c l hk hl

theorem valid_init : Valid init := ⟨fun l h => by simp [init] at h, fun k c l h => by simp [init] at h⟩

theorem valid_reach {P : World → Label → Prop} {w0 w : World} (h0 : Valid w0) (h : Reach P w0 w) : Valid w :=
  Reach.induct Valid h0 (fun _ _ _ _ hi _ hs => valid_step (rel_of_step hs) hi) h

theorem valid_reachable {w : World} (h : Reachable w) : Valid w := valid_reach valid_init h

end Varlink.Life
