/-
  What `Domain` provides to the lemmas about the generator's view (used by VarlinkProofs/Props/C07.lean).
-/
import VarlinkProofs.Lemmas.GenTyped2
namespace Varlink.C07
open Varlink Varlink.Idl Varlink.Gen

/-! ## the conjuncts of `Domain` -/

theorem domain_parts {t : Idl} (h : Domain t = true) :
    nameShapes t = true ∧ t.uniqueMemberNames = true ∧ t.homogeneous = true ∧ hasMethod t = true
    ∧ refsResolve t = true ∧ fieldsDistinct t = true ∧ ioStructs t = true ∧ noReserved t = true
    ∧ noDirectRecursion t = true ∧ cleanText t = true := by
  simpa [Domain, and_assoc] using h


theorem shape_no_backtick_cr (n : Bytes) (h : ifaceNameShape n = true) : backtick ∉ n ∧ cr ∉ n := by
  cases n with
  | nil => simp [ifaceNameShape] at h
  | cons c s =>
    simp only [ifaceNameShape, Bool.and_eq_true] at h
    have key : ∀ x : UInt8, (isAlnum x || x == dot || x == dash) = true → x ≠ backtick ∧ x ≠ cr := by
      apply forall_uint8
      set_option maxRecDepth 20000 in decide
    have hc := key c (by simp [isAlnum, h.1])
    have hs := List.all_eq_true.mp h.2
    constructor
    · intro hm
      rcases List.mem_cons.mp hm with e | e
      · exact hc.1 e.symm
      · exact (key _ (hs _ e)).1 rfl
    · intro hm
      rcases List.mem_cons.mp hm with e | e
      · exact hc.2 e.symm
      · exact (key _ (hs _ e)).2 rfl


/-- what `Domain` gives for every member -/
theorem memberGood_of_domain (t : Idl) (h : Domain t = true) : ∀ m ∈ t.members, MemberGood m := by
  obtain ⟨h1, _, h3, _, _, h6, h7, _⟩ := domain_parts h
  intro m hm
  simp only [nameShapes, Bool.and_eq_true, List.all_eq_true] at h1
  simp only [fieldsDistinct, List.all_eq_true] at h6
  exact ⟨memberOk_of_domain t h3 h7 m hm, fun ty hty => (h1.2 m hm).2 ty hty, fun ty hty => h6 m hm ty hty,
    (h1.2 m hm).1⟩


/-- the facts about names the domain provides -/
theorem topFacts_of_domain (t : Idl) (h : Domain t = true) : TopFacts t := by
  obtain ⟨h1, h2, _, _, _, _, _, h8, _⟩ := domain_parts h
  simp only [nameShapes, Bool.and_eq_true, List.all_eq_true] at h1
  simp only [noReserved, List.all_eq_true] at h8
  refine ⟨fun m hm => (h1.2 m hm).1, (uniqueNames_iff_nodup _).mp h2, ?_, h1.1⟩
  intro m hm
  have := h8 m hm
  cases m <;> simp only [memberNotReserved, Bool.and_eq_true, Bool.not_eq_true'] at this
  · simpa [Member.name] using this
  · simpa [Member.name] using this.1.1
  · simpa [Member.name] using this.1.1


end Varlink.C07
