/-
  Helper lemmas about the interface-generator model (lean/Varlink/Gen/*): byte facts, `strings` helpers,
  the string-literal evaluator, and "the walk returns a value" for every loop and section of the generator
  on fields that carry types (used by VarlinkProofs/Props/C07.lean).
-/
import Varlink.Gen.GoString
import Varlink.Gen.Domain
namespace Varlink.Gen
open Varlink Varlink.Idl

/-! ## bytes -/

theorem forall_uint8 (P : UInt8 → Prop) (h : ∀ n, n < 256 → P (UInt8.ofNat n)) : ∀ c, P c := by
  intro c
  have := h c.toNat c.toNat_lt
  simpa using this

theorem letter_facts : ∀ c : UInt8, isLetter c = true →
    (c ≠ dot ∧ c ≠ dash ∧ isLower (lowerByte c) = true) := by
  apply forall_uint8
  set_option maxRecDepth 20000 in decide

theorem alnum_facts : ∀ c : UInt8, isAlnum c = true →
    (c ≠ dot ∧ c ≠ dash ∧ (isLower (lowerByte c) || isDigit (lowerByte c)) = true) := by
  apply forall_uint8
  set_option maxRecDepth 20000 in decide

theorem replaceByte_nil_cons_ne (x c : UInt8) (s : Bytes) (h : c ≠ x) :
    replaceByte x [] (c :: s) = c :: replaceByte x [] s := by
  simp [replaceByte, h]

theorem replaceByte_nil_cons_eq (x : UInt8) (s : Bytes) :
    replaceByte x [] (x :: s) = replaceByte x [] s := by
  simp [replaceByte]

theorem pkgBase_cons_keep (c : UInt8) (s : Bytes) (h1 : c ≠ dot) (h2 : c ≠ dash) :
    pkgBase (c :: s) = lowerByte c :: pkgBase s := by
  simp [pkgBase, toLower, replaceByte_nil_cons_ne, h1, h2]

theorem pkgBase_cons_dot (s : Bytes) : pkgBase (dot :: s) = pkgBase s := by
  simp [pkgBase, replaceByte_nil_cons_eq]

theorem pkgBase_cons_dash (s : Bytes) : pkgBase (dash :: s) = pkgBase s := by
  have : dash ≠ dot := by decide
  simp [pkgBase, replaceByte_nil_cons_eq, replaceByte_nil_cons_ne, this]

theorem pkgBase_tail_chars : ∀ s : Bytes, s.all (fun c => isAlnum c || c == dot || c == dash) = true →
    (pkgBase s).all (fun c => isLower c || isDigit c) = true
  | [], _ => rfl
  | c :: s, h => by
    simp only [List.all_cons, Bool.and_eq_true, Bool.or_eq_true, beq_iff_eq] at h
    have ih := pkgBase_tail_chars s h.2
    rcases h.1 with (ha | hd) | hd
    · obtain ⟨h1, h2, h3⟩ := alnum_facts c ha
      rw [pkgBase_cons_keep c s h1 h2]
      simp only [List.all_cons, Bool.and_eq_true]
      exact ⟨h3, ih⟩
    · subst hd; rw [pkgBase_cons_dot]; exact ih
    · subst hd; rw [pkgBase_cons_dash]; exact ih

/-- the package name is the base name, or the base name plus `_` when that is a Go keyword or one of
    `reservedPkgNames` (`main`, `documentation`) -/
theorem pkgName_cases (n : Bytes) :
    (pkgName n = pkgBase n ∧ pkgBase n ∉ goKeywords ∧ pkgBase n ∉ reservedPkgNames)
    ∨ (pkgName n = pkgBase n ++ str "_" ∧ (pkgBase n ∈ goKeywords ∨ pkgBase n ∈ reservedPkgNames)) := by
  unfold pkgName
  by_cases h : (goKeywords.contains (pkgBase n) || reservedPkgNames.contains (pkgBase n)) = true
  · right
    simp only [h, if_true, true_and]
    simpa using h
  · left
    simp only [h]
    simpa using h

/-- membership in `reservedPkgNames`, spelled out -/
theorem mem_reservedPkgNames (p : Bytes) :
    p ∈ reservedPkgNames ↔ p = str "main" ∨ p = str "documentation" := by
  simp [reservedPkgNames]

/-- `<keyword>_`, `main_` and `documentation_` are neither keywords nor `main` nor `documentation` -/
theorem suffixed_not_reserved : ∀ k ∈ reservedPkgNames ++ goKeywords,
    k ++ str "_" ∉ goKeywords ∧ k ++ str "_" ∉ reservedPkgNames := by decide

theorem lowerOrDigit_identChar : ∀ c : UInt8, (isLower c || isDigit c) = true → isIdentChar c = true := by
  apply forall_uint8
  set_option maxRecDepth 20000 in decide

theorem lower_identStart : ∀ c : UInt8, isLower c = true → isIdentStart c = true := by
  apply forall_uint8
  set_option maxRecDepth 20000 in decide


theorem pkgChar_identChar : ∀ c : UInt8, (isLower c || isDigit c || c == underscore) = true → isIdentChar c = true := by
  apply forall_uint8
  set_option maxRecDepth 20000 in decide

/-- for an interface name of the grammar's shape the base name is a lower-case letter followed by lower-case
    letters and digits -/
theorem pkgBase_shape (n : Bytes) (h : ifaceNameShape n = true) :
    ∃ c r, pkgBase n = c :: r ∧ isLower c = true ∧ r.all (fun c => isLower c || isDigit c) = true := by
  cases n with
  | nil => simp [ifaceNameShape] at h
  | cons c s =>
    simp only [ifaceNameShape, Bool.and_eq_true] at h
    obtain ⟨h1, h2, h3⟩ := letter_facts c h.1
    exact ⟨lowerByte c, pkgBase s, pkgBase_cons_keep c s h1 h2, h3, pkgBase_tail_chars s h.2⟩

/-- … and the package name a lower-case letter followed by lower-case letters, digits and underscores -/
theorem pkgName_shape (n : Bytes) (h : ifaceNameShape n = true) :
    ∃ c r, pkgName n = c :: r ∧ isLower c = true
      ∧ r.all (fun c => isLower c || isDigit c || c == underscore) = true := by
  obtain ⟨c, r, e, hc, hr⟩ := pkgBase_shape n h
  have hr' : r.all (fun c => isLower c || isDigit c || c == underscore) = true := by
    rw [List.all_eq_true] at hr ⊢
    intro x hx
    simp [hr x hx]
  rcases pkgName_cases n with ⟨e', _⟩ | ⟨e', _⟩
  · exact ⟨c, r, e' ▸ e, hc, hr'⟩
  · refine ⟨c, r ++ str "_", by rw [e', e]; rfl, hc, ?_⟩
    rw [List.all_append, hr']
    decide

/-- **the package name is a Go identifier, no keyword, not `main` and not `documentation`** -/
theorem pkgName_usable (n : Bytes) (h : ifaceNameShape n = true) :
    isGoIdent (pkgName n) = true ∧ pkgName n ∉ goKeywords ∧ pkgName n ∉ reservedPkgNames := by
  refine ⟨?_, ?_⟩
  · obtain ⟨c, r, e, hc, hr⟩ := pkgName_shape n h
    rw [e]
    simp only [isGoIdent, Bool.and_eq_true]
    refine ⟨lower_identStart c hc, ?_⟩
    rw [List.all_eq_true] at hr ⊢
    exact fun x hx => pkgChar_identChar x (hr x hx)
  · rcases pkgName_cases n with ⟨e, h1, h2⟩ | ⟨e, h1⟩
    · rw [e]; exact ⟨h1, h2⟩
    · rw [e]
      apply suffixed_not_reserved
      rcases h1 with h1 | h1
      · exact List.mem_append_right _ h1
      · exact List.mem_append_left _ h1

/-! ## string literals -/

theorem replaceByte_append (c : UInt8) (new a b : Bytes) :
    replaceByte c new (a ++ b) = replaceByte c new a ++ replaceByte c new b := by
  induction a with
  | nil => rfl
  | cons x xs ih =>
    simp only [List.cons_append, replaceByte]
    split <;> simp [ih]

/-- a replacement text that does not contain the byte is left alone -/
theorem replaceByte_not_mem (c : UInt8) (new s : Bytes) (h : c ∉ s) : replaceByte c new s = s := by
  induction s with
  | nil => rfl
  | cons x xs ih =>
    simp only [List.mem_cons, not_or] at h
    simp only [replaceByte]
    rw [if_neg (fun e => h.1 e.symm), ih h.2]

def backtickSplice : Bytes := str "` + \"`\" + `"
def crSplice : Bytes := str "` + \"\\r\" + `"

theorem quoteDescription_nil : quoteDescription [] = [] := rfl

theorem quoteDescription_cons (c : UInt8) (d : Bytes) :
    quoteDescription (c :: d) =
      (if c = backtick then backtickSplice else if c = cr then crSplice else [c]) ++ quoteDescription d := by
  unfold quoteDescription
  simp only [replaceByte]
  by_cases h1 : c = backtick
  · subst h1
    simp only [if_true]
    rw [replaceByte_append]
    congr 1
  · rw [if_neg h1, if_neg h1]
    simp only [replaceByte]
    by_cases h2 : c = cr
    · simp [h2, crSplice]
    · simp [h2]

theorem backtickSplice_eq : backtickSplice = [96,32,43,32,34,96,34,32,43,32,96] := by decide
theorem crSplice_eq : crSplice = [96,32,43,32,34,92,114,34,32,43,32,96] := by decide

theorem evalLit_raw_quote (d rest : Bytes) :
    evalLit .raw (quoteDescription d ++ rest) = (evalLit .raw rest).map (d ++ ·) := by
  induction d with
  | nil => simp [quoteDescription_nil]
  | cons c d ih =>
    rw [quoteDescription_cons]
    by_cases h1 : c = backtick
    · subst h1
      rw [if_pos rfl, backtickSplice_eq]
      simp [evalLit, backtick, cr, nl, dquote, backslash, space, plusSign, ih, Option.map_map, Function.comp_def, -List.cons.injEq]
    · rw [if_neg h1]
      by_cases h2 : c = cr
      · subst h2
        rw [if_pos rfl, crSplice_eq]
        simp [evalLit, backtick, cr, nl, dquote, backslash, space, plusSign, ih, Option.map_map, Function.comp_def, -List.cons.injEq]
      · rw [if_neg h2]
        simp [evalLit, h1, h2, ih, Option.map_map, Function.comp_def]

/-- **the emitted description expression evaluates to the description plus one newline** (all byte strings) -/
theorem descLiteral_value (d : Bytes) : evalStringExpr (descLiteral d) = some (d ++ [nl]) := by
  have h := evalLit_raw_quote d (str "\n`")
  have h2 : evalLit .raw (str "\n`") = some [nl] := by decide
  simp only [descLiteral]
  show evalStringExpr (backtick :: (quoteDescription d ++ str "\n`")) = _
  simp [evalStringExpr, h, h2]

theorem evalLit_raw_plain (s rest : Bytes) (h1 : backtick ∉ s) (h2 : cr ∉ s) :
    evalLit .raw (s ++ rest) = (evalLit .raw rest).map (s ++ ·) := by
  induction s with
  | nil => simp
  | cons c s ih =>
    simp only [List.mem_cons, not_or] at h1 h2
    simp [evalLit, Ne.symm h1.1, Ne.symm h2.1, ih h1.2 h2.2, Option.map_map, Function.comp_def]

/-- the emitted name expression evaluates to the name when the name has no back quote and no carriage return -/
theorem nameLiteral_value (n : Bytes) (h1 : backtick ∉ n) (h2 : cr ∉ n) :
    evalStringExpr (nameLiteral n) = some n := by
  have h := evalLit_raw_plain n (str "`") h1 h2
  have h3 : evalLit .raw (str "`") = some [] := by decide
  show evalStringExpr (backtick :: (n ++ str "`")) = _
  simp [evalStringExpr, h, h3]

/-! ## the walk returns a value -/

mutual
theorem writeType_isSome : ∀ (t : Ty) (j : Bool) (i : Nat), t.homogeneous = true → (writeType t j i).isSome = true
  | .bool, _, _, _ => rfl
  | .int, _, _, _ => rfl
  | .float, _, _, _ => rfl
  | .string, _, _, _ => rfl
  | .object, _, _, _ => rfl
  | .named _, _, _, _ => rfl
  | .enum _, _, _, _ => rfl
  | .maybe t, j, i, h => by
    have := writeType_isSome t j i (by simpa [Ty.homogeneous] using h)
    simp [writeType, this]
  | .array t, j, i, h => by
    have := writeType_isSome t j i (by simpa [Ty.homogeneous] using h)
    simp [writeType, this]
  | .map t, j, i, h => by
    have := writeType_isSome t j i (by simpa [Ty.homogeneous] using h)
    simp [writeType, this]
  | .struct fs, j, i, h => by
    simp only [Ty.homogeneous, Bool.and_eq_true] at h
    have := writeFields_isSome fs j i h.1 h.2
    cases fs with
    | nil => rfl
    | typed n t r => simp only [writeType]; simpa using this
    | bare n r => simp [Fields.allTyped] at h
theorem writeFields_isSome : ∀ (fs : Fields) (j : Bool) (i : Nat), fs.allTyped = true → fs.homogeneous = true →
    (writeFields fs j i).isSome = true
  | .nil, _, _, _, _ => rfl
  | .bare _ _, _, _, h, _ => by simp [Fields.allTyped] at h
  | .typed n t r, j, i, h1, h2 => by
    simp only [Fields.homogeneous, Bool.and_eq_true] at h2
    simp only [Fields.allTyped] at h1
    have a := writeType_isSome t j (i + 1) h2.1
    have b := writeFields_isSome r j i h1 h2.2
    obtain ⟨x, hx⟩ := Option.isSome_iff_exists.mp a
    obtain ⟨y, hy⟩ := Option.isSome_iff_exists.mp b
    simp [writeFields, hx, hy]
end


theorem isSome_of_eq {α} {o : Option α} : o.isSome = true → ∃ a, o = some a := Option.isSome_iff_exists.mp

theorem eachField_isSome (f : Bytes → Ty → Option Bytes)
    (hf : ∀ n t, t.homogeneous = true → (f n t).isSome = true) :
    ∀ fs : Fields, fs.allTyped = true → fs.homogeneous = true → (eachField f fs).isSome = true
  | .nil, _, _ => rfl
  | .bare _ _, h, _ => by simp [Fields.allTyped] at h
  | .typed n t r, h1, h2 => by
    simp only [Fields.homogeneous, Bool.and_eq_true] at h2
    simp only [Fields.allTyped] at h1
    obtain ⟨x, hx⟩ := isSome_of_eq (hf n t h2.1)
    obtain ⟨y, hy⟩ := isSome_of_eq (eachField_isSome f hf r h1 h2.2)
    simp [eachField, hx, hy]

theorem eachFieldSep_isSome (sep : Bytes) (f : Bytes → Ty → Option Bytes)
    (hf : ∀ n t, t.homogeneous = true → (f n t).isSome = true) :
    ∀ (fs : Fields) (first : Bool), fs.allTyped = true → fs.homogeneous = true →
      (eachFieldSep sep f first fs).isSome = true
  | .nil, _, _, _ => rfl
  | .bare _ _, _, h, _ => by simp [Fields.allTyped] at h
  | .typed n t r, first, h1, h2 => by
    simp only [Fields.homogeneous, Bool.and_eq_true] at h2
    simp only [Fields.allTyped] at h1
    obtain ⟨x, hx⟩ := isSome_of_eq (hf n t h2.1)
    obtain ⟨y, hy⟩ := isSome_of_eq (eachFieldSep_isSome sep f hf r false h1 h2.2)
    simp [eachFieldSep, hx, hy]

theorem concatOpt_isSome {α} (f : α → Option Bytes) :
    ∀ l : List α, (∀ a ∈ l, (f a).isSome = true) → (concatOpt f l).isSome = true
  | [], _ => rfl
  | a :: r, h => by
    obtain ⟨x, hx⟩ := isSome_of_eq (h a (by simp))
    obtain ⟨y, hy⟩ := isSome_of_eq (concatOpt_isSome f r (fun b hb => h b (by simp [hb])))
    simp [concatOpt, hx, hy]

theorem map_writeType_isSome (t : Ty) (j i) (g : Bytes → Bytes) (h : t.homogeneous = true) :
    ((writeType t j i).map g).isSome = true := by
  simp [writeType_isSome t j i h]

/-- a field list the generator can walk without dereferencing nil -/
def FieldsOk (fs : Fields) : Prop := fs.allTyped = true ∧ fs.homogeneous = true

theorem paramList_isSome (s : Bytes) (i : Nat) (fs : Fields) (h : FieldsOk fs) : (paramList s i fs).isSome = true :=
  eachField_isSome _ (fun _ t ht => map_writeType_isSome t _ _ _ ht) fs h.1 h.2

theorem resultList_isSome (i : Nat) (fs : Fields) (h : FieldsOk fs) : (resultList i fs).isSome = true :=
  eachField_isSome _ (fun _ t ht => map_writeType_isSome t _ _ _ ht) fs h.1 h.2

theorem resultTypes_isSome (i : Nat) (fs : Fields) (h : FieldsOk fs) : (resultTypes i fs).isSome = true :=
  eachField_isSome _ (fun _ t ht => map_writeType_isSome t _ _ _ ht) fs h.1 h.2

theorem replyParams_isSome (fs : Fields) (h : FieldsOk fs) : (replyParams fs).isSome = true :=
  eachFieldSep_isSome _ _ (fun _ t ht => map_writeType_isSome t _ _ _ ht) fs true h.1 h.2

theorem copyIn_isSome (d s : Bytes) (fs : Fields) (h : FieldsOk fs) : (copyIn d s fs).isSome = true :=
  eachField_isSome _ (fun _ t ht => by
    cases hk : convKind t <;> simp [map_writeType_isSome t _ _ _ ht]) fs h.1 h.2

theorem copyOut_isSome (fs : Fields) (h : FieldsOk fs) : (copyOut fs).isSome = true :=
  eachField_isSome _ (fun _ t ht => by
    cases hk : convKind t <;> simp [map_writeType_isSome t _ _ _ ht]) fs h.1 h.2

theorem dispatchArgs_isSome (fs : Fields) (h : FieldsOk fs) : (dispatchArgs fs).isSome = true :=
  eachField_isSome _ (fun _ t ht => by
    cases hk : convKind t <;> simp [map_writeType_isSome t _ _ _ ht]) fs h.1 h.2

/-- a struct type whose fields the generator can walk -/
def StructOk (ty : Ty) : Prop := ty.homogeneous = true ∧ FieldsOk (tyFields ty)

theorem structOk_of (ty : Ty) (h1 : tyIsStruct ty = true) (h2 : ty.homogeneous = true) : StructOk ty := by
  cases ty <;> simp [tyIsStruct] at h1
  rename_i fs
  simp only [Ty.homogeneous, Bool.and_eq_true] at h2
  exact ⟨by simp [Ty.homogeneous, h2.1, h2.2], h2.1, h2.2⟩

theorem structOk_errTy (oty : Option Ty) (h1 : ∀ ty, oty = some ty → tyIsStruct ty = true ∧ ty.homogeneous = true) :
    StructOk (errTy oty) := by
  cases oty with
  | none => exact ⟨rfl, rfl, rfl⟩
  | some ty => exact structOk_of ty (h1 ty rfl).1 (h1 ty rfl).2

theorem sendPrologue_isSome (iface n c tl : Bytes) (ty : Ty) (h : StructOk ty) :
    (sendPrologue iface n c tl ty).isSome = true := by
  unfold sendPrologue
  obtain ⟨x, hx⟩ := isSome_of_eq (writeType_isSome ty true 1 h.1)
  obtain ⟨y, hy⟩ := isSome_of_eq (copyIn_isSome (str "in") (str "_in_") _ h.2)
  simp only [hx, hy]
  split <;> rfl

theorem receiveBody_isSome (lhs : Bytes) (ty : Ty) (h : StructOk ty) : (receiveBody lhs ty).isSome = true := by
  unfold receiveBody
  split
  · exact map_writeType_isSome ty _ _ _ h.1
  · rfl



/-- what `Domain` gives for one member: its types are homogeneous, method in/out and error types are structs -/
def MemberOk (m : Member) : Prop :=
  (∀ ty ∈ m.types, ty.homogeneous = true) ∧ memberIoStructs m = true

theorem MemberOk.method {n d i o} (h : MemberOk (.method n d i o)) : StructOk i ∧ StructOk o := by
  obtain ⟨h1, h2⟩ := h
  simp only [memberIoStructs, Bool.and_eq_true] at h2
  exact ⟨structOk_of i h2.1 (h1 i (by simp [Member.types])), structOk_of o h2.2 (h1 o (by simp [Member.types]))⟩

theorem MemberOk.error {n d oty} (h : MemberOk (.error n d oty)) : StructOk (errTy oty) := by
  obtain ⟨h1, h2⟩ := h
  apply structOk_errTy
  intro ty e
  subst e
  exact ⟨by simpa [memberIoStructs] using h2, h1 ty (by simp [Member.types])⟩

theorem MemberOk.alias {n d ty} (h : MemberOk (.alias n d ty)) : ty.homogeneous = true :=
  h.1 ty (by simp [Member.types])

theorem aliasDecl_isSome (t : Idl) (m : Member) (h : MemberOk m) : (aliasDecl t m).isSome = true := by
  cases m with
  | alias n d ty => exact map_writeType_isSome ty _ _ _ h.alias
  | method => rfl
  | error => rfl

theorem errorDecl_isSome (iface : Bytes) (m : Member) (h : MemberOk m) : (errorDecl iface m).isSome = true := by
  cases m with
  | alias => rfl
  | method => rfl
  | error n d oty => exact map_writeType_isSome _ _ _ _ h.error.1

theorem methodClient_isSome (iface : Bytes) (m : Member) (h : MemberOk m) : (methodClient iface m).isSome = true := by
  cases m with
  | alias => rfl
  | error => rfl
  | method n d i o =>
    obtain ⟨hi, ho⟩ := h.method
    obtain ⟨a1, e1⟩ := isSome_of_eq (paramList_isSome (str "_in_") 1 _ hi.2)
    obtain ⟨a2, e2⟩ := isSome_of_eq (resultList_isSome 1 _ ho.2)
    obtain ⟨a3, e3⟩ := isSome_of_eq (resultTypes_isSome 1 _ ho.2)
    obtain ⟨a4, e4⟩ := isSome_of_eq (sendPrologue_isSome iface n (str "Send") (str ", flags)\n") i hi)
    obtain ⟨a5, e5⟩ := isSome_of_eq (resultList_isSome 3 _ ho.2)
    obtain ⟨a6, e6⟩ := isSome_of_eq (receiveBody_isSome (str "flags, err") o ho)
    obtain ⟨a7, e7⟩ := isSome_of_eq (copyOut_isSome _ ho.2)
    obtain ⟨a8, e8⟩ := isSome_of_eq (sendPrologue_isSome iface n (str "Upgrade") (str ")\n") i hi)
    obtain ⟨a9, e9⟩ := isSome_of_eq (receiveBody_isSome (str "flags, conn, err") o ho)
    simp only [methodClient, e1, e2, e3, e4, e5, e6, e7, e8, e9, Option.isSome_some]

theorem ifaceMethod_isSome (m : Member) (h : MemberOk m) : (ifaceMethod m).isSome = true := by
  cases m with
  | alias => rfl
  | error => rfl
  | method n d i o => simp [ifaceMethod, paramList_isSome _ _ _ h.method.1.2]

theorem errorReply_isSome (iface : Bytes) (m : Member) (h : MemberOk m) : (errorReply iface m).isSome = true := by
  cases m with
  | alias => rfl
  | method => rfl
  | error n d oty =>
    obtain ⟨a1, e1⟩ := isSome_of_eq (replyParams_isSome _ h.error.2)
    obtain ⟨a2, e2⟩ := isSome_of_eq (copyIn_isSome (str "out") (str "_") _ h.error.2)
    simp only [errorReply, e1, e2, Option.isSome_some]

theorem methodReply_isSome (m : Member) (h : MemberOk m) : (methodReply m).isSome = true := by
  cases m with
  | alias => rfl
  | error => rfl
  | method n d i o =>
    obtain ⟨_, ho⟩ := h.method
    obtain ⟨a1, e1⟩ := isSome_of_eq (replyParams_isSome _ ho.2)
    obtain ⟨a2, e2⟩ := isSome_of_eq (writeType_isSome o true 1 ho.1)
    obtain ⟨a3, e3⟩ := isSome_of_eq (copyIn_isSome (str "out") (str "_") _ ho.2)
    simp only [methodReply, e1, e2, e3]
    split <;> rfl

theorem dummyImpl_isSome (iface : Bytes) (m : Member) (h : MemberOk m) : (dummyImpl iface m).isSome = true := by
  cases m with
  | alias => rfl
  | error => rfl
  | method n d i o => simp [dummyImpl, paramList_isSome _ _ _ h.method.1.2]

theorem dispatchCase_isSome (pkg : Bytes) (m : Member) (h : MemberOk m) : (dispatchCase pkg m).isSome = true := by
  cases m with
  | alias => rfl
  | error => rfl
  | method n d i o =>
    obtain ⟨hi, _⟩ := h.method
    obtain ⟨a2, e2⟩ := isSome_of_eq (writeType_isSome i true 2 hi.1)
    obtain ⟨a3, e3⟩ := isSome_of_eq (dispatchArgs_isSome _ hi.2)
    simp only [dispatchCase, e2, e3]
    split <;> rfl

/-- every member of a description in the domain is walkable -/
theorem memberOk_of_domain (t : Idl) (h1 : t.homogeneous = true) (h2 : ioStructs t = true) :
    ∀ m ∈ t.members, MemberOk m := by
  intro m hm
  simp only [Idl.homogeneous, List.all_eq_true] at h1
  simp only [ioStructs, List.all_eq_true] at h2
  exact ⟨fun ty hty => h1 m hm ty hty, h2 m hm⟩

theorem bodyText_isSome (t : Idl) (h : ∀ m ∈ t.members, MemberOk m) : (bodyText t).isSome = true := by
  have sub : ∀ (p : Member → Bool), ∀ m ∈ t.members.filter p, MemberOk m :=
    fun p m hm => h m (List.mem_filter.mp hm).1
  obtain ⟨a1, e1⟩ := isSome_of_eq (concatOpt_isSome (aliasDecl t) t.aliases (fun m hm => aliasDecl_isSome t m (sub _ m hm)))
  obtain ⟨a2, e2⟩ := isSome_of_eq (concatOpt_isSome (errorDecl t.name) t.errors (fun m hm => errorDecl_isSome _ m (sub _ m hm)))
  obtain ⟨a3, e3⟩ := isSome_of_eq (concatOpt_isSome (methodClient t.name) t.methods (fun m hm => methodClient_isSome _ m (sub _ m hm)))
  obtain ⟨a4, e4⟩ := isSome_of_eq (concatOpt_isSome ifaceMethod t.methods (fun m hm => ifaceMethod_isSome m (sub _ m hm)))
  obtain ⟨a5, e5⟩ := isSome_of_eq (concatOpt_isSome (errorReply t.name) t.errors (fun m hm => errorReply_isSome _ m (sub _ m hm)))
  obtain ⟨a6, e6⟩ := isSome_of_eq (concatOpt_isSome methodReply t.methods (fun m hm => methodReply_isSome m (sub _ m hm)))
  obtain ⟨a7, e7⟩ := isSome_of_eq (concatOpt_isSome (dummyImpl t.name) t.methods (fun m hm => dummyImpl_isSome _ m (sub _ m hm)))
  obtain ⟨a8, e8⟩ := isSome_of_eq (concatOpt_isSome (dispatchCase (pkgName t.name)) t.methods (fun m hm => dispatchCase_isSome _ m (sub _ m hm)))
  simp only [bodyText, e1, e2, e3, e4, e5, e6, e7, e8, Option.isSome_some]



mutual
theorem goTy_isSome : ∀ (t : Ty) (j : Bool), t.homogeneous = true → (goTy t j).isSome = true
  | .bool, _, _ => rfl
  | .int, _, _ => rfl
  | .float, _, _ => rfl
  | .string, _, _ => rfl
  | .object, _, _ => rfl
  | .named _, _, _ => rfl
  | .enum _, _, _ => rfl
  | .maybe t, j, h => by
    have := goTy_isSome t j (by simpa [Ty.homogeneous] using h)
    simp [goTy, this]
  | .array t, j, h => by
    have := goTy_isSome t j (by simpa [Ty.homogeneous] using h)
    simp [goTy, this]
  | .map t, j, h => by
    have := goTy_isSome t j (by simpa [Ty.homogeneous] using h)
    simp [goTy, this]
  | .struct fs, j, h => by
    simp only [Ty.homogeneous, Bool.and_eq_true] at h
    have := goFields_isSome fs j h.1 h.2
    simp [goTy, this]
theorem goFields_isSome : ∀ (fs : Fields) (j : Bool), fs.allTyped = true → fs.homogeneous = true →
    (goFields fs j).isSome = true
  | .nil, _, _, _ => rfl
  | .bare _ _, _, h, _ => by simp [Fields.allTyped] at h
  | .typed n t r, j, h1, h2 => by
    simp only [Fields.homogeneous, Bool.and_eq_true] at h2
    simp only [Fields.allTyped] at h1
    obtain ⟨x, hx⟩ := isSome_of_eq (goTy_isSome t j h2.1)
    obtain ⟨y, hy⟩ := isSome_of_eq (goFields_isSome r j h1 h2.2)
    simp [goFields, hx, hy]
end

theorem paramFields_isSome (s : Bytes) : ∀ fs : Fields, FieldsOk fs → (paramFields s fs).isSome = true
  | .nil, _ => rfl
  | .bare _ _, h => by simp [FieldsOk, Fields.allTyped] at h
  | .typed n t r, h => by
    obtain ⟨h1, h2⟩ := h
    simp only [Fields.homogeneous, Bool.and_eq_true] at h2
    simp only [Fields.allTyped] at h1
    obtain ⟨x, hx⟩ := isSome_of_eq (goTy_isSome t false h2.1)
    obtain ⟨y, hy⟩ := isSome_of_eq (paramFields_isSome s r ⟨h1, h2.2⟩)
    simp [paramFields, hx, hy]

theorem resultTypeFields_isSome : ∀ fs : Fields, FieldsOk fs → (resultTypeFields fs).isSome = true
  | .nil, _ => rfl
  | .bare _ _, h => by simp [FieldsOk, Fields.allTyped] at h
  | .typed n t r, h => by
    obtain ⟨h1, h2⟩ := h
    simp only [Fields.homogeneous, Bool.and_eq_true] at h2
    simp only [Fields.allTyped] at h1
    obtain ⟨x, hx⟩ := isSome_of_eq (goTy_isSome t false h2.1)
    obtain ⟨y, hy⟩ := isSome_of_eq (resultTypeFields_isSome r ⟨h1, h2.2⟩)
    simp [resultTypeFields, hx, hy]

theorem copyInStmts_isSome (d s : Bytes) : ∀ fs : Fields, FieldsOk fs → (copyInStmts d s fs).isSome = true
  | .nil, _ => rfl
  | .bare _ _, h => by simp [FieldsOk, Fields.allTyped] at h
  | .typed n t r, h => by
    obtain ⟨h1, h2⟩ := h
    simp only [Fields.homogeneous, Bool.and_eq_true] at h2
    simp only [Fields.allTyped] at h1
    obtain ⟨x, hx⟩ := isSome_of_eq (goTy_isSome t true h2.1)
    obtain ⟨y, hy⟩ := isSome_of_eq (copyInStmts_isSome d s r ⟨h1, h2.2⟩)
    simp [copyInStmts, hx, hy]

theorem copyOutStmts_isSome : ∀ fs : Fields, FieldsOk fs → (copyOutStmts fs).isSome = true
  | .nil, _ => rfl
  | .bare _ _, h => by simp [FieldsOk, Fields.allTyped] at h
  | .typed n t r, h => by
    obtain ⟨h1, h2⟩ := h
    simp only [Fields.homogeneous, Bool.and_eq_true] at h2
    simp only [Fields.allTyped] at h1
    obtain ⟨x, hx⟩ := isSome_of_eq (goTy_isSome t false h2.1)
    obtain ⟨y, hy⟩ := isSome_of_eq (copyOutStmts_isSome r ⟨h1, h2.2⟩)
    simp [copyOutStmts, hx, hy]

theorem dispatchArgExprs_isSome : ∀ fs : Fields, FieldsOk fs → (dispatchArgExprs fs).isSome = true
  | .nil, _ => rfl
  | .bare _ _, h => by simp [FieldsOk, Fields.allTyped] at h
  | .typed n t r, h => by
    obtain ⟨h1, h2⟩ := h
    simp only [Fields.homogeneous, Bool.and_eq_true] at h2
    simp only [Fields.allTyped] at h1
    obtain ⟨x, hx⟩ := isSome_of_eq (goTy_isSome t false h2.1)
    obtain ⟨y, hy⟩ := isSome_of_eq (dispatchArgExprs_isSome r ⟨h1, h2.2⟩)
    simp [dispatchArgExprs, hx, hy]

theorem concatOptL_isSome {α β} (f : α → Option (List β)) :
    ∀ l : List α, (∀ a ∈ l, (f a).isSome = true) → (concatOptL f l).isSome = true
  | [], _ => rfl
  | a :: r, h => by
    obtain ⟨x, hx⟩ := isSome_of_eq (h a (by simp))
    obtain ⟨y, hy⟩ := isSome_of_eq (concatOptL_isSome f r (fun b hb => h b (by simp [hb])))
    simp [concatOptL, hx, hy]

theorem aliasView_isSome (t : Idl) (m : Member) (h : MemberOk m) : (aliasView t m).isSome = true := by
  cases m with
  | alias n d ty => simp [aliasView, goTy_isSome ty true h.alias]
  | method => rfl
  | error => rfl

theorem errorView_isSome (m : Member) (h : MemberOk m) : (errorView m).isSome = true := by
  cases m with
  | alias => rfl
  | method => rfl
  | error n d oty => simp [errorView, goTy_isSome _ true h.error.1]

theorem sendPrologueView_isSome (iface n c : Bytes) (ty : Ty) (h : StructOk ty) :
    (sendPrologueView iface n c ty).isSome = true := by
  unfold sendPrologueView
  obtain ⟨x, hx⟩ := isSome_of_eq (goTy_isSome ty true h.1)
  obtain ⟨y, hy⟩ := isSome_of_eq (copyInStmts_isSome (str "in") (str "_in_") _ h.2)
  simp only [hx, hy]
  split <;> rfl

theorem receiveView_isSome (ty : Ty) (h : StructOk ty) : (receiveView ty).isSome = true := by
  unfold receiveView
  split
  · simp [goTy_isSome ty true h.1]
  · rfl

theorem methodClientView_isSome (iface : Bytes) (m : Member) (h : MemberOk m) :
    (methodClientView iface m).isSome = true := by
  cases m with
  | alias => rfl
  | error => rfl
  | method n d i o =>
    obtain ⟨hi, ho⟩ := h.method
    obtain ⟨a1, e1⟩ := isSome_of_eq (paramFields_isSome (str "_in_") _ hi.2)
    obtain ⟨a2, e2⟩ := isSome_of_eq (paramFields_isSome (str "_out_") _ ho.2)
    obtain ⟨a3, e3⟩ := isSome_of_eq (resultTypeFields_isSome _ ho.2)
    obtain ⟨a4, e4⟩ := isSome_of_eq (sendPrologueView_isSome iface n (str "Send") i hi)
    obtain ⟨a5, e5⟩ := isSome_of_eq (sendPrologueView_isSome iface n (str "Upgrade") i hi)
    obtain ⟨a6, e6⟩ := isSome_of_eq (receiveView_isSome o ho)
    obtain ⟨a7, e7⟩ := isSome_of_eq (copyOutStmts_isSome _ ho.2)
    simp only [methodClientView, e1, e2, e3, e4, e5, e6, e7, Option.isSome_some]

theorem ifaceMethodView_isSome (m : Member) (h : MemberOk m) : (ifaceMethodView m).isSome = true := by
  cases m with
  | alias => rfl
  | error => rfl
  | method n d i o => simp [ifaceMethodView, paramFields_isSome _ _ h.method.1.2]

theorem errorReplyView_isSome (iface : Bytes) (m : Member) (h : MemberOk m) : (errorReplyView iface m).isSome = true := by
  cases m with
  | alias => rfl
  | method => rfl
  | error n d oty =>
    obtain ⟨a1, e1⟩ := isSome_of_eq (paramFields_isSome (str "_") _ h.error.2)
    obtain ⟨a2, e2⟩ := isSome_of_eq (copyInStmts_isSome (str "out") (str "_") _ h.error.2)
    simp only [errorReplyView, e1, e2, Option.isSome_some]

theorem methodReplyView_isSome (m : Member) (h : MemberOk m) : (methodReplyView m).isSome = true := by
  cases m with
  | alias => rfl
  | error => rfl
  | method n d i o =>
    obtain ⟨_, ho⟩ := h.method
    obtain ⟨a1, e1⟩ := isSome_of_eq (paramFields_isSome (str "_") _ ho.2)
    obtain ⟨a2, e2⟩ := isSome_of_eq (goTy_isSome o true ho.1)
    obtain ⟨a3, e3⟩ := isSome_of_eq (copyInStmts_isSome (str "out") (str "_") _ ho.2)
    simp only [methodReplyView, e1, e2, e3]
    split <;> rfl

theorem dummyView_isSome (iface : Bytes) (m : Member) (h : MemberOk m) : (dummyView iface m).isSome = true := by
  cases m with
  | alias => rfl
  | error => rfl
  | method n d i o => simp [dummyView, paramFields_isSome _ _ h.method.1.2]

theorem dispatchCaseView_isSome (pkg : Bytes) (m : Member) (h : MemberOk m) : (dispatchCaseView pkg m).isSome = true := by
  cases m with
  | alias => rfl
  | error => rfl
  | method n d i o =>
    obtain ⟨hi, _⟩ := h.method
    obtain ⟨a2, e2⟩ := isSome_of_eq (goTy_isSome i true hi.1)
    obtain ⟨a3, e3⟩ := isSome_of_eq (dispatchArgExprs_isSome _ hi.2)
    simp only [dispatchCaseView, e2, e3]
    split <;> rfl

theorem genFile_isSome (t : Idl) (h : ∀ m ∈ t.members, MemberOk m) : (genFile t).isSome = true := by
  have sub : ∀ (p : Member → Bool), ∀ m ∈ t.members.filter p, MemberOk m :=
    fun p m hm => h m (List.mem_filter.mp hm).1
  obtain ⟨a0, e0⟩ := isSome_of_eq (bodyText_isSome t h)
  obtain ⟨a1, e1⟩ := isSome_of_eq (concatOptL_isSome (aliasView t) t.aliases (fun m hm => aliasView_isSome t m (sub _ m hm)))
  obtain ⟨a2, e2⟩ := isSome_of_eq (concatOptL_isSome errorView t.errors (fun m hm => errorView_isSome m (sub _ m hm)))
  obtain ⟨a3, e3⟩ := isSome_of_eq (concatOptL_isSome (methodClientView t.name) t.methods (fun m hm => methodClientView_isSome _ m (sub _ m hm)))
  obtain ⟨a4, e4⟩ := isSome_of_eq (concatOptL_isSome ifaceMethodView t.methods (fun m hm => ifaceMethodView_isSome m (sub _ m hm)))
  obtain ⟨a5, e5⟩ := isSome_of_eq (concatOptL_isSome (errorReplyView t.name) t.errors (fun m hm => errorReplyView_isSome _ m (sub _ m hm)))
  obtain ⟨a6, e6⟩ := isSome_of_eq (concatOptL_isSome methodReplyView t.methods (fun m hm => methodReplyView_isSome m (sub _ m hm)))
  obtain ⟨a7, e7⟩ := isSome_of_eq (concatOptL_isSome (dummyView t.name) t.methods (fun m hm => dummyView_isSome _ m (sub _ m hm)))
  obtain ⟨a8, e8⟩ := isSome_of_eq (concatOptL_isSome (dispatchCaseView (pkgName t.name)) t.methods (fun m hm => dispatchCaseView_isSome _ m (sub _ m hm)))
  simp only [genFile, e0, e1, e2, e3, e4, e5, e6, e7, e8, Option.isSome_some]

/-- inversion of `genFile` -/
theorem genFile_inv {t : Idl} {f : GoFile} (hf : genFile t = some f) :
    ∃ body aliases errors clients ifaceMethods errorReplies methodReplies dummies cases,
      bodyText t = some body ∧ concatOptL (aliasView t) t.aliases = some aliases
      ∧ concatOptL errorView t.errors = some errors
      ∧ concatOptL (methodClientView t.name) t.methods = some clients
      ∧ concatOptL ifaceMethodView t.methods = some ifaceMethods
      ∧ concatOptL (errorReplyView t.name) t.errors = some errorReplies
      ∧ concatOptL methodReplyView t.methods = some methodReplies
      ∧ concatOptL (dummyView t.name) t.methods = some dummies
      ∧ concatOptL (dispatchCaseView (pkgName t.name)) t.methods = some cases
      ∧ f = assembleFile t aliases errors clients ifaceMethods errorReplies methodReplies dummies cases := by
  unfold genFile at hf
  split at hf
  · rename_i h0 h1 h2 h3 h4 h5 h6 h7 h8
    injection hf with hf
    exact ⟨_, _, _, _, _, _, _, _, _, h0, h1, h2, h3, h4, h5, h6, h7, h8, hf.symm⟩
  · exact absurd hf (by simp)

end Varlink.Gen
