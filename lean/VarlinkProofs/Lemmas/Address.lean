import Varlink.Address
namespace Varlink

theorem splitFirst_none_iff (c : UInt8) (s : Bytes) : splitFirst c s = none ↔ c ∉ s := by
  induction s with
  | nil => simp [splitFirst]
  | cons x xs ih =>
    unfold splitFirst
    by_cases hx : x = c
    · simp [hx]
    · cases h : splitFirst c xs with
      | none => simp [hx, ih.mp h]; exact fun e => hx e.symm
      | some ab =>
        have : ¬ (c ∉ xs) := fun hn => by rw [ih.mpr hn] at h; cases h
        simp at this
        simp [hx, this]

/-- `splitFirst` cuts at the first occurrence -/
theorem splitFirst_some {c : UInt8} {s a b : Bytes} (h : splitFirst c s = some (a, b)) :
    s = a ++ c :: b ∧ c ∉ a := by
  induction s generalizing a b with
  | nil => simp [splitFirst] at h
  | cons x xs ih =>
    unfold splitFirst at h
    by_cases hx : x = c
    · simp [hx] at h
      obtain ⟨rfl, rfl⟩ := h
      simp [hx]
    · simp only [hx, if_false] at h
      cases h' : splitFirst c xs with
      | none => rw [h'] at h; cases h
      | some ab =>
        obtain ⟨a', b'⟩ := ab
        rw [h'] at h
        simp at h
        obtain ⟨rfl, rfl⟩ := h
        have := ih h'
        refine ⟨by simp [this.1], ?_⟩
        simp [this.2]; exact fun e => hx e.symm

theorem splitFirst_append (c : UInt8) (a b : Bytes) (ha : c ∉ a) :
    splitFirst c (a ++ c :: b) = some (a, b) := by
  induction a with
  | nil => simp [splitFirst]
  | cons x xs ih =>
    have hx : x ≠ c := fun e => ha (by simp [e])
    have hxs : c ∉ xs := fun h => ha (by simp [h])
    simp [splitFirst, hx, ih hxs]

theorem takeWhile_ne_append (c : UInt8) (a b : Bytes) (ha : c ∉ a) :
    (a ++ c :: b).takeWhile (· ≠ c) = a := by
  rw [List.takeWhile_append_of_pos]
  · simp
  · intro x hx
    have : x ≠ c := fun e => ha (e ▸ hx)
    simpa using this

theorem takeWhile_ne_of_not_mem (c : UInt8) (a : Bytes) (ha : c ∉ a) :
    a.takeWhile (· ≠ c) = a := by
  have h := List.takeWhile_append_of_pos (p := fun x => decide (x ≠ c)) (l₁ := a) (l₂ := []) (by
    intro x hx
    have : x ≠ c := fun e => ha (e ▸ hx)
    simpa using this)
  simpa using h

/-- "everything from the first ';' on is ignored" -/
theorem stripParams_eq_takeWhile (r : Bytes) : stripParams r = r.takeWhile (· ≠ semi) := by
  unfold stripParams
  cases h : splitFirst semi r with
  | none =>
    have := (splitFirst_none_iff semi r).mp h
    exact (takeWhile_ne_of_not_mem semi r this).symm
  | some ab =>
    obtain ⟨a, b⟩ := ab
    obtain ⟨hs, ha⟩ := splitFirst_some h
    simp only [hs, takeWhile_ne_append semi a b ha]

theorem stripParams_no_semi (r : Bytes) : semi ∉ stripParams r := by
  unfold stripParams
  cases h : splitFirst semi r with
  | none => exact (splitFirst_none_iff semi r).mp h
  | some ab =>
    obtain ⟨a, b⟩ := ab
    exact (splitFirst_some h).2

end Varlink
