/-
  What the single critical sections of Bind / Listen / DoListen (fix a1069ea) give in EVERY reachable state,
  whatever the API use: a serving call in its accept loop serves a listener that is either closed already or is
  the one stored in the service while the service is running.  So a Shutdown (which closes the stored listener)
  always reaches the listener of every serving call, and the teardown of a serving call always leaves its own
  listener closed.  No discipline is assumed anywhere in this file.
-/
import VarlinkProofs.Lemmas.LifecycleProgress
namespace Varlink.Life

/-- program counters of the accept loop -/
def loopPc : Pc → Bool
  | .loopCheck | .refresh | .inAccept | .gotConn | .counted | .errTimeout | .errOther => true
  | _ => false

theorem loopish_of_loopPc {p : Pc} (h : loopPc p = true) : loopish p = true := by
  cases p <;> simp [loopPc] at h <;> simp [loopish]

/-- listener `l` is closed, or it is the listener stored in the service and the service is running
    (then the next Shutdown or teardown closes it) -/
def Served (w : World) (l : Nat) : Prop := Closed w l ∨ (w.lst = some l ∧ w.running = true)

theorem closed_rel {w w' : World} {a : Label} (h : Rel w a w') {l : Nat} (hc : Closed w l) : Closed w' l := by
  obtain ⟨x, hx, ho⟩ := hc
  obtain ⟨x', hx', _, hopen, _⟩ := lsnr_mono h hx
  refine ⟨x', hx', ?_⟩
  cases hh : x'.isOpen with
  | false => rfl
  | true => rw [hopen hh] at ho; cases ho

theorem closed_teardown {w : World} (hv : Valid w) {l : Nat} (hl : w.lst = some l) : Closed (teardownShared w) l := by
  have hlt := hv.lst l hl
  refine closed_of_isOpen_false (by simpa using hlt) ?_
  simp only [teardownShared, hl, isOpen, closeL]
  rw [List.getElem?_modify]
  simp [hlt]

theorem closed_shutdown {w : World} (hv : Valid w) {l : Nat} (hl : w.lst = some l) : Closed (stepShutdown w) l := by
  have hlt := hv.lst l hl
  refine closed_of_isOpen_false (by simpa using hlt) ?_
  simp only [stepShutdown, hl, isOpen, closeL]
  rw [List.getElem?_modify]
  simp [hlt]

/-- `Served` is stable under EVERY step: the stored listener of a running service is replaced by nobody (a bind is
    refused while running — the check and the store are one critical section) and `running` is cleared only by
    Shutdown and teardown, which close the stored listener in the same critical section -/
theorem served_rel {w w' : World} {a : Label} (h : Rel w a w') (hv : Valid w) {l : Nat} (hs : Served w l) :
    Served w' l := by
  rcases hs with hc | ⟨hl, hr⟩
  · exact Or.inl (closed_rel h hc)
  · cases h
    case bindOk k c a hk hpc hr' ha hu hkd => rw [hr] at hr'; cases hr'
    case listenOk k c a hk hpc hr' ha hu hkd => rw [hr] at hr'; cases hr'
    case teardown k c hk hpc => exact Or.inl (closed_teardown hv hl)
    case shutdown => exact Or.inl (closed_shutdown hv hl)
    all_goals exact Or.inr ⟨by first | exact hl | simpa using hl, by first | exact hr | rfl⟩

/-- facts about one API call that hold in every reachable state -/
structure SrvC (w : World) (c : Call) : Prop where
  /-- a call that has not executed its first step has no listener and no return value -/
  fresh : (c.pc = .bindCheck ∨ c.pc = .readLst) → c.l = none ∧ c.ret = none
  /-- in the accept loop: the call's listener is closed, or it is the stored one and the service is running -/
  loop : loopPc c.pc = true → ∃ l, c.l = some l ∧ Served w l
  tear : c.pc = .teardown → ∀ l, c.l = some l → Served w l
  /-- after its teardown a serving call's listener is closed (a successful stand-alone Bind leaves its listener open) -/
  after : (c.pc = .waiting ∨ c.pc = .returned) → c.ret ≠ some .nil ∨ c.kind ≠ .bind → ∀ l, c.l = some l → Closed w l
  retNone : c.ret.isSome = true → c.pc = .teardown ∨ c.pc = .waiting ∨ c.pc = .returned
  tmoL : c.ret = some .timeout → c.l.isSome = true

def Srv (w : World) : Prop := ∀ (k : Nat) (c : Call), w.calls[k]? = some c → SrvC w c

theorem SrvC.ret_none {w : World} {c : Call} (h : SrvC w c) (hp : loopPc c.pc = true) : c.ret = none := by
  cases hr : c.ret with
  | none => rfl
  | some r =>
    have := h.retNone (by simp [hr])
    cases hpc : c.pc <;> simp [hpc, loopPc] at hp this

theorem SrvC.frame {w w' : World} {c : Call} (h : SrvC w c) (hs : ∀ l, Served w l → Served w' l)
    (hm : ∀ l, Closed w l → Closed w' l) : SrvC w' c := by
  constructor
  · exact h.fresh
  · intro hp; obtain ⟨l, hl, hsv⟩ := h.loop hp; exact ⟨l, hl, hs l hsv⟩
  · intro hp l hl; exact hs l (h.tear hp l hl)
  · intro hp hb l hl; exact hm l (h.after hp hb l hl)
  · exact h.retNone
  · exact h.tmoL

theorem SrvC.control {w : World} {c c' : Call} (h : SrvC w c) (hs : sameControl c c') : SrvC w c' := by
  obtain ⟨e1, e2, e3, e4, _, _, _, _⟩ := hs
  constructor
  · rw [e1, e2, e3]; exact h.fresh
  · rw [e1, e2]; exact h.loop
  · rw [e1, e2]; exact h.tear
  · rw [e1, e2, e3, e4]; exact h.after
  · rw [e1, e3]; exact h.retNone
  · rw [e2, e3]; exact h.tmoL

/-- the call is (still) in its accept loop -/
theorem SrvC.inLoop {w : World} {c : Call} {l : Nat} (hp : loopPc c.pc = true) (hl : c.l = some l)
    (hs : Served w l) (hr : c.ret = none) : SrvC w c := by
  constructor
  · intro h; rcases h with e | e <;> rw [e] at hp <;> simp [loopPc] at hp
  · intro _; exact ⟨l, hl, hs⟩
  · intro e; rw [e] at hp; simp [loopPc] at hp
  · intro h; rcases h with e | e <;> rw [e] at hp <;> simp [loopPc] at hp
  · intro h; rw [hr] at h; cases h
  · intro h; rw [hr] at h; cases h

/-- the call has left its loop (or DoListen found no listener) and is about to run its teardown -/
theorem SrvC.atTeardown {w : World} {c : Call} (hp : c.pc = .teardown) (hs : ∀ l, c.l = some l → Served w l)
    (ht : c.ret = some .timeout → c.l.isSome = true) : SrvC w c := by
  constructor
  · intro h; rcases h with e | e <;> rw [e] at hp <;> cases hp
  · intro h; rw [hp] at h; simp [loopPc] at h
  · intro _; exact hs
  · intro h; rcases h with e | e <;> rw [e] at hp <;> cases hp
  · intro _; exact Or.inl hp
  · exact ht

/-- the call waits for its handlers or has returned -/
theorem SrvC.finished {w : World} {c : Call} (hp : c.pc = .waiting ∨ c.pc = .returned)
    (hs : c.ret ≠ some .nil ∨ c.kind ≠ .bind → ∀ l, c.l = some l → Closed w l)
    (ht : c.ret = some .timeout → c.l.isSome = true) : SrvC w c := by
  constructor
  · intro h; rcases h with e | e <;> rcases hp with e' | e' <;> rw [e] at e' <;> cases e'
  · intro h; rcases hp with e | e <;> rw [e] at h <;> simp [loopPc] at h
  · intro h; rcases hp with e | e <;> rw [e] at h <;> cases h
  · intro _; exact hs
  · intro _; exact Or.inr hp
  · exact ht

/-- call `k` updates itself; every other call's facts are carried by the frame -/
theorem Srv.setCall {w w' : World} (h : Srv w) {k : Nat} {c c' : Call} (hk : w.calls[k]? = some c)
    (hcalls : w'.calls = w.calls.set k c') (hs : ∀ l, Served w l → Served w' l)
    (hm : ∀ l, Closed w l → Closed w' l) (hown : SrvC w' c') : Srv w' := by
  intro j cj hj
  rw [hcalls, List.getElem?_set] at hj
  by_cases hkj : k = j
  · subst hkj
    simp only [lt_of_getElem? hk, if_true, Option.some.injEq] at hj
    subst hj; exact hown
  · simp only [hkj, if_false] at hj
    exact (h j cj hj).frame hs hm

theorem Srv.sameCalls {w w' : World} (h : Srv w) (hc : w'.calls = w.calls) (hs : ∀ l, Served w l → Served w' l)
    (hm : ∀ l, Closed w l → Closed w' l) : Srv w' := by
  intro j cj hj
  rw [hc] at hj
  exact (h j cj hj).frame hs hm

theorem srv_step {w w' : World} {a : Label} (h : Srv w) (hv : Valid w) (hrel : Rel w a w') : Srv w' := by
  have hs : ∀ l, Served w l → Served w' l := fun l => served_rel hrel hv
  have hm : ∀ l, Closed w l → Closed w' l := fun l => closed_rel hrel
  cases hrel
  case spawn kind tmo addr =>
    intro j cj hj
    simp only [] at hj
    rw [List.getElem?_append] at hj
    split at hj
    · exact (h j cj hj).frame hs hm
    · cases hh : j - w.calls.length with
      | zero =>
        simp only [hh, List.getElem?_cons_zero, Option.some.injEq] at hj; subst hj
        constructor
        · intro _; exact ⟨rfl, rfl⟩
        · intro hp; cases kind <;> simp [firstPc, loopPc] at hp
        · intro hp; cases kind <;> simp [firstPc] at hp
        · intro hp; rcases hp with hp | hp <;> cases kind <;> simp [firstPc] at hp
        · intro hp; simp at hp
        · intro hp; simp at hp
      | succ n => simp [hh] at hj
  case bindRefused k c hk hpc hr =>
    have hf := (h k c hk).fresh (Or.inl hpc)
    exact h.setCall hk rfl hs hm
      (.finished (Or.inr rfl) (fun _ l hl => by simp only [hf.1] at hl; cases hl) (fun ht => by simp at ht))
  case bindParseBad k c hk hpc hr ha =>
    have hf := (h k c hk).fresh (Or.inl hpc)
    exact h.setCall hk rfl hs hm
      (.finished (Or.inr rfl) (fun _ l hl => by simp only [hf.1] at hl; cases hl) (fun ht => by simp at ht))
  case bindBusy k c a hk hpc hr ha hu =>
    have hf := (h k c hk).fresh (Or.inl hpc)
    exact h.setCall hk rfl hs hm
      (.finished (Or.inr rfl) (fun _ l hl => by simp only [hf.1] at hl; cases hl) (fun ht => by simp at ht))
  case bindOk k c a hk hpc hr ha hu hkd =>
    exact h.setCall hk rfl hs hm
      (.finished (Or.inr rfl) (fun hb => by rcases hb with hb | hb <;> simp [hkd] at hb) (fun ht => by simp at ht))
  case listenOk k c a hk hpc hr ha hu hkd =>
    have hf := (h k c hk).fresh (Or.inl hpc)
    exact h.setCall hk rfl hs hm
      (.inLoop (l := w.lsnrs.length) (by simp [loopPc]) rfl (Or.inr ⟨rfl, rfl⟩) hf.2)
  case readNone k c hk hpc hl =>
    have hf := (h k c hk).fresh (Or.inr hpc)
    exact h.setCall hk rfl hs hm
      (.atTeardown rfl (fun l hl' => by simp only [hf.1] at hl'; cases hl') (fun ht => by simp at ht))
  case readSome k c l hk hpc hl =>
    have hf := (h k c hk).fresh (Or.inr hpc)
    exact h.setCall hk rfl hs hm (.inLoop (l := l) (by simp [loopPc]) rfl (Or.inr ⟨hl, rfl⟩) hf.2)
  case loopGo k c hk hpc hr =>
    have hc := h k c hk
    obtain ⟨l, hl, hsv⟩ := hc.loop (by simp [hpc, loopPc])
    exact h.setCall hk rfl hs hm
      (.inLoop (l := l) (by cases c.tmo <;> simp [loopPc]) hl (hs l hsv) (hc.ret_none (by simp [hpc, loopPc])))
  case loopStop k c hk hpc hr =>
    have hc := h k c hk
    obtain ⟨l, hl, hsv⟩ := hc.loop (by simp [hpc, loopPc])
    exact h.setCall hk rfl hs hm
      (.atTeardown rfl (fun l' hl' => by simp only [hl, Option.some.injEq] at hl'; subst hl'; exact hs _ hsv)
        (fun ht => by simp at ht))
  case refreshNil k c hk hpc hl0 =>
    have hc := h k c hk
    obtain ⟨l, hl, hsv⟩ := hc.loop (by simp [hpc, loopPc])
    exact h.setCall hk rfl hs hm
      (.inLoop (l := l) (by simp [loopPc]) hl (hs l hsv) (hc.ret_none (by simp [hpc, loopPc])))
  case refreshOk k c f hk hpc hl0 ho =>
    have hc := h k c hk
    obtain ⟨l, hl, hsv⟩ := hc.loop (by simp [hpc, loopPc])
    exact h.setCall hk rfl hs hm
      (.inLoop (l := l) (by simp [loopPc]) hl (hs l hsv) (hc.ret_none (by simp [hpc, loopPc])))
  case refreshClosed k c f hk hpc hl0 ho =>
    have hc := h k c hk
    obtain ⟨l, hl, hsv⟩ := hc.loop (by simp [hpc, loopPc])
    exact h.setCall hk rfl hs hm
      (.atTeardown rfl (fun l' hl' => by simp only [hl, Option.some.injEq] at hl'; subst hl'; exact hs _ hsv)
        (fun ht => by simp at ht))
  case acceptNil k c hk hpc hl0 =>
    exact h.setCall hk rfl hs hm
      (.atTeardown rfl (fun l' hl' => by simp only [hl0] at hl'; cases hl') (fun ht => by simp at ht))
  case acceptConn k c l i hk hpc hl ho hf =>
    have hc := h k c hk
    obtain ⟨l', hl', hsv⟩ := hc.loop (by simp [hpc, loopPc])
    exact h.setCall hk rfl hs hm
      (.inLoop (l := l') (by simp [loopPc]) hl' (hs l' hsv) (hc.ret_none (by simp [hpc, loopPc])))
  case acceptClosed k c l hk hpc hl ho =>
    have hc := h k c hk
    obtain ⟨l', hl', hsv⟩ := hc.loop (by simp [hpc, loopPc])
    exact h.setCall hk rfl hs hm
      (.inLoop (l := l') (by simp [loopPc]) hl' (hs l' hsv) (hc.ret_none (by simp [hpc, loopPc])))
  case count k c hk hpc =>
    have hc := h k c hk
    obtain ⟨l', hl', hsv⟩ := hc.loop (by simp [hpc, loopPc])
    exact h.setCall hk rfl hs hm
      (.inLoop (l := l') (by simp [loopPc]) hl' (hs l' hsv) (hc.ret_none (by simp [hpc, loopPc])))
  case startHandler k c hk hpc =>
    have hc := h k c hk
    obtain ⟨l', hl', hsv⟩ := hc.loop (by simp [hpc, loopPc])
    exact h.setCall hk rfl hs hm
      (.inLoop (l := l') (by simp [loopPc]) hl' (hs l' hsv) (hc.ret_none (by simp [hpc, loopPc])))
  case timeoutIdle k c hk hpc h0 =>
    have hc := h k c hk
    obtain ⟨l, hl, hsv⟩ := hc.loop (by simp [hpc, loopPc])
    exact h.setCall hk rfl hs hm
      (.atTeardown rfl (fun l' hl' => by simp only [hl, Option.some.injEq] at hl'; subst hl'; exact hs _ hsv)
        (fun _ => by simp [hl]))
  case timeoutBusy k c hk hpc h0 =>
    have hc := h k c hk
    obtain ⟨l', hl', hsv⟩ := hc.loop (by simp [hpc, loopPc])
    exact h.setCall hk rfl hs hm
      (.inLoop (l := l') (by simp [loopPc]) hl' (hs l' hsv) (hc.ret_none (by simp [hpc, loopPc])))
  case errRunning k c hk hpc hr =>
    have hc := h k c hk
    obtain ⟨l, hl, hsv⟩ := hc.loop (by simp [hpc, loopPc])
    exact h.setCall hk rfl hs hm
      (.atTeardown rfl (fun l' hl' => by simp only [hl, Option.some.injEq] at hl'; subst hl'; exact hs _ hsv)
        (fun ht => by simp at ht))
  case errStopped k c hk hpc hr =>
    have hc := h k c hk
    obtain ⟨l, hl, hsv⟩ := hc.loop (by simp [hpc, loopPc])
    exact h.setCall hk rfl hs hm
      (.atTeardown rfl (fun l' hl' => by simp only [hl, Option.some.injEq] at hl'; subst hl'; exact hs _ hsv)
        (fun ht => by simp at ht))
  case teardown k c hk hpc =>
    have hc := h k c hk
    refine h.setCall (c' := { c with pc := .waiting }) hk (by simp only [setCall_calls, teardownShared_calls]) hs hm
      (.finished (Or.inl rfl) (fun _ l hl => ?_) hc.tmoL)
    rcases hc.tear hpc l hl with hcl | ⟨hlst, _⟩
    · exact hm l hcl
    · exact closed_teardown hv hlst
  case waitDone k c hk hpc hwg =>
    have hc := h k c hk
    exact h.setCall hk rfl hs hm
      (.finished (Or.inr rfl) (fun hb l hl => hm l (hc.after (Or.inl hpc) hb l hl)) hc.tmoL)
  case expire k c l hk hpc hl ho harm =>
    have hc := h k c hk
    obtain ⟨l', hl', hsv⟩ := hc.loop (by simp [hpc, loopPc])
    exact h.setCall hk rfl hs hm
      (.inLoop (l := l') (by simp [loopPc]) hl' (hs l' hsv) (hc.ret_none (by simp [hpc, loopPc])))
  case wgDone i x co hi hp hco hwg =>
    have hsc : sameControl co { co with wg := co.wg - 1 } := ⟨rfl, rfl, rfl, rfl, rfl, rfl, rfl, rfl⟩
    exact h.setCall hco rfl hs hm (((h _ co hco).control hsc).frame hs hm)
  case ctxCancel k c hk =>
    have hsc : sameControl c { c with ctxDone := true } := ⟨rfl, rfl, rfl, rfl, rfl, rfl, rfl, rfl⟩
    exact h.setCall hk rfl hs hm (((h k c hk).control hsc).frame hs hm)
  case shutdown => exact h.sameCalls (stepShutdown_calls w) hs hm
  all_goals exact h.sameCalls rfl hs hm

theorem srv_init : Srv init := fun k c hk => by simp [init] at hk

/-- in every reachable state, whatever the discipline: accounting, valid listener indices and the serving facts -/
theorem reach_invs {P : World → Label → Prop} {w : World} (h : Reach P init w) : Inv w ∧ Valid w ∧ Srv w := by
  refine Reach.induct (fun w => Inv w ∧ Valid w ∧ Srv w) ⟨inv_init, valid_init, srv_init⟩ ?_ h
  intro w a w' _ ⟨hi, hv, hs⟩ _ hstep
  have hrel := rel_of_step hstep
  exact ⟨inv_step hi hstep, valid_step hrel hv, srv_step hs hv hrel⟩

theorem srv_reachable {w : World} (h : Reachable w) : Srv w := (reach_invs h).2.2

/-- **every serving call serves a listener that Shutdown reaches** (any reachable state, no discipline) -/
theorem loop_listener {w : World} (h : Reachable w) {k : Nat} {c : Call} (hk : w.calls[k]? = some c)
    (hp : loopPc c.pc = true) : ∃ l, c.l = some l ∧ (Closed w l ∨ (w.lst = some l ∧ w.running = true)) :=
  (srv_reachable h k c hk).loop hp

/-- … so after a Shutdown the listener of every serving call is closed -/
theorem loop_listener_closed_by_shutdown {w : World} (h : Reachable w) {k : Nat} {c : Call}
    (hk : w.calls[k]? = some c) (hp : loopPc c.pc = true) : ∃ l, c.l = some l ∧ Closed (stepShutdown w) l := by
  obtain ⟨l, hl, hsv⟩ := loop_listener h hk hp
  refine ⟨l, hl, ?_⟩
  rcases hsv with hc | ⟨hlst, _⟩
  · exact closed_step (a := .shutdown) rfl hc
  · exact closed_shutdown (valid_reachable h) hlst

end Varlink.Life
