/-
  `topLevelOk`, second part (used by VarlinkProofs/Props/C07.lean).
-/
import VarlinkProofs.Lemmas.GenTop
namespace Varlink.Gen
open Varlink Varlink.Idl

theorem nodup_append_of {l1 l2 : List Bytes} (h1 : l1.Nodup) (h2 : l2.Nodup) (hd : ∀ x ∈ l1, x ∉ l2) :
    (l1 ++ l2).Nodup :=
  List.nodup_append.mpr ⟨h1, h2, fun a ha b hb e => hd a ha (e ▸ hb)⟩

/-- the kinds of members exclude each other -/
theorem kinds_exclusive (m : Member) :
    ¬(m.isAlias = true ∧ m.isError = true) ∧ ¬(m.isAlias = true ∧ m.isMethod = true)
    ∧ ¬(m.isError = true ∧ m.isMethod = true) := by
  cases m <;> simp [Member.isAlias, Member.isError, Member.isMethod]

structure TopFacts (t : Idl) : Prop where
  shapes : ∀ m ∈ t.members, memberNameShape m.name = true
  unique : (t.members.map Member.name).Nodup
  reserved : ∀ m ∈ t.members, m.name ∉ reservedAny
  iface : ifaceNameShape t.name = true

theorem pkgIface_facts (n : Bytes) (h : ifaceNameShape n = true) :
    ∃ c r, pkgName n ++ str "Interface" = c :: r ∧ isLower c = true := by
  obtain ⟨c, r, e, hc, _⟩ := pkgName_shape n h
  exact ⟨c, r ++ str "Interface", by rw [e]; rfl, hc⟩


/-- the names contributed by members: every one has the member-name shape and is not reserved -/
theorem memberNames_facts (t : Idl) (h : TopFacts t) (p : Member → Bool) :
    ∀ x ∈ (t.members.filter p).map Member.name, memberNameShape x = true ∧ x ∉ reservedAny := by
  intro x hx
  obtain ⟨m, hm, rfl⟩ := List.mem_map.mp hx
  have := (List.mem_filter.mp hm).1
  exact ⟨h.shapes m this, h.reserved m this⟩

theorem head_ne_of_case (x y : Bytes) (hx : ∃ c r, x = c :: r ∧ isUpper c = true)
    (hy : ∃ c r, y = c :: r ∧ isLower c = true) : x ≠ y := by
  obtain ⟨c, r, rfl, hc⟩ := hx
  obtain ⟨c', r', rfl, hc'⟩ := hy
  intro e
  injection e with e1 _
  subst e1
  have := (upper_facts c hc).2.1
  rw [this] at hc'
  exact absurd hc' (by simp)

theorem importNames_eq (t : Idl) (f : GoFile) (hf : genFile t = some f) :
    f.importNames = [str "varlink", str "context"] ++ (if usesJson t then [str "json"] else [])
      ++ (if usesFmt t then [str "fmt"] else []) := by
  obtain ⟨_, _, _, _, _, _, _, _, _, _, _, _, _, _, _, _, _, _, rfl⟩ := genFile_inv hf
  have e1 : importName (unquote (str "\"github.com/varlink/go/varlink\"")) = str "varlink" := by decide
  have e2 : importName (unquote (str "\"context\"")) = str "context" := by decide
  have e3 : importName (unquote (str "\"encoding/json\"")) = str "json" := by decide
  have e4 : importName (unquote (str "\"fmt\"")) = str "fmt" := by decide
  simp only [GoFile.importNames, assembleFile, importList, List.map_append, List.map_cons, List.map_nil, e1, e2]
  cases usesJson t <;> cases usesFmt t <;> simp [e3, e4]

theorem importNames_lower (t : Idl) (f : GoFile) (hf : genFile t = some f) :
    ∀ x ∈ f.importNames, x ∈ [str "varlink", str "context", str "json", str "fmt"] := by
  rw [importNames_eq t f hf]
  intro x hx
  cases usesJson t <;> cases usesFmt t <;> simp at hx ⊢ <;> grind

/-- **topLevelOk**: the package-level names of the emitted file are valid identifiers, pairwise distinct and
    distinct from the imported package names, provided no member is named `VarlinkCall`, `VarlinkInterface`
    or `VarlinkNew` -/
theorem topLevelOk_genFile (t : Idl) (f : GoFile) (h : TopFacts t) (hf : genFile t = some f) :
    topLevelOk f = true := by
  have htn := topNames_genFile t f hf
  rw [flatten_aliasTop, flatten_errorTop] at htn
  simp only [Idl.aliases, Idl.errors, Idl.methods, List.filter_filter, Bool.and_self] at htn
  have hperm := methodTop_perm (t.members.filter Member.isMethod)
  simp only [List.filter_filter, Bool.and_self] at hperm
  -- the four groups
  have fA := memberNames_facts t h Member.isAlias
  have fE := memberNames_facts t h Member.isError
  have fM := memberNames_facts t h Member.isMethod
  have nA := nodup_filter_map Member.name Member.isAlias t.members h.unique
  have nE := nodup_filter_map Member.name Member.isError t.members h.unique
  have nM := nodup_filter_map Member.name Member.isMethod t.members h.unique
  have dAE := nodup_filters Member.name Member.isAlias Member.isError (fun m => (kinds_exclusive m).1) t.members h.unique
  have dAM := nodup_filters Member.name Member.isAlias Member.isMethod (fun m => (kinds_exclusive m).2.1) t.members h.unique
  have dEM := nodup_filters Member.name Member.isError Member.isMethod (fun m => (kinds_exclusive m).2.2) t.members h.unique
  obtain ⟨pc, pr, pe, pl⟩ := pkgIface_facts t.name h.iface
  generalize hA : (t.members.filter Member.isAlias).map Member.name = A at *
  generalize hE : (t.members.filter Member.isError).map Member.name = E at *
  generalize hMn : (t.members.filter Member.isMethod).map Member.name = Mn at *
  generalize hpI : pkgName t.name ++ str "Interface" = pI at *
  -- facts about `<M>_methods`
  have mmForm : ∀ x ∈ (t.members.filter Member.isMethod).map (fun m => m.name ++ str "_methods"),
      ∃ n ∈ Mn, x = n ++ str "_methods" := by
    intro x hx
    obtain ⟨m, hm, rfl⟩ := List.mem_map.mp hx
    exact ⟨m.name, hMn ▸ List.mem_map.mpr ⟨m, hm, rfl⟩, rfl⟩
  have nMm : ((t.members.filter Member.isMethod).map (fun m => m.name ++ str "_methods")).Nodup := by
    have : (t.members.filter Member.isMethod).map (fun m => m.name ++ str "_methods")
        = Mn.map (· ++ str "_methods") := by rw [← hMn, List.map_map]; rfl
    rw [this, ← distinct_iff_nodup]
    exact distinct_suffixed _ _ ((distinct_iff_nodup _).mpr nM)
  generalize hMm : (t.members.filter Member.isMethod).map (fun m => m.name ++ str "_methods") = Mm at *
  have under : ∀ x, (∃ n, x = n ++ str "_methods") → hasUnderscore x = true := by
    intro x ⟨n, e⟩; subst e
    have : underscore ∈ str "_methods" := by decide
    simp [hasUnderscore, this]
  have memberNoUnder : ∀ x, memberNameShape x = true → hasUnderscore x = false :=
    fun x hx => (member_shape_facts x hx).1
  -- validity
  have v1 : ∀ x ∈ f.topNames, validName x = true := by
    intro x hx
    rw [htn] at hx
    simp only [List.mem_append, List.mem_cons, List.mem_singleton, List.not_mem_nil, or_false] at hx
    rcases hx with (((hx | hx) | hx) | hx) | hx
    · exact validName_member x (fA x hx).1
    · exact validName_member x (fE x hx).1
    · subst hx; decide
    · rcases List.mem_append.mp (hperm.mem_iff.mp hx) with hx | hx
      · obtain ⟨n, hn, rfl⟩ := mmForm x hx
        exact validName_methodsType n (fM n hn).1
      · exact validName_member x (fM x hx).1
    · rcases hx with hx | hx | hx | hx
      · subst hx; rw [← hpI]; exact validName_ifaceName t.name h.iface
      · subst hx; decide
      · subst hx; decide
      · subst hx; decide
  -- group tags: names of different groups differ
  let tag : Bytes → Nat := fun x =>
    if headLower x then 5
    else if reservedAny.contains x then 4
    else if hasUnderscore x then (if endsWith (str "_methods") x then 2 else 3)
    else 1
  have tagMember : ∀ x, memberNameShape x = true → x ∉ reservedAny → tag x = 1 := by
    intro x hx hr
    obtain ⟨hu, c, r, rfl, hc⟩ := member_shape_facts x hx
    have hl : headLower (c :: r) = false := by simpa [headLower] using (upper_facts c hc).2.1
    have hr' : reservedAny.contains (c :: r) = false := by simpa using hr
    simp [tag, hr, hu, hl]
  have tagMm : ∀ x ∈ Mm, tag x = 2 := by
    intro x hx
    obtain ⟨n, hn, rfl⟩ := mmForm x hx
    have hr' : reservedAny.contains (n ++ str "_methods") = false := by
      rw [← Bool.not_eq_true]; intro hc
      have : hasUnderscore (n ++ str "_methods") = true := under _ ⟨n, rfl⟩
      have hall : ∀ y ∈ reservedAny, hasUnderscore y = false := by decide
      rw [hall _ (List.contains_iff_mem.mp hc)] at this
      exact absurd this (by simp)
    have hr'' : n ++ str "_methods" ∉ reservedAny := by simpa using hr'
    have hl : headLower (n ++ str "_methods") = false := by
      obtain ⟨_, c, r, e, hc⟩ := member_shape_facts n (fM n hn).1
      subst e
      simpa [headLower] using (upper_facts c hc).2.1
    simp [tag, hl, hr'', under _ ⟨n, rfl⟩, endsWith_append]
  have tagDE : tag (str "Dispatch_Error") = 3 := by decide
  have tagV : ∀ x ∈ [str "VarlinkCall", str "VarlinkInterface", str "VarlinkNew"], tag x = 4 := by decide
  have tagPI : tag pI = 5 := by
    have hl : headLower pI = true := by rw [pe]; simpa [headLower] using pl
    simp [tag, hl]
  have tagA : ∀ x ∈ A, tag x = 1 := fun x hx => tagMember x (fA x hx).1 (fA x hx).2
  have tagE : ∀ x ∈ E, tag x = 1 := fun x hx => tagMember x (fE x hx).1 (fE x hx).2
  have tagMn : ∀ x ∈ Mn, tag x = 1 := fun x hx => tagMember x (fM x hx).1 (fM x hx).2
  have ne_of_tag : ∀ {x y : Bytes} {a b : Nat}, tag x = a → tag y = b → a ≠ b → x ≠ y := by
    intro x y a b hx hy hab e; subst e; exact hab (hx ▸ hy)
  -- distinctness
  have v2 : f.topNames.Nodup := by
    rw [htn]
    have p := List.Perm.append_right [pI, str "VarlinkCall", str "VarlinkInterface", str "VarlinkNew"]
      (List.Perm.append_left (A ++ E ++ [str "Dispatch_Error"]) hperm)
    rw [p.nodup_iff]
    have n1 : (A ++ E).Nodup := nodup_append_of nA nE dAE
    have n2 : (A ++ E ++ [str "Dispatch_Error"]).Nodup := by
      refine nodup_append_of n1 (by simp) ?_
      intro x hx hx2
      simp only [List.mem_singleton] at hx2
      rcases List.mem_append.mp hx with hx | hx
      · exact ne_of_tag (tagA x hx) tagDE (by decide) hx2
      · exact ne_of_tag (tagE x hx) tagDE (by decide) hx2
    have n3 : (Mm ++ Mn).Nodup := by
      refine nodup_append_of nMm nM ?_
      intro x hx hx2
      exact ne_of_tag (tagMm x hx) (tagMn x hx2) (by decide) rfl
    have n4 : (A ++ E ++ [str "Dispatch_Error"] ++ (Mm ++ Mn)).Nodup := by
      refine nodup_append_of n2 n3 ?_
      intro x hx hx2
      have t1 : tag x = 1 ∨ tag x = 3 ∨ x ∈ A ∨ x ∈ E := by
        rcases List.mem_append.mp hx with hx | hx
        · rcases List.mem_append.mp hx with hx | hx
          · exact Or.inr (Or.inr (Or.inl hx))
          · exact Or.inr (Or.inr (Or.inr hx))
        · simp only [List.mem_singleton] at hx; subst hx; exact Or.inr (Or.inl tagDE)
      rcases List.mem_append.mp hx2 with hm | hm
      · -- x ∈ Mm: tag 2
        rcases List.mem_append.mp hx with hx | hx
        · rcases List.mem_append.mp hx with hx | hx
          · exact ne_of_tag (tagA x hx) (tagMm x hm) (by decide) rfl
          · exact ne_of_tag (tagE x hx) (tagMm x hm) (by decide) rfl
        · simp only [List.mem_singleton] at hx; subst hx
          exact ne_of_tag tagDE (tagMm _ hm) (by decide) rfl
      · rcases List.mem_append.mp hx with hx | hx
        · rcases List.mem_append.mp hx with hx | hx
          · exact dAM x hx hm
          · exact dEM x hx hm
        · simp only [List.mem_singleton] at hx; subst hx
          exact ne_of_tag tagDE (tagMn _ hm) (by decide) rfl
    have n5 : [pI, str "VarlinkCall", str "VarlinkInterface", str "VarlinkNew"].Nodup := by
      have hv : [str "VarlinkCall", str "VarlinkInterface", str "VarlinkNew"].Nodup := by decide
      refine List.nodup_cons.mpr ⟨?_, hv⟩
      intro hm
      exact ne_of_tag tagPI (tagV _ hm) (by decide) rfl
    refine nodup_append_of n4 n5 ?_
    intro x hx hx2
    have tx : tag x = 1 ∨ tag x = 2 ∨ tag x = 3 := by
      rcases List.mem_append.mp hx with hx | hx
      · rcases List.mem_append.mp hx with hx | hx
        · rcases List.mem_append.mp hx with hx | hx
          · exact Or.inl (tagA x hx)
          · exact Or.inl (tagE x hx)
        · simp only [List.mem_singleton] at hx; subst hx; exact Or.inr (Or.inr tagDE)
      · rcases List.mem_append.mp hx with hx | hx
        · exact Or.inr (Or.inl (tagMm x hx))
        · exact Or.inl (tagMn x hx)
    have ty : tag x = 5 ∨ tag x = 4 := by
      rcases List.mem_cons.mp hx2 with e | e
      · subst e; exact Or.inl tagPI
      · exact Or.inr (tagV x e)
    rcases tx with a | a | a <;> rcases ty with b | b <;> rw [a] at b <;> exact absurd b (by decide)
  -- import names are lower-case words
  have v3 : ∀ x ∈ f.topNames, x ∉ f.importNames := by
    intro x hx hi
    have hlow := importNames_lower t f hf x hi
    have hall : ∀ y ∈ [str "varlink", str "context", str "json", str "fmt"], hasUpper y = false := by decide
    have hxl := hall x hlow
    have hv := v1 x hx
    rw [htn] at hx
    have hup : hasUpper x = true := by
      have upOfHead : ∀ y : Bytes, (∃ c r, y = c :: r ∧ isUpper c = true) → hasUpper y = true := by
        intro y ⟨c, r, e, hc⟩; subst e; simp [hasUpper, hc]
      simp only [List.mem_append, List.mem_cons, List.mem_singleton, List.not_mem_nil, or_false] at hx
      rcases hx with (((hx | hx) | hx) | hx) | hx
      · exact upOfHead x (member_shape_facts x (fA x hx).1).2
      · exact upOfHead x (member_shape_facts x (fE x hx).1).2
      · subst hx; decide
      · rcases List.mem_append.mp (hperm.mem_iff.mp hx) with hx | hx
        · obtain ⟨n, hn, rfl⟩ := mmForm x hx
          obtain ⟨_, c, r, e, hc⟩ := member_shape_facts n (fM n hn).1
          subst e
          simp [hasUpper, hc]
        · exact upOfHead x (member_shape_facts x (fM x hx).1).2
      · rcases hx with hx | hx | hx | hx
        · subst hx; rw [← hpI]
          have : isUpper 73 = true := by decide
          simp only [hasUpper, List.any_append, Bool.or_eq_true]
          exact Or.inr (by decide)
        · subst hx; decide
        · subst hx; decide
        · subst hx; decide
    rw [hup] at hxl
    exact absurd hxl (by simp)
  simp only [topLevelOk, Bool.and_eq_true, List.all_eq_true, distinct_iff_nodup]
  refine ⟨⟨v1, v2⟩, ?_⟩
  intro x hx
  simpa using v3 x hx


end Varlink.Gen
